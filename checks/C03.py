"""C03 — calling the origin placeholder runs the unmodified original function.

Pure layer: goom's `fixRelativeAddr` / `fixOriginFuncToTrampoline` are run by an in-package probe on every function of
the probe's own test binary x several placeholder positions and on a generated zoo of byte-exact prologue shapes; the
probe prints the instruction list exactly as goom's decoder produced it, the Lean model `Model/Reloc.lean` (which calls
the `EncodeAddress`/`DecodeAddress`/`opExpand` definitions regenerated from addr.go on every run) recomputes the output
from the same list and the streams are compared.  The theorems of Props/C03.lean are about that model.  Independently
of the model the probe re-decodes the original prefix and the copy with the toolchain's reference decoder and states the
property itself (same operations/operands, absolute targets kept, inner targets mapped, n >= 13, no branch into (0,n)).
Executed layer: real functions mocked through the public API with an origin placeholder, called at many stack depths.
"""
import os
import struct

from vlib import common as C

META = {
    'property_id': 'C03',
    'technique': 'Lean 4 theorems (induction over arbitrary instruction lists) about a transcription of fixBlock/fixIns/checkJumpBetween/fixOriginFuncToTrampoline built on the EncodeAddress/DecodeAddress/opExpand and jump emitters regenerated from the Go source; differential run of the model against the real relocation code on every function of a test binary and a generated zoo; executed layer through the public API',
    'level': 'proof',
    'level_text': 'Proof of the relocation arithmetic (theorem C03.reloc_faithful and companions): for every instruction list meeting the stated decoder contract, every origin/placeholder pair less than 2^31-2^21 apart whose PC-relative targets stay encodable, and copied length n <= 2^18, a successful relocation copies whole instructions covering >= 13 bytes, keeps every byte that is not the PC-relative field (opcode modulo the proved short->near map, ModRM, trailing immediates), keeps every absolute target outside the copied prefix, maps the branch-to-entry to the copy, ends in a jump that lands on origin+n, and no instruction of the function branches into (0,n); a failure writes nothing. PARTIAL for stack growth: the no-re-entry clause is proved only under the explicit hypothesis that no instruction outside the copied prefix branches to the entry (false for every Go function with a stack check: known finding F4), and the jump back lands on origin+n in both its forms (5-byte relative, 14-byte JMP [RIP+0] since fix 36abd0c; jump_back_lands has no distance hypothesis, fixOrigin_returns_to_origin composes it with fixOrigin). Recorded defects kept visible as known findings: F28 `00 00` dropped (contract clause WF.opnz), F29 failed re-mock removes the earlier mock, F30 generic functions.',
    'level_note': 'Trusted: Lean kernel (propext, Classical.choice, Quot.sound), tools/gen translator for addr.go/monkey_amd64.go (cross-checked on every evaluation), the hand transcription Model/Reloc.lean (tied to the code by differential execution on the instruction lists goom\'s own decoder produces: all functions of the probe binary x 4-8 placeholder positions + zoo), the decoder contract (property C16; additionally assumed: no instruction whose Opcode field is 0, i.e. the byte pair 00 00, inside the copied prefix — goom skips it), X86Mini semantics of JMP rel32. Not modelled: runtime.morestack / stack copying, unwinding through the placeholder, CreateFuncForCodePtr (executed layer only).',
}

GEN = ['Addr', 'JmpAmd64']
PROBE = ('c03-patch', 'internal/patch', {'zz_verif_c03_test.go': 'c03/reloc_probe_test.go'})
REACH = (1 << 31) - (1 << 27)      # |from-tramp| below this: every target of a < 128 MiB image stays encodable


# ------------------------------------------------------------------ zoo of byte-exact shapes

def le32(v):
    return struct.pack('<i', v)


def le8(v):
    return struct.pack('<b', v)


CMPSP = bytes.fromhex('493b6610')          # CMPQ SP, 16(R14)
PUSHBP = bytes.fromhex('55')
MOVBP = bytes.fromhex('4889e5')
SUBSP = bytes.fromhex('4883ec18')
ADDSP = bytes.fromhex('4883c418')
POPBP = bytes.fromhex('5d')
RET = bytes.fromhex('c3')
NOP = bytes.fromhex('90')
INT3 = bytes.fromhex('cc')


class Asm:
    """Tiny two-pass assembler for the zoo: items are bytes or ('rel8'|'rel32', opcode bytes, label) or ('rip', pre, disp, tail) or ('label', name)."""

    def __init__(self):
        self.items = []

    def raw(self, b):
        self.items.append(('raw', bytes(b)))
        return self

    def label(self, name):
        self.items.append(('label', name))
        return self

    def br(self, opc, label, width):
        self.items.append(('br', bytes(opc), label, width))
        return self

    def brabs(self, opc, disp, width):
        """branch with an explicit displacement (targets outside the function)"""
        self.items.append(('raw', bytes(opc) + (le8(disp) if width == 1 else le32(disp))))
        return self

    def rip(self, pre, disp, tail=b''):
        self.items.append(('raw', bytes(pre) + le32(disp) + bytes(tail)))
        return self

    def build(self):
        pos, labels = 0, {}
        for it in self.items:
            if it[0] == 'label':
                labels[it[1]] = pos
            elif it[0] == 'raw':
                pos += len(it[1])
            else:
                pos += len(it[1]) + it[3]
        out = b''
        for it in self.items:
            if it[0] == 'raw':
                out += it[1]
            elif it[0] == 'br':
                end = len(out) + len(it[1]) + it[3]
                d = labels[it[2]] - end
                if it[3] == 1 and not -128 <= d <= 127:
                    raise ValueError('rel8 out of range')
                out += it[1] + (le8(d) if it[3] == 1 else le32(d))
        return out


def stock(first_branch, body=b'', extra_tail=b''):
    """CMP SP,16(R14); <first_branch to the morestack stub>; PUSH BP; MOV BP,SP; SUB; body; ADD; POP; RET; stub: CALL morestack; JMP entry"""
    a = Asm().label('entry').raw(CMPSP)
    first_branch(a)
    a.raw(PUSHBP).raw(MOVBP).raw(SUBSP).raw(body).raw(ADDSP).raw(POPBP).raw(RET)
    a.label('stub').raw(bytes.fromhex('90')).brabs(b'\xe8', -0x3000, 4).br(b'\xeb', 'entry', 1).raw(extra_tail)
    return a.build()


def zoo_shapes():
    z = []
    body = bytes.fromhex('48c7c001000000') + bytes.fromhex('4889442408')
    for cc in range(16):
        z.append((f'jcc8-{cc:x}', stock(lambda a, cc=cc: a.br(bytes([0x70 + cc]), 'stub', 1), body)))
        z.append((f'jcc32-{cc:x}', stock(lambda a, cc=cc: a.br(bytes([0x0f, 0x80 + cc]), 'stub', 4), body)))
        z.append((f'jcc8-out-{cc:x}', stock(lambda a, cc=cc: a.brabs(bytes([0x70 + cc]), 0x60, 1), body)))
    for opc, nm in ((0xe3, 'jrcxz'), (0xe2, 'loop'), (0xe1, 'loope'), (0xe0, 'loopne'), (0xeb, 'jmp8')):
        z.append((nm, stock(lambda a, opc=opc: a.br(bytes([opc]), 'stub', 1), body)))
        z.append((nm + '-out-back', stock(lambda a, opc=opc: a.brabs(bytes([opc]), -0x40, 1), body)))
    z.append(('hint-jcc8', stock(lambda a: a.br(bytes([0x2e, 0x76]), 'stub', 1), body)))
    # F3 shape: widened JBE, then CALL / JMP / RIP-relative inside the copied prefix
    z.append(('f3-call', stock(lambda a: a.br(b'\x76', 'stub', 1), b'', b'')[:6] + PUSHBP + MOVBP + b'\xe8' + le32(0x1234) + POPBP + RET +
              bytes.fromhex('90e8fbcfffffebe6')))
    a = Asm().label('entry').raw(CMPSP).br(b'\x76', 'stub', 1).raw(PUSHBP).raw(MOVBP).brabs(b'\xe8', 0x7777, 4).raw(POPBP).raw(RET)
    a.label('stub').brabs(b'\xe8', -0x5000, 4).br(b'\xeb', 'entry', 1)
    z.append(('f3-call2', a.build()))
    a = Asm().label('entry').raw(CMPSP).br(b'\x76', 'stub', 1).raw(PUSHBP).brabs(b'\xe9', -0x7777, 4).raw(NOP * 8).raw(RET)
    a.label('stub').brabs(b'\xe8', -0x5000, 4).br(b'\xeb', 'entry', 1)
    z.append(('f3-jmp', a.build()))
    a = Asm().label('entry').raw(CMPSP).br(b'\x76', 'stub', 1).rip(bytes.fromhex('488b05'), 0x2000).raw(PUSHBP).raw(NOP * 8).raw(RET)
    a.label('stub').brabs(b'\xe8', -0x5000, 4).br(b'\xeb', 'entry', 1)
    z.append(('f3-riprel', a.build()))
    a = Asm().label('entry').raw(CMPSP).br(b'\x76', 'stub', 1).br(b'\x74', 'stub', 1).br(b'\x7f', 'stub', 1).brabs(b'\xe8', 0x100, 4).raw(NOP * 4).raw(RET)
    a.label('stub').brabs(b'\xe8', -0x5000, 4).br(b'\xeb', 'entry', 1)
    z.append(('f3-triple-widen', a.build()))
    # F2 shapes: RIP-relative operand followed by immediates (0/1/4 trailing bytes), positive and negative displacement
    rips = [('mov-load', '488b05', b''), ('lea', '488d05', b''), ('cmpb-imm8', '803d', b'\x00'), ('cmpq-imm8', '48833d', b'\x07'),
            ('cmpq-imm32', '48813d', le32(0x12345678)), ('movl-imm32', 'c705', le32(1)), ('movq-imm32', '48c705', le32(-1)),
            ('movb-imm8', 'c605', b'\x01'), ('cmpl-imm32', '813d', le32(1000)), ('test-imm8', 'f605', b'\x80'), ('movw-imm16', '66c705', b'\x34\x12')]
    for nm, pre, tail in rips:
        for sign, disp in (('p', 0x5c8e79), ('n', -0x2e79)):
            a = Asm().rip(bytes.fromhex(pre), disp, tail).raw(bytes.fromhex('7505')).raw(bytes.fromhex('b801000000')).raw(RET).raw(bytes.fromhex('31c0')).raw(RET).raw(INT3 * 3)
            z.append((f'rip-{nm}-{sign}', a.build()))
            a = Asm().raw(PUSHBP).raw(MOVBP).rip(bytes.fromhex(pre), disp, tail).rip(bytes.fromhex(pre), disp + 64, tail).raw(POPBP).raw(RET).raw(INT3 * 2)
            z.append((f'rip2-{nm}-{sign}', a.build()))
    # branch back to the function's own entry from inside the prefix, alone and after a widened branch
    z.append(('back-to-entry', bytes.fromhex('48ffc8') + bytes.fromhex('75fb') + NOP * 10 + RET + INT3))
    a = Asm().label('entry').raw(CMPSP).br(b'\x76', 'stub', 1).br(b'\xeb', 'entry', 1).raw(NOP * 6).raw(RET).label('stub').brabs(b'\xe8', -0x5000, 4).br(b'\xeb', 'entry', 1)
    z.append(('back-to-entry-after-widen', a.build()))
    a = Asm().label('entry').raw(CMPSP).br(b'\x76', 'stub', 1).br(b'\xe9', 'entry', 4).raw(NOP * 6).raw(RET).label('stub').brabs(b'\xe8', -0x5000, 4).br(b'\xeb', 'entry', 1)
    z.append(('back-to-entry32-after-widen', a.build()))
    # branch of the rest of the function into the first 13 bytes; inner forward branch inside the prefix
    a = Asm().raw(PUSHBP).label('in').raw(MOVBP).raw(SUBSP).raw(NOP * 8).br(b'\xeb', 'in', 1).raw(RET)
    z.append(('into-prefix-back', a.build()))
    a = Asm().raw(PUSHBP).br(b'\x74', 'in', 1).raw(MOVBP).label('in').raw(SUBSP).raw(NOP * 8).raw(RET).raw(INT3 * 4)
    z.append(('inner-forward', a.build()))
    a = Asm().raw(CMPSP).br(b'\x76', 'far', 1).br(b'\x74', 'in', 1).raw(MOVBP).label('in').raw(SUBSP).raw(NOP * 8).raw(RET).label('far').raw(NOP * 3).raw(RET)
    z.append(('inner-forward-across-widen', a.build()))
    a = Asm().raw(PUSHBP).raw(MOVBP).raw(SUBSP).raw(NOP * 3).br(b'\x74', 'cut', 1).label('cut').raw(NOP * 8).raw(RET)
    z.append(('branch-to-cut', a.build()))
    a = Asm().raw(PUSHBP).raw(MOVBP).raw(SUBSP).raw(NOP * 3).br(b'\x74', 'nxt', 1).raw(NOP).label('nxt').raw(NOP * 8).raw(RET)
    z.append(('branch-past-cut', a.build()))
    # RET at / around the cut, whole-function copies, short functions
    for k in range(9, 17):
        z.append((f'ret-at-{k}', NOP * k + RET + INT3 * 3))
        z.append((f'ret-at-{k}-then-code', NOP * k + RET + bytes.fromhex('31c0') + RET))
        z.append((f'retret-at-{k}', NOP * k + RET + RET + NOP + RET))
    z.append(('tiny-3', bytes.fromhex('31c0c3')))
    z.append(('tiny-12', NOP * 11 + RET))
    z.append(('load-load-ret', bytes.fromhex('488b05') + le32(0x1000) + bytes.fromhex('488b1d') + le32(0x2000) + RET))
    z.append(('whole-with-jcc8-out', bytes.fromhex('4885c0') + bytes.fromhex('7440') + bytes.fromhex('488b05') + le32(0x1000) + NOP + RET))
    z.append(('whole-with-2-widen', bytes.fromhex('4885c0') + bytes.fromhex('7440') + bytes.fromhex('7f40') + b'\xe8' + le32(0x100) + NOP + RET))
    z.append(('tail-jmp32', b'\xe9' + le32(0x4567) + INT3 * 11))
    z.append(('tail-jmp32-then-code', b'\xe9' + le32(0x4567) + NOP * 9 + RET))
    z.append(('call-first', b'\xe8' + le32(-0x4567) + NOP * 9 + RET))
    z.append(('undecodable', bytes.fromhex('55') + bytes.fromhex('0f0b') + bytes.fromhex('d6') + NOP * 12 + RET))
    z.append(('truncated', bytes.fromhex('554889e5') + NOP * 9 + bytes.fromhex('48b8aabb')))
    # the all-zero encoding `00 00` (ADDB AL,(AX)): x86asm reports Opcode == 0 and fixBlock skips it (finding F28)
    z.append(('opzero-first', bytes.fromhex('0000') + PUSHBP + MOVBP + SUBSP + NOP * 8 + RET + INT3))
    z.append(('opzero-mid', PUSHBP + MOVBP + bytes.fromhex('0000') + SUBSP + NOP * 8 + RET + INT3))
    z.append(('opzero-then-riprel', bytes.fromhex('0000') + bytes.fromhex('488b05') + le32(0x2000) + b'\xe8' + le32(0x100) + NOP * 4 + RET))
    z.append(('opzero-after-widen', CMPSP + bytes.fromhex('7640') + bytes.fromhex('0000') + b'\xe8' + le32(0x100) + NOP * 6 + RET))
    z.append(('opzero-beyond-cut', PUSHBP + MOVBP + SUBSP + NOP * 8 + bytes.fromhex('0000') + RET + INT3))
    z.append(('disp-zero', bytes.fromhex('554889e5') + NOP * 7 + bytes.fromhex('7400') + NOP * 3 + RET))
    return z


TEMPL = [bytes.fromhex(h) for h in ('55', '4889e5', '4883ec20', '90', '31c0', 'b801000000', '48b81122334455667788', '4889442408', '0f1f4000',
                                    '488b4810', '4885c0', '48ffc8', '4c8d6c24f8', '660f1f440000', '0000')]
RIPT = [('488b05', b''), ('488d0d', b''), ('803d', b'\x00'), ('48c705', le32(77)), ('c605', b'\x01'), ('48813d', le32(-5)), ('8b05', b''), ('48390d', b'')]


def random_shape(rng):
    """a random straight-line mix of plain, short/near branch, call and RIP-relative instructions, then a NOP sled, RET and a stub"""
    a = Asm().label('entry')
    n = 2 + rng.below(9)
    labels = ['entry', 'sled', 'stub', 'end']
    for k in range(n):
        m = rng.below(10)
        a.label(f'i{k}')
        if m < 4:
            a.raw(rng.choice(TEMPL))
        elif m < 6:
            opc = rng.choice([0x74, 0x76, 0x7f, 0xeb, 0x75, 0x72, 0x7c, 0xe3])
            tgt = rng.below(6)
            if tgt == 0:
                a.brabs(bytes([opc]), rng.choice([0x40, 0x7f, -0x80, -0x30, 0]), 1)
            else:
                a.br(bytes([opc]), rng.choice(labels + [f'i{rng.below(n)}']), 1)
        elif m < 8:
            opc = rng.choice([b'\xe8', b'\xe9', b'\x0f\x84', b'\x0f\x86', b'\x0f\x85'])
            if rng.chance(1, 2):
                a.brabs(opc, rng.choice([0x1000, -0x1000, 0x300000, -0x300000, 0x40, -0x40]), 4)
            else:
                a.br(opc, rng.choice(labels), 4)
        else:
            pre, tail = rng.choice(RIPT)
            a.rip(bytes.fromhex(pre), rng.choice([0x5c8e79, -0x2e79, 0x10, -0x10, 0x200000]), tail)
    for k in range(n, 12):
        a.label(f'i{k}')
    a.label('sled').raw(NOP * rng.below(14))
    if rng.chance(1, 4):
        a.raw(RET)
    a.raw(bytes.fromhex('31c0')).raw(RET)
    a.label('stub').brabs(b'\xe8', -0x8000, 4).br(b'\xeb', rng.choice(['entry', 'sled', 'entry']), 1).label('end')
    try:
        return a.build()
    except (ValueError, KeyError):
        return None


def small_function(rng):
    """a 16..64 byte function whose first instructions hold several short branches leaving the moved prefix, so that the
    widened copy of the prefix can reach or exceed the size of the whole function; int3 padded (at least one)"""
    a = Asm().label('entry')
    for _ in range(rng.below(3)):
        a.raw(rng.choice([bytes.fromhex('31c0'), bytes.fromhex('ffc0'), NOP, bytes.fromhex('4885c0')]))
    nbr = 1 + rng.below(6)
    for _ in range(nbr):
        opc = rng.choice([0x74, 0x76, 0x7f, 0xeb, 0x74, 0x76, 0x74, 0x76, 0x75, 0xe3] if rng.chance(1, 6) else [0x74, 0x76, 0x7f, 0x74, 0x76])
        if rng.chance(1, 8):
            a.brabs(bytes([opc]), rng.choice([0x50, 0x7f, -0x60]), 1)
        else:
            a.br(bytes([opc]), rng.choice(['mid', 'end', 'mid']), 1)
    fillers = [bytes.fromhex('4881bc2410000000') + le32(0), bytes.fromhex('48c7442408') + le32(7), bytes.fromhex('b8') + le32(1),
               bytes.fromhex('488b05') + le32(0x40), bytes.fromhex('803d') + le32(0x30) + b'\x00', NOP * 3]
    for _ in range(1 + rng.below(3)):
        a.raw(rng.choice(fillers))
    a.label('mid')
    for _ in range(rng.below(3)):
        a.raw(rng.choice([bytes.fromhex('ffc0'), bytes.fromhex('0305') + le32(18), NOP]))
    a.label('end').raw(RET)
    try:
        code = a.build()
    except (ValueError, KeyError):
        return None
    pad = 16 - len(code) % 16
    return code + INT3 * pad


SEED_C15_4 = bytes.fromhex('31c0ffc074127610740e760c4881bc241000000000000000030512000000c3cc')   # the shape of seeded regression c15-4


def zoo_tramps(rng, base, size):
    t = [base - 0x3000, base + 0x4000, base + 0x10000000, base - 0x20000000, base + size + 16 + rng.below(64), base - 32 - rng.below(96)]
    t.append(base + (rng.below(2 * REACH) - REACH))
    return t


# ------------------------------------------------------------------ running

def bigloop_source(pkg, fname, extra=''):
    """Go source of a leaf function of > 16 KiB machine code that is ONE loop: the loop head lies right behind a 5-byte
    initialisation (inside the bytes the entry jump overwrites) and the branch back to it is the last thing in the function.
    Such a function has no faithful trampoline: the apply must be refused.  Deterministic (independent of VERIF_SEED)."""
    r = C.Rng(20260928)
    vs = ['a', 'b', 'c', 'd']
    body = []
    for _ in range(3200):
        x, y = r.choice(vs), r.choice(vs)
        k = 3 + r.below(32000)
        m = r.below(5)
        if m == 0:
            body.append(f'\t\t{x} -= {y} & {k}')
        elif m == 1:
            body.append(f'\t\t{x} ^= {y} + {k}')
        elif m == 2:
            body.append(f'\t\t{x} = {x}*{k | 1} + {y}')
        elif m == 3:
            body.append(f'\t\t{x} += {y} ^ {k}')
        else:
            sh = 1 + r.below(62)
            body.append(f'\t\t{x} = {x}<<{sh} | int(uint({x})>>{64 - sh})')
    return (f'package {pkg}\n\n// GENERATED by checks/C03.py bigloop_source — do not edit.\n{extra}\n//go:noinline\nfunc {fname}(n, a, b, c int) int {{\n\td := 1\n\tfor {{\n'
            + '\n'.join(body) + '\n\t\tn--\n\t\tif n <= 0 {\n\t\t\tbreak\n\t\t}\n\t}\n\treturn a ^ b ^ c ^ d\n}\n')


def gen_file(name, text):
    d = os.path.join(C.BUILD, 'c03gen')
    os.makedirs(d, exist_ok=True)
    p = os.path.join(d, name)
    if not os.path.exists(p) or open(p).read() != text:
        open(p, 'w').write(text)
    return p


def build_probe():
    tag, pkg, files = PROBE
    fm = {k: os.path.join(C.HARNESS, v) for k, v in files.items()}
    fm['zz_verif_c03_bigloop_test.go'] = gen_file('patch_bigloop_test.go', bigloop_source(
        'patch', 'c03BigLoop', '\nimport "reflect"\n\n// keeps the function alive in the test binary (it is only looked at through the symbol table)\nvar C03BigLoopPC uintptr\n\nfunc init() { C03BigLoopPC = reflect.ValueOf(c03BigLoop).Pointer() }\n'))
    b, err = C.overlay_build(tag, pkg, fm, C.helper_pkgs())
    if b is None:
        raise C.Infra(f'probe {tag} does not build against the current tree:\n{err[-3000:]}')
    return b


def gen_requests(tier, rng):
    """returns (request lines, meta per request: dict(kind, lane))"""
    reqs, meta = [], []
    near = [-(64 + rng.below(4000)), 16 + rng.below(4000)]
    mid = [-(1 << 20) - rng.below(1 << 24), (1 << 20) + rng.below(1 << 24)]
    far = [-(REACH - rng.below(1 << 20)), REACH - rng.below(1 << 26)]
    sets = [near + mid, far + [-(1 << 30) + rng.below(4096), (1 << 29) + rng.below(4096)]]
    if tier == 'thorough':
        for _ in range(2):
            sets.append([(-1 if rng.chance(1, 2) else 1) * (1 + rng.below(REACH)) for _ in range(4)])
            sets.append([-(1 + rng.below(300)), rng.below(300), -(1 + rng.below(1 << 16)), rng.below(1 << 16)])
    for s in sets:
        reqs.append('c03.fns 0 1 1000000 ' + ','.join(str(d) for d in s))
        meta.append({'kind': 'fns', 'lane': 'valid'})
    # beyond the reach hypothesis: model/implementation agreement only
    reqs.append(f'c03.fns {rng.below(7)} 7 1000000 {-(1 << 31) - rng.below(1 << 20)},{(1 << 31) + rng.below(1 << 20)},{1 << 40},{-(1 << 45)}')
    meta.append({'kind': 'fns', 'lane': 'out-of-reach'})
    reqs.append(f'c03.tramp {rng.below(3)} {3 if tier == "quick" else 1} 1000000')
    meta.append({'kind': 'tramp', 'lane': 'valid'})
    smalls = [SEED_C15_4]
    for k in range(400 if tier == 'quick' else 6000):
        f = small_function(rng)
        if f and len(f) <= 96:
            smalls.append(f)
    for f in smalls:
        for oo, to in ((0, 1024), (2048, 512)):
            reqs.append(f'c03.small {oo} {to} {rng.choice([24, 48, 64, 200, 900, 900])} {f.hex()}')
            meta.append({'kind': 'small', 'lane': 'valid', 'req': reqs[-1]})
    # functions that end exactly where the next one begins (no INT3 padding): GetFuncSize has to stop at the next prologue,
    # and a function whose every cut position >= jump length is followed by RET is copied WHOLE (no jump back)
    exact = [bytes.fromhex('488b0500100000c3'), bytes.fromhex('488b0500100000488b1d00200000c3'),
             bytes.fromhex('4885c0488b0500100000488b1d00200000c3'), bytes.fromhex('31c0ffc0ffc0ffc0ffc0ffc0ffc0c3'),
             bytes.fromhex('48c7050010000007000000c3c3'), bytes.fromhex('4885c07440488b0500100000e800010000c3')]
    for f in smalls[:(150 if tier == 'quick' else 3000)]:
        exact.append(f.rstrip(b'\xcc'))
    for f in exact:
        oo, to = rng.choice([(0, 1024), (2048, 512)])
        reqs.append(f'c03.small {oo} {to} {rng.choice([64, 200, 900])} {f.hex()} x')
        meta.append({'kind': 'small', 'lane': 'valid', 'req': reqs[-1]})
    # placeholder more than 2 GiB away from the function: the jump back takes the far form (JMP [RIP+0] ; .quad origin+n, 14 bytes).
    # Only shapes without PC-relative operands (their rel32 could not reach anyway); sizes around |fixed|+14
    plain = [PUSHBP + MOVBP + SUBSP + NOP * 8 + RET + INT3 * 3, bytes.fromhex('31c0') + bytes.fromhex('ffc0') * 6 + RET + INT3,
             bytes.fromhex('480fafc3480fafc1480fafc7c3') + INT3 * 3, bytes.fromhex('48b81122334455667788') + NOP * 5 + RET + INT3 * 4]
    for k in range(40 if tier == 'quick' else 400):
        n = 13 + rng.below(20)
        f = b''.join(rng.choice([NOP, bytes.fromhex('31c0'), bytes.fromhex('4889e5'), bytes.fromhex('4883ec20'), bytes.fromhex('b801000000')]) for _ in range(n))[:n + 8]
        plain.append(f[:13 + rng.below(12)].rstrip(b'\x48\x83\xb8\x89\xec\x31') + NOP * 2 + RET + INT3 * (1 + rng.below(6)))
    for f in plain:
        for ts in (rng.choice([24, 26, 27, 28]), rng.choice([30, 34, 48, 200])):
            reqs.append(f'c03.small 0 {rng.choice([0, 512, 1024])} {ts} {f.hex()} f')
            meta.append({'kind': 'small', 'lane': 'valid', 'req': reqs[-1]})
    shapes = zoo_shapes()
    nrand = 1500 if tier == 'quick' else 40000
    for k in range(nrand):
        s = random_shape(rng)
        if s:
            shapes.append((f'rand-{k}', s))
    for name, code in shapes:
        base = 0x500000 + 16 * rng.below(1 << 16)
        tr = zoo_tramps(rng, base, len(code))
        reqs.append(f'c03.zoo {name} {base:#x} {",".join(hex(t) for t in tr)} {code.hex()}')
        meta.append({'kind': 'zoo', 'lane': 'valid', 'name': name})
    return reqs, meta


def run_requests(binary, reqs, tag='c03'):
    """-> list of (request index, op line, impl result, verdicts/extra columns)"""
    rp = os.path.join(C.BUILD, f'{tag}.req')
    raw = os.path.join(C.BUILD, f'{tag}.raw')
    open(rp, 'w').write('\n'.join(reqs) + '\n')
    rc, log = C.run_probe(binary, 'TestVerifC03', rp, raw, timeout=600 if len(reqs) < 20000 else 1800)   # typical: 15 s quick, 4 min thorough
    if rc != 0:
        raise C.Infra(f'probe failed rc={rc}:\n{log[-2000:]}')
    cases = []
    for line in open(raw, errors='replace'):
        p = line.rstrip('\n').split('\t')
        if len(p) >= 4:
            cases.append((int(p[0]), p[1], p[2], p[3:]))
    return cases


def run_model(oplines, tag='c03'):
    exe, err = C.build_driver()
    if exe is None:
        return None, err
    opf = os.path.join(C.BUILD, f'{tag}.ops')
    open(opf, 'w').write('\n'.join(oplines) + '\n')
    return C.run_driver(exe, opf, os.path.join(C.BUILD, f'{tag}.model')), ''


def opzero_in_prefix(op, r):
    """the copied prefix contains an instruction goom's decoder reports with Opcode == 0 (flag z)"""
    try:
        n = int(r.split('n=')[1].split()[0])
    except (IndexError, ValueError):
        return False
    pos = 0
    for it in op.split()[6:]:
        f = it.split(':')
        if pos >= n:
            break
        if 'z' in f[3]:
            return True
        pos += int(f[0])
    return False


def classify_unfaithful(op, r):
    """which documented defect an unfaithful copy looks like (only used to label the violation): F2 if a copied instruction
    has bytes after its PC-relative field, else F3 if the copy grew, else None"""
    t = op.split()
    try:
        n = int(r.split('n=')[1].split()[0])
        outlen = len(r.split('out=')[1]) // 2
    except (IndexError, ValueError):
        return None
    pos = 0
    for it in t[6:]:
        ln, off, pc = [int(x) for x in it.split(':')[:3]]
        if pos >= n:
            break
        if off > 0 and off + pc < ln:
            return 'F2: bytes after the PC-relative field dropped'
        pos += ln
    if outlen > n:
        return 'F3: growth by widened branches ignored'
    return None


# ------------------------------------------------------------------ executed layer

EXEC_ZOO = [  # what is mocked; whether the prologue has a stack check is read from the code by the probe (stack=...)
    'S1', 'SetX', 'CmpX', 'S2', 'S3', 'Leaf', 'Load', 'Big', 'Big2', 'Printer', 'G', 'Fib', 'Sq', 'Deep', 'Mixed', 'Tiny', 'Mul4',
    'TwinLeafG', 'TripleLeafGLoad', 'TwinS2S3', 'TwinSqCube', 'TwinDblSq', 'RemockSq', 'RemockDbl', 'RemockSameBuilderCube', 'RebindSq', 'RebindDbl', 'RebindInc',
    'Generic', 'GenericPlain', 'BigLoop', 'LoopHead', 'LoopCount', 'Method', 'MethodTwinTypes', 'RemockRefused']
EXEC_RECURSIVE = {'Fib', 'Deep'}
EXEC_BIGLOOP_REG = '''
import (
	"fmt"
	"sync/atomic"

	goom "github.com/tencent/goom"
)

func init() {
	run := func() string { return fmt.Sprint(BigLoop(3, 3, 5, 7), ";", BigLoop(1, -3, 1<<40, 7), ";", BigLoop(17, 1, 2, 3)) }
	zoo["BigLoop"] = kase{fns: []interface{}{BigLoop}, expect: 3, plain: run,
		install: func(cnt *int32) (func() string, interface{}, func()) {
			origin := func(n, a, b, c int) int {
				fmt.Println("only for placeholder, will not call", n, a, b, c)
				fmt.Println("only for placeholder, will not call", n, a, b, c)
				fmt.Println("only for placeholder, will not call", n, a, b, c)
				return 0
			}
			m := goom.Create()
			m.Func(BigLoop).Origin(&origin).Apply(func(n, a, b, c int) int {
				atomic.AddInt32(cnt, 1)
				return origin(n, a, b, c)
			})
			return run, BigLoop, func() { m.Reset() }
		}}
}
'''


def build_exec():
    ex = os.path.join(C.HARNESS, 'c03', 'exec')
    extra = dict(C.helper_pkgs())
    extra['internal/zzverif/c03exec'] = {'exec_test.go': os.path.join(ex, 'exec_test.go'), 'gen118_test.go': os.path.join(ex, 'gen118_test.go'),
                                         'bigloop_test.go': gen_file('exec_bigloop_test.go', bigloop_source('c03exec', 'BigLoop', EXEC_BIGLOOP_REG))}
    extra['internal/zzverif/c03exec/a'] = {'repo.go': os.path.join(ex, 'a', 'repo.go')}
    extra['internal/zzverif/c03exec/b'] = {'repo.go': os.path.join(ex, 'b', 'repo.go')}
    b, err = C.overlay_build('c03-exec', 'internal/zzverif/c03exec', {}, extra, ldflags='-s=false')   # by-name lookup needs the symbol table
    if b is None:
        raise C.Infra(f'executed-layer probe does not build against the current tree:\n{err[-3000:]}')
    return b


def run_exec(binary, names, maxdepth, step, tag='c03x'):
    ops = os.path.join(C.BUILD, f'{tag}.req')
    outp = os.path.join(C.BUILD, f'{tag}.raw')
    open(ops, 'w').write(''.join(f'c03.exec {n} {maxdepth} {step}\n' for n in names))
    rc, log = C.run_probe(binary, 'TestVerifC03Exec', ops, outp, timeout=900)   # children: 120 s + one 300 s retry each, 8 in parallel
    if rc != 0:
        raise C.Infra(f'executed-layer probe failed rc={rc}:\n{log[-2000:]}')
    return list(zip(names, C.read_indexed(outp, len(names))))


def F30(obs):
    # known finding F30 is matched by the call site — generic target + origin placeholder called from the callback — whatever the wrong
    # outcome is (garbage result before 79126f8, crash since): the placeholder enters the shape body without the dictionary word
    return f'origin placeholder of a generic function enters the shape body without its dictionary argument: {obs}'


def exec_oracle(name, obs):
    """None if calling the placeholder had exactly the effect of the original at every depth, else (why, known-finding key)"""
    if obs is None:
        return 'no observation', None
    if obs.startswith('refused:'):
        if ' inner=' in obs and ' inner=ok' not in obs:
            return f'the function goom selects for a generic instantiation is not the target of the wrapper\'s CALL: {obs}', None
        if obs.split(' retried-after')[0].endswith('clean=true'):
            return None
        if name == 'RemockRefused':
            return ('a second mock of a still-mocked function was refused (placeholder too small) but the function no longer behaves as '
                    'before the failed apply: the earlier mock is gone', 'F29-failed-remock-unpatches')
        return 'apply failed but the function no longer behaves as before / its entry bytes changed', None
    if not obs.startswith('applied'):
        if name == 'Generic' and obs.startswith('crash:'):
            return F30(obs), 'F30-generic-origin-abi'
        return f'calling the origin placeholder: {obs}', None
    kv = dict(p.split('=', 1) for p in obs.split()[1:] if '=' in p)
    if kv.get('inner') not in (None, 'ok'):
        return f'the function patched for a generic instantiation is not the target of the wrapper\'s CALL ({kv["inner"]}): {obs}', None
    if name == 'Generic' and kv['wrong'] != '0':
        return F30(obs), 'F30-generic-origin-abi'
    if kv['wrong'] != '0' or kv['cbzero'] != '0' or kv['restored'] != 'true':
        return f'wrong result / callback not run / not restored: {obs}', None
    if kv['cbtwice'] != '0':
        # known finding F4 is exactly: the prologue has a stack check, results are right, and a call re-enters the mock at most once
        # per mocked call, at the few depths where the stack has to grow at the placeholder call.  Anything beyond that is reported.
        calls, twice, over = int(kv['calls']), int(kv['cbtwice']), int(kv.get('over', '1'))
        few = name in EXEC_RECURSIVE or twice <= max(3, calls // 4)
        if kv.get('stack') == 'true' and over <= 1 + (name in EXEC_RECURSIVE) * 1000 and few:
            return f'callback ran twice for one call at {twice} of {calls} stack depths (first at depth {kv["first"]}): {obs}', 'F4-morestack-reentry'
        return f'callback ran more often than once per call beyond the stack-growth re-entry (stack={kv.get("stack")} over={over} at {twice}/{calls} depths): {obs}', None
    return None


def tramp_check(op, impl_res, cols, model):
    """compare the real fixOriginFuncToTrampoline (result class, bytes found in the placeholder afterwards) with the model"""
    changed, after = cols[0], cols[1]
    lo, hi = [int(x) for x in changed.split('=')[1].split('..')]
    if model.startswith('ok data='):
        data = model[len('ok data='):]
        data = '' if data == '-' else data
        if impl_res != 'ok':
            return f'model writes {len(data) // 2} bytes, implementation: {impl_res}'
        if after[:len(data)] != data:
            return 'placeholder content differs from the model'
        if hi >= len(data) // 2:
            return 'bytes beyond the relocated code were modified'
        return None
    if impl_res != model:
        return f'model: {model}, implementation: {impl_res}'
    if lo != -1:
        return 'failed but the placeholder was modified'
    return None


def run(tier):
    out = C.Outcome('C03', tier)
    rng = C.Rng(C.seed()).fork('C03')
    ok, msg, changed = C.regen(GEN)
    proof = C.prove('C03', leanchecker=(tier == 'thorough')) if ok else {
        'ok': False, 'failed': [('translator', msg)], 'obligations': 0, 'discharged': 0, 'cmds': [], 'axioms': {}}
    binary = build_probe()
    reqs, meta = gen_requests(tier, rng)
    cases = run_requests(binary, reqs)
    oplines = [c[1] for c in cases]
    model, derr = run_model(oplines)
    if model is None:
        proof['failed'].append(('goomdrv', 'driver does not build: ' + derr[-500:]))
        proof['ok'] = False

    stats = {'cases': len(cases), 'evaluations': 0, 'fns': 0, 'zoo': 0, 'tramp': 0, 'small': 0, 'jumpback': {}, 'faithful': 0, 'failed-clean': 0, 'skip': 0,
             'widened': 0, 'results': {}, 'verdict_classes': {}}
    bad, diffs, jbad, raw_whole, zbad = [], [], [], [], []
    nontrivial = set()
    for k, (ri, op, res, cols) in enumerate(cases):
        m = meta[ri]
        stats[m['kind']] += 1
        if m['kind'] in ('tramp', 'small'):
            stats['evaluations'] += 1
            jb = cols[2] if len(cols) > 2 else 'n/a'
            if m['kind'] == 'small' and res == 'ok' and jb == 'jumps-back':
                fsz = sum(int(x.split(':')[0]) for x in op.split()[4:])
                if 'ff2500000000' in cols[1][2 * (int(cols[0].split('..')[1]) + 1 - 14):2 * (int(cols[0].split('..')[1]) + 1)][:12]:
                    stats['small_far_form_jump_back'] = stats.get('small_far_form_jump_back', 0) + 1
                if (cols[0].endswith('..-1') is False) and int(cols[0].split('..')[1]) + 1 - 5 >= fsz:
                    stats['small_copy_reaches_function_size'] = stats.get('small_copy_reaches_function_size', 0) + 1
            stats['jumpback'][m['kind'] + ':' + jb] = stats['jumpback'].get(m['kind'] + ':' + jb, 0) + 1
            if jb in ('missing', 'jumps-elsewhere', 'jumps-through-memory', 'prefix-differs', 'written-although-relocation-fails'):
                jbad.append((k, op, res, jb, m))
            if jb == 'whole-function-raw-copy':
                raw_whole.append((k, op, res, jb, m))
            if model is not None:
                why = tramp_check(op, res, cols, model[k])
                if why:
                    diffs.append((k, op, res + ' ' + cols[0], model[k], why))
                elif res == 'ok':
                    nontrivial.add(('tramp', model[k]))
            stats['results'][m['kind'] + ':' + res] = stats['results'].get(m['kind'] + ':' + res, 0) + 1
            continue
        rs = res.split(' | ')
        vs = cols[0].split(' | ')
        stats['evaluations'] += len(rs)
        for r, v in zip(rs, vs):
            cls = r.split(' ')[0] if r.startswith('ok') else r
            stats['results'][cls] = stats['results'].get(cls, 0) + 1
            vc = v.split('@')[0]
            stats['verdict_classes'][vc] = stats['verdict_classes'].get(vc, 0) + 1
            if r.startswith('ok'):
                nontrivial.add(r)
            if v.startswith('unfaithful') and m['lane'] == 'valid':
                if v.startswith('unfaithful:count') and opzero_in_prefix(op, r):
                    if not zbad:
                        out.violation(f'the relocated copy drops the instruction `00 00` ({v}) for {m.get("name", "a function")}',
                                      {'kind': 'impl-oracle', 'ops': [op], 'observed': r, 'verdict': v}, key='F28-opzero-dropped')
                    zbad.append(k)
                else:
                    bad.append((k, op, r, v, m))
        if model is not None and model[k] != res:
            diffs.append((k, op, res, model[k], 'streams differ'))

    for lane, floor in (('fns', 1000), ('zoo', 500), ('small', 300), ('tramp', 1000)):
        if stats[lane] < floor:
            raise C.Infra(f'lane {lane} produced only {stats[lane]} cases (floor {floor}): the probe silently ran (almost) nothing')
    # 1. the property on the implementation
    seen = set()
    for k, op, r, v, m in bad:
        key = str(classify_unfaithful(op, r)) + ':' + m['kind']
        if key in seen:
            continue
        seen.add(key)
        if len(seen) > 3:
            break
        label = classify_unfaithful(op, r) if not v.startswith('unfaithful:branch-into-prefix') else None
        # is this the code as it was before fixes F2/F3?  (the driver also carries the pre-fix model)
        lm, _ = run_model([op.replace('c03.reloc', 'c03.reloc.legacy', 1)], tag='c03-legacy')
        if not (label and lm and lm[0] == cases[k][2]):
            label = None
        else:
            label = 'implementation equals the pre-fix model -> ' + label
        out.violation(f'relocated copy is not faithful ({v}) for {m.get("name", "a function of the test binary")}' + (f' [{label}]' if label else ''),
                      {'kind': 'impl-oracle', 'ops': [op], 'observed': r, 'verdict': v, 'looks_like': label,
                       'symbol': cases[k][3][1] if len(cases[k][3]) > 1 and cases[k][3][1] else None,
                       'how': 'python3 check.py C03 --replay <this file>'})
    for k, op, res, jb, m in raw_whole[:1]:
        out.violation('fixOriginFuncToTrampoline copied the whole function but wrote the RAW original bytes, not the relocated ones: PC-relative operands '
                      'of the copy point to the wrong addresses', {'kind': 'jump-back', 'ops': [op], 'reqs': [m.get('req')], 'observed': res, 'verdict': jb,
                                                                   'how': 'python3 check.py C03 --replay <this file>'}, key='F27-whole-copy-raw')
    for k, op, res, jb, m in jbad[:2]:
        out.violation(f'fixOriginFuncToTrampoline: after the relocated instructions the placeholder holds no jump back to origin+n although '
                      f'only part of the function was moved ({jb})' if jb in ('missing', 'jumps-elsewhere', 'jumps-through-memory') else f'fixOriginFuncToTrampoline: the placeholder does not start with the relocated instructions (as the real fixRelativeAddr yields them) followed by a jump back ({jb})',
                      {'kind': 'jump-back', 'ops': [op], 'reqs': [m.get('req') or 'c03.small 0 1024 900 ' + ''.join(x.split(':')[4] for x in op.split()[4:])],
                       'observed': res, 'verdict': jb, 'how': 'python3 check.py C03 --replay <this file>'})
    # executed layer: real functions mocked through the public API, origin placeholder called at many stack depths
    xbin = build_exec()
    maxd, step = (400, 1) if tier == 'quick' else (2000, 1)
    xres = run_exec(xbin, sorted(EXEC_ZOO), maxd, step)
    xbad = 0
    for name, obs in xres:
        w = exec_oracle(name, obs)
        if w:
            why, key = w
            if key is None:
                xbad += 1
            out.violation(f'executed layer, {name}: {why}', {'kind': 'exec', 'exec': [name, maxd, step], 'observed': obs,
                                                            'how': 'python3 check.py C03 --replay <this file>'}, key=key)
    stats['exec'] = {n: o for n, o in xres}
    napplied = sum(1 for _, o in xres if o and o.startswith('applied'))
    stats['exec_applied'] = napplied
    if napplied * 10 < len(xres) * 6 and not out.violations:   # with concrete violations at hand those are the report
        raise C.Infra(f'executed layer: only {napplied} of {len(xres)} zoo functions could be mocked with an origin placeholder (floor 60%)')
    stats['evaluations'] += sum(int(dict(p.split('=', 1) for p in o.split()[1:] if '=' in p).get('calls', 1)) if o and o.startswith('applied') else 1 for _, o in xres)
    # 2. correspondence / proofs
    if not bad and not jbad:
        if diffs:
            k, op, a, b, why = diffs[0]
            out.violation(f'model and implementation disagree ({why})', {'kind': 'correspondence', 'ops': [op], 'impl': a, 'model': b,
                          'broken': 'correspondence Model/Reloc.lean vs fix_addr_amd64.go / fix_origin_amd64.go', 'n_disagreements': len(diffs)},
                          no_failing_input=True)
        elif not proof['ok']:
            out.violation('proof obligations of Props/C03.lean no longer check and no failing input was found in the search',
                          {'kind': 'proof', 'broken': proof['failed'], 'searched': stats['evaluations'], 'output': proof.get('output', '')[-3000:]},
                          no_failing_input=True)
    out.coverage = {
        'obligations': proof['obligations'], 'discharged': proof['discharged'],
        'checker_cmd': ' ; '.join(proof['cmds']),
        'trusted_base': ['Lean 4.33 kernel', 'axioms: ' + ', '.join(sorted({a for v in proof['axioms'].values() for a in v}) or ['none']),
                         'tools/gen translator for addr.go and monkey_amd64.go', 'Model/Reloc.lean (hand transcription, tied by the differential run below)',
                         'decoder contract (C16)', 'reference decoder golang.org/x/arch x86asm (oracle on the implementation)'],
        'theorems': proof['axioms'], 'proof_failures': proof['failed'],
        'evaluations': stats['evaluations'], 'distinct_nontrivial': len(nontrivial),
        'traces_validated_against_impl': len(cases) - len(diffs),
        'rule': 'one evaluation = one (instruction list, origin address, placeholder address) through the real fixRelativeAddr (or fixOriginFuncToTrampoline); '
                'non-trivial = relocation succeeded, distinct by (n, output bytes)',
        'distribution': {k: v for k, v in stats.items()}, 'gen_modules_changed_this_run': changed,
        'samples': [{'op': cases[i][1][:600], 'impl': cases[i][2][:600], 'model': (model[i][:600] if model else None)} for i in
                    sorted({0, len(cases) // 3, len(cases) // 2, len(cases) - 1}) if cases],
    }
    out.assumptions = ['decoder contract (C16)', 'targets encodable from the placeholder (one image < 2 GiB)', 'morestack / stack copying not modelled']
    return out.finish()


def replay(body):
    if body.get('kind') == 'exec':
        name, maxd, step = body['exec']
        (n, obs), = run_exec(build_exec(), [name], maxd, step, tag='c03x-replay')
        w = exec_oracle(n, obs)
        print(f'c03.exec {name} {maxd} {step}\n  impl  : {obs}\n  oracle: {w[0] if w else "ok"}')
        return 1 if w else 0
    if body.get('kind') == 'jump-back':
        cases = run_requests(build_probe(), body['reqs'], tag='c03-replay')
        model, _ = run_model([c[1] for c in cases], tag='c03-replay')
        rc = 0
        for k, (ri, op, res, cols) in enumerate(cases):
            why = tramp_check(op, res, cols, model[k]) if model else None
            print(f'{op[:300]}\n  impl      : {res} {cols[0]}\n  placeholder: {cols[1][:160]}\n  model     : {model[k][:160] if model else None}\n  jump back : {cols[2]}  model-vs-impl: {why or "agree"}')
            if cols[2] in ('missing', 'jumps-elsewhere', 'jumps-through-memory', 'prefix-differs', 'written-although-relocation-fails') or why:
                rc = 1
        return rc
    ops = body.get('ops', [])
    rc = 0
    binary = build_probe()
    reqs = []
    for op in ops:
        t = op.split()
        if body.get('symbol') and t[0] == 'c03.reloc':
            # a function of the probe binary: replayed by symbol name, with the linker's extent of the function
            frm = int(t[1], 16)
            deltas = ','.join(str(((int(x, 16) - frm + (1 << 63)) % (1 << 64)) - (1 << 63)) for x in t[5].split(','))
            reqs.append(f'c03.fn {body["symbol"]} {deltas}')
        elif t[0] in ('c03.reloc', 'c03.reloc.legacy'):
            code = ''.join(x.split(':')[4] for x in t[6:])
            reqs.append(f'c03.zoo replay {t[1]} {t[5]} {code}')
    cases = run_requests(binary, reqs, tag='c03-replay')
    model, _ = run_model([c[1] for c in cases], tag='c03-replay')
    for k, (ri, op, res, cols) in enumerate(cases):
        print(f'{op[:300]}\n  impl   : {res}\n  model  : {model[k] if model else None}\n  oracle : {cols[0]}')
        if 'unfaithful' in cols[0] or (model and model[k] != res):
            rc = 1
    return rc
