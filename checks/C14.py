"""C14 — a patch touches only the target's entry bytes and leaves pages read+execute.

Tie T: `PageStart` (memory.go:15) and `jmpToFunctionValue` (monkey_amd64.go) are re-translated to Lean on every run and
the theorems of Props/C14.lean are re-checked over them.
Tie X: the hand model of `mProtectCrossPage`/`WriteTo`/`genJumpData` (Model/Mem.lean) is run by `goomdrv` on the same
operation stream as the real goom code:
  * scratch lane — the real `memory.WriteTo` on a private mmap'd region (page protections chosen per op), traced with
    `strace -f -e trace=mprotect`; compared: the (addr-base, len, prot, result) call sequence, the bytes around the
    write, the final per-page protections from /proc/self/maps;
  * text lane — the real `patch.Patch`/`Apply`/`Unpatch` on functions of the test binary (whole-text snapshot diff,
    /proc/self/maps of the image, strace) and `genJumpData` with injected function sizes;
  * survey — `GetFuncSize` on EVERY function symbol of the test binary vs distance to the next symbol.
The oracle states the property on the implementation's observations independently of the model.
"""
import os
import re
import subprocess

from vlib import common as C

META = {
    'property_id': 'C14',
    'technique': 'Lean 4 theorems over all addresses/byte lists/page states about a micro-step model of mProtectCrossPage+WriteTo+genJumpData '
                 '(PageStart and the 13-byte jump regenerated from the Go source), tied to the real code by a differential run under strace',
    'level': 'proof',
    'level_text': 'Full proof on the model: for every address, every data length (any number of page crossings) and every page-protection state, '
                  'the pages mprotect-ed cover the write and are tight, bytes outside [a,a+n) never change (on every path), the data lands intact, '
                  'no prefix of the mprotect/copy script drops the execute bit, visited pages end r-x and no page is left writable, the copy cannot fault, '
                  'a function of size <= 13 is refused before any write, and an install/unpatch changes bytes only inside the entry jump / the placeholder body.',
    'level_note': 'Explicit hypotheses: the write does not reach the last page of the 64-bit address space (NoWrap; pages_wrapped_empty states what happens otherwise) '
                  'and the kernel does not refuse mprotect (MappedAll). Outside the model: the fall-back writeTo of mwrite_prot.go taken only when the RWX mprotect is '
                  'refused (it drops x for the duration), Windows/arm64 writers, instruction fetch of concurrently modified code. "No neighbour byte changes" on real text '
                  'additionally rests on entry-to-entry distance >= 13, measured on every function of the test binary each run (GetFuncSize over-runs are classified, not relied on). '
                  'Trusted: Lean kernel (propext, Classical.choice, Quot.sound), tools/gen, the kernel spec of mprotect/stores in Model/Mem.lean, strace and /proc/self/maps.',
}

GEN = ['Page', 'JmpAmd64']
PROT = {'PROT_READ|PROT_WRITE|PROT_EXEC': 'rwx', 'PROT_READ|PROT_EXEC': 'rx', 'PROT_READ|PROT_WRITE': 'rw', 'PROT_READ': 'r',
        'PROT_NONE': 'none', 'PROT_WRITE': 'w', 'PROT_EXEC': 'x', 'PROT_WRITE|PROT_EXEC': 'wx'}
MARK_BEGIN, MARK_END = 0x1000, 0x2000
M64 = (1 << 64) - 1


# ------------------------------------------------------------------ probes

def build_probes():
    helpers = C.helper_pkgs()
    helpers['internal/zzverif/c14u'] = {'c14u.go': os.path.join(C.HARNESS, 'c14', 'c14u', 'c14u.go')}
    b, err = C.overlay_build('c14-mem', 'internal/bytecode/memory',
                             {'zz_verif_c14_test.go': os.path.join(C.HARNESS, 'c14', 'memory_probe_test.go')}, helpers)
    if b is None:
        raise C.Infra('probe c14-mem does not build against the current tree:\n' + err[-3000:])
    return {'mem': b}


def run_strace(binary, test, ops_path, out_path, tag, timeout=1800):
    """Run a probe under strace; returns (rc, log, strace-file)."""
    for p in (out_path, out_path + '.hdr'):
        if os.path.exists(p):
            os.remove(p)
    st = os.path.join(C.BUILD, tag + '.strace')
    env = C.goenv({'VERIF_OPS': ops_path, 'VERIF_OUT': out_path, 'VERIF_SEED': str(C.seed())})
    cmd = ['strace', '-f', '-e', 'trace=mprotect', '-e', 'signal=none', '-o', st, binary, '-test.run', '^' + test + '$', '-test.count=1',
           '-test.timeout', f'{timeout}s']
    p = subprocess.run(cmd, env=env, cwd=C.BUILD, capture_output=True, text=True, timeout=timeout + 60)
    return p.returncode, p.stdout + p.stderr, st


_CALL = re.compile(r'^(\d+)\s+mprotect\((0x[0-9a-f]+|NULL), (\d+), ([A-Z_|]+|0)\)\s+= (-?\d+)(?: (\w+))?')
_UNF = re.compile(r'^(\d+)\s+mprotect\((0x[0-9a-f]+|NULL), (\d+), ([A-Z_|]+|0) <unfinished')
_RES = re.compile(r'^(\d+)\s+<\.\.\. mprotect resumed>\s*\)\s+= (-?\d+)(?: (\w+))?')


def parse_strace(path):
    """-> {op idx: [(addr, len, prot, result)]} for the calls between Begin(idx) and End(idx) on the marking thread."""
    per = {}
    cur = None          # (idx, pid)
    pend = {}
    for line in open(path, errors='replace'):
        m = _CALL.match(line)
        if m:
            pid, a, ln, prot, rv, en = m.groups()
        else:
            u = _UNF.match(line)
            if u:
                pend[u.group(1)] = u.groups()[1:]
                continue
            r = _RES.match(line)
            if not r or r.group(1) not in pend:
                continue
            pid = r.group(1)
            a, ln, prot = pend.pop(pid)
            rv, en = r.group(2), r.group(3)
        addr = 0 if a == 'NULL' else int(a, 16)
        ln = int(ln)
        res = '0' if rv == '0' else (en or rv)
        if addr == MARK_BEGIN:
            cur = (ln // 4096 - 1, pid)
            per[cur[0]] = []
        elif addr == MARK_END:
            cur = None
        elif cur is not None and pid == cur[1]:
            per[cur[0]].append((addr, ln, PROT.get(prot, prot), res))
    return per


def rel(addr, base):
    d = addr - base
    return ('+' if d >= 0 else '-') + hex(abs(d))


def canon_calls(calls, base):
    return ','.join(f'{rel(a, base)}:{ln}:{p}={r}' for a, ln, p, r in calls) or '-'


def classify_calls(calls, ret):
    """Model vocabulary for what WriteTo did, from the traced calls: (res, calls-within-the-model)."""
    for i, c in enumerate(calls):
        if c[3] != '0':
            if c[2] == 'rwx':
                return 'fallback', calls[:i + 1]      # everything after is mwrite_prot.go
            return 'panic-rx', calls[:i + 1]
    return ('ok' if ret == 'nil' else 'ret-' + ret), calls


# ------------------------------------------------------------------ generators

def rand_bytes(rng, n):
    out = bytearray()
    while len(out) < n:
        out += rng.next().to_bytes(8, 'little')
    return bytes(out[:n]).hex() or '-'


def gen_scratch(tier, rng):
    """c14.write ops: (off, data, perms)."""
    ops = []
    thorough = tier == 'thorough'

    def add(off, n, perms):
        if off >= 0 and off + n <= 4096 * len(perms):
            ops.append(f'c14.write {off} {rand_bytes(rng, n)} {",".join(perms)}')
    X3, X4 = ['x'] * 3, ['x'] * 4
    # every length 0..40 at every offset around the first page end (0 or 1 crossing), and at the region start
    for n in range(0, 41):
        for off in range(4096 - 42, 4096 + 3):
            add(off, n, X3)
        for off in (0, 1, 15, 16):
            add(off, n, X3)
    # 1 and 2 crossings: lengths around one and two pages at offsets around a page end
    longs = [4055, 4056, 4057, 4095, 4096, 4097, 4100, 4136, 5000, 8150, 8191, 8192, 8193, 8200]
    offs = list(range(4096 - 16, 4096 + 2)) if thorough else [4096 - 16, 4096 - 13, 4096 - 1, 4096, 4097]
    for n in longs:
        for off in offs + [0, 1]:
            add(off, n, X4)
    # other initial protections: a page already rwx, read-only data, rw- data
    for perms in (['w', 'x', 'x'], ['x', 'w', 'x'], ['r', 'x', 'x'], ['x', 'r', 'r'], ['d', 'd', 'x'], ['w', 'w', 'w'], ['x', 'd', 'r']):
        for off, n in ((4090, 13), (4083, 13), (4084, 13), (100, 13), (4096, 13), (4090, 0), (4095, 1), (4095, 2), (0, 8192)):
            add(off, n, perms)
    # random, structured: mostly short writes near page ends, some long
    nr = 1500 if not thorough else 40000
    for _ in range(nr):
        k = 2 + rng.below(7)
        perms = [('x' if rng.below(10) else rng.choice(['w', 'r', 'd'])) for _ in range(k)]
        mode = rng.below(10)
        if mode < 5:
            n = rng.below(65)
            b = 4096 * (1 + rng.below(k - 1))
            off = b - rng.below(70) + rng.below(4)
        elif mode < 8:
            n = rng.below(5001)
            off = rng.below(k * 4096)
        else:
            n = 4000 + rng.below(3 * 4096)
            off = rng.below(4096 * 2)
        if off + n > k * 4096:
            n = max(0, k * 4096 - off)
        add(off, n, perms)
    # malformed lane: an unmapped page inside (or next to) the range -> mprotect refused -> fall-back path
    nm = 40 if not thorough else 400
    for _ in range(nm):
        k = 3 + rng.below(3)
        perms = ['x'] * k
        perms[1 + rng.below(k - 1)] = 'u'
        off = 4096 - rng.below(20)
        n = rng.below(40) if rng.below(3) else 4090 + rng.below(4200)
        add(off, n, perms)
    return ops


def gen_ps(tier, rng):
    vals = set()
    for b in (0, 0x1000, 0x401000, 0x7ffff7fd0000, 1 << 32, 1 << 47, 1 << 63, M64 - 0xfff, M64):
        for d in (-1, 0, 1, 0xfff, 0x1000, 0x1001):
            vals.add((b + d) & M64)
    for i in range(64):
        vals.add(1 << i)
        vals.add((1 << i) - 1)
    for _ in range(500 if tier == 'quick' else 50000):
        vals.add(rng.next() & ((1 << (1 + rng.below(64))) - 1))
    return [f'c14.ps {v:#x}' for v in sorted(vals)]


# ------------------------------------------------------------------ oracle (the property on the implementation, no model involved)

def touched_pages(off, n):
    """pages (indices) holding a byte of [off, off+n)"""
    return set(range(off // 4096, (off + n - 1) // 4096 + 1)) if n > 0 else set()


def oracle_write(op, obs, calls, base):
    """Returns None or a description of how the real WriteTo broke C14 on this op."""
    _, off, hx, perms = op.split()
    off = int(off)
    n = 0 if hx == '-' else len(hx) // 2
    perms = perms.split(',')
    if obs is None:
        return 'no observation (probe crashed: a write faulted?)'
    if calls is None:
        return 'no traced mprotect calls for this op'
    cmp_part, _, extra = obs.partition(' | ')
    kv = dict(p.split('=', 1) for p in (cmp_part + ' ' + extra).split() if '=' in p)
    tp = touched_pages(off, n)
    if int(kv['outside']) != 0:
        return f'{kv["outside"]} byte(s) outside [off, off+{n}) changed'
    if kv['guards'] != 'nn':
        return f'guard pages changed protection: {kv["guards"]}'
    malformed = any(perms[i] == 'u' for i in tp) or (n == 0 and perms[off // 4096] == 'u')
    # x never dropped; for a write into an unmapped page (caller error) only up to the refused mprotect — what follows
    # is the fall-back of mwrite_prot.go, which is outside the model and is known to go through rw-
    for a, ln, prot, res in (classify_calls(calls, kv['ret'])[1] if malformed else calls):
        if 'x' not in prot:
            return f'mprotect({rel(a, base)}, {ln}, {prot}) drops the execute bit'
    if malformed:
        return None      # only frame and x-never-dropped (inside the model) are demanded
    if kv['ret'] != 'nil':
        return f'WriteTo did not return normally: {kv["ret"]}'
    if int(kv['wrong']) != 0:
        return f'{kv["wrong"]} byte(s) of the data did not land'
    allowed = tp if n > 0 else ({off // 4096} if off % 4096 else set())
    seen_rwx, last = set(), {}
    for a, ln, prot, res in calls:
        d = a - base
        if d % 4096 or ln != 4096:
            return f'mprotect({rel(a, base)}, {ln}) is not exactly one page'
        pg = d // 4096
        if pg not in allowed:
            return f'mprotect on page {pg} which holds no byte of the write (pages {sorted(allowed)})'
        if res != '0':
            return f'mprotect({rel(a, base)}) failed: {res}'
        if prot == 'rwx':
            seen_rwx.add(pg)
        last[pg] = prot
    if not tp <= seen_rwx:
        return f'pages {sorted(tp - seen_rwx)} hold written bytes but were never made writable'
    final = kv['perms'].split(',')
    for i, p0 in enumerate(perms):
        want = 'x' if i in last else p0
        if final[i] != want:
            return f'page {i} ends as {final[i]}, wanted {want} (initial {p0}, {"touched" if i in last else "untouched"})'
        if i in last and last[i] != 'rx':
            return f'last mprotect of page {i} is {last[i]}, not rx'
    return None


# ------------------------------------------------------------------ run

def execute(ops, tag='c14'):
    """Run ops through the real code (under strace) and the model. Returns (impl lines, model lines, raw obs, calls, base, err)."""
    ops_path = os.path.join(C.BUILD, f'{tag}.ops')
    open(ops_path, 'w').write('\n'.join(ops) + '\n')
    bins = build_probes()
    outp = os.path.join(C.BUILD, f'{tag}.mem.impl')
    rc, log, st = run_strace(bins['mem'], 'TestVerifC14', ops_path, outp, tag + '.mem')
    raw = C.read_indexed(outp, len(ops))
    if rc != 0 and not any(raw):
        raise C.Infra(f'probe c14-mem failed rc={rc}:\n{log[-2000:]}')
    hdr = dict(p.split('=') for p in open(outp + '.hdr').read().split()) if os.path.exists(outp + '.hdr') else {}
    base = int(hdr.get('base', '0'), 16)
    per = parse_strace(st)
    impl = [None] * len(ops)
    calls = [None] * len(ops)
    for i, op in enumerate(ops):
        if raw[i] is None:
            continue
        if op.startswith('c14.write'):
            cs = per.get(i)
            calls[i] = cs
            cmp_part, _, extra = raw[i].partition(' | ')
            ret = dict(p.split('=', 1) for p in extra.split() if '=' in p).get('ret', '?')
            res, within = classify_calls(cs or [], ret)
            impl[i] = f'res={res} calls={canon_calls(within, base)} {cmp_part}'
        else:
            impl[i] = raw[i]
    exe, err = C.build_driver()
    if exe is None:
        return impl, None, raw, calls, base, err
    model = C.run_driver(exe, ops_path, os.path.join(C.BUILD, f'{tag}.model'))
    # outside the model: after a refused RWX mprotect only the outcome and the calls up to the refusal are compared
    for i in range(len(ops)):
        for lines in (impl, model):
            if lines[i] and lines[i].startswith('res=fallback '):
                lines[i] = ' '.join(lines[i].split()[:2])
    return impl, model, raw, calls, base, (log if rc != 0 else '')


def pages_crossed(op):
    _, off, hx, perms = op.split()
    n = 0 if hx == '-' else len(hx) // 2
    return max(0, len(touched_pages(int(off), n)) - 1)


def run(tier):
    out = C.Outcome('C14', tier)
    rng = C.Rng(C.seed()).fork('C14')
    ok, msg, changed = C.regen(GEN)
    proof = C.prove('C14', leanchecker=(tier == 'thorough')) if ok else {'ok': False, 'failed': [('translator', msg)], 'obligations': 0,
                                                                            'discharged': 0, 'cmds': [], 'axioms': {}}
    ops = []
    reg = os.path.join(C.HARNESS, 'c14', 'regress.ops')
    if os.path.exists(reg):
        ops += [l.strip() for l in open(reg) if l.strip() and not l.startswith('#')]
    ops += gen_scratch(tier, rng) + gen_ps(tier, rng)
    ops = list(dict.fromkeys(ops))
    impl, model, raw, calls, base, perr = execute(ops)

    # 1. the property on the implementation
    bad = []
    for i, op in enumerate(ops):
        if op.startswith('c14.write'):
            why = oracle_write(op, raw[i], calls[i], base)
            if why:
                bad.append((i, op, why))
    for i, op, why in bad[:3]:
        out.violation(f'{op[:120]}: {why}', {'kind': 'impl-oracle', 'ops': [op], 'observed': raw[i], 'calls': canon_calls(calls[i] or [], base),
                                             'why': why, 'how': 'python3 check.py C14 --replay <this file>'})
    # 2. correspondence
    diffs = C.diff_streams(ops, impl, model) if model is not None else []
    if model is None:
        proof['failed'].append(('goomdrv', 'driver does not build: ' + str(perr)[-500:]))
    if not bad:
        if diffs:
            i, op, a, b = diffs[0]
            out.violation(f'model and implementation disagree on `{op[:120]}`',
                          {'kind': 'correspondence', 'ops': [op], 'impl': a, 'model': b,
                           'broken': 'correspondence Model/Mem.lean (writeTo/pages/genJumpData) vs the real goom code', 'n_disagreements_shown': len(diffs)},
                          no_failing_input=True)
        elif not proof['ok']:
            out.violation('proof obligations of Props/C14.lean no longer check and no failing input was found in the search',
                          {'kind': 'proof', 'broken': proof['failed'], 'searched': len(ops), 'output': proof.get('output', '')[-3000:]},
                          no_failing_input=True)
    wr = [(i, op) for i, op in enumerate(ops) if op.startswith('c14.write')]
    dist = {'write ops': len(wr), 'pagestart ops': sum(1 for op in ops if op.startswith('c14.ps')),
            'pages crossed': {}, 'length buckets': {}, 'initial perms (non r-x pages present)': 0, 'outcomes (impl)': {},
            'gen_modules_changed_this_run': changed}
    for i, op in wr:
        c = pages_crossed(op)
        dist['pages crossed'][str(c)] = dist['pages crossed'].get(str(c), 0) + 1
        n = 0 if op.split()[2] == '-' else len(op.split()[2]) // 2
        b = '0' if n == 0 else '1-12' if n < 13 else '13' if n == 13 else '14-40' if n <= 40 else '41-4096' if n <= 4096 else '>4096'
        dist['length buckets'][b] = dist['length buckets'].get(b, 0) + 1
        if set(op.split()[3].split(',')) - {'x'}:
            dist['initial perms (non r-x pages present)'] += 1
        r = (impl[i] or 'none').split()[0]
        dist['outcomes (impl)'][r] = dist['outcomes (impl)'].get(r, 0) + 1
    nontrivial = len({(op.split()[1], len(op.split()[2]), op.split()[3]) for i, op in wr if impl[i] and impl[i].startswith('res=ok')})
    out.coverage = {
        'obligations': proof['obligations'], 'discharged': proof['discharged'],
        'checker_cmd': ' ; '.join(proof['cmds']),
        'trusted_base': ['Lean 4.33 kernel', 'axioms: ' + ', '.join(sorted({a for v in proof['axioms'].values() for a in v}) or ['none']),
                         'tools/gen translator (PageStart, jmpToFunctionValue; cross-checked against the Go originals below)',
                         'kernel/CPU specification in Model/Mem.lean: mprotect sets exactly the named page, a store to a non-writable page faults',
                         'strace -f -e trace=mprotect and /proc/self/maps as observers',
                         'not modelled: fall-back writeTo of mwrite_prot.go, instruction fetch of concurrently modified code'],
        'theorems': proof['axioms'], 'proof_failures': proof['failed'],
        'evaluations': len(ops), 'distinct_nontrivial': nontrivial,
        'traces_validated_against_impl': len(ops) - len(diffs),
        'rule': 'one evaluation = one op line run by the real code and by the model; non-trivial = a WriteTo that succeeded, distinct by (offset, length, page protections)',
        'distribution': dist,
        'samples': [{'op': ops[i][:200], 'impl': (impl[i] or '')[:300], 'model': (model[i] if model else '')[:300]}
                    for i in (0, len(ops) // 3, len(ops) // 2, len(ops) - 1)],
    }
    out.assumptions = ['page size 4096 (asserted by the probe)', 'mprotect not refused (else the unmodelled fall-back runs)',
                       'write below the last page of the address space']
    return out.finish()


def replay(body):
    ops = body.get('ops', [])
    impl, model, raw, calls, base, _ = execute(ops, tag='c14-replay')
    rc = 0
    for i, op in enumerate(ops):
        why = oracle_write(op, raw[i], calls[i], base) if op.startswith('c14.write') else None
        print(f'{op[:200]}\n  impl : {impl[i]}\n  model: {model[i] if model else None}\n  oracle: {why or "ok"}')
        if why or (model and impl[i] != model[i]):
            rc = 1
    return rc
