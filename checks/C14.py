"""C14 — a patch touches only the target's entry bytes and leaves pages read+execute.

Tie T: `PageStart` (memory.go:15) and `jmpToFunctionValue` (monkey_amd64.go) are re-translated to Lean on every run and
the theorems of Props/C14.lean are re-checked over them.
Tie X: the hand model of `mProtectCrossPage`/`WriteTo`/`genJumpData` (Model/Mem.lean) is run by `goomdrv` on the same
operation stream as the real goom code:
  * scratch lane — the real `memory.WriteTo` on a private mmap'd region (page protections chosen per op), traced with
    `strace -f -e trace=mprotect`; compared: the (addr-base, len, prot, result) call sequence, the bytes around the
    write, the final per-page protections from /proc/self/maps;
  * text lane — the real `patch.Patch`/`Apply`/`Unpatch` on functions of the test binary (whole-text snapshot diff,
    /proc/self/maps of the image, strace) and `genJumpData` with injected function sizes;
  * survey — `GetFuncSize` on EVERY function symbol of the test binary vs distance to the next symbol.
The oracle states the property on the implementation's observations independently of the model.
"""
import os
import re
import subprocess

from vlib import common as C

META = {
    'property_id': 'C14',
    'technique': 'Lean 4 theorems over all addresses/byte lists/page states and over all histories of install/remove operations about a micro-step model of '
                 'mProtectCrossPage+WriteTo(+fall-back)+genJumpData+guards/UnpatchAll (PageStart and the 13-byte jump regenerated from the Go source), '
                 'tied to the real code by a differential run under strace',
    'level': 'proof',
    'level_text': 'Full proof on the model: for every address, every data length (any number of page crossings) and every page-protection state, '
                  'the pages mprotect-ed cover the write and are tight, bytes outside [a,a+n) never change (on every path), the data lands intact, '
                  'no prefix of the mprotect/copy script drops the execute bit, visited pages end r-x and no page is left writable, the copy cannot fault, '
                  'a function of size <= 13 is refused before any write, and an install/unpatch changes bytes only inside the entry jump / the placeholder body. '
                  'By induction over ALL histories of Patch/Apply/Unpatch/Restore/Unpatch(fn)/UnpatchAll on several targets (with pages unmapped in between and steps that panic): '
                  'only entry bytes change, no image page is left writable, saved bytes stay 13. The W^X fall-back is modelled: bytes and final protections are right, x is dropped (known finding).',
    'level_note': 'Explicit hypotheses: the write does not reach the last page of the 64-bit address space (NoWrap; pages_wrapped_empty states what happens otherwise) '
                  'and the kernel does not refuse mprotect (MappedAll). Known findings (recorded, not repaired): the fall-back of mwrite_prot.go goes through rw- (x dropped) '
                  'under a W^X policy; the placeholder bound is goom\'s INT3 scan, which over-runs an exact-fill placeholder. Outside the model: GetFuncSize itself (its result is a model input), '
                  'the relocated length written into a placeholder (C03), generic-target redirection, Windows/arm64 writers, instruction fetch of concurrently modified code. "No neighbour byte changes" on real text '
                  'additionally rests on entry-to-entry distance >= 13, measured on every function of the test binary each run (GetFuncSize over-runs are classified, not relied on). '
                  'Trusted: Lean kernel (propext, Classical.choice, Quot.sound), tools/gen, the kernel spec of mprotect/stores in Model/Mem.lean, strace and /proc/self/maps.',
}

GEN = ['Page', 'JmpAmd64']
PROT = {'PROT_READ|PROT_WRITE|PROT_EXEC': 'rwx', 'PROT_READ|PROT_EXEC': 'rx', 'PROT_READ|PROT_WRITE': 'rw', 'PROT_READ': 'r',
        'PROT_NONE': 'none', 'PROT_WRITE': 'w', 'PROT_EXEC': 'x', 'PROT_WRITE|PROT_EXEC': 'wx'}
MARK_BEGIN, MARK_END = 0x1000, 0x2000
M64 = (1 << 64) - 1


# ------------------------------------------------------------------ probes

_BINS = None


def build_probes():
    global _BINS
    if _BINS is None:
        _BINS = _build_probes()
    return _BINS


def _build_probes():
    helpers = C.helper_pkgs()
    helpers['internal/zzverif/c14u'] = {'c14u.go': os.path.join(C.HARNESS, 'c14', 'c14u', 'c14u.go')}
    b, err = C.overlay_build('c14-mem', 'internal/bytecode/memory',
                             {'zz_verif_c14_test.go': os.path.join(C.HARNESS, 'c14', 'memory_probe_test.go')}, helpers)
    if b is None:
        raise C.Infra('probe c14-mem does not build against the current tree:\n' + err[-3000:])
    tg = os.path.join(C.BUILD, 'c14_targets_test.go')
    src = gen_targets_go()
    if not os.path.exists(tg) or open(tg).read() != src:
        open(tg, 'w').write(src)
    extra = dict(helpers)
    extra['internal/bytecode'] = {'zz_verif_c14_export.go': os.path.join(C.HARNESS, 'c14', 'bytecode_export', 'zz_verif_c14_export.go')}
    bt, err = C.overlay_build('c14-text', 'internal/patch',
                              {'zz_verif_c14_test.go': os.path.join(C.HARNESS, 'c14', 'patch_probe_test.go'),
                               'zz_verif_c14_targets_test.go': tg,
                               'zz_verif_c14_asm_decl.go': os.path.join(C.HARNESS, 'c14', 'c14asm', 'decl.go'),
                               'zz_verif_c14_asm_amd64.s': os.path.join(C.HARNESS, 'c14', 'c14asm', 'short_amd64.s')}, extra)
    if bt is None:
        raise C.Infra('probe c14-text does not build against the current tree:\n' + err[-3000:])
    return {'mem': b, 'text': bt}


N_T, N_B, N_P, N_C = 40, 4, 12, 4
IDLE_PKGS = ('compress/', 'vendor/golang.org/x/text/', 'vendor/golang.org/x/crypto/', 'crypto/internal/edwards25519', 'crypto/elliptic',
             'encoding/asn1', 'encoding/pem', 'math/big.nat', 'crypto/x509', 'text/tabwriter', 'container/')
PKG = 'github.com/tencent/goom/internal/patch.'


def gen_targets_go():
    """Real functions for the text lane: leaf arithmetic only (no calls, no RIP-relative operands, no stack check), so that
    goom can also relocate them into a placeholder.  T<k>: k statements (tiny .. ~250 bytes); B: origins for the
    placeholder lane; P: large placeholders, so many that some straddle a page end."""
    stmts = ['a = a*3 + b', 'b ^= a >> 3', 'a += b << 2', 'b = b*5 - a', 'a ^= b >> 7', 'b += a*9']
    out = ['package patch', '']
    names = []

    def fn(name, k):
        names.append(name)
        body = '; '.join(stmts[(i + len(name)) % len(stmts)] for i in range(k))
        out.append(f'//go:noinline\nfunc {name}(a, b int) int {{ {body}; return a + b }}')
    for k in range(N_T):
        fn(f'zzC14T{k:02d}', k)
    for k in range(N_B):
        fn(f'zzC14B{k}', 50 + 7 * k)
    for k in range(N_P):
        fn(f'zzC14P{k:02d}', 150 + k % 5)
    for k in range(N_C):       # callers: the first CALL of zzC14C<k> goes to zzC14T<20+k>
        names.append(f'zzC14C{k}')
        out.append(f'//go:noinline\nfunc zzC14C{k}(a, b int) int {{ return zzC14T{20 + k}(a, b) + {k + 1} }}')
    out.append('var zzC14Funcs = map[string]interface{}{' + ', '.join(f'"{n}": {n}' for n in names) + '}')
    return '\n'.join(out) + '\n'


def probe_env(extra):
    """environment of a probe: goom's own knobs scrubbed (GOOM_DEBUG turns on instruction dumps that read far beyond the entry)"""
    env = C.goenv(extra)
    for k in list(env):
        if k.startswith('GOOM_') or k in ('GODEBUG', 'GOTRACEBACK', 'GOGC', 'GOMAXPROCS'):
            del env[k]
    return env


def run_strace(binary, test, ops_path, out_path, tag, timeout=1800):
    """Run a probe under strace; returns (rc, log, strace-file).  A run that is killed or times out is repeated ONCE: a
    crash that reproduces is then judged from its (missing) observations, a hiccup of a loaded machine is not."""
    import shutil
    if shutil.which('strace') is None:
        raise C.Infra('strace is not installed: the mprotect sequences cannot be observed')
    st = os.path.join(C.BUILD, tag + '.strace')
    env = probe_env({'VERIF_OPS': ops_path, 'VERIF_OUT': out_path, 'VERIF_SEED': str(C.seed())})
    cmd = ['strace', '-f', '-e', 'trace=mprotect', '-e', 'signal=none', '-o', st, binary, '-test.run', '^' + test + '$', '-test.count=1',
           '-test.timeout', f'{timeout}s']
    rc, log = 1, ''
    for attempt in (1, 2):
        for p in (out_path, out_path + '.hdr', st):
            if os.path.exists(p):
                os.remove(p)
        try:
            p = subprocess.run(cmd, env=env, cwd=C.BUILD, capture_output=True, text=True, timeout=timeout + 60)
            rc, log = p.returncode, p.stdout + p.stderr
        except subprocess.TimeoutExpired as e:
            rc, log = -9, f'timeout after {timeout + 60}s: {e}'
        if rc == 0:
            break
        C.log(f'C14: probe {tag} ended with rc={rc} (attempt {attempt})')
    if 'ptrace' in log and 'Operation not permitted' in log:
        raise C.Infra('strace cannot attach (ptrace not permitted in this environment): ' + log[-400:])
    return rc, log, st


_CALL = re.compile(r'^(\d+)\s+mprotect\((0x[0-9a-f]+|NULL), (\d+), ([A-Z_|]+|0)\)\s+= (-?\d+)(?: (\w+))?')
_UNF = re.compile(r'^(\d+)\s+mprotect\((0x[0-9a-f]+|NULL), (\d+), ([A-Z_|]+|0) <unfinished')
_RES = re.compile(r'^(\d+)\s+<\.\.\. mprotect resumed>\s*\)\s+= (-?\d+)(?: (\w+))?')


def parse_strace(path):
    """-> {op idx: [(addr, len, prot, result)]} for the calls between Begin(idx) and End(idx) on the marking thread."""
    per = {}
    cur = None          # (idx, pid)
    pend = {}
    for line in open(path, errors='replace'):
        m = _CALL.match(line)
        if m:
            pid, a, ln, prot, rv, en = m.groups()
        else:
            u = _UNF.match(line)
            if u:
                pend[u.group(1)] = u.groups()[1:]
                continue
            r = _RES.match(line)
            if not r or r.group(1) not in pend:
                continue
            pid = r.group(1)
            a, ln, prot = pend.pop(pid)
            rv, en = r.group(2), r.group(3)
        addr = 0 if a == 'NULL' else int(a, 16)
        ln = int(ln)
        res = '0' if rv == '0' else (en or rv)
        if addr == MARK_BEGIN:
            cur = (ln // 4096 - 1, pid)
            per[cur[0]] = []
        elif addr == MARK_END:
            cur = None
        elif cur is not None and pid == cur[1]:
            per[cur[0]].append((addr, ln, PROT.get(prot, prot), res))
    return per


def rel(addr, base):
    d = addr - base
    return ('+' if d >= 0 else '-') + hex(abs(d))


def canon_calls(calls, base):
    return ','.join(f'{rel(a, base)}:{ln}:{p}={r}' for a, ln, p, r in calls) or '-'


def classify_calls(calls, ret):
    """Model vocabulary for what WriteTo did, from the traced calls and how it returned."""
    fail = [c for c in calls if c[3] != '0']
    if not fail:
        return 'ok' if ret == 'nil' else 'ret-' + ret
    if fail[0][2] == 'rwx':                      # RWX refused -> mwrite_prot.go writeTo
        return 'ok-fallback' if (len(fail) == 1 and ret == 'nil') else 'panic-fallback'
    return 'panic-rx'


def pre_refusal(calls):
    """the calls up to and including the first refused one (what follows is the fall-back)"""
    for i, c in enumerate(calls):
        if c[3] != '0':
            return calls[:i + 1]
    return calls


# ------------------------------------------------------------------ generators

def rand_bytes(rng, n):
    out = bytearray()
    while len(out) < n:
        out += rng.next().to_bytes(8, 'little')
    return bytes(out[:n]).hex() or '-'


def gen_scratch(tier, rng):
    """c14.write ops: (off, data, perms)."""
    ops = []
    thorough = tier == 'thorough'

    def add(off, n, perms):
        if off >= 0 and off + n <= 4096 * len(perms):
            ops.append(f'c14.write {off} {rand_bytes(rng, n)} {",".join(perms)}')
    X3, X4 = ['x'] * 3, ['x'] * 4
    # every length 0..40 at every offset around the first page end (0 or 1 crossing), and at the region start
    for n in range(0, 41):
        for off in range(4096 - 42, 4096 + 3):
            add(off, n, X3)
        for off in (0, 1, 15, 16):
            add(off, n, X3)
    # 1 and 2 crossings: lengths around one and two pages at offsets around a page end
    longs = [4055, 4056, 4057, 4095, 4096, 4097, 4100, 4136, 5000, 8150, 8191, 8192, 8193, 8200]
    offs = list(range(4096 - 16, 4096 + 2)) if thorough else [4096 - 16, 4096 - 13, 4096 - 1, 4096, 4097]
    for n in longs:
        for off in offs + [0, 1]:
            add(off, n, X4)
    # other initial protections: a page already rwx, read-only data, rw- data
    for perms in (['w', 'x', 'x'], ['x', 'w', 'x'], ['r', 'x', 'x'], ['x', 'r', 'r'], ['d', 'd', 'x'], ['w', 'w', 'w'], ['x', 'd', 'r']):
        for off, n in ((4090, 13), (4083, 13), (4084, 13), (100, 13), (4096, 13), (4090, 0), (4095, 1), (4095, 2), (0, 8192)):
            add(off, n, perms)
    # random, structured: mostly short writes near page ends, some long
    nr = 1500 if not thorough else 40000
    for _ in range(nr):
        k = 2 + rng.below(7)
        perms = [('x' if rng.below(10) else rng.choice(['w', 'r', 'd'])) for _ in range(k)]
        mode = rng.below(10)
        if mode < 5:
            n = rng.below(65)
            b = 4096 * (1 + rng.below(k - 1))
            off = b - rng.below(70) + rng.below(4)
        elif mode < 8:
            n = rng.below(5001)
            off = rng.below(k * 4096)
        else:
            n = 4000 + rng.below(3 * 4096)
            off = rng.below(4096 * 2)
        if off + n > k * 4096:
            n = max(0, k * 4096 - off)
        add(off, n, perms)
    # W^X lane: the kernel refuses write+execute (seccomp filter in the probe) -> WriteTo's fall-back (mwrite_prot.go)
    nw = 120 if not thorough else 3000
    for off, n in ((4090, 13), (4083, 13), (4084, 13), (100, 13), (4096, 13), (4090, 0), (4096, 0), (4095, 2), (0, 8192), (4000, 5000)):
        ops.append(f'c14.writewx {off} {rand_bytes(rng, n)} x,x,x,x')
    for _ in range(nw):
        k = 2 + rng.below(5)
        perms = [('x' if rng.below(8) else rng.choice(['r', 'd'])) for _ in range(k)]
        n = rng.below(65) if rng.below(4) else rng.below(6000)
        off = 4096 * (1 + rng.below(k - 1)) - rng.below(70) + rng.below(4)
        if off + n > k * 4096:
            n = max(0, k * 4096 - off)
        ops.append(f'c14.writewx {off} {rand_bytes(rng, n)} {",".join(perms)}')
    # malformed lane: an unmapped page inside (or next to) the range -> mprotect refused -> fall-back path
    nm = 40 if not thorough else 400
    for _ in range(nm):
        k = 3 + rng.below(3)
        perms = ['x'] * k
        perms[1 + rng.below(k - 1)] = 'u'
        off = 4096 - rng.below(20)
        n = rng.below(40) if rng.below(3) else 4090 + rng.below(4200)
        add(off, n, perms)
    return ops


def gen_ps(tier, rng):
    vals = set()
    for b in (0, 0x1000, 0x401000, 0x7ffff7fd0000, 1 << 32, 1 << 47, 1 << 63, M64 - 0xfff, M64):
        for d in (-1, 0, 1, 0xfff, 0x1000, 0x1001):
            vals.add((b + d) & M64)
    for i in range(64):
        vals.add(1 << i)
        vals.add((1 << i) - 1)
    for _ in range(500 if tier == 'quick' else 50000):
        vals.add(rng.next() & ((1 << (1 + rng.below(64))) - 1))
    return [f'c14.ps {v:#x}' for v in sorted(vals)]


# ------------------------------------------------------------------ oracle (the property on the implementation, no model involved)

def touched_pages(off, n):
    """pages (indices) holding a byte of [off, off+n)"""
    return set(range(off // 4096, (off + n - 1) // 4096 + 1)) if n > 0 else set()


def oracle_write(op, obs, calls, base):
    """Returns None or a description of how the real WriteTo broke C14 on this op."""
    kind, off, hx, perms = op.split()
    wx = kind == 'c14.writewx'
    off = int(off)
    n = 0 if hx == '-' else len(hx) // 2
    perms = perms.split(',')
    if obs is None:
        return 'no observation (probe crashed: a write faulted?)'
    if obs.startswith('probe-refuses'):
        return None
    if calls is None:
        return 'no traced mprotect calls for this op'
    cmp_part, _, extra = obs.partition(' | ')
    kv = dict(p.split('=', 1) for p in (cmp_part + ' ' + extra).split() if '=' in p)
    tp = touched_pages(off, n)
    if int(kv['outside']) != 0:
        return f'{kv["outside"]} byte(s) outside [off, off+{n}) changed'
    if kv['guards'] != 'nn':
        return f'guard pages changed protection: {kv["guards"]}'
    malformed = any(perms[i] == 'u' for i in tp) or (n == 0 and perms[off // 4096] == 'u')
    # x never dropped; for a write into an unmapped page (caller error) only up to the refused mprotect — what follows
    # is the fall-back of mwrite_prot.go, which is outside the model and is known to go through rw-
    dropped = None
    for a, ln, prot, res in (pre_refusal(calls) if malformed else calls):
        if 'x' not in prot:
            dropped = f'mprotect({rel(a, base)}, {ln}, {prot}) drops the execute bit'
            break
    if dropped and not wx:
        return dropped
    if malformed:
        return None      # caller error (the write cannot succeed): only frame and x-never-dropped before the refusal are demanded
    if kv['ret'] != 'nil':
        return f'WriteTo did not return normally: {kv["ret"]}'
    if int(kv['wrong']) != 0:
        return f'{kv["wrong"]} byte(s) of the data did not land'
    allowed = tp if n > 0 else ({off // 4096} if off % 4096 else set())
    seen_rwx, last = set(), {}
    for a, ln, prot, res in calls:
        d = a - base
        if d % 4096 or ln % 4096 or ln == 0:
            return f'mprotect({rel(a, base)}, {ln}) is not a whole number of pages'
        pgs = list(range(d // 4096, (d + ln) // 4096))      # one call may span several pages: the property does not say how
        for pg in pgs:
            if pg not in allowed:
                return f'mprotect on page {pg} which holds no byte of the write (pages {sorted(allowed)})'
        if res != '0' and not (wx and prot == 'rwx' and res == 'EACCES'):
            return f'mprotect({rel(a, base)}) failed: {res}'
        for pg in pgs:
            if res == '0' and 'w' in prot:
                seen_rwx.add(pg)
            if res == '0':
                last[pg] = prot
    if not tp <= seen_rwx:
        return f'pages {sorted(tp - seen_rwx)} hold written bytes but were never made writable'
    final = kv['perms'].split(',')
    for i, p0 in enumerate(perms):
        if i not in last:
            if final[i] != p0:
                return f'page {i} was not touched but ends as {final[i]} (initial {p0})'
        elif final[i] not in ('x', p0) or (final[i] in ('w', 'd') and p0 == 'x'):
            # r-x afterwards (what goom does), or the protection it had before; never newly writable / no longer executable
            return f'page {i} ends as {final[i]} (initial {p0}): left writable or not executable'
    if dropped:
        return 'KNOWN:fallback-drops-x:' + dropped       # W^X lane: everything else held; the fall-back went through rw-
    return None


# ------------------------------------------------------------------ run

def execute(ops, tag='c14'):
    """Run ops through the real code (under strace) and the model. Returns (impl lines, model lines, raw obs, calls, bases, err)."""
    ops_path = os.path.join(C.BUILD, f'{tag}.ops')
    open(ops_path, 'w').write('\n'.join(ops) + '\n')
    bins = build_probes()
    impl = [None] * len(ops)
    calls = [None] * len(ops)
    raw = [None] * len(ops)
    bases = [0] * len(ops)
    logs = ''
    lanes = [('TestVerifC14', 'mem', lambda o: o.startswith('c14.write ') or o.startswith('c14.ps ') or o.startswith('c14.conc '))]
    if any(o.startswith('c14.writewx ') for o in ops):
        lanes.append(('TestVerifC14WX', 'memwx', lambda o: o.startswith('c14.writewx ')))
    for test, sub, mine in lanes:
        outp = os.path.join(C.BUILD, f'{tag}.{sub}.impl')
        rc, log, st = run_strace(bins['mem'], test, ops_path, outp, f'{tag}.{sub}')
        r = C.read_indexed(outp, len(ops))
        if rc != 0 and not any(r) and not os.path.exists(outp + '.hdr'):
            raise C.Infra(f'probe c14-mem {test} did not start rc={rc}:\n{log[-2000:]}')      # (it writes .hdr first; dying later is an observation)
        if rc != 0:
            logs += log
        hdr = dict(p.split('=') for p in open(outp + '.hdr').read().split()) if os.path.exists(outp + '.hdr') else {}
        base = int(hdr.get('base', '0'), 16)
        per = parse_strace(st)
        for i, op in enumerate(ops):
            if not mine(op) or r[i] is None:
                continue
            raw[i], bases[i] = r[i], base
            if op.startswith('c14.conc'):
                impl[i] = r[i].partition(' | ')[0]
            elif op.startswith('c14.write'):
                cs = per.get(i)
                calls[i] = cs
                cmp_part, _, extra = r[i].partition(' | ')
                ret = dict(p.split('=', 1) for p in extra.split() if '=' in p).get('ret', '?')
                impl[i] = f'res={classify_calls(cs or [], ret)} calls={canon_calls(cs or [], base)} {cmp_part}'
            else:
                impl[i] = r[i]
    exe, err = C.build_driver()
    if exe is None:
        return impl, None, raw, calls, bases, err
    model = C.run_driver(exe, ops_path, os.path.join(C.BUILD, f'{tag}.model'))
    return impl, model, raw, calls, bases, logs


def run_text_survey(bins):
    """Phase 1: GetFuncSize + genJumpData on EVERY function symbol of the test binary. -> list of dicts"""
    ops_path = os.path.join(C.BUILD, 'c14.survey.ops')
    open(ops_path, 'w').write('c14.survey\n')
    outp = os.path.join(C.BUILD, 'c14.survey.impl')
    if os.path.exists(outp + '.survey'):
        os.remove(outp + '.survey')
    rc, log = C.run_probe(bins['text'], 'TestVerifC14Text', ops_path, outp, env={'GOOM_DEBUG': ''})
    if rc != 0:      # once more before concluding anything (loaded machine)
        rc, log = C.run_probe(bins['text'], 'TestVerifC14Text', ops_path, outp, env={'GOOM_DEBUG': ''})
    head = C.read_indexed(outp, 1)[0]
    if rc != 0 or head is None or not os.path.exists(outp + '.survey'):
        raise C.Infra(f'survey probe failed rc={rc}:\n{log[-2000:]}')
    fs = []
    for line in open(outp + '.survey'):
        name, addr, dist, gsize, first, cls = line.rstrip('\n').split('\t')
        fs.append({'name': name, 'addr': int(addr), 'dist': int(dist), 'gsize': int(gsize), 'first': first, 'cls': cls})
    return head, fs


def gen_text_ops(fs, tier, rng):
    by = {f['name']: f for f in fs}
    ops = []

    def inst(f, size=None, inject=False, extra=''):
        eo = f['addr'] % 4096
        return f"c14.install {eo} {f['gsize'] if size is None else size} {f['first']} name={f['name']}" + (' inject=1' if inject else '') + extra
    targets = [by[PKG + f'zzC14T{k:02d}'] for k in range(N_T) if PKG + f'zzC14T{k:02d}' in by]
    bigs = [by[PKG + f'zzC14B{k}'] for k in range(N_B) if PKG + f'zzC14B{k}' in by]
    phs = [by[PKG + f'zzC14P{k:02d}'] for k in range(N_P) if PKG + f'zzC14P{k:02d}' in by]
    for f in targets + bigs:
        ops.append(inst(f))
    # the size test with injected sizes (GetFuncSize cache seeded by the probe): every size 0..40 and some large ones
    sizes = list(range(0, 41)) + [64, 1023, 1024, 1025, 1 << 20]
    for i, n in enumerate(sizes):
        f = targets[i % len(targets)]
        ops.append(f"c14.gen {n} name={f['name']} inject=1")
        if n <= 16 or n % 8 == 0 or tier == 'thorough':
            ops.append(inst(f, size=n, inject=True))
    # hand-assembled functions whose scan stops early (1, 5, 13, 14 bytes), patched by address
    for f in fs:
        if 'zzC14Asm' in f['name'] and f['name'].endswith('.abi0'):
            ops.append(inst(f, extra=' ptr=1'))
    # any function of the binary as a prospective target, patched by address: packages nothing in the probe calls
    # (while patched nobody may run them), Go-ABI functions only
    idle = [f for f in fs if f['name'].startswith(IDLE_PKGS) and not f['name'].endswith('.abi0') and f['cls'] == 'nil' and f['dist'] >= 13
            and not f['first'].startswith('90')]     # a leading NOP is goom's already-patched sentinel (C13's business)
    pick = idle if tier == 'thorough' else [idle[rng.below(len(idle))] for _ in range(min(150, len(idle)))]
    seen = set()
    for f in pick:
        if f['name'] not in seen:
            seen.add(f['name'])
            ops.append(inst(f, extra=' ptr=1'))
    # the placeholder lane (oracle only): every placeholder once (all origins in thorough)
    for j, p in enumerate(phs):
        for b in (bigs if tier == 'thorough' else [bigs[j % len(bigs)]]):
            ops.append(f"c14.tramp name={b['name']} tramp={p['name']}")
    # a placeholder of exactly N code bytes with no padding behind it and a neighbour function right after (private mapping)
    for n in (16, 24, 32, 48, 64, 80, 96, 128):
        for b in (bigs[:2] if tier == 'quick' else bigs):
            ops.append(f"c14.tramp name={b['name']} mph={n}")
    for n in (4, 8, 12, 20, 40):
        ops.append(f"c14.tramp name={bigs[0]['name']} mph={n} pad=16")
    # every padding length 0..15 between a function and its successor, judged against the TRUE layout:
    #  placeholders of N code bytes + P padding bytes (bound = N+P) ...
    for n in (8, 16, 24):
        for pad in range(0, 16):
            ops.append(f"c14.tramp name={bigs[(n + pad) % len(bigs)]['name']} mph={n} pad={pad}")
    #  ... and targets of E code bytes + P padding bytes (slot E+P: refused when it cannot hold the 13-byte jump)
    for e in (1, 4, 8, 11, 12, 13, 14, 20):
        for pad in range(0, 16):
            img = padded_func(e, pad)
            ops.append(f"c14.install 0 {head_scan(img)} {img[:13].hex()} name=private-mapping mfn={e} pad={pad}")
    return ops


def padded_func(e, p):
    """same bytes as c14u.PaddedFunc"""
    return bytes([0x50] * (e - 1) + [0xc3] + [0xcc] * p + [0x58] * 63 + [0xc3] + [0xcc] * 16 + [0xc3])


def head_scan(img):
    """What goom's GetFuncSize (func_amd64.go:24, as it is) measures on these bytes — the model takes the scanned size as an
    input: one-byte instructions only; the scan ends at the first non-INT3 byte after at least one INT3."""
    seen = False
    for i, b in enumerate(img):
        if b == 0xcc:
            seen = True
        elif seen:
            return i
    return len(img)


def pages_of(lo, n):
    return set(range(lo // 4096, (lo + n - 1) // 4096 + 1)) if n > 0 else set()


def oracle_calls(calls, lo, n, what, cover=True):
    """x never dropped, one page per call, only pages holding a byte of [lo,lo+n), all succeed, rwx..rx per page."""
    allowed = pages_of(lo, n)
    last, seen = {}, set()
    for a, ln, prot, res in calls:
        if 'x' not in prot:
            return f'{what}: mprotect({a:#x}, {ln}, {prot}) drops the execute bit'
        if a % 4096 or ln != 4096:
            return f'{what}: mprotect({a:#x}, {ln}) is not exactly one page'
        if a // 4096 not in allowed:
            return f'{what}: mprotect on page {a:#x} which holds no written byte'
        if res != '0':
            return f'{what}: mprotect({a:#x}) failed: {res}'
        if prot == 'rwx':
            seen.add(a // 4096)
        last[a // 4096] = prot
    if cover and calls and not allowed <= seen:
        return f'{what}: a page holding written bytes was never made writable'
    if any(v != 'rx' for v in last.values()):
        return f'{what}: a page is left {sorted(set(last.values()))}'
    return None


def oracle_text(op, obs, ph):
    """ph = [calls of replaceFunc, calls of Apply, calls of Unpatch]."""
    if obs is None:
        return 'no observation (the probe crashed while patching real text)'
    cmp_part, _, extra = obs.partition(' | ')
    kv = dict(p.split('=', 1) for p in extra.split() if '=' in p)
    if cmp_part.startswith('refused:'):
        if int(kv['textdiff']) != 0:
            return f'refused, but {kv["textdiff"]} byte(s) of .text changed'
        if any(ph):
            return 'refused, but mprotect was called: ' + str([c for p in ph for c in p][:4])
        if kv['image_same'] != 'true':
            return 'refused, but the image protections changed'
        if kv['panic'] != '-':
            return 'panic:' + kv['panic']
        return None
    if cmp_part in ('no-such-target', 'no-such-symbol'):
        return None
    tramp = op.startswith('c14.tramp')
    if tramp and int(kv.get('stray_dist', '0')):
        opkv = dict(t.split('=', 1) for t in op.split() if '=' in t)
        # the recorded finding is: the RELOCATED CODE (prologue <= 13+14 bytes, jump-back <= 14) runs over an exact-fill body;
        # anything written further than that is something else
        pre = 'KNOWN:placeholder-bound-overrun:' if ('mph' in opkv and opkv.get('pad', '0') == '0' and int(kv['trampsize']) > int(kv['trampdist'])
                                                      and int(kv.get('mph_hi', '0')) <= 41) else ''
        return pre + (f'{kv["stray_dist"]} byte(s) beyond the placeholder\'s own body changed (body = distance to the next symbol {kv["trampdist"]}; '
                f'goom bounded the write by its own scan, {kv["trampsize"]} bytes)')
    opkv = dict(t.split('=', 1) for t in op.split() if '=' in t)
    if 'mfn' in opkv:
        slot = int(opkv['mfn']) + int(opkv['pad'])           # the true extent: code + padding up to the successor
        if slot < 13:
            pre = 'KNOWN:placeholder-bound-overrun:' if opkv['pad'] == '0' else ''
            return pre + (f'a function whose slot is {slot} bytes ({opkv["mfn"]} code + {opkv["pad"]} padding, then the next function) was patched '
                          f'instead of refused: the 13-byte jump overwrites {13 - slot} byte(s) of its successor')
        if int(kv.get('mfn_stray', '0')):
            return f'{kv["mfn_stray"]} byte(s) outside the 13 entry bytes changed in the mapping'
    if not tramp and int(op.split()[2]) < 13:
        return f'a function of {op.split()[2]} bytes (too short to hold the 13-byte jump) was patched instead of refused'
    entry, ta, tsz = int(kv['entry'], 16), int(kv['tramp'], 16), int(kv['trampsize'])
    if kv['to_ok'] != 'true':
        return 'the 8 address bytes of the entry jump are not the replacement function value'
    if int(kv['stray']) or int(kv['stray_after']):
        return f'{kv["stray"]}/{kv["stray_after"]} byte(s) outside the entry jump (and outside the placeholder body) changed'
    # the EXTENT of the writes (bytes [13, scr_hi) were scribbled by the probe so an over-long write cannot hide)
    for k in ('apply_ext', 'unpatch_ext'):
        if kv[k] != 'none' and int(kv[k].split('..')[1]) > 13:
            return f'{k}={kv[k]}: the write changed bytes beyond the 13-byte entry jump (scribbled band [13,{kv["scr_hi"]}))'
    if 'lens=13/13' not in cmp_part:
        return f'the guard holds {cmp_part.split("lens=")[1].split()[0]} (saved original bytes / jump bytes), wanted 13/13: Unpatch will write beyond the entry jump'
    if kv['scribble'] != 'true':
        return f'bytes in [13,{kv["scr_hi"]}) behind the entry jump did not survive Apply/Unpatch'
    if 'restored=true' not in cmp_part:
        return 'Unpatch did not restore the 13 entry bytes'
    if kv['image_applied'] != 'true' or kv['image_after'] != 'true':
        return 'protections of the executable image differ from before (a page left writable or not executable)'
    if not tramp and (int(kv['n_patch']) or ph[0]):
        return 'replaceFunc without placeholder wrote to .text / called mprotect'
    w = oracle_calls(ph[1], entry, 13, 'Apply') or oracle_calls(ph[2], entry, 13, 'Unpatch')
    if w:
        return w
    if not ph[1] or not ph[2]:
        return 'no mprotect traced for Apply/Unpatch'
    if tramp:
        return oracle_calls(ph[0], ta, min(tsz, int(kv.get('trampdist', tsz))), 'placeholder write', cover=False)   # the written length is goom's business (C03); it must stay inside the body
    return None


def execute_text(ops, bins, tag='c14.text'):
    ops_path = os.path.join(C.BUILD, f'{tag}.ops')
    open(ops_path, 'w').write('\n'.join(ops) + '\n')
    outp = os.path.join(C.BUILD, f'{tag}.impl')
    rc, log, st = run_strace(bins['text'], 'TestVerifC14Text', ops_path, outp, tag)
    raw = C.read_indexed(outp, len(ops))
    if rc != 0 and not any(raw):
        raise C.Infra(f'probe c14-text failed rc={rc}:\n{log[-2000:]}')
    per = parse_strace(st)
    impl, phases = [None] * len(ops), [None] * len(ops)
    for i, op in enumerate(ops):
        if raw[i] is None:
            continue
        cmp_part, _, extra = raw[i].partition(' | ')
        kv = dict(p.split('=', 1) for p in extra.split() if '=' in p)
        if op.startswith('c14.install') or op.startswith('c14.tramp'):
            ph = [per.get(3 * i + k, []) for k in range(3)]
            phases[i] = ph
            if op.startswith('c14.tramp'):
                impl[i] = 'oracle-only'
            elif cmp_part.startswith('apply='):
                pbase = int(kv['pbase'], 16)
                r1, c1 = classify_calls(ph[1], 'nil'), ph[1]
                r2, c2 = classify_calls(ph[2], 'nil'), ph[2]
                t = cmp_part.split()
                impl[i] = f'apply={r1} {t[1]} calls={canon_calls(c1, pbase)} unpatch={r2} {t[3]} calls2={canon_calls(c2, pbase)} {t[4]}'
            else:
                impl[i] = cmp_part
        else:
            impl[i] = cmp_part
    exe, err = C.build_driver()
    model = C.run_driver(exe, ops_path, os.path.join(C.BUILD, f'{tag}.model')) if exe else None
    return impl, model, raw, phases, (log if rc != 0 else '')


# ------------------------------------------------------------------ histories (install / remove / re-install / Restore / UnpatchAll)

def gen_hist_ops(fs, tier, rng):
    """c14.hist ops over real functions (T) and private executable copies (M, possibly straddling a page end or unmapped
    in the middle of the history)."""
    by = {f['name']: f for f in fs}
    cands = [by[PKG + f'zzC14T{k:02d}'] for k in range(N_T) if PKG + f'zzC14T{k:02d}' in by]
    cands = [f for f in cands if f['cls'] == 'nil' and f['dist'] >= 32 and not f['first'].startswith('90') and f['gsize'] <= f['dist']]
    small = [f for f in cands if f['dist'] <= 256]
    callers = [(by[PKG + f'zzC14C{k}'], by[PKG + f'zzC14T{20 + k}']) for k in range(N_C)
               if PKG + f'zzC14C{k}' in by and by[PKG + f'zzC14T{20 + k}'] in cands]
    pages = sorted({f['addr'] // 4096 for f in cands} | {c['addr'] // 4096 for c, _ in callers})

    def T(f, kind='T'):
        return f"{kind}:{pages.index(f['addr'] // 4096)}:{f['addr'] % 4096}:{f['gsize']}:{f['first']}:{f['name']}"

    def S(e, p):
        img = padded_func(e, p)
        return f"S:{e}:{p}:{head_scan(img)}:{img[:13].hex()}:private"

    def M(f, off):
        return f"M:{off}:64:{f['first']}:{f['name']}"
    ops = []

    def hist(targets, steps):
        ops.append('c14.hist ' + ','.join(targets) + ' | ' + ' '.join(steps))
    a, b, c, d = cands[3], cands[7], cands[11], small[2]
    # removal of everything while one target lives in memory that is gone (unloaded code); first with a single healthy one
    hist([T(a), M(d, 100)], ['patch.0', 'apply.0', 'patch.1', 'apply.1', 'unmap.1', 'unpatch.1', 'unpatchfn.1', 'unpatch.0'])
    hist([T(a), T(b), T(c), M(d, 2048)], ['patch.0', 'apply.0', 'patch.1', 'apply.1', 'patch.2', 'apply.2', 'patch.3', 'apply.3', 'unmap.3', 'unpatchall'])
    hist([T(a), T(b), M(d, 64)], ['patch.0', 'apply.0', 'patch.1', 'apply.1', 'patch.2', 'apply.2', 'unpatchall'])
    # retry after a refusal: a function whose slot cannot hold the jump stays refused however often it is tried
    for e, p in ((8, 1), (4, 3), (1, 1), (11, 1), (12, 2), (5, 8)):
        hist([S(e, p), T(a)], ['patch.0', 'patch.0', 'apply.0', 'unpatch.0', 'patch.1', 'apply.1', 'patch.0', 'apply.0', 'restore.0', 'unpatchfn.0', 'patch.0', 'unpatchall'])
    # removing the mock of a function that carries none must not touch anything — also when its first CALL goes to a mocked function
    for cf, tf in callers[:2 if tier == 'quick' else len(callers)]:
        hist([T(cf, 'C'), T(tf)], ['patch.1', 'apply.1', 'unpatchfn.0', 'unpatchfn.0', 'unpatch.1', 'restore.1', 'unpatchfn.0', 'unpatchfn.1', 'unpatchfn.0', 'unpatchall'])
        hist([T(cf, 'C'), T(tf), T(a)], ['unpatchfn.0', 'patch.0', 'apply.0', 'patch.1', 'apply.1', 'unpatchfn.0', 'unpatchfn.0', 'patch.2', 'apply.2', 'unpatchfn.1', 'unpatchall'])
    # Restore, re-patch of a patched target, Unpatch twice, UnpatchAll with nothing / twice
    hist([T(a)], ['patch.0', 'apply.0', 'unpatch.0', 'restore.0', 'unpatch.0', 'unpatch.0', 'restore.0', 'unpatchall', 'unpatchall'])
    hist([T(a), T(b)], ['patch.0', 'apply.0', 'patch.0', 'apply.0', 'patch.1', 'patch.1', 'apply.1', 'unpatchfn.0', 'unpatchfn.0', 'restore.0', 'unpatchall', 'unpatch.0'])
    hist([T(a)], ['unpatchall', 'apply.0', 'restore.0', 'unpatchfn.0', 'patch.0', 'unpatch.0', 'restore.0', 'apply.0', 'apply.0', 'unpatchall'])
    # an entry whose 13 bytes straddle a page end (possible only for code that is not 16-byte aligned: a private copy)
    for off in (4083, 4084, 4090, 4095):
        hist([M(d, off), T(a)], ['patch.0', 'apply.0', 'patch.1', 'apply.1', 'unpatch.0', 'restore.0', 'unpatchall'])
    words = ['patch', 'apply', 'apply', 'unpatch', 'restore', 'unpatchfn', 'patch']
    n = 40 if tier == 'quick' else 600
    for _ in range(n):
        k = 1 + rng.below(4)
        tg, used = [], set()
        for i in range(k):
            if len(tg) >= k:
                break
            r5 = rng.below(10)
            if r5 < 2:
                tg.append(M(small[rng.below(len(small))], rng.choice([0, 32, 100, 2048, 4000, 4064, 4083, 4084, 4090, 4095])))
            elif r5 == 2:
                tg.append(S(rng.choice([1, 4, 8, 11, 12, 13, 14, 20]), 1 + rng.below(15)))
            elif r5 == 3 and callers and not used:
                cf, tf = callers[rng.below(len(callers))]
                used.update((cf['name'], tf['name']))
                tg.append(T(cf, 'C'))
                if i + 1 < k:
                    tg.append(T(tf))
            else:
                f = cands[rng.below(len(cands))]
                while f['name'] in used:
                    f = cands[rng.below(len(cands))]
                used.add(f['name'])
                tg.append(T(f))
        steps = []
        unmapped = set()
        for _ in range(4 + rng.below(14)):
            r = rng.below(20)
            if r == 0:
                steps.append('unpatchall')
            elif r == 1 and any(t[0] in 'MS' for t in tg):
                i = rng.choice([i for i, t in enumerate(tg) if t[0] in 'MS'])
                steps.append(f'unmap.{i}')
                unmapped.add(i)
            else:
                i = rng.below(len(tg))
                w = rng.choice(words)
                if i in unmapped and w == 'patch':
                    w = 'unpatch'        # Patch would read the entry bytes of unmapped memory: a crash by construction, not goom's doing
                steps.append(f'{w}.{i}')
        steps.append('unpatchall')
        hist(tg, steps)
    return ops


def hist_groups(calls, label):
    """[(addr,len,prot,res)] -> ['(lab:prot=res,...)'] one group per WriteTo: a group ends when a write-enabling call follows a closing one"""
    groups, cur, closing = [], [], False
    for a, ln, prot, res in calls:
        opening = prot in ('rwx', 'rw')
        if cur and opening and closing and prot == 'rwx':
            groups.append(cur)
            cur, closing = [], False
        cur.append(f'{label(a)}:{prot}={res}')
        if prot == 'rx':
            closing = True
        # a refused rwx followed by rw (fall-back) stays in the same group
    if cur:
        groups.append(cur)
    return ['(' + ','.join(g) + ')' for g in groups]


def execute_hist(ops, bins, fs, tag='c14.hist'):
    """-> (impl lines, model lines, per-op list of oracle findings)"""
    ops_path = os.path.join(C.BUILD, f'{tag}.ops')
    open(ops_path, 'w').write('\n'.join(ops) + '\n')
    outp = os.path.join(C.BUILD, f'{tag}.impl')
    rc, log, st = run_strace(bins['text'], 'TestVerifC14Text', ops_path, outp, tag)
    raw = C.read_indexed(outp, len(ops))
    if rc != 0 and not any(raw):
        raise C.Infra(f'probe c14-text (histories) failed rc={rc}:\n{log[-2000:]}')
    per = parse_strace(st)
    exe, err = C.build_driver()
    model = C.run_driver(exe, ops_path, os.path.join(C.BUILD, f'{tag}.model')) if exe else None
    by = {f['name']: f for f in fs}
    impl, why = [None] * len(ops), [None] * len(ops)
    for i, op in enumerate(ops):
        if raw[i] is None:
            why[i] = 'no observation: the probe died during this history'
            continue
        cmp_part, _, extra = raw[i].partition(' | ')
        tgs = op.split()[1].split(',')
        steps = op.split()[3:]
        mb = {}
        for tok in extra.split():
            if tok.startswith('mbases=') and len(tok) > 7:
                mb = {int(x.split(':')[0]): int(x.split(':')[1], 16) for x in tok[7:].split(',')}
        tpages = {}      # real page -> label
        allowed = set()
        for k, t in enumerate(tgs):
            f = t.split(':')
            if f[0] in ('T', 'C'):
                pg = by[f[-1]]['addr'] // 4096
                tpages[pg] = f't{f[1]}'
                allowed.add(pg)
            else:
                for j in range(3):
                    tpages[mb[k] // 4096 + j] = f'm{k}.{j}'
                e = mb[k] + 4096 + (int(f[1]) if f[0] == 'M' else 0)
                allowed |= pages_of(e, 13)
        label = lambda a: tpages.get(a // 4096, f'?{a:#x}')
        out_steps = []
        short = {k for k, t in enumerate(tgs) if t[0] == 'S' and int(t.split(':')[1]) + int(t.split(':')[2]) < 13}
        prev_vec = None
        ex = {int(t.split(':')[0]): dict(kv.split('=') for kv in t.split(':', 1)[1].split(',')) for t in extra.split() if t[0].isdigit()}
        for sn, tok in enumerate(cmp_part.split()):
            stp, _, rest = tok.partition('=')
            res, _, vec = rest.partition('{')
            cs = per.get(64 * i + sn, [])
            gs = hist_groups(cs, label)
            if stp == 'unpatchall':
                gs = sorted(gs)
            out_steps.append(f'{stp}={res}[{"".join(gs)}]{{{vec}')
            # ---- the property on the implementation, step by step
            letters = vec.split(';')[0]
            if not why[i] and '.' in stp and not stp.startswith('unmap') and prev_vec is not None:
                k0 = int(stp.split('.')[1])
                for k in range(min(len(letters), len(prev_vec))):
                    if k != k0 and letters[k] != prev_vec[k] and tgs[k].split(':')[-1] != tgs[k0].split(':')[-1]:
                        why[i] = (f'step {sn} ({stp}) addresses target {k0} but the entry bytes of target {k} changed ({prev_vec[k]} -> {letters[k]}): '
                                  'an install/removal must write only at its own target\'s entry')
            if not why[i]:
                for k in short:
                    if (stp == f'patch.{k}' and res == 'ok') or (k < len(letters) and letters[k] in 'j?'):
                        t = tgs[k].split(':')
                        why[i] = (f'step {sn} ({stp}): target {k} has a slot of {int(t[1]) + int(t[2])} bytes ({t[1]} code + {t[2]} padding, then its successor) — too short '
                                  f'for the 13-byte jump — but was accepted/patched')
            prev_vec = letters
            if why[i]:
                continue
            e = ex.get(sn, {})
            if e.get('img') != 'true':
                why[i] = f'after step {sn} ({stp}) the protections of the executable image differ from before: a text page is left writable or not executable'
            elif int(e.get('stray', '0')):
                why[i] = f'after step {sn} ({stp}) {e["stray"]} byte(s) outside the 13 entry bytes of the targets changed'
            elif any(ch != 'x' for ch in e.get('mperm', '').replace('/', '')):
                why[i] = f'after step {sn} ({stp}) a page of mapped target code is {e["mperm"]}, not r-x'
            else:
                for a, ln, prot, r in cs:
                    if r == '0' and 'x' not in prot:
                        why[i] = f'step {sn} ({stp}): mprotect({label(a)}, {prot}) drops the execute bit'
                    elif a // 4096 not in allowed and not (a // 4096 in tpages):
                        why[i] = f'step {sn} ({stp}): mprotect on a page that holds no entry byte of any target ({a:#x})'
            lens = vec.rstrip('}').split(';')[1] if ';' in vec else ''
            if not why[i] and any(x not in ('-', '13/13') for x in lens.split(',') if x):
                why[i] = f'after step {sn} ({stp}) a guard holds {lens} saved/jump bytes, wanted 13/13'
        line = ' '.join(out_steps)
        # UnpatchAll visits the map in an unspecified order: when the model says the outcome is not determined, compare up to there
        if model and model[i] and model[i].endswith('=panic[nondet]'):
            nst = len(model[i].split())
            toks = line.split()
            if len(toks) >= nst and toks[nst - 1].startswith('unpatchall=panic'):
                line = ' '.join(toks[:nst - 1] + ['unpatchall=panic[nondet]'])
        impl[i] = line
    return impl, model, raw, why, (log if rc != 0 else '')


def pages_crossed(op):
    _, off, hx, perms = op.split()
    n = 0 if hx == '-' else len(hx) // 2
    return max(0, len(touched_pages(int(off), n)) - 1)


def run(tier):
    out = C.Outcome('C14', tier)
    rng = C.Rng(C.seed()).fork('C14')
    ok, msg, changed = C.regen(GEN)
    proof = C.prove('C14', leanchecker=(tier == 'thorough')) if ok else {'ok': False, 'failed': [('translator', msg)], 'obligations': 0,
                                                                            'discharged': 0, 'cmds': [], 'axioms': {}}
    ops = []
    reg = os.path.join(C.HARNESS, 'c14', 'regress.ops')
    if os.path.exists(reg):
        ops += [l.strip() for l in open(reg) if l.strip() and not l.startswith('#')]
    ops += gen_scratch(tier, rng) + gen_ps(tier, rng)
    ops = list(dict.fromkeys(ops))
    ops.append('c14.conc 8 1500' if tier == 'quick' else 'c14.conc 12 20000')      # last: a faulting write kills the probe
    impl, model, raw, calls, base, perr = execute(ops)

    # 1. the property on the implementation
    bad = []
    crashed = False
    for i, op in enumerate(ops):
        if op.startswith('c14.write'):
            if raw[i] is None and crashed:
                continue        # not run: the probe died at an earlier op (reported there)
            why = oracle_write(op, raw[i], calls[i], base[i])
            if why:
                bad.append((i, op, why))
            crashed = crashed or raw[i] is None
    for i, op in enumerate(ops):
        if op.startswith('c14.conc') and not crashed:
            if raw[i] is None:
                bad.append((i, op, 'the probe died during concurrent WriteTo calls into one page: a write faulted because another writer closed the page between its mprotect and its copy'))
            elif 'bad=0 perms=xx' not in raw[i]:
                bad.append((i, op, 'concurrent WriteTo calls into one page: a write did not land intact or a page is not r-x afterwards: ' + raw[i]))
    known = [b for b in bad if b[2].startswith('KNOWN:')]
    bad = [b for b in bad if not b[2].startswith('KNOWN:')]
    for i, op, why in known[:1]:
        _, key, text = why.split(':', 2)
        out.violation(f'{op[:120]}: {text}', {'kind': 'impl-oracle', 'ops': [op], 'observed': raw[i], 'calls': canon_calls(calls[i] or [], base[i]),
                                              'why': text, 'how': 'python3 check.py C14 --replay <this file>'}, key=key)
    for i, op, why in bad[:3]:
        out.violation(f'{op[:120]}: {why}', {'kind': 'impl-oracle', 'ops': [op], 'observed': raw[i], 'calls': canon_calls(calls[i] or [], base[i]),
                                             'why': why, 'how': 'python3 check.py C14 --replay <this file>'})
    # text lane: survey of every function, then the real Patch/Apply/Unpatch
    bins = build_probes()
    head, fs = run_text_survey(bins)
    sv = {'functions': len(fs), 'min entry-to-entry distance': min(f['dist'] for f in fs),
          'min entry-to-entry distance among accepted targets': min(f['dist'] for f in fs if f['cls'] == 'nil'),
          'refused by genJumpData (GetFuncSize <= 13)': sum(1 for f in fs if f['cls'] != 'nil'),
          'GetFuncSize over-runs the next symbol (classified, harmless for the entry write)': sum(1 for f in fs if f['gsize'] > f['dist']),
          'entries whose 13 bytes cross a page end': sum(1 for f in fs if f['addr'] % 4096 > 4096 - 13),
          'function alignment (gcd of entry addresses)': __import__('functools').reduce(__import__('math').gcd, [f['addr'] for f in fs])}
    tbad = []
    for f in fs:
        if f['cls'] == 'nil' and f['dist'] < 13:
            tbad.append((-1, f'c14.gen {f["gsize"]} name={f["name"]}',
                        f'accepted as a target although the next function starts {f["dist"]} bytes after its entry: the 13-byte jump overwrites a neighbour'))
            break
    if 'textdiff=0' not in head or 'image_same=true' not in head:
        tbad.append((-1, 'c14.survey', 'reading function sizes changed .text or the image protections: ' + head))
    sops = [f'c14.gen {f["gsize"]} name={f["name"]}' for f in fs]
    simpl = [('ok len=13' if f['cls'] == 'nil' else 'err:' + f['cls']) for f in fs]
    tops = gen_text_ops(fs, tier, rng)
    timpl, tmodel, traw, tph, tlog = execute_text(tops, bins)
    for i, op in enumerate(tops):
        why = None
        if op.startswith('c14.install') or op.startswith('c14.tramp'):
            why = oracle_text(op, traw[i], tph[i] or [[], [], []])
        elif traw[i] is None:
            why = 'no observation'
        elif 'textdiff=0' not in traw[i]:
            why = 'genJumpData changed .text'
        elif op.startswith('c14.gen') and int(op.split()[1]) < 13 and traw[i].startswith('ok'):
            why = f'genJumpData accepts a function of {op.split()[1]} bytes, too short to hold the 13-byte jump'
        if why:
            tbad.append((i, op, why))
    tknown = [b for b in tbad if b[2].startswith('KNOWN:')]
    tbad = [b for b in tbad if not b[2].startswith('KNOWN:')]
    for i, op, why in tknown[:1]:
        _, key, text = why.split(':', 2)
        out.violation(f'{op[:160]}: {text}', {'kind': 'impl-oracle', 'lane': 'text', 'ops': [op], 'observed': traw[i], 'why': text,
                                              'how': 'python3 check.py C14 --replay <this file>'}, key=key)
    for i, op, why in tbad[:3]:
        out.violation(f'{op[:160]}: {why}', {'kind': 'impl-oracle', 'lane': 'text', 'ops': [op], 'observed': traw[i] if i >= 0 else head, 'why': why,
                                             'how': 'python3 check.py C14 --replay <this file>'})
    bad += tbad
    # floors: a lane that silently ran nothing is a machinery failure, not a pass
    n_wr = sum(1 for i, op in enumerate(ops) if op.startswith('c14.write') and raw[i] is not None and calls[i] is not None)
    n_fb = sum(1 for i, op in enumerate(ops) if op.startswith('c14.writewx') and impl[i] and impl[i].startswith('res=ok-fallback'))
    n_ap = sum(1 for l in timpl if l and l.startswith('apply=ok'))
    if not bad and not tbad and (n_wr < 500 or n_fb < 20 or n_ap < 40 or len(fs) < 1000):
        raise C.Infra(f'a lane ran (almost) nothing: traced writes={n_wr}, fall-back writes={n_fb}, applied patches={n_ap}, surveyed functions={len(fs)}')
    # history lane
    hops = gen_hist_ops(fs, tier, rng)
    himpl, hmodel, hraw, hwhy, hlog = execute_hist(hops, bins, fs)
    hbad = [(i, op, hwhy[i]) for i, op in enumerate(hops) if hwhy[i]]
    if not hbad and (len(hops) < 15 or sum((l or '').count('rwx=0') for l in himpl) < 50):
        raise C.Infra('the history lane ran (almost) nothing')
    for i, op, why in hbad[:3]:
        out.violation(f'{op[:200]}: {why}', {'kind': 'impl-oracle', 'lane': 'history', 'ops': [op], 'observed': hraw[i], 'why': why,
                                             'how': 'python3 check.py C14 --replay <this file>'})
    bad += hbad
    # 2. correspondence
    sp = os.path.join(C.BUILD, 'c14.surveygen.ops')
    open(sp, 'w').write('\n'.join(sops) + '\n')
    exe, _ = C.build_driver()
    smodel = C.run_driver(exe, sp, os.path.join(C.BUILD, 'c14.surveygen.model')) if exe else None
    n_scratch = len(ops)
    ops = ops + tops + hops + sops
    impl = impl + timpl + himpl + simpl
    model = (model + (tmodel or [None] * len(tops)) + (hmodel or [None] * len(hops)) + (smodel or [None] * len(sops))) if model is not None else None
    diffs = C.diff_streams(ops, impl, model) if model is not None else []
    if model is None or any(m is None for m in model):
        proof['failed'].append(('goomdrv', 'driver does not build or did not answer every line: ' + str(perr)[-500:]))
        proof['ok'] = False
    if not bad:
        if diffs:
            i, op, a, b = diffs[0]
            out.violation(f'model and implementation disagree on `{op[:120]}`',
                          {'kind': 'correspondence', 'ops': [op], 'impl': a, 'model': b,
                           'broken': 'correspondence Model/Mem.lean (writeTo/pages/genJumpData) vs the real goom code', 'n_disagreements_shown': len(diffs)},
                          no_failing_input=True)
        elif not proof['ok']:
            out.violation('proof obligations of Props/C14.lean no longer check and no failing input was found in the search',
                          {'kind': 'proof', 'broken': proof['failed'], 'searched': len(ops), 'output': proof.get('output', '')[-3000:]},
                          no_failing_input=True)
    wr = [(i, op) for i, op in enumerate(ops) if op.startswith('c14.write')]
    dist = {'write ops': len(wr), 'pagestart ops': sum(1 for op in ops if op.startswith('c14.ps')),
            'pages crossed': {}, 'length buckets': {}, 'initial perms (non r-x pages present)': 0, 'outcomes (impl)': {},
            'gen_modules_changed_this_run': changed, 'text lane: survey of the test binary': sv,
            'text lane ops': {k: sum(1 for o in tops if o.startswith(k)) for k in ('c14.install', 'c14.gen', 'c14.tramp')},
            'text lane outcomes': {}, 'history lane': {'histories': len(hops), 'steps': sum(len(o.split()) - 3 for o in hops),
                                                        'with a private code mapping (M target)': sum(1 for o in hops if 'M:' in o),
                                                        'with a short padded function (S target)': sum(1 for o in hops if ' S:' in o or ',S:' in o),
                                                        'with a caller of a mocked function (C target)': sum(1 for o in hops if ' C:' in o or ',C:' in o),
                                                        'with an unmap step': sum(1 for o in hops if ' unmap.' in o),
                                                        'entry straddling a page end': sum(1 for o in hops if any(t.startswith('M:') and int(t.split(':')[1]) > 4083 for t in o.split()[1].split(','))),
                                                        'step kinds': {w: sum(o.count(' ' + w) for o in hops) for w in ('patch', 'apply', 'unpatch.', 'restore', 'unpatchfn', 'unpatchall', 'unmap')},
                                                        'steps that panicked (impl)': sum((l or '').count('=panic') for l in himpl)}}
    for i, o in enumerate(tops):
        r = (timpl[i] or 'none').split()[0].split(':')[0]
        dist['text lane outcomes'][r] = dist['text lane outcomes'].get(r, 0) + 1
    dist['placeholder writes that crossed a page end'] = sum(
        1 for i, o in enumerate(tops) if o.startswith('c14.tramp') and tph[i] and len({c[0] for c in tph[i][0]}) > 1)
    for i, op in wr:
        c = pages_crossed(op)
        dist['pages crossed'][str(c)] = dist['pages crossed'].get(str(c), 0) + 1
        n = 0 if op.split()[2] == '-' else len(op.split()[2]) // 2
        b = '0' if n == 0 else '1-12' if n < 13 else '13' if n == 13 else '14-40' if n <= 40 else '41-4096' if n <= 4096 else '>4096'
        dist['length buckets'][b] = dist['length buckets'].get(b, 0) + 1
        if set(op.split()[3].split(',')) - {'x'}:
            dist['initial perms (non r-x pages present)'] += 1
        r = (impl[i] or 'none').split()[0]
        dist['outcomes (impl)'][r] = dist['outcomes (impl)'].get(r, 0) + 1
    nontrivial = len({(op.split()[1], len(op.split()[2]), op.split()[3]) for i, op in wr if impl[i] and impl[i].startswith('res=ok')})
    nontrivial += sum(1 for i, o in enumerate(tops) if timpl[i] and (timpl[i].startswith('apply=ok') or timpl[i].startswith('ok ')))
    nontrivial += len({f['gsize'] for f in fs if f['cls'] == 'nil'})
    out.coverage = {
        'obligations': proof['obligations'], 'discharged': proof['discharged'],
        'checker_cmd': ' ; '.join(proof['cmds']),
        'trusted_base': ['Lean 4.33 kernel', 'axioms: ' + ', '.join(sorted({a for v in proof['axioms'].values() for a in v}) or ['none']),
                         'tools/gen translator (PageStart, jmpToFunctionValue; cross-checked against the Go originals below)',
                         'kernel/CPU specification in Model/Mem.lean: mprotect sets exactly the named page, a store to a non-writable page faults',
                         'strace -f -e trace=mprotect and /proc/self/maps as observers',
                         'not modelled: fall-back writeTo of mwrite_prot.go, instruction fetch of concurrently modified code'],
        'theorems': proof['axioms'], 'proof_failures': proof['failed'],
        'evaluations': len(ops), 'distinct_nontrivial': nontrivial,
        'traces_validated_against_impl': len(ops) - len(diffs),
        'rule': 'one evaluation = one op line run by the real code and by the model; non-trivial = a WriteTo that succeeded, distinct by (offset, length, page protections)',
        'distribution': dist,
        'samples': [{'op': ops[i][:200], 'impl': (impl[i] or '')[:300], 'model': (model[i] if model else '')[:300]}
                    for i in (0, len(ops) // 3, len(ops) // 2, len(ops) - 1)],
    }
    out.assumptions = ['page size 4096 (asserted by the probe)', 'mprotect not refused (else the unmodelled fall-back runs)',
                       'write below the last page of the address space']
    return out.finish()


def replay(body):
    ops = body.get('ops', [])
    rc = 0
    scratch = [o for o in ops if o.startswith('c14.write') or o.startswith('c14.ps ') or o.startswith('c14.conc ')]
    hist = [o for o in ops if o.startswith('c14.hist ')]
    text = [o for o in ops if o not in scratch and o not in hist]
    if hist:
        bins = build_probes()
        head, fs = run_text_survey(bins)
        impl, model, raw, why, _ = execute_hist(hist, bins, fs, tag='c14-replay.hist')
        for i, op in enumerate(hist):
            print(f'{op[:300]}\n  impl : {impl[i]}\n  raw  : {(raw[i] or "")[-600:]}\n  model: {model[i] if model else None}\n  oracle: {why[i] or "ok"}')
            if why[i] or (model and impl[i] != model[i]):
                rc = 1
    if scratch:
        impl, model, raw, calls, base, _ = execute(scratch, tag='c14-replay')
        for i, op in enumerate(scratch):
            why = oracle_write(op, raw[i], calls[i], base[i]) if op.startswith('c14.write') else None
            if op.startswith('c14.conc') and (raw[i] is None or 'bad=0 perms=xx' not in raw[i]):
                why = 'concurrent writers: the probe died or a write did not land: ' + str(raw[i])
            print(f'{op[:200]}\n  impl : {impl[i]}\n  model: {model[i] if model else None}\n  oracle: {why or "ok"}')
            if why or (model and impl[i] != model[i]):
                rc = 1
    if text:
        bins = build_probes()
        head, fs = run_text_survey(bins)      # fills goom's GetFuncSize cache exactly as in a full run
        impl, model, raw, ph, _ = execute_text(text, bins, tag='c14-replay.text')
        for i, op in enumerate(text):
            why = oracle_text(op, raw[i], ph[i] or [[], [], []]) if op.split()[0] in ('c14.install', 'c14.tramp') else None
            if op.startswith('c14.gen') and raw[i] and int(op.split()[1]) < 13 and raw[i].startswith('ok'):
                why = 'genJumpData accepts a function too short to hold the 13-byte jump'
            print(f'{op[:200]}\n  impl : {impl[i]}\n  raw  : {raw[i]}\n  model: {model[i] if model else None}\n  oracle: {why or "ok"}')
            if why or (model and impl[i] != model[i]):
                rc = 1
    return rc
