"""C20 — executable stub space is never handed out twice or outside its reserve.

Tie T (constants/arithmetic): tools/genstub re-extracts the two bound checks, the returned address, the slice header and
the init() geometry of internal/bytecode/stub/holder.go into Gen/StubHolder.lean on every run (and insists on the
statement skeleton load / check / atomic add / check / return that the micro-step model Model/Stub.lean assumes); the
theorems of Props/C20.lean (sequential histories by induction over the request list, concurrent requesters by induction
over an arbitrary schedule of micro-steps) are re-checked against it.
Tie X: an in-package probe runs the REAL Acquire / acquireFromHolder / Write:
  * sequential histories of random sizes to exhaustion and beyond, from the pristine init() state and from preset
    offsets, with the mmap path working (sizes the kernel grants) or failing (0 and >= 2^47, as the property's hook note
    says) — compared line by line with the model (`c20.seq`);
  * concurrent requesters released from a spin barrier: short stamped histories are validated by the executable
    `admits` (search over all interleavings consistent with the real-time order), long ones by replaying a candidate
    schedule on the model (`c20.explains`); both are covered by theorems (admits_sound / explains_sound).
The oracle below states the property itself on what the implementation returned, independently of the model: regions
inside the placeholder function's extent as known to the runtime's pclntab, at least as long as requested, pairwise
disjoint (also at data level: every region is filled with its own pattern through stub.Write and read back), executable
according to /proc/self/maps and by actually calling a RET written through the writer.
"""
import os
import re
import time

from vlib import common as C

META = {
    'property_id': 'C20',
    'technique': 'Lean 4 theorems about a micro-step model of the stub-space allocator (all request lists, all schedules of any number of '
                 'requesters) over expressions re-extracted from holder.go on every run + trace validation of the real allocator '
                 '(sequential differential run, executable admits/explains for concurrent histories)',
    'level': 'proof',
    'level_text': 'Full proof on the model: for every sequential history (any sizes, mmap working or failing per request) and for every '
                  'schedule of the micro-steps load/check/atomic-add/check/return of any number of concurrent requesters, every region '
                  'handed out from the reserve lies in [min,max), has the requested length and is disjoint from every other; requests that '
                  'do not fit return an error and the bump pointer never passes max sequentially; mmap success returns exactly the mapping, '
                  'marked for plain-copy writes. The checks and the returned-address expression are regenerated from holder.go each run.',
    'level_note': 'Trusted: Lean kernel (propext, Classical.choice, Quot.sound), tools/genstub (statement-skeleton matcher + expression '
                  'translator; cross-checked by the differential run), the hand-written micro-step structure (atomicity of '
                  'atomic.LoadUintptr/AddUintptr assumed), the kernel (a granted mmap is fresh, RWX; checked per request from '
                  '/proc/self/maps, by writing and by executing), GetFuncSize giving the placeholder extent (checked against pclntab '
                  'each run). Hypothesis of the concurrent theorem: requesters x reserve size < 2^63 (no 64-bit wrap). Request '
                  'lengths range over the whole int domain; space.go (Acquire, Write) is matched literally by the extractor and run by the probe, '
                  'its model is a hand transcription. Cross-path disjointness assumes the kernel never hands out overlapping live mappings.',
}

PKG = 'internal/bytecode/stub'
W63 = 1 << 63


# ------------------------------------------------------------------ regenerate / build

def regen_stub():
    """Re-extract Gen/StubHolder.lean from the current holder.go. Returns (ok, message, changed)."""
    exe = os.path.join(C.BUILD, 'genstub')
    rc, o, e = C.sh(['go', 'build', '-o', exe, '.'], cwd=os.path.join(C.VERIF, 'tools', 'genstub'), env=C.goenv())
    if rc != 0:
        raise C.Infra('building tools/genstub failed:\n' + e)
    tmp = os.path.join(C.BUILD, 'StubHolder.lean.new')
    if os.path.exists(tmp):
        os.remove(tmp)
    rc, o, e = C.sh([exe, '-repo', C.REPO, '-out', tmp])
    if rc != 0 or not os.path.exists(tmp):
        return False, (e or o).strip(), False
    dst = os.path.join(C.GEN_DIR, 'StubHolder.lean')
    new = open(tmp).read()
    old = open(dst).read() if os.path.exists(dst) else None
    if new != old:
        open(dst, 'w').write(new)
    return True, '', new != old


def build_probe():
    b, err = C.overlay_build('c20-stub', PKG, {'zz_verif_c20_test.go': os.path.join(C.HARNESS, 'c20', 'stub_probe_test.go')},
                             C.helper_pkgs())
    if b is None:
        raise C.Infra('probe c20-stub does not build against the current tree:\n' + err[-3000:])
    return b


def run_impl(binary, lines, tag, timeout=600):
    """Run one process of the probe on `lines`; returns the list of observations (None where the process died first)."""
    ops = os.path.join(C.BUILD, f'{tag}.ops')
    outp = os.path.join(C.BUILD, f'{tag}.impl')
    open(ops, 'w').write('\n'.join(lines) + '\n')
    scrub = {'GOOM_DEBUG': '', 'GOTRACEBACK': 'single', 'GODEBUG': '', 'GOMAXPROCS': ''}     # goom / runtime knobs of the caller's shell
    import subprocess
    try:
        rc, log = C.run_probe(binary, 'TestVerifC20', ops, outp, env=scrub, timeout=timeout)
    except subprocess.TimeoutExpired:
        rc, log = 124, f'probe process exceeded {timeout}s'
    obs = C.read_indexed(outp, len(lines))
    return rc, obs, log


def run_impl_twice(binary, lines, tag, timeout):
    """A process that dies or times out is run once more before anything is reported: a crash that reproduces is an
    observation about the code, one that does not (OOM killer, overloaded machine) is not."""
    rc, obs, log = run_impl(binary, lines, tag, timeout)
    if rc != 0 and any(o is None for o in obs):
        C.log(f'C20: probe process {tag} ended with rc={rc}; running it once more')
        rc2, obs2, log2 = run_impl(binary, lines, tag + '-again', timeout)
        if rc2 == 0 or not any(o is None for o in obs2):
            return rc2, obs2, log2
        if rc == 124 and rc2 == 124:
            raise C.Infra(f'probe process {tag} timed out twice ({timeout}s each): machine too slow, nothing concluded')
        return rc2, obs2, log2
    return rc, obs, log


def run_model(lines, tag):
    exe, err = C.build_driver()
    if exe is None:
        return None, err
    ops = os.path.join(C.BUILD, f'{tag}.mops')
    open(ops, 'w').write('\n'.join(lines) + '\n')
    return C.run_driver(exe, ops, os.path.join(C.BUILD, f'{tag}.model')), ''


def geometry(binary):
    rc, obs, log = run_impl(binary, ['c20.info'], 'c20-info', timeout=120)
    if rc != 0 or not obs[0]:
        raise C.Infra('c20.info failed: ' + log[-1500:])
    kv = dict(p.split('=', 1) for p in obs[0].split())
    g = {k: int(kv[k]) for k in ('min', 'max', 'off', 'fentry', 'fend', 'pagesize')}
    g['fname'], g['perms'] = kv['fname'], kv['perms']
    return g


# ------------------------------------------------------------------ generators

def gen_seq_line(rng, g, pristine, hist):
    """One sequential history: requests until the reserve is exhausted, then a few more."""
    mn, mx = g['min'], g['max']
    size = mx - mn
    if pristine:
        off = g['off']
    else:
        m = rng.below(6)
        # m == 5: the pointer already beyond max (the permanent state after a lost race near exhaustion)
        off = (mn if m == 0 else mx - rng.below(300) if m == 1 else mx if m == 2 else mx + 1 + rng.below(200) if m == 5
               else mn + rng.below(size + 1))
    profile = rng.below(6)
    reqs = []
    cur = off
    extra = 0
    nm = 0
    while extra < 4 and len(reqs) < 20000:
        rem = mx - cur
        r = rng.below(100)
        kind = 'h'
        if profile == 0:
            n = 48                                           # interfaceJumpDataLen
        elif profile == 1:
            n = 1 + rng.below(256)
        elif profile == 2:
            n = 1 + rng.below(16)
        elif profile == 3:
            n = rng.choice([0, 1, 13, 48, 64, 100, 1000, 4096, rem, rem + 1, max(rem - 1, 0), size, size + 1, 1 + rng.below(size)])
        elif profile == 4:
            n = 1 + rng.below(2048)
        else:
            n = rng.choice([48, 48, 48, 1 + rng.below(512), rem, rem + 1])
        if r < 6:                                            # the kernel refuses: Acquire falls back to the reserve
            kind = 'f'
            n = rng.choice([0, 0, 1 << 47, (1 << 47) + rng.below(1 << 20), 1 << 50, (1 << 62) - rng.below(4096), 1 << 62])
        elif r < 12 and nm < 40:                             # the kernel grants: Acquire must not touch the reserve
            kind = 'm'
            nm += 1
            n = rng.choice([1, 48, 48, 4095, 4096, 4097, 1 + rng.below(1 << 16), 1 + rng.below(1 << 20)])
        elif r < 22:                                         # the real Acquire with new mappings denied (RLIMIT_AS): the fallback
            kind = 'd'                                       # serves requests that fit, not only 0 and >= 2^47
        elif r < 26:                                         # the whole int domain: negative lengths
            kind = rng.choice(['h', 'f', 'd'])
            n = -rng.choice([1, 8, 8, 48, 1 + rng.below(4096), max(cur - mn, 1), 1 << 40, (1 << 62) - rng.below(9)])
        reqs.append(f'{kind}{n}')
        hist['req_kind'][kind] = hist['req_kind'].get(kind, 0) + 1
        if n < 0:
            extra += 0 if len(reqs) < 400 else 1
        elif kind != 'm':
            if cur + n <= mx:
                cur += n
            else:
                extra += 1
    start = f'pristine:{off}' if pristine else str(off)
    return f'c20.seq {start} {mn} {mx} ' + ' '.join(reqs)


def gen_crun_small(rng, g):
    """Short stamped concurrent history near exhaustion (validated by the full `admits` search)."""
    mn, mx = g['min'], g['max']
    T = 2 + rng.below(3)
    rem = rng.choice([0, 1, 8, 16, 40, 48, 64, 100, 120, rng.below(160)])
    per = []
    for _ in range(T):
        k = 1 + rng.below(3)
        per.append(','.join(('a' if rng.below(8) == 0 else '') + str(rng.choice([1, 8, 16, 48, 1 + rng.below(64), rem, rem + 1, max(rem // 2, 1)]))
                            for _ in range(k)))
    return f'c20.crun {mx - rem} {mn} {mx} stamps ' + '/'.join(per)


def gen_crun_acquire(rng, g):
    """Concurrent callers of the real Acquire on the primary path (mappings granted), mixed with reserve requesters."""
    mn, mx = g['min'], g['max']
    T = rng.choice([4, 8, 16])
    k = 20 + rng.below(40)
    per = []
    for t in range(T):
        mixed = rng.below(3) == 0
        per.append(','.join(('' if mixed and rng.below(2) else 'a') + str(rng.choice([48, 48, 12, 24, 1 + rng.below(200)])) for _ in range(k)))
    return f'c20.crun {mn} {mn} {mx} nostamps ' + '/'.join(per)


def gen_crun_large(rng, g, tier, unit=None):
    """Many requesters, many small requests from an empty reserve to exhaustion: the race window is hit thousands of times."""
    mn, mx = g['min'], g['max']
    size = mx - mn
    T = rng.choice([2, 4, 8, 16, 16])
    lo, hi = unit or rng.choice([(2, 8), (4, 12), (16, 48), (48, 48), (8, 8)])
    avg = (lo + hi) / 2
    total = int(size / avg * 1.15) + 3 * T
    k = max(total // T, 2)
    per = [','.join(str(lo + rng.below(hi - lo + 1)) for _ in range(k)) for _ in range(T)]
    off = mn if rng.below(4) else mn + rng.below(size // 2)
    return f'c20.crun {off} {mn} {mx} {"nostamps" if rng.below(2) else "stamps"} ' + '/'.join(per)


def gen_owrite(rng, g):
    """One write of dataLen bytes into a region of regionLen bytes: shorter, equal, and LONGER than the region."""
    rl = rng.choice([1, 12, 16, 24, 48, 48, 64, 100, 1 + rng.below(1024)])
    dl = rng.choice([0, rl, rl, max(rl - 1, 0), rl + 1, rl + 8, rl + rng.below(64), rng.below(rl + 1), 12, 24])
    return f'c20.owrite {rng.choice(["m", "h"])} {rl} {min(dl, 4000)}'


def gen_writes(rng, g):
    """One region, written n times through stub.Write (both paths; reserve regions also across a page boundary)."""
    path = rng.choice(['m', 'h'])
    n = rng.choice([1, 16, 48, 48, 64, 4096, 5000]) if path == 'm' else rng.choice([1, 16, 48, 48, 64, 4096, 5000, 9000])
    return f'c20.writes {path} {n} {1 + rng.below(6)}'


def gen_cwrite(rng, g, tier):
    """Concurrent writers on the reserve: regions dealt round-robin, so every code page is shared by several writers."""
    W = rng.choice([2, 4, 8, 8, 16])
    per = 1 + rng.below(4)
    n = rng.choice([16, 48, 48, 64, 100])
    rounds = (6000 if tier == 'quick' else 15000) // (per * max(W // 4, 1))
    off = g['min'] + rng.below(g['max'] - g['min'] - W * per * n)
    return f'c20.cwrite {off} {g["min"]} {g["max"]} {W} {per} {n} {max(rounds, 50)}'


# ------------------------------------------------------------------ the property on the implementation's observations

def oracle_info(g):
    bad = []
    if 'Placeholder' not in g['fname']:
        bad.append(f'the reserve is not inside the placeholder function but in {g["fname"]}')
    if not (g['fentry'] <= g['min'] <= g['max'] <= g['fend']):
        bad.append(f'reserve [{g["min"]},{g["max"]}) is not inside the placeholder function [{g["fentry"]},{g["fend"]})')
    if not (g['min'] <= g['off'] <= g['max']):
        bad.append('initial offset outside the reserve')
    if any('x' not in p for p in g['perms'].split(',')):
        bad.append('reserve is not executable: ' + g['perms'])
    return bad


_H = re.compile(r'^H\+(-?\d+):(-?\d+)((?:![a-z0-9-]+)*)$')
_M = re.compile(r'^M:(\d+)((?:![a-z0-9-]+)*)$')


def oracle_seq(line, obs, g):
    """Property on one sequential history. Returns (why or None, stats)."""
    st = {'H': 0, 'M': 0, 'E': 0}
    if obs is None:
        return 'no observation (the probe process died while running this history)', st
    if obs.startswith('env-mismatch') or obs == 'bad-op':
        return None, st
    toks = line.split()
    reqs = toks[4:]
    res = obs.split()
    if len(res) != len(reqs) + 1:
        return f'{len(res) - 1} results for {len(reqs)} requests', st
    size = g['max'] - g['min']
    regions = []
    for rq, r in zip(reqs, res):
        n = int(rq[1:])
        if r == '!nil-and-err':
            return f'request {rq}: Acquire returned neither a space nor an error (or both)', st
        if n < 0 and r != 'E':
            return (f'request {rq}: a negative length is not refused — observed {r}; the region has a negative length and the bump '
                    f'pointer moves backwards, so later regions overlap earlier ones'), st
        if r == 'E':
            st['E'] += 1
            if rq[0] == 'm':
                return f'request {rq}: the kernel grants the mapping but Acquire failed', st
            continue
        m = _H.match(r)
        if m:
            st['H'] += 1
            a, ln, flags = int(m.group(1)), int(m.group(2)), m.group(3)
            if flags:
                return f'request {rq}: region {r} failed the probe checks {flags}', st
            if rq[0] == 'm':
                return f'request {rq}: the kernel grants the mapping but the reserve was used', st
            if ln < n:
                return f'request {rq}: region {r} is shorter than requested', st
            if a < 0 or a + ln > size or g['min'] + a < g['fentry'] or g['min'] + a + ln > g['fend']:
                return f'request {rq}: region {r} is outside the reserve of {size} bytes (placeholder function: {g["fend"] - g["fentry"]} bytes)', st
            regions.append((a, ln, rq))
            continue
        m = _M.match(r)
        if m:
            st['M'] += 1
            if m.group(2):
                return f'request {rq}: mapping failed the probe checks {m.group(2)}', st
            if int(m.group(1)) < n:
                return f'request {rq}: mapping shorter than requested', st
            if rq[0] != 'm':
                return f'request {rq}: got a mapping although the kernel refuses this size', st
            continue
        return f'request {rq}: unexpected observation {r}', st
    ne = sorted((a, ln, rq) for a, ln, rq in regions if ln > 0)
    for (a, ln, rq), (b, lb, rb) in zip(ne, ne[1:]):
        if a + ln > b:
            return f'regions H+{a}:{ln} ({rq}) and H+{b}:{lb} ({rb}) overlap', st
    return None, st


def oracle_writes(line, obs):
    """Every one of the n writes through stub.Write must go through and read back."""
    if obs is None:
        return 'no observation (the probe process died while running this line)'
    if obs.startswith('env-mismatch') or obs == 'bad-op':
        return None
    if not obs.startswith('ok'):
        _, path, n, k = line.split()
        what = {'fault': 'faulted', 'err': 'returned an error', 'readback': 'did not store the bytes'}.get(obs.split('@')[0], obs)
        return (f'a {n}-byte region of the {"mmap" if path == "m" else "reserve"} path is not writable through stub.Write on write '
                f'#{obs.split("@")[-1]} of {k}: the writer {what}')
    return None


def oracle_owrite(line, obs):
    """A write through stub.Write stays inside the region it was given and stores all of the data, or is refused."""
    if obs is None:
        return 'no observation (the probe process died while running this line)'
    if obs.startswith('env-mismatch') or obs == 'bad-op':
        return None
    _, path, rl, dl = line.split()
    where = 'mmap' if path == 'm' else 'reserve'
    if obs == 'fault':
        return f'stub.Write of {dl} bytes into a {rl}-byte {where} region faulted'
    if obs == 'err-but-wrote':
        return f'stub.Write of {dl} bytes into a {rl}-byte {where} region returned an error but changed memory'
    if obs == 'err':
        if int(dl) <= int(rl):
            return f'a {rl}-byte {where} region is not writable through stub.Write: {dl} bytes that fit were refused'
        return None
    kv = dict(x.split('=') for x in obs.split())
    if int(kv['beyond']):
        return (f'stub.Write of {dl} bytes into a {rl}-byte {where} region returned nil and overwrote {kv["beyond"]} bytes beyond the '
                f'region (the neighbouring region\'s bytes)')
    if int(kv['dropped']):
        return f'stub.Write of {dl} bytes into a {rl}-byte {where} region returned nil but silently dropped {kv["dropped"]} bytes'
    return None


def oracle_cwrite(line, obs):
    """Writers that write only their own (disjoint) reserve regions must never fault, fail or lose their bytes."""
    st = {'writes': 0, 'shared_pages': 0}
    if obs is None:
        return 'no observation (the probe process died while running this line)', st
    if obs.startswith('env-mismatch') or obs == 'bad-op':
        return None, st
    kv = dict(x.split('=', 1) for x in obs.split())
    st['writes'], st['shared_pages'] = int(kv['writes']), int(kv['shared_pages'])
    if int(kv['faults']) or int(kv['errs']) or int(kv['mismatches']):
        t = line.split()
        return (f'{t[4]} concurrent writers, each writing only its own {t[6]}-byte reserve regions through stub.Write: faults={kv["faults"]} '
                f'errors={kv["errs"]} lost-bytes={kv["mismatches"]} after {kv["writes"]} writes (first: {kv["first"]})'), st
    return None, st


def parse_crun(line, obs):
    toks = line.split()
    per = [p.split(',') for p in toks[5].split('/')]
    lens, thread, via = [], [], []
    for t, p in enumerate(per):
        for x in p:
            via.append(x.startswith('a'))
            lens.append(int(x.lstrip('a')))
            thread.append(t)
    ot = obs.split()
    head = dict(x.split('=', 1) for x in ot if '=' in x and ':' not in x)
    recs = []
    for x in ot:
        if x.count(':') == 2:
            i, r, res = x.split(':')
            recs.append((int(i), int(r), res))
    return {'off': int(toks[1]), 'min': int(toks[2]), 'max': int(toks[3]), 'stamps': toks[4] == 'stamps', 'lens': lens, 'thread': thread,
            'via_acquire': via, 'clobbered': int(head['clobbered']), 'final': int(head['off'][1:]), 'recs': recs, 'T': len(per),
            'sliceflaws': int(head.get('sliceflaws', 0)), 'mmapdup': int(head.get('mmapdup', 0))}


def holder_history(h):
    """The reserve's part of a concurrent history (requests answered with a mapping never touched the bump pointer)."""
    keep = [i for i, r in enumerate(h['recs']) if r[2] != 'm']
    if len(keep) == len(h['recs']):
        return h
    k = dict(h)
    k['lens'] = [h['lens'][i] for i in keep]
    k['recs'] = [h['recs'][i] for i in keep]
    k['thread'] = [h['thread'][i] for i in keep]
    return k


def oracle_crun(line, obs, g=None):
    """Property on one concurrent run. Returns (why, history, stats)."""
    st = {'requests': 0, 'ok': 0, 'err': 0, 'duplicates': 0, 'overlapping_pairs_in_time': 0}
    if obs is None:
        return 'no observation (the probe process died while running this history)', None, st
    if obs.startswith('env-mismatch') or obs == 'bad-op':
        return None, None, st
    if obs.startswith('!'):
        return 'writing through stub.Write failed: ' + obs, None, st
    h = parse_crun(line, obs)
    if len(h['recs']) != len(h['lens']):
        return 'result count differs from request count', h, st
    size = h['max'] - h['min']
    st['requests'] = len(h['lens'])
    regs = []
    if h['mmapdup']:
        return (f'{h["mmapdup"]} mappings handed out to concurrent callers of Acquire overlap another mapping or the reserve'), h, st
    if h['sliceflaws']:
        return f'{h["sliceflaws"]} concurrent requests received a slice that is not the returned region (start / length)', h, st
    for i, ((_, _, res), n) in enumerate(zip(h['recs'], h['lens'])):
        if res == 'e':
            st['err'] += 1
            if h['via_acquire'][i] and 0 < n <= 1 << 20:
                return f'request #{i}: Acquire({n}) failed although the kernel grants such mappings', h, st
            continue
        st['ok'] += 1
        if res == 'm':
            st['mapped'] = st.get('mapped', 0) + 1
            continue
        a = int(res[1:])
        if a < 0 or a + n > size or (g is not None and (h['min'] + a < g['fentry'] or h['min'] + a + n > g['fend'])):
            return f'request #{i} (len {n}) got [{a},{a + n}) outside the reserve of {size} bytes', h, st
        if n > 0:
            regs.append((a, n, i))
    regs.sort()
    why = None
    for (a, n, i), (b, m, j) in zip(regs, regs[1:]):
        if a + n > b:
            st['duplicates'] += 1
            if why is None:
                why = (f'requests #{i} (requester {h["thread"][i]}, len {n}) and #{j} (requester {h["thread"][j]}, len {m}) '
                       f'received overlapping regions [+{a},+{a + n}) and [+{b},+{b + m})')
    if why is None and h['clobbered']:
        why = f'{h["clobbered"]} regions lost the pattern written through stub.Write (another region overlaps them)'
    if h['stamps']:
        ev = sorted((r[0], r[1]) for r in h['recs'])
        # pairs of requests of different requesters whose [inv,resp] intervals intersect (measured concurrency)
        act = []
        for inv, resp in ev:
            act = [x for x in act if x > inv]
            st['overlapping_pairs_in_time'] += len(act)
            act.append(resp)
    return why, h, st


def admits_line(h):
    """Driver line for the full search (short stamped histories)."""
    evs = []
    for i, (inv, resp, _) in enumerate(h['recs']):
        evs.append((inv, f'i{i}'))
        evs.append((resp, f'r{i}'))
    evs.sort()
    res = ','.join('e' if r[2] == 'e' else r[2] for r in h['recs'])
    return f'c20.admits {h["off"]} {h["min"]} {h["max"]} {",".join(map(str, h["lens"]))} {res} {",".join(e for _, e in evs)}'


def explains_line(h):
    """Candidate schedule for a long history: successful requests in address order, each running alone; if some refused
    request would still have fit at the end, one refused requester loads first and adds last (it pushes the pointer
    beyond max, which is what makes the later small requests fail in the real run too)."""
    off0, mx, mn = h['off'], h['max'], h['min']
    oks = sorted((int(r[2][1:]), 1 if n > 0 else 0, i) for i, (r, n) in enumerate(zip(h['recs'], h['lens'])) if r[2] != 'e')
    errs = [i for i, r in enumerate(h['recs']) if r[2] == 'e']
    end = off0 + sum(h['lens'][i] for _, _, i in oks)
    needy = [i for i in errs if end + h['lens'][i] <= mx]
    sched = []
    late = None
    if needy:
        for i in errs:
            if off0 + h['lens'][i] <= mx < end + h['lens'][i]:
                late = i
                break
    if late is not None:
        sched += [late, late]
    for _, _, i in oks:
        sched += [i] * 5
    if late is not None:
        sched += [late] * 3
    for i in errs:
        if i != late:
            sched += [i] * 5
    res = ','.join('e' if r[2] == 'e' else r[2] for r in h['recs'])
    return (f'c20.explains {off0} {mn} {mx} {",".join(map(str, h["lens"]))} {res} {",".join(map(str, sched)) or "-"}')


# ------------------------------------------------------------------ run

def plan(tier, rng, g, widen, hist):
    """Lines per probe process."""
    nproc, nseq, nsmall, nlarge = (3, 120, 150, 6) if tier == 'quick' else (8, 600, 800, 20)
    if widen:
        nlarge *= 10
        nsmall *= 3
    procs = []
    for p in range(nproc):
        lines = [gen_seq_line(rng, g, True, hist)]
        for _ in range(nseq - 1):
            lines.append(gen_seq_line(rng, g, False, hist))
        for _ in range(nsmall):
            lines.append(gen_crun_small(rng, g))
        for _ in range(12 if tier == 'quick' else 60):
            lines.append(gen_writes(rng, g))
        for _ in range(25 if tier == 'quick' else 150):
            lines.append(gen_owrite(rng, g))
        for _ in range(2 if tier == 'quick' else 10):
            lines.append(gen_crun_acquire(rng, g))
        for _ in range(4 if tier == 'quick' else 8):
            lines.append(gen_cwrite(rng, g, tier))
        for k in range(nlarge):
            unit = (1, 1) if (tier == 'thorough' or widen) and k == 0 and p % 2 == 0 else None
            lines.append(gen_crun_large(rng, g, tier, unit))
        procs.append(lines)
    return procs


def corpus_lines(g):
    """Past failures and hand-picked boundary histories, run first."""
    mn, mx = g['min'], g['max']
    size = mx - mn
    return [
        f'c20.seq {mn} {mn} {mx} h{size} h0 h1 f0',
        f'c20.seq {mn} {mn} {mx} h{size + 1} h{size - 1} h1 h1',
        f'c20.seq {mx} {mn} {mx} h0 f0 h1 f{1 << 47}',
        f'c20.seq {mx - 48} {mn} {mx} h48 h48 m48 f0',
        f'c20.seq {mn} {mn} {mx} f{1 << 62} f{(1 << 62) - 1} h48 m1 m4096',
        f'c20.crun {mn} {mn} {mx} nostamps ' + '/'.join([','.join(['1'] * 300)] * 16),   # F12: 1-byte requests, 16 requesters
        f'c20.crun {mx - 100} {mn} {mx} stamps 48,48/48,48/48,48',
        f'c20.seq {mn} {mn} {mx} h48 f-8 h48 h-1 d-48 h48',                                        # F27: negative length rewinds the pointer
        f'c20.seq {mn} {mn} {mx} d48 d48 d{size} d48 d0 d1',                                       # Acquire's fallback with requests that fit
        'c20.owrite h 16 24', 'c20.owrite m 16 24', 'c20.owrite h 48 12', 'c20.owrite m 48 24',    # F28: Write ignores the region length
        f'c20.crun {mn} {mn} {mx} nostamps ' + '/'.join([','.join(['a48'] * 40)] * 8),             # concurrent Acquire on the primary path
        'c20.writes m 48 4', 'c20.writes h 48 4', 'c20.writes m 4097 2', 'c20.writes h 5000 3',   # seed c20-4: second write to a mapping
        f'c20.cwrite {mn} {mn} {mx} 8 2 48 {3000 if True else 0}',                                   # seed c20-2: writers on shared pages
    ]


def quick_scan(lines, obs, g):
    """Does any history of this process already violate the property?"""
    for line, o in zip(lines, obs):
        if line.startswith('c20.seq') and oracle_seq(line, o, g)[0]:
            return True
        if line.startswith('c20.crun') and oracle_crun(line, o, g)[0]:
            return True
        if line.startswith('c20.writes') and oracle_writes(line, o):
            return True
        if line.startswith('c20.owrite') and oracle_owrite(line, o):
            return True
        if line.startswith('c20.cwrite') and oracle_cwrite(line, o)[0]:
            return True
    return False


def classify_crash(out, tag, lines, obs, log):
    for i, o in enumerate(obs):
        if o is None:
            out.violation(f'the probe process died while running `{lines[i][:200]}`', {'kind': 'crash', 'ops': [lines[i]], 'log': log[-1500:],
                          'how': 'python3 check.py C20 --replay <this file>'})
            return True
    return False


def run(tier):
    out = C.Outcome('C20', tier)
    rng = C.Rng(C.seed()).fork('C20')
    ok, msg, changed = regen_stub()
    if ok:
        proof = C.prove('C20', leanchecker=(tier == 'thorough'))
    else:
        proof = {'ok': False, 'failed': [('tools/genstub', msg)], 'obligations': len(C.theorem_names('C20')), 'discharged': 0, 'cmds': [],
                 'axioms': {}, 'output': msg}
    binary = build_probe()
    g = geometry(binary)
    hist = {'req_kind': {}}
    widen = not proof['ok']
    if widen:
        C.log('C20: proof obligations do not check; widening the search for a failing input x10')
    procs = [corpus_lines(g)] + plan(tier, rng, g, widen, hist)
    t_impl = time.time()
    all_lines, all_obs = [], []
    crashed = False
    for p, lines in enumerate(procs):
        rc, obs, log = run_impl_twice(binary, lines, f'c20-p{p}', 1800 if tier == 'quick' else 7200)
        if rc != 0 and classify_crash(out, f'c20-p{p}', lines, obs, log):
            crashed = True
        all_lines += lines
        all_obs += obs
        if crashed or quick_scan(lines, obs, g):
            break            # a failing input is on the table; the remaining processes would only repeat it
    t_impl = time.time() - t_impl

    # 1. the property on the implementation
    bad = []
    for why in oracle_info(g):
        bad.append(('c20.info', why, None))
    stats = {'seq_histories': 0, 'seq_requests': 0, 'H': 0, 'M': 0, 'E': 0, 'conc_histories_short': 0, 'conc_histories_long': 0,
             'conc_requests': 0, 'conc_ok': 0, 'conc_err': 0, 'duplicates': 0, 'time_overlapping_request_pairs': 0,
             'conc_histories_with_time_overlap': 0, 'env_mismatch': 0, 'seq_histories_exhausted': 0}
    crun = []
    distinct = set()
    for line, obs in zip(all_lines, all_obs):
        if obs is not None and obs.startswith('env-mismatch'):
            stats['env_mismatch'] += 1
            continue
        if line.startswith('c20.seq'):
            why, st = oracle_seq(line, obs, g)
            stats['seq_histories'] += 1
            stats['seq_requests'] += len(line.split()) - 4
            for k in 'HME':
                stats[k] += st[k]
            if st['E']:
                stats['seq_histories_exhausted'] += 1
            if obs:
                for rq, r in zip(line.split()[4:], obs.split()):
                    if r != 'E':
                        distinct.add((rq, r))
            if why:
                bad.append((line, why, obs))
        elif line.startswith('c20.owrite'):
            stats['length_mismatched_writes'] = stats.get('length_mismatched_writes', 0) + 1
            why = oracle_owrite(line, obs)
            if why:
                bad.append((line, why, obs))
        elif line.startswith('c20.writes'):
            stats['write_histories'] = stats.get('write_histories', 0) + 1
            stats['writes_sequential'] = stats.get('writes_sequential', 0) + int(line.split()[3])
            why = oracle_writes(line, obs)
            if why:
                bad.append((line, why, obs))
        elif line.startswith('c20.cwrite'):
            why, st = oracle_cwrite(line, obs)
            stats['concurrent_writer_runs'] = stats.get('concurrent_writer_runs', 0) + 1
            stats['concurrent_writes'] = stats.get('concurrent_writes', 0) + st['writes']
            stats['concurrent_writer_shared_pages'] = stats.get('concurrent_writer_shared_pages', 0) + st['shared_pages']
            if why:
                bad.append((line, why, obs))
        elif line.startswith('c20.crun'):
            why, h, st = oracle_crun(line, obs, g)
            short = len(line.split()[5].split(',')) < 20
            stats['conc_histories_short' if short else 'conc_histories_long'] += 1
            stats['conc_requests'] += st['requests']
            stats['conc_ok'] += st['ok']
            stats['conc_err'] += st['err']
            stats['duplicates'] += st['duplicates']
            stats['time_overlapping_request_pairs'] += st['overlapping_pairs_in_time']
            if st['overlapping_pairs_in_time']:
                stats['conc_histories_with_time_overlap'] += 1
            if h is not None:
                for r, n in zip(h['recs'], h['lens']):
                    if r[2] != 'e':
                        distinct.add(('c', n, r[2]))
            if why:
                bad.append((line, why, obs))
            elif h is not None:
                stats['conc_requests_via_acquire'] = stats.get('conc_requests_via_acquire', 0) + st.get('mapped', 0)
                if holder_history(h)['lens']:
                    crun.append((line, holder_history(h), short))
    bad.sort(key=lambda b: len(b[0]))          # smallest failing history first
    # floors: a lane that silently ran nothing must not pass (machinery error, exit 2 — not a statement about the property)
    if not bad and not crashed:
        total = len(all_lines)
        if stats['env_mismatch'] * 10 > total:
            raise C.Infra(f'{stats["env_mismatch"]} of {total} histories could not be run as generated (env-mismatch: reserve geometry, '
                          f'kernel answers or RLIMIT_AS differ from what the generator assumed); nothing concluded')
        need = {'seq_histories': 50, 'seq_requests': 2000, 'conc_histories_short': 50, 'conc_histories_long': 5, 'conc_requests': 5000,
                'write_histories': 5, 'length_mismatched_writes': 10, 'concurrent_writer_runs': 2, 'conc_requests_via_acquire': 100}
        low = {k: stats.get(k, 0) for k, v in need.items() if stats.get(k, 0) < v}
        if stats['M'] < 20 or stats['H'] < 500 or stats['E'] < 50:
            low['sequential outcomes H/M/E'] = (stats['H'], stats['M'], stats['E'])
        if low:
            raise C.Infra(f'lanes below their floor (generated but not evaluated): {low}')
    for line, why, obs in bad[:3]:
        short_line = line if len(line) < 4000 else line[:4000] + '…'
        out.violation(f'{why}  [{short_line[:160]}]', {'kind': 'impl-oracle', 'ops': [line], 'observed': (obs or '')[:4000], 'why': why,
                                                       'how': 'python3 check.py C20 --replay <this file>  (concurrent histories are re-run up to 30 times)'})

    # 2. correspondence: differential run of the sequential histories, trace validation of the concurrent ones
    seq_idx = [i for i, l in enumerate(all_lines) if l.startswith(('c20.seq', 'c20.writes', 'c20.owrite')) and all_obs[i] is not None and not all_obs[i].startswith('env-mismatch')]
    mlines = [all_lines[i].replace('pristine:', '') for i in seq_idx]
    vlines, vsrc = [], []
    budget = {'short': 500 if tier == 'quick' else 12000, 'long': 26 if tier == 'quick' else 250, 'skipped': 0}
    for line, h, short in ([] if bad else crun):     # trace validation is pointless once the property itself failed
        kind = 'short' if short and h['stamps'] else 'long'
        if budget[kind] <= 0 or len(h['lens']) > (5000 if tier == 'quick' else 16000):
            budget['skipped'] += 1     # (the widened search issues far more histories than need to be validated against the model)
            continue
        budget[kind] -= 1
        if short and h['stamps']:
            vlines.append(admits_line(h))
        else:
            vlines.append(explains_line(h))
        vsrc.append(line)
    t_model = time.time()
    model, derr = run_model(mlines + vlines, 'c20')
    t_model = time.time() - t_model
    diffs = []
    validated = {'admitted': 0, 'explained': 0}
    if model is None:
        proof['failed'].append(('goomdrv', 'driver does not build: ' + derr[-800:]))
        proof['ok'] = False
    else:
        for k, i in enumerate(seq_idx):
            if model[k] != all_obs[i]:
                diffs.append((all_lines[i], all_obs[i], model[k]))
        for k, v in enumerate(vlines):
            ans = model[len(mlines) + k]
            if ans in validated:
                validated[ans] += 1
            else:
                diffs.append((vsrc[k], 'observed history: ' + v[:3000], ans))
    if not bad and not crashed:
        if not ok:
            # the extractor rejected the source: Gen/StubHolder.lean on disk is not a translation of THIS tree, so a
            # difference between model and implementation means nothing; the broken obligation is the translation itself
            out.violation(f'tools/genstub cannot translate the current source ({msg}) — the model no longer describes the code — and the '
                          'widened search found no failing input',
                          {'kind': 'translator', 'broken': proof['failed'], 'searched_requests': stats['seq_requests'] + stats['conc_requests']},
                          no_failing_input=True)
        elif diffs:
            line, a, b = diffs[0]
            out.violation(f'model and implementation disagree on `{line[:160]}`',
                          {'kind': 'correspondence', 'ops': [line], 'impl': a[:4000], 'model': b[:4000],
                           'broken': 'correspondence Model/Stub.lean (+Gen/StubHolder.lean) vs the real allocator', 'n_disagreements': len(diffs)},
                          no_failing_input=True)
        elif not proof['ok']:
            out.violation('proof obligations of Props/C20.lean no longer check against the regenerated Gen/StubHolder.lean and the widened '
                          'search found no failing input', {'kind': 'proof', 'broken': proof['failed'], 'searched_requests':
                                                            stats['seq_requests'] + stats['conc_requests'], 'output': proof.get('output', '')[-3000:]},
                          no_failing_input=True)
    evals = stats['seq_requests'] + stats['conc_requests']
    out.coverage = {
        'obligations': proof['obligations'], 'discharged': proof['discharged'],
        'checker_cmd': ' ; '.join(proof['cmds']),
        'trusted_base': ['Lean 4.33 kernel', 'axioms: ' + ', '.join(sorted({a for v in proof['axioms'].values() for a in v}) or ['none']),
                         'tools/genstub (skeleton matcher + expression translator for holder.go; cross-checked by the differential run below)',
                         'micro-step structure of Model/Stub.lean (atomic load / atomic add are single steps)',
                         'kernel: a granted anonymous mapping is fresh and RWX (checked per request: /proc/self/maps, write, call)',
                         'runtime pclntab as the independent extent of the placeholder function'],
        'theorems': proof['axioms'], 'proof_failures': proof['failed'],
        'evaluations': evals, 'distinct_nontrivial': len(distinct),
        'traces_validated_against_impl': len(seq_idx) - sum(1 for d in diffs if d[0].startswith('c20.seq')) + validated['admitted'] + validated['explained'],
        'rule': 'one evaluation = one request issued to the real allocator (Acquire or acquireFromHolder); non-trivial = request that returned a '
                'region, distinct by (request kind+size, region offset); a trace = one whole sequential history compared with the model, or one '
                'concurrent history accepted by admits (full interleaving search, short histories) / explains (candidate schedule replayed)',
        'distribution': dict(stats, request_kinds_sequential=hist['req_kind'], admitted_by_search=validated['admitted'],
                             explained_by_schedule=validated['explained'], conc_histories_not_validated=budget['skipped'], reserve_bytes=g['max'] - g['min'],
                             placeholder=g['fname'], probe_processes=len(procs), widened=widen, gen_changed_this_run=changed,
                             impl_seconds=round(t_impl, 1), model_seconds=round(t_model, 1)),
        'samples': [{'op': l[:300], 'impl': (o or '')[:300]} for l, o in list(zip(all_lines, all_obs))[:3] + list(zip(all_lines, all_obs))[-2:]],
    }
    out.assumptions = ['atomic.LoadUintptr / atomic.AddUintptr are single indivisible steps', 'the kernel returns fresh RWX mappings',
                       'requesters x reserve size < 2^63', 'request lengths are non-negative ints']
    return out.finish()


def replay(body):
    binary = build_probe()
    g = geometry(binary)
    rc_all = 0
    for line in body.get('ops', []):
        if line.startswith('c20.crun'):
            worst = None
            runs = 30
            for k in range(runs):
                rc, obs, log = run_impl(binary, [line], 'c20-replay', timeout=300)
                why, h, st = oracle_crun(line, obs[0], g)
                if why:
                    worst = (k, why, st)
                    break
            if worst:
                print(f'{line[:200]}\n  run {worst[0] + 1}/{runs}: {worst[1]}\n  {worst[2]}')
                rc_all = 1
            else:
                print(f'{line[:200]}\n  {runs} runs: property holds on every observed history')
        elif line.startswith('c20.owrite'):
            rc, obs, log = run_impl(binary, [line], 'c20-replay', timeout=300)
            why = oracle_owrite(line, obs[0])
            model, _ = run_model([line], 'c20-replay')
            print(f'{line}\n  impl : {obs[0]}\n  model: {model[0] if model else ""}\n  oracle: {why or "ok"}')
            if why or (model and obs[0] and not obs[0].startswith('env-mismatch') and model[0] != obs[0]):
                rc_all = 1
        elif line.startswith('c20.writes'):
            rc, obs, log = run_impl(binary, [line], 'c20-replay', timeout=300)
            why = oracle_writes(line, obs[0])
            model, _ = run_model([line], 'c20-replay')
            print(f'{line}\n  impl : {obs[0]}\n  model: {model[0] if model else ""}\n  oracle: {why or "ok"}')
            if why or (model and obs[0] and model[0] != obs[0]):
                rc_all = 1
        elif line.startswith('c20.cwrite'):
            hit = None
            for k in range(10):
                rc, obs, log = run_impl(binary, [line], 'c20-replay', timeout=300)
                why, st = oracle_cwrite(line, obs[0])
                if why:
                    hit = (k, why)
                    break
            print(f'{line}\n  ' + (f'run {hit[0] + 1}/10: {hit[1]}' if hit else '10 runs: no writer faulted, failed or lost bytes'))
            if hit:
                rc_all = 1
        elif line.startswith('c20.seq'):
            rc, obs, log = run_impl(binary, [line], 'c20-replay', timeout=300)
            why, st = oracle_seq(line, obs[0], g)
            model, _ = run_model([line.replace('pristine:', '')], 'c20-replay')
            print(f'{line[:300]}\n  impl : {(obs[0] or "")[:600]}\n  model: {(model[0] if model else "")[:600]}\n  oracle: {why or "ok"}')
            if why or (model and obs[0] and not obs[0].startswith('env-mismatch') and model[0] != obs[0]):
                rc_all = 1
        else:
            print('geometry:', g, oracle_info(g) or 'ok')
            if oracle_info(g):
                rc_all = 1
    return rc_all


def regen_setup():
    return regen_stub()[:2]
