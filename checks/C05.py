"""C05 — result sequences are served in order, stick at the last element, and stay safe under concurrent callers.

Tie T (constants): `harness/c05/extract` (go/ast) re-derives `Gen/Cursor.lean` — the comparison operators and constants of
`(*BaseMatcher).Result` — from the current matcher.go on every run; the theorems of Props/C05.lean are re-checked against it.
Tie X: an in-package probe drives goom's real public API (Create/Func/Struct/Interface, When/In/Return/AndReturn/Returns) and
the real `Result()` on the same operation lines as the Lean model (`goomdrv`), sequentially; concurrently, G goroutines released
from a spin barrier hammer one stubbed target and log stamped invocations/responses, and every observed history is validated
against the micro-step model (`admits`, for which `admits_sound` is proved).  The property oracle below is applied to what the
implementation did, independently of the model.
"""
import os
import subprocess
import sys
import time

from vlib import common as C

PROP = 'C05'

# the probes must not inherit knobs that change what goom or the Go runtime do (debug logging, race/GC/scheduler settings)
for _v in ('GOOM_DEBUG', 'GORACE', 'GODEBUG', 'GOGC', 'GOMAXPROCS', 'GOTRACEBACK', 'GOMEMLIMIT'):
    os.environ.pop(_v, None)
META = {
    'property_id': 'C05',
    'technique': 'Lean 4 theorems about a transcription of BaseMatcher.Result / When.Return/AndReturn/Returns/invoke: sequential '
                 'clause over all sequence lengths, configurations and call lists; concurrent clause over every interleaving of '
                 'load/add micro-steps of any number of threads; constants re-extracted from matcher.go (go/ast); differential run '
                 'against the real API and trace validation of stamped concurrent histories (also under -race)',
    'level': 'proof',
    'level_text': 'Full proof on the model: for every sequence length n>=1 and every list of calls (selecting this stub, other '
                  'conditions or the default in any order) the k-th call selecting a stub gets element min(k,n-1) and no other stub '
                  'moves (calls_kth, all_stubs_served, default_sequence_served, independent, returns_builds_*, matches_builds); for every schedule of any number '
                  'of concurrent callers every returned index is < n, a call invoked after another returned position v returns '
                  '>= min(v+1,n-1) (hence per-caller and real-time monotone, and sticky once the last element was returned), and the '
                  'cursor stays <= n-1+T so the int32 cannot wrap (conc_*); trace validation is sound (admits_sound).',
    'level_note': 'The return-order reading of "once the last element has been returned it is the only one returned" is false '
                  '(def LiteralSticky, literal_sticky_false) and would be false of any implementation, even an atomic one '
                  '(literal_sticky_fails_even_if_atomic: nobody controls when a caller observes its result); the real-time version '
                  '(calls that start after the return) is what is proved and checked. Match/Eval of conditions are assumed pure. '
                  'Trusted: Lean kernel (propext, Classical.choice, Quot.sound), the hand transcription of when.go/mocker.go '
                  '(tied by differential runs on every evaluation), the go/ast extractor, the probe and its stamping. Not modelled: '
                  'reflect.MakeFunc/Call, Go memory model of the non-atomic curNum read on the single-result path (no writer exists '
                  'there; the -race run is the evidence), concurrent reconfiguration while calls run (outside the property).',
}

KINDS = ['f1', 'f2', 'me', 'if', 'v0', 'v1', 'v2', 'vm', 'fe', 'fi', 'fb', 'xf']
NIL_KINDS = ('fe', 'fi', 'fb')      # result type error / interface{} / []byte: token t is configured as nil when t % 5 == 0
SIBLING_KINDS = ('f1', 'me', 'if', 'fe')  # kinds with a second target of the same signature (same builder): `T:k` switches
VARIADIC = {'v0': 0, 'v1': 1, 'v2': 2, 'vm': 1}  # kind -> number of leading fixed parameters
CONC_KINDS = ['f1', 'me', 'if', 'v1', 'v0', 'f2', 'v2', 'vm', 'xf']
OFF2 = 100000  # value offset of the second sequence in `c05.conc … c …` (the probe subtracts it)


# ---------------------------------------------------------------------------------------------------- tie T: constants

def regen_cursor():
    """Re-extract Gen/Cursor.lean from REPO/matcher.go. Returns (ok, message, changed)."""
    exe = os.path.join(C.BUILD, 'c05extract')
    src = os.path.join(C.HARNESS, 'c05', 'extract')
    rc, o, e = C.sh(['go', 'build', '-o', exe, '.'], cwd=src, env=C.goenv())
    if rc != 0:
        raise C.Infra('building harness/c05/extract failed:\n' + e)
    rc, o, e = C.sh([exe, '-repo', C.REPO])
    if rc != 0:
        return False, e.strip(), False
    dst = os.path.join(C.GEN_DIR, 'Cursor.lean')
    old = open(dst).read() if os.path.exists(dst) else None
    if o != old:
        open(dst, 'w').write(o)
        return True, '', True
    return True, '', False


# ---------------------------------------------------------------------------------------------------- generators

def gen_serve(tier):
    top = 12 if tier == 'quick' else 64
    ops = []
    for n in list(range(0, top + 1)) + [100, 1000]:
        for cur in list(range(0, min(n, 70) + 4)) + [2 ** 31 - 2, 2 ** 31 - 1]:
            ops.append(f'c05.serve {n} {cur}')
    return ops


def show_cond(c):
    return 'y' if c[0] == 'y' else c[0] + ','.join(map(str, c[1]))


def cond_hit(c, a):
    return c[0] == 'y' or a in c[1]


def rand_cond(rng, dom):
    r = rng.below(10)
    if rng.chance(1, 14):
        return ('i', [])   # In() without alternatives (e.g. an empty list spread into it): a stub that never matches
    if r == 0:
        return ('y', [])
    if r < 6:
        return ('e', [rng.below(dom)])
    return ('i', sorted({rng.below(dom) for _ in range(1 + rng.below(4))}))


def rand_len(rng):
    r = rng.below(20)
    if r == 0:
        return 20 + rng.below(30) if rng.chance(2, 3) else 100 + rng.below(60)
    if r < 5:
        return 1
    return 2 + rng.below(6)


def vtok(xs):
    """argument list of a variadic target as one token: digit d = argument d-1 ("24" = (1, 3), 0 = no arguments)"""
    return int(''.join(str(x + 1) for x in xs)) if xs else 0


def arg_pool(rng, kind):
    """(tokens a call may use, tokens a condition may use).  Variadic targets: argument lists of two or three arities, several
    per arity, so that same-arity and different-arity conditions are declared back to back."""
    if kind not in VARIADIC:
        dom = 3 + rng.below(6)
        return list(range(dom + 1)), list(range(dom))
    fixed = VARIADIC[kind]
    calls, conds = [], []
    for ar in sorted({fixed + 1 + rng.below(3) for _ in range(2 + rng.below(2))}):
        for _ in range(2 + rng.below(3)):
            t = vtok([rng.below(3) for _ in range(ar)])
            calls.append(t)
            conds.append(t)
    calls.append(vtok([rng.below(3) for _ in range(fixed)]))          # no variadic values at all
    if fixed >= 1 and rng.chance(1, 2):
        conds.append(calls[-1])                                       # a condition that leaves the variadic slot empty (checkParams 0343a50)
    calls.append(vtok([rng.below(3) for _ in range(fixed + 1 + rng.below(3))]))
    return calls, conds


def rand_vals(rng, base, ln):
    """A result sequence in which adjacent positions often carry the same value (v,v,w: a dropped or merged position shows),
    sometimes a value that differs only in the second tuple component of the two-result target (+50), sometimes an earlier value."""
    base += rng.below(5)   # interface/slice-typed targets encode nil / slice / string / int in the token's residue mod 5
    vals, cur = [], base
    for i in range(ln):
        if i:
            r = rng.below(10)
            if r < 4:
                pass
            elif r == 4:
                cur += 50
            elif r == 5:
                cur = base
            else:
                cur += 1
        vals.append(cur)
    return vals


def render(kind, v):
    return 'vnil' if kind in NIL_KINDS and v % 5 == 0 else f'v{v}'


def gen_spec_target(rng, kind, vbase=0):
    """One target inside the scope of the property: (configuration tokens, call tokens, stubs, default)."""
    var = kind in VARIADIC
    call_pool, cond_pool = arg_pool(rng, kind)
    dom = len(cond_pool)
    toks = []
    have_when = False
    dflt = None
    nstub = rng.below(5) + (rng.below(3) if var else 0) + (8 + rng.below(12) if rng.chance(1, 25) else 0)
    mode = rng.below(3) if nstub else 1 + rng.below(2)
    if mode:
        dflt = rand_vals(rng, vbase + 9000, rand_len(rng))
        if mode == 1:
            toks.append('mS:' + ','.join(map(str, dflt)))
        else:
            toks.append(f'mR:{dflt[0]}')
            toks += [f'wA:{v}' for v in dflt[1:]]
        have_when = True
    stubs = []
    for s in range(nstub):
        if have_when and rng.chance(1, 5):
            # Matches(Pair{a, v}, …): every pair is its own one-element stub
            pairs = [(rng.choice(cond_pool), vbase + 1000 * (s + 1) + 500 + (j if rng.chance(1, 2) else 0)) for j in range(1 + rng.below(3))]
            toks.append('wM:' + ','.join(f'{a}={v}' for a, v in pairs))
            stubs += [(('e', [a]), [v]) for a, v in pairs]
            continue
        if var:
            # In([]interface{}{…}, …) alternatives must have one arity (a shorter first alternative ends InExpr.Eval: C04's business)
            if have_when and rng.chance(1, 14):
                c = ('i', [])
            elif have_when and rng.chance(1, 4):
                t0 = rng.choice(cond_pool)
                c = ('i', sorted({t0} | {t for t in cond_pool if len(str(t)) == len(str(t0)) and rng.chance(1, 2)}))
            else:
                c = ('e', [rng.choice(cond_pool)])
        else:
            c = rand_cond(rng, dom)
        vals = rand_vals(rng, vbase + 1000 * (s + 1), rand_len(rng))
        if not have_when or (c[0] != 'i' and rng.chance(1, 3)):
            if c[0] == 'i':
                c = ('e', [c[1][0] if c[1] else rng.choice(cond_pool)])
            toks.append('mW:' + show_cond(c))
        else:
            toks.append('wW:' + show_cond(c))
        have_when = True
        if rng.chance(1, 2):
            toks.append('wS:' + ','.join(map(str, vals)))
        else:
            toks.append(f'wR:{vals[0]}')
            toks += [f'wA:{v}' for v in vals[1:]]
        stubs.append((c, vals))
    ncall = 4 + rng.below(40) + (rng.below(400) if rng.chance(1, 8) else 0)
    hot = rng.choice(call_pool)
    calls = [f'C:{hot if rng.chance(1, 4) else rng.choice(call_pool)}' for _ in range(ncall)]
    return toks, calls, stubs, dflt


def gen_spec(rng):
    """A history inside the scope of the property: configure (default sequence, then conditions with their sequences), then only
    call — on one target, or on two targets of the same signature mocked through the same builder with their calls interleaved
    (`T:k` switches).  Returns (line, [(stubs, default) per target]) with stubs = [(cond, values)] in match order."""
    kind = rng.choice(KINDS)
    cfg0, calls0, stubs0, dflt0 = gen_spec_target(rng, kind)
    # a few histories run with goom's debug or trace logging on: what callers receive must not depend on the log level
    log = [rng.choice(['L:d', 'L:t'])] if rng.chance(1, 16) else []
    if kind not in SIBLING_KINDS or not rng.chance(1, 3):
        return f'c05.seq {kind} ' + ' '.join(log + cfg0 + calls0[:60 if log else None]), [(stubs0, dflt0), None]
    # the sibling is given overlapping values on purpose: only the cursors tell the two targets apart
    cfg1, calls1, stubs1, dflt1 = gen_spec_target(rng, kind, vbase=0 if rng.chance(1, 2) else 10000)
    toks = log + cfg0 + ['T:1'] + cfg1
    if log:
        calls0, calls1 = calls0[:40], calls1[:40]
    act, i0, i1 = 1, 0, 0
    while i0 < len(calls0) or i1 < len(calls1):
        k = 0 if i1 >= len(calls1) else 1 if i0 >= len(calls0) else rng.below(2)
        if k != act:
            toks.append(f'T:{k}')
            act = k
        if k == 0:
            toks.append(calls0[i0]); i0 += 1
        else:
            toks.append(calls1[i1]); i1 += 1
    return f'c05.seq {kind} ' + ' '.join(toks), [(stubs0, dflt0), (stubs1, dflt1)]


def spec_expected(line, spec):
    """The property itself: the k-th call selecting a stub gets element min(k, n-1); stubs (and targets) advance independently.
    Returns (expected observations, per target [per-stub selection counts], per target default count)."""
    kind = line.split()[1]
    cnt = [[0] * len(sp[0]) if sp else [] for sp in spec]
    dcnt = [0, 0]
    out = []
    act = 0
    for tok in line.split()[2:]:
        if tok.startswith('T:'):
            act = int(tok[2:])
            continue
        if not tok.startswith('C:'):
            continue
        a = int(tok[2:])
        if spec[act] is None:
            out.append('G')
            continue
        stubs, dflt = spec[act]
        for i, (c, vals) in enumerate(stubs):
            if cond_hit(c, a):
                out.append(render(kind, vals[min(cnt[act][i], len(vals) - 1)]))
                cnt[act][i] += 1
                break
        else:
            if dflt is None:
                out.append('P')
            else:
                out.append(render(kind, dflt[min(dcnt[act], len(dflt) - 1)]))
                dcnt[act] += 1
    return out, cnt, dcnt


def spec_of_tokens(toks):
    """Scope test for the tokens of ONE target: every stub is configured once — by When/In + Returns or Return+AndReturn…, by
    Matches, or (the default, first) by mocker.Returns / mocker.Return+AndReturn… — and then there are only calls.
    Returns (stubs, default) or None."""
    stubs, dflt, cur, calls = [], None, None, False
    for j, tok in enumerate(toks):
        k, _, a = tok.partition(':')
        if k == 'C':
            calls = True
            continue
        if calls:
            return None
        if k == 'mS' and j == 0 and a:
            dflt, cur = [int(x) for x in a.split(',')], None
        elif k == 'mR' and j == 0:
            dflt, cur = [int(a)], 'd'
        elif k == 'wA' and (cur == 'd' or (cur is None and dflt is not None and not stubs)):
            dflt.append(int(a))
        elif k == 'wA' and isinstance(cur, int) and stubs[cur][1]:
            stubs[cur][1].append(int(a))
        elif k in ('mW', 'wW'):
            c = ('y', []) if a == 'y' else (a[0], [int(x) for x in a[1:].split(',') if x])
            stubs.append((c, []))
            cur = len(stubs) - 1
        elif k == 'wS' and isinstance(cur, int) and not stubs[cur][1] and a:
            stubs[cur] = (stubs[cur][0], [int(x) for x in a.split(',')])
        elif k == 'wR' and isinstance(cur, int) and not stubs[cur][1]:
            stubs[cur][1].append(int(a))
        elif k == 'wM' and j > 0:
            for p in a.split(','):
                x, v = p.split('=')
                stubs.append((('e', [int(x)]), [int(v)]))
        else:
            return None
    if any(not v for _, v in stubs):
        return None
    return stubs, dflt


def spec_of_line(line):
    """Per target (`T:k` switches) the scope test of spec_of_tokens; a target that is only called is the original function.
    Returns [spec0, spec1] (None for an unmocked target) or None when the line is outside the scope of the property."""
    per = [[], []]
    act = 0
    for tok in line.split()[2:]:
        if tok in ('L:d', 'L:t'):
            continue
        if tok.startswith('T:'):
            if tok[2:] not in ('0', '1'):
                return None
            act = int(tok[2:])
        else:
            per[act].append(tok)
    out = []
    for toks in per:
        if all(t.startswith('C:') for t in toks):
            out.append(None)
            continue
        sp = spec_of_tokens(toks)
        if sp is None:
            return None
        out.append(sp)
    return out


def gen_free(rng):
    """Anything the API allows: configuration and calls interleaved, repeated Return on one condition, AndReturn first, …"""
    kind = rng.choice(KINDS)
    var = kind in VARIADIC
    call_pool, cond_pool = arg_pool(rng, kind)
    dom = len(cond_pool)
    toks = []
    nxt = [1]

    def val():
        if not rng.chance(1, 3):   # otherwise: the same value again
            nxt[0] += 1
        return nxt[0]

    if rng.chance(1, 16):
        toks.append(rng.choice(['L:d', 'L:t']))
    for _ in range(2 + rng.below(30)):
        r = rng.below(20)
        if kind in SIBLING_KINDS and rng.chance(1, 12):
            toks.append(f'T:{rng.below(2)}')
        if r < 8:
            toks.append(f'C:{rng.choice(call_pool)}')
        elif r < 10:
            toks.append(f'{rng.choice(["mR", "wR"])}:{val()}')
        elif r < 13:
            toks.append(f'wA:{val()}')
        elif r < 15:
            toks.append(rng.choice(['mS', 'wS']) + ':' + ','.join(str(val()) for _ in range(rng.below(5))))
        elif r == 15:
            toks.append('wM:' + ','.join(f'{rng.choice(cond_pool)}={val()}' for _ in range(1 + rng.below(3))))
        else:
            c = ('e', [rng.choice(cond_pool)]) if var else rand_cond(rng, dom)
            if var and rng.chance(1, 14):
                c = ('i', [])
            elif var and rng.chance(1, 4):
                t0 = c[1][0]
                c = ('i', sorted({t0} | {t for t in cond_pool if len(str(t)) == len(str(t0)) and rng.chance(1, 2)}))
            if c[0] != 'i' and rng.chance(1, 2):
                toks.append('mW:' + show_cond(c))
            else:
                toks.append('wW:' + show_cond(c))
    return f'c05.seq {kind} ' + ' '.join(toks)


def gen_malformed(rng):
    return rng.choice(['c05.seq', 'c05.seq zz C:1', 'c05.seq f2 mR:1 T:1 mR:2', 'c05.seq f1 T:2 C:1', 'c05.seq f1 Q:1', 'c05.seq f1 mR', 'c05.seq me C:1 wZ:3', 'c05.serve 1',
                       'c05.serve 1 2 3', 'c05.seq if mR:1 ::', 'c05.seq f9 mR:1 C:1'])


def gen_conc(tier, rng, count, race=False):
    ops = []
    gs = [2, 2, 3, 4, 6, 8, 12, 16, 16, 24, 32]
    if race and tier == 'quick':
        gs = [2, 3, 4, 6, 8]   # the race detector slows every atomic ~10x: wide barriers belong to the thorough tier
    for _ in range(count):
        G = rng.choice(gs)
        K = rng.choice([1, 2, 3, 4, 8, 16] + ([64] if tier == 'thorough' else []))
        total = G * K
        n = rng.choice([1, 2, 2, 3, 4, max(2, total // 4), max(2, total // 2), total, total + 7, 2 * total])
        mode = rng.choice(['c', 'n']) if rng.chance(2, 5) and G >= 2 else ('r' if rng.chance(1, 6) else 'd')
        ops.append(f'c05.conc {rng.choice(CONC_KINDS)} {mode} {n} {G} {K}')
    return ops


# ---------------------------------------------------------------------------------------------------- concurrent histories

def parse_hist(s):
    """'i3 r3=0 …' -> [('i', t, None) | ('r', t, v)]"""
    evs = []
    for tok in s.split():
        if tok[0] == 'i':
            evs.append(('i', int(tok[1:]), None))
        else:
            t, v = tok[1:].split('=')
            evs.append(('r', int(t), int(v)))
    return evs


def split_part(part):
    """'n5 i0 r0=1 …' -> (5, 'i0 r0=1 …'): number of results the stub holds (read by the probe), visible events"""
    toks = part.split()
    if toks and toks[0][0] == 'n':
        return (int(toks[0][1:]) if toks[0][1:].isdigit() else -1), ' '.join(toks[1:])
    return None, part


def hist_oracle(n, evs):
    """The concurrent clause of the property on an observed history (real-time order = stamp order): every value is a position
    of the sequence; positions never go backwards (per thread, and between a call that returned and a call invoked afterwards);
    once the last element has been returned, every call invoked afterwards receives the last element.
    (That such a later call even moves *on* is a fact about the code, proved for the model and enforced by trace validation,
    not demanded here.)"""
    hi = -1                 # highest position returned so far
    floor = {}              # per open call: `hi` at invocation
    last = {}               # per thread: last returned
    open_ = set()
    for k, (kind, t, v) in enumerate(evs):
        if kind == 'i':
            if t in open_:
                return f'event {k}: thread {t} invoked twice (probe error)'
            open_.add(t)
            floor[t] = hi
        else:
            if t not in open_:
                return f'event {k}: response without invocation (probe error)'
            open_.discard(t)
            if not 0 <= v < n:
                return f'event {k}: thread {t} received {v}, not a position of the {n}-element sequence'
            f = floor[t]
            if v < f:
                what = 'after the last element was returned' if f == n - 1 else 'positions went backwards in real time'
                return f'event {k}: thread {t} was invoked after position {f} had been returned but received position {v} ({what})'
            if t in last and v < last[t]:
                return f'event {k}: thread {t} received {v} after {last[t]}'
            last[t] = v
            hi = max(hi, v)
    return None


def witness(n, evs):
    """Untrusted search: insert the internal steps (load, finish) so that the history becomes a run of the micro-step model.
    Eager loads (a call loads as soon as the cursor has the value it must have seen), lazy adds (an add happens only when a
    response forces it; among the callers that can supply it the one that responds first).  Returns token list or None."""
    val = {}
    pending = {}
    for k, (kind, t, v) in enumerate(evs):
        if kind == 'i':
            pending[t] = k
        else:
            val[pending.pop(t)] = (v, k)
    out = []
    cur = 0
    call = {}  # thread -> dict(v, resp, loaded, inc, fin)

    def can_load(c):
        if n <= 1:
            return True
        return cur == c['v'] if c['v'] < n - 1 else cur >= n - 1

    def eager():
        for t, c in call.items():
            if c['loaded'] is None:
                if can_load(c):
                    c['loaded'] = cur
                    c['inc'] = n > 1 and cur < n
                    out.append(f's{t}')
                elif n > 1 and c['v'] < cur:
                    return False
        return True

    def finish(t):
        nonlocal cur
        c = call[t]
        c['fin'] = True
        out.append(f's{t}')
        if c['inc']:
            cur += 1
            return eager()
        return True

    for k, (kind, t, v) in enumerate(evs):
        if kind == 'i':
            out.append(f'i{t}')
            if k not in val:
                call[t] = {'v': 0, 'resp': 1 << 60, 'loaded': None, 'inc': False, 'fin': False}
                continue
            call[t] = {'v': val[k][0], 'resp': val[k][1], 'loaded': None, 'inc': False, 'fin': False}
            if not eager():
                return None
        else:
            c = call[t]
            while c['loaded'] is None:
                sup = [(d['resp'], u) for u, d in call.items() if d['loaded'] is not None and d['inc'] and not d['fin']]
                if not sup:
                    return None
                if not finish(min(sup)[1]):
                    return None
            if not c['fin'] and not finish(t):
                return None
            out.append(f'r{t}={v}')
            del call[t]
    return out


def witness_dfs(n, evs, budget=400000):
    """Complete fallback: memoised search over all placements of the internal steps.  Returns tokens, None (no run exists) or
    'budget'."""
    if len(evs) > 1500:
        return 'budget'   # recursion depth ~ number of events
    sys.setrecursionlimit(max(sys.getrecursionlimit(), 12000))
    val = {}
    pend = {}
    for k, (kind, t, v) in enumerate(evs):
        if kind == 'i':
            pend[t] = k
        else:
            val[pend.pop(t)] = v
    seen = set()
    steps = [0]

    def go(k, cur, st):  # st: tuple of (thread, target, loaded or -1, finished)
        key = (k, cur, st)
        if key in seen:
            return None
        seen.add(key)
        steps[0] += 1
        if steps[0] > budget:
            raise TimeoutError
        d = {x[0]: x for x in st}
        # internal moves
        for (t, tv, ld, fin) in st:
            if ld < 0:
                ok = True if n <= 1 else (cur == tv if tv < n - 1 else cur >= n - 1)
                if ok:
                    r = go(k, cur, tuple(sorted((x if x[0] != t else (t, tv, cur, False)) for x in st)))
                    if r is not None:
                        return [f's{t}'] + r
            elif not fin:
                nc = cur + 1 if (n > 1 and ld < n) else cur
                r = go(k, nc, tuple(sorted((x if x[0] != t else (t, tv, ld, True)) for x in st)))
                if r is not None:
                    return [f's{t}'] + r
        if k == len(evs):
            return []
        kind, t, v = evs[k]
        if kind == 'i':
            r = go(k + 1, cur, tuple(sorted(st + ((t, val.get(k, 0), -1, False),))))
            return None if r is None else [f'i{t}'] + r
        x = d.get(t)
        if x is None or not x[3]:
            return None
        r = go(k + 1, cur, tuple(y for y in st if y[0] != t))
        return None if r is None else [f'r{t}={v}'] + r

    try:
        return go(0, 0, ())
    except (TimeoutError, RecursionError):
        return 'budget'


# ---------------------------------------------------------------------------------------------------- execution

def build_probe(race=False):
    fm = {'zz_verif_c05_test.go': os.path.join(C.HARNESS, 'c05', 'seq_probe_test.go')}
    b, err = C.overlay_build('c05-root' + ('-race' if race else ''), '', fm, C.helper_pkgs(), race=race)
    if b is None:
        raise C.Infra(f'probe c05-root{"-race" if race else ""} does not build against the current tree:\n{err[-3000:]}')
    return b


PROBE_TIMEOUT = {'quick': 90, 'thorough': 3000}   # per probe process; typical 1-5 s (quick), 1-3 min (thorough)
TIER = ['quick']


def run_lines(binary, test, ops, tag, timeout=None):
    """Run the probe on `ops`.  A probe that dies or times out is re-run ONCE; a failure that does not reproduce is not reported.
    A crash that reproduces is pinned to the op that was executing (`crash:rc=…` becomes that op's observation, a violation of
    whatever was demanded of it) and the remaining ops are run in a fresh process.  A hang that reproduces is pinned to the op
    that never answered (`hang:…`), the ops after it are `skipped` (excluded from oracles and from the comparison)."""
    timeout = timeout or int(os.environ.get('VERIF_C05_PROBE_TIMEOUT', PROBE_TIMEOUT[TIER[0]]))
    ops_path = os.path.join(C.BUILD, f'{tag}.ops')
    open(ops_path, 'w').write('\n'.join(ops) + '\n')

    def once(sub, path):
        outp = path[:-4] + '.impl'
        try:
            rc, log = C.run_probe(binary, test, path, outp, timeout=timeout)
        except subprocess.TimeoutExpired:
            return -9, 'timeout', C.read_indexed(outp, len(sub))
        if 'panic: test timed out' in log:   # the test binary's own -test.timeout fired first: a hang, not a crash
            rc = -9
        return rc, log, C.read_indexed(outp, len(sub))

    rc, log, impl = once(ops, ops_path)
    if None in impl:
        C.log(f'C05: probe {test} incomplete (rc={rc}); re-running once')
        rc, log, impl = once(ops, ops_path)
        if None in impl and rc == -9:
            # a hang that reproduces is a verdict about the op that never answered; what follows it is not run
            k = impl.index(None)
            impl[k] = f'hang:no answer within {timeout}s (twice)'
            impl[k + 1:] = ['skipped'] * (len(impl) - k - 1)
            return rc, log, impl, ops_path
        crashes = 0
        while None in impl:
            k = impl.index(None)
            crashes += 1
            if crashes > 4:
                impl[k:] = ['skipped'] * (len(impl) - k)   # four pinned crashes are verdict enough
                break
            if rc == -9:
                impl[k] = f'hang:no answer within {timeout}s'
                impl[k + 1:] = ['skipped'] * (len(impl) - k - 1)
                break
            impl[k] = f'crash:rc={rc}'
            rest = ops[k + 1:]
            if not rest:
                break
            rp = os.path.join(C.BUILD, f'{tag}.rest{crashes}.ops')
            open(rp, 'w').write('\n'.join(rest) + '\n')
            rc, log2, impl2 = once(rest, rp)
            log += log2
            impl[k + 1:] = impl2
    return rc, log, impl, ops_path


def race_reports(log):
    """Race-detector reports that involve goom's stub/sequence code (root package files); reports that only touch other code
    (logger, patching, the probe helpers) are returned separately and never counted against the property."""
    rel, other = [], []
    for blk in log.split('WARNING: DATA RACE')[1:]:
        blk = blk.split('==================')[0]
        if any(f in blk for f in ('goom/matcher.go', 'goom/when.go', 'goom/mocker.go', 'goom/iface.go', 'goom/arg/')):
            rel.append(blk[:1500])
        else:
            other.append(blk[:600])
    return rel, other


def validate_conc(exe, ops, impl, tag):
    """Oracle + trace validation of the concurrent rounds. Returns dict with stats, oracle failures, rejected histories."""
    res = {'histories': 0, 'calls': 0, 'race_hits': 0, 'dup_positions': 0, 'oracle_bad': [], 'rejected': [], 'inconclusive': [],
           'witness_greedy': 0, 'witness_dfs': 0, 'max_overlap': 0, 'admitted': 0, 'distinct': set()}
    lines, meta = [], []
    for i, op in enumerate(ops):
        toks = op.split()
        n = int(toks[3])
        obs = impl[i]
        if obs == 'skipped':
            continue
        if obs is None or obs.startswith(('config-panic', 'crash:', 'hang:')) or obs == 'bad-op':
            res['oracle_bad'].append((i, op, obs, 'no history: the probe process died reproducibly on this round or the configuration panicked'))
            continue
        repeated = toks[2] == 'r'
        for part in obs.split(' ; '):
            held, hs = split_part(part)
            evs = parse_hist(hs)
            res['histories'] += 1
            res['calls'] += sum(1 for e in evs if e[0] == 'r')
            if held is not None and held != n:
                res['oracle_bad'].append((i, op, part, f'the stub was given a sequence of {n} results but holds {held} positions'))
                continue
            # mode r configures every value twice in a row: values are then not positions; the value-level clauses still apply
            why = hist_oracle((n + 1) // 2 if repeated else n, evs)
            if why:
                res['oracle_bad'].append((i, op, part, why + (' (values, sequence 0,0,1,1,…)' if repeated else '')))
                continue
            if repeated:
                res['repeated_value_histories'] = res.get('repeated_value_histories', 0) + 1
                continue
            vals = [e[2] for e in evs if e[0] == 'r']
            dups = sum(1 for v in set(vals) if v < n - 1 and vals.count(v) > 1) if len(vals) < 4000 else 0
            if dups:
                res['race_hits'] += 1
                res['dup_positions'] += dups
            depth = mx = 0
            for e in evs:
                depth += 1 if e[0] == 'i' else -1
                mx = max(mx, depth)
            res['max_overlap'] = max(res['max_overlap'], mx)
            w = witness(n, evs)
            if w is None:
                w = witness_dfs(n, evs)
                if w == 'budget':
                    res['inconclusive'].append((i, op, hs))
                    continue
                if w is None:
                    res['rejected'].append((i, op, hs, 'no placement of load/add steps makes this history a run of the model (exhaustive search)'))
                    continue
                res['witness_dfs'] += 1
            else:
                res['witness_greedy'] += 1
            assert [t for t in w if t[0] != 's'] == hs.split(), 'witness does not project onto the observed history'
            lines.append(f'c05.hist {n} ' + ' '.join(w))
            meta.append((i, op, hs))
            res['distinct'].add((n, hs))
    if lines:
        p = os.path.join(C.BUILD, f'{tag}.hist.ops')
        open(p, 'w').write('\n'.join(lines) + '\n')
        model = C.run_driver(exe, p, os.path.join(C.BUILD, f'{tag}.hist.model'))
        for (i, op, hs), m in zip(meta, model):
            if m.startswith('admitted'):
                res['admitted'] += 1
            else:
                res['rejected'].append((i, op, hs, 'driver: ' + m))
    return res


def seq_oracle(specs, ops, impl):
    bad = []
    for i, op in enumerate(ops):
        if op not in specs:
            continue
        exp, cnt, dcnt = spec_expected(op, specs[op])
        obs = impl[i]
        if obs == 'skipped':
            continue
        got = obs.split(' | ')[0].split() if obs and ' | ' in obs else None
        if got == ['-']:
            got = []
        if got != exp:
            k = next((j for j in range(min(len(exp), len(got or []))) if exp[j] != got[j]), None)
            bad.append((i, op, obs, f'call #{k}: property demands {exp[k] if k is not None else exp}, implementation returned '
                                    f'{got[k] if k is not None and got else obs}'))
    return bad


def serve_oracle(ops, impl):
    """Result() on one matcher in a reachable state (cursor 0 on the single path, any cursor otherwise): index min(cur, n-1)."""
    bad = []
    for i, op in enumerate(ops):
        t = op.split()
        if t[0] != 'c05.serve' or len(t) != 3:
            continue
        n, cur = int(t[1]), int(t[2])
        if impl[i] == 'skipped':
            continue
        if n < 1 or (n == 1 and cur != 0):
            continue  # unreachable states: nothing is demanded (model and implementation are still compared)
        want = f'idx={min(cur, n - 1)} '
        if not (impl[i] or '').startswith(want):
            bad.append((i, op, impl[i], f'a matcher with {n} results at cursor {cur} must serve position {min(cur, n - 1)}'))
    return bad


def sizes(tier):
    if tier == 'quick':
        return {'spec': 2000, 'free': 1500, 'mal': 20, 'conc': 500, 'conc_race': 40, 'seq_race': 100}
    return {'spec': 20000, 'free': 20000, 'mal': 60, 'conc': 10000, 'conc_race': 1000, 'seq_race': 1500}


def corpus():
    d = os.path.join(C.HARNESS, 'c05', 'corpus')
    ops = []
    if os.path.isdir(d):
        for f in sorted(os.listdir(d)):
            if f.endswith('.ops'):
                ops += [l.strip() for l in open(os.path.join(d, f)) if l.strip() and not l.startswith('#')]
    return ops


def explore(tier, rng, exe, bins, scale=1, tag='c05'):
    """Generate, run on implementation and model, apply oracles. Returns a result dict."""
    sz = {k: v * scale for k, v in sizes(tier).items()}
    specs = {}
    seq_ops = [l for l in corpus() if not l.startswith('c05.conc')]
    conc_ops = [l for l in corpus() if l.startswith('c05.conc')]
    n_corpus = len(seq_ops) + len(conc_ops)
    for l in seq_ops:
        if l.startswith('c05.seq'):
            sp = spec_of_line(l)
            if sp:
                specs[l] = sp
    seq_ops += gen_serve(tier)
    for _ in range(sz['spec']):
        line, spec = gen_spec(rng)
        sp = spec_of_line(line)
        norm = lambda x: None if x is None else ([((c[0], list(c[1])), list(v)) for c, v in x[0]], x[1])
        if sp is None or [norm(x) for x in sp] != [norm(x) for x in spec]:
            raise C.Infra('generator and scope parser disagree on ' + line)
        specs[line] = spec
        seq_ops.append(line)
    seq_ops += [gen_free(rng) for _ in range(sz['free'])]
    mal = [gen_malformed(rng) for _ in range(sz['mal'])]
    seq_ops += mal
    seq_ops = list(dict.fromkeys(seq_ops))
    conc_ops += gen_conc(tier, rng, sz['conc'])
    r = {'specs': specs, 'seq_ops': seq_ops, 'conc_ops': conc_ops, 'malformed': len(set(mal)), 'corpus': n_corpus, 'infra': []}
    rc, log, impl, ops_path = run_lines(bins['plain'], 'TestVerifC05', seq_ops, tag + '.seq')
    r['seq_impl'] = impl
    r['seq_model'] = C.run_driver(exe, ops_path, os.path.join(C.BUILD, tag + '.seq.model'))
    r['seq_bad'] = seq_oracle(specs, seq_ops, impl) + serve_oracle(seq_ops, impl)
    r['seq_diffs'] = [d for d in C.diff_streams(seq_ops, impl, r['seq_model'], limit=len(seq_ops)) if d[2] != 'skipped'][:20]
    rc, log, cimpl, _ = run_lines(bins['plain'], 'TestVerifC05Conc', conc_ops, tag + '.conc')
    r['conc_impl'] = cimpl
    r['conc'] = validate_conc(exe, conc_ops, cimpl, tag + '.conc')
    # the same probes under the race detector
    r['race'] = None
    if bins.get('race'):
        rops = gen_conc(tier, rng, sz['conc_race'], race=True)
        rc, log, rimpl, _ = run_lines(bins['race'], 'TestVerifC05Conc', rops, tag + '.rconc')
        rel, other = race_reports(log)
        rr = validate_conc(exe, rops, rimpl, tag + '.rconc')
        sops = [l for l in seq_ops if l in specs][:sz['seq_race']]
        rc2, log2, simpl, _ = run_lines(bins['race'], 'TestVerifC05', sops, tag + '.rseq')
        rel2, other2 = race_reports(log2)
        rel, other = rel + rel2, other + other2
        if other:
            C.log(f'C05: {len(other)} race report(s) outside the stub/sequence code (not counted): {other[0][:300]}')
        r['race'] = {'ops': rops, 'impl': rimpl, 'res': rr, 'reports': len(rel), 'unrelated_reports': len(other), 'log': '\n'.join(rel)[:3000],
                     'seq_ops': sops, 'seq_bad': seq_oracle(specs, sops, simpl), 'rc': (rc, rc2)}
    return r


def run(tier):
    TIER[0] = tier
    out = C.Outcome(PROP, tier)
    rng = C.Rng(C.seed()).fork(PROP)
    ok, msg, changed = regen_cursor()
    if ok:
        proof = C.prove(PROP, leanchecker=(tier == 'thorough'))
    else:
        proof = {'ok': False, 'failed': [('extractor', msg)], 'obligations': len(C.theorem_names(PROP)), 'discharged': 0, 'cmds': [],
                 'axioms': {}, 'output': msg}
    exe, derr = C.build_driver()
    if exe is None:
        # the model no longer compiles against the regenerated constants: fall back to nothing — the proof failure is reported below
        raise C.Infra('goomdrv does not build: ' + derr[-1500:]) if proof['ok'] else C.Infra(
            'Gen/Cursor.lean regenerated from matcher.go no longer fits Model/Cursor.lean (driver does not build): ' + derr[-1500:])
    bins = {'plain': build_probe(False), 'race': build_probe(True)}
    r = explore(tier, rng, exe, bins)
    findings = collect(r)
    model_trouble = bool(r['seq_diffs'] or r['conc']['rejected'] or (r['race'] and r['race']['res']['rejected'])) or not proof['ok']
    widened = 0
    if model_trouble and not findings:
        # widen the search ×10 before reporting a broken obligation without a failing input
        r2 = explore(tier, rng.fork('widen'), exe, bins, scale=10, tag='c05w')
        widened = len(r2['seq_ops']) + len(r2['conc_ops'])
        findings = collect(r2)
    for what, body in findings[:3]:
        out.violation(what, body)
    if not findings:
        if r['seq_diffs']:
            i, op, a, b = r['seq_diffs'][0]
            out.violation(f'model and implementation disagree on `{op[:200]}`',
                          {'kind': 'correspondence', 'ops': [op], 'impl': a, 'model': b, 'broken': 'Model/Cursor.lean (When/matcher transcription) vs the real API',
                           'n_disagreements': len(r['seq_diffs']), 'searched_after_widening': widened}, no_failing_input=True)
        elif r['conc']['rejected'] or (r['race'] and r['race']['res']['rejected']):
            i, op, hs, why = (r['conc']['rejected'] or r['race']['res']['rejected'])[0]
            out.violation(f'a concurrent history of the implementation is not a run of the micro-step model ({why})',
                          {'kind': 'trace-validation', 'ops': [op], 'hist': hs, 'why': why, 'broken': 'Cursor.step (load/add micro-steps) vs matcher.go Result',
                           'searched_after_widening': widened}, no_failing_input=True)
        elif not proof['ok']:
            out.violation('proof obligations of Props/C05.lean no longer check against the constants extracted from matcher.go and no failing input was found',
                          {'kind': 'proof', 'broken': proof['failed'], 'searched': len(r['seq_ops']) + len(r['conc_ops']) + widened,
                           'output': proof.get('output', '')[-3000:]}, no_failing_input=True)
    if r['infra'] or r['conc']['inconclusive']:
        C.log('C05: infrastructure notes:', r['infra'], 'inconclusive witness searches:', len(r['conc']['inconclusive']))
    write_evidence(out, tier, proof, r, changed, widened)
    rcode = out.finish()
    if rcode == 0:
        # floors: a lane that silently ran nothing is a machinery error, never a pass
        c, rc_ = r['conc'], (r['race']['res'] if r['race'] else None)
        n_spec = sum(1 for i, op in enumerate(r['seq_ops']) if op in r['specs'] and (r['seq_impl'][i] or '').startswith(('v', 'P', 'G')))
        floors = [('in-scope sequential histories with observations', n_spec, len(r['specs']) // 2),
                  ('concurrent histories', c['histories'], len(r['conc_ops']) // 2),
                  ('concurrent histories replayed by the model', c['admitted'], max(1, (c['histories'] - c.get('repeated_value_histories', 0)) // 2)),
                  ('concurrent histories under -race', rc_['histories'] if rc_ else 0, 1)]
        low = [f'{what}: {got} < {need}' for what, got, need in floors if got < need]
        if low or r['infra']:
            raise C.Infra('a lane did not run: ' + '; '.join(low + r['infra'])[:600])
    return rcode


def collect(r):
    """Oracle failures on the implementation → (what, replay body)."""
    f = []
    for i, op, obs, why in r['seq_bad'][:3]:
        f.append((f'{op[:160]}: {why}', {'kind': 'impl-oracle', 'ops': [op], 'observed': obs, 'why': why,
                                         'spec': list(r['specs'].get(op, ())), 'how': 'python3 check.py C05 --replay <this file>'}))
    for i, op, hs, why in r['conc']['oracle_bad'][:3]:
        f.append((f'{op}: {why}', {'kind': 'impl-oracle-concurrent', 'ops': [op], 'hist': hs, 'why': why,
                                   'how': 'python3 check.py C05 --replay <this file>   (validates the recorded history, then re-runs the round 200 times)'}))
    if r['race']:
        for i, op, hs, why in r['race']['res']['oracle_bad'][:2]:
            f.append((f'{op} (under -race): {why}', {'kind': 'impl-oracle-concurrent', 'ops': [op], 'hist': hs, 'why': why, 'race_build': True}))
        for i, op, obs, why in r['race']['seq_bad'][:1]:
            f.append((f'{op[:160]} (under -race): {why}', {'kind': 'impl-oracle', 'ops': [op], 'observed': obs, 'why': why, 'race_build': True}))
        if r['race']['reports']:
            f.append((f'the race detector reported {r["race"]["reports"]} data race(s) in goom\'s stub/sequence code (matcher.go/when.go/mocker.go/iface.go/arg) while concurrent callers consumed one result sequence',
                      {'kind': 'race-detector', 'ops': r['race']['ops'][:5], 'log': r['race']['log'], 'race_build': True}))
    return f


def write_evidence(out, tier, proof, r, changed, widened):
    specs, seq_ops, impl = r['specs'], r['seq_ops'], r['seq_impl']
    c = r['conc']
    rc = r['race']['res'] if r['race'] else None
    # measured distribution of what the sequential generators produced
    dist = {'serve_lines': 0, 'spec_histories': 0, 'free_histories': 0, 'malformed': r['malformed'], 'corpus': r['corpus'],
            'target_kinds': {}, 'calls': 0, 'calls_past_end_of_sequence': 0, 'nomatch_panics': 0, 'histories_with_>=2_stubs_advancing': 0,
            'max_sequence_len': 0, 'In_clauses': 0, 'Any_clauses': 0, 'free_config_after_call': 0}
    nontrivial = set()
    for i, op in enumerate(seq_ops):
        t = op.split()
        ob = impl[i] or ''
        if t[0] == 'c05.serve':
            dist['serve_lines'] += 1
            if ob.startswith('idx=') and not ob.startswith('idx=oob'):
                nontrivial.add(op)
            continue
        if t[0] != 'c05.seq' or ob in ('', 'bad-op') or len(t) < 2:
            continue
        dist['target_kinds'][t[1]] = dist['target_kinds'].get(t[1], 0) + 1
        vals = ob.split(' | ')[0].split()
        ncall = sum(1 for x in t[2:] if x.startswith('C:'))
        dist['calls'] += ncall
        dist['nomatch_panics'] += vals.count('P')
        dist['In_clauses'] += sum(1 for x in t[2:] if x.startswith('wW:i'))
        dist['Any_clauses'] += sum(1 for x in t[2:] if x.endswith('W:y'))
        dist['empty_In_clauses'] = dist.get('empty_In_clauses', 0) + sum(1 for x in t[2:] if x == 'wW:i')
        dist['histories_with_debug_or_trace_logging'] = dist.get('histories_with_debug_or_trace_logging', 0) + (1 if t[2:3] and t[2] in ('L:d', 'L:t') else 0)
        dist['Matches_calls'] = dist.get('Matches_calls', 0) + sum(1 for x in t[2:] if x.startswith('wM:'))
        if op in specs:
            dist['spec_histories'] += 1
            _, cnts, dcnts = spec_expected(op, specs[op])
            if specs[op][1] is not None:
                dist['two_target_spec_histories'] = dist.get('two_target_spec_histories', 0) + 1
            if t[1] in NIL_KINDS:
                dist['interface_or_slice_typed_result_histories'] = dist.get('interface_or_slice_typed_result_histories', 0) + 1
            stubs, dflt = specs[op][0] if specs[op][0] else ([], None)
            cnt, dcnt = cnts[0], dcnts[0]
            adv = sum(1 for k in cnt if k > 0) + (1 if dcnt else 0)
            if adv >= 2:
                dist['histories_with_>=2_stubs_advancing'] += 1
            if t[1] in VARIADIC:
                dist['variadic_spec_histories'] = dist.get('variadic_spec_histories', 0) + 1
                ar = [len(str(cd[1][0])) for cd, _ in stubs if cd[1]]
                dist['variadic_same_arity_conditions_back_to_back'] = dist.get('variadic_same_arity_conditions_back_to_back', 0) + \
                    sum(1 for x, y in zip(ar, ar[1:]) if x == y)
                dist['variadic_different_arity_conditions_back_to_back'] = dist.get('variadic_different_arity_conditions_back_to_back', 0) + \
                    sum(1 for x, y in zip(ar, ar[1:]) if x != y)
            for (cd, vs), k in zip(stubs + ([(None, dflt)] if dflt else []), cnt + [dcnt]):
                rep = sum(1 for x, y in zip(vs, vs[1:]) if x == y)
                dist['adjacent_equal_results_configured'] = dist.get('adjacent_equal_results_configured', 0) + rep
                if rep and k > 1:
                    dist['sequences_with_adjacent_equal_results_consumed'] = dist.get('sequences_with_adjacent_equal_results_consumed', 0) + 1
            for (cd, vs), k in zip(stubs, cnt):
                dist['calls_past_end_of_sequence'] += max(0, k - len(vs))
                dist['max_sequence_len'] = max(dist['max_sequence_len'], len(vs))
            if dflt:
                dist['calls_past_end_of_sequence'] += max(0, dcnt - len(dflt))
        else:
            dist['free_histories'] += 1
            seen_call = False
            for x in t[2:]:
                if x.startswith('C:'):
                    seen_call = True
                elif seen_call:
                    dist['free_config_after_call'] += 1
                    break
        if any(v.startswith('v') for v in vals):
            nontrivial.add(op)
    conc_dist = {'rounds': len(r['conc_ops']), 'histories': c['histories'], 'calls': c['calls'], 'histories_where_two_callers_got_the_same_position (race window hit)': c['race_hits'],
                 'duplicated_positions': c['dup_positions'], 'max_simultaneously_open_calls': c['max_overlap'], 'admitted_by_model': c['admitted'], 'repeated_value_histories (value-level clauses + stub length only)': c.get('repeated_value_histories', 0),
                 'witness_by_greedy_search': c['witness_greedy'], 'witness_by_exhaustive_search': c['witness_dfs'], 'inconclusive': len(c['inconclusive'])}
    if rc:
        conc_dist['under_race_detector'] = {'rounds': len(r['race']['ops']), 'histories': rc['histories'], 'calls': rc['calls'], 'race_window_hits': rc['race_hits'],
                                            'admitted_by_model': rc['admitted'], 'data_race_reports': r['race']['reports'],
                                            'sequential_spec_histories': len(r['race']['seq_ops'])}
    ndist = len(nontrivial) + len(c['distinct']) + (len(rc['distinct']) if rc else 0)
    evals = len(seq_ops) + c['histories'] + (rc['histories'] + len(r['race']['seq_ops']) if rc else 0)
    si = [i for i in (0, len(seq_ops) // 3, len(seq_ops) // 2, len(seq_ops) - 1) if 0 <= i < len(seq_ops)]
    samples = [{'op': seq_ops[i][:400], 'impl': (impl[i] or '')[:300], 'model': r['seq_model'][i][:300] if i < len(r['seq_model']) else None} for i in si]
    for i in range(min(2, len(r['conc_ops']))):
        samples.append({'op': r['conc_ops'][i], 'history': (r['conc_impl'][i] or '')[:400]})
    out.coverage = {
        'obligations': proof['obligations'], 'discharged': proof['discharged'],
        'checker_cmd': ' ; '.join(['build/c05extract -repo <repo> > lean/GoomVerif/Gen/Cursor.lean'] + proof['cmds']),
        'trusted_base': ['Lean 4.33 kernel', 'axioms: ' + ', '.join(sorted({a for v in proof['axioms'].values() for a in v}) or ['none']),
                         'harness/c05/extract (go/ast): operators and constants of (*BaseMatcher).Result → Gen/Cursor.lean; any other statement shape is rejected',
                         'hand transcription Model/Cursor.lean of when.go/mocker.go/iface.go (cross-checked against the real API on every sequential evaluation below, incl. private cursor state)',
                         'probe harness/c05/seq_probe_test.go: global atomic stamp counter brackets every concurrent call; untrusted witness search in checks/C05.py, its output is replayed by the Lean model',
                         'not modelled: reflect.MakeFunc/Call, machine-code patching, Go memory model of the plain curNum read on the single-result path (race detector run is the evidence), reconfiguration concurrent with calls'],
        'theorems': proof['axioms'], 'proof_failures': proof['failed'],
        'evaluations': evals, 'distinct_nontrivial': ndist,
        'traces_validated_against_impl': (len(seq_ops) - len(r['seq_diffs'])) + c['admitted'] + (rc['admitted'] if rc else 0),
        'rule': 'one evaluation = one line: (a) c05.serve n cur — the real Result() on a matcher put into that state; (b) c05.seq — one whole '
                'configuration-and-call history through the real public API on a fresh builder (spec lane: default sequence, 0-4 conditions '
                '(eq/In/Any, overlapping; on the variadic targets v0/v1/v2/vm argument lists of 2-3 arities, several per arity, declared back to back) with sequences of length 1..49 built by Returns, Return+AndReturn or Matches, in which adjacent positions often hold equal values (the two-result target returns (t%50, t) so tuples also repeat partially), then 4..240 calls; free lane: '
                'configuration and calls interleaved arbitrarily; malformed lane); (c) one stamped concurrent history of one stub '
                '(G in 2..32 goroutines from a spin barrier, K in 1..64 calls each, n from 1 to 2*G*K, one default sequence or two conditions '
                'consumed by disjoint caller groups). Non-trivial = the history returned at least one configured value (a/b) or was a '
                'complete concurrent history that passed parsing (c); distinct = distinct op line (a/b) or distinct (n, event sequence) (c).',
        'distribution': {'sequential': dist, 'concurrent': conc_dist, 'gen_cursor_changed_this_run': changed, 'widened_search_evaluations': widened},
        'samples': samples,
    }
    out.assumptions = ['Match/Eval of conditions are pure and thread-safe (selection never reads a cursor: theorem independent)', 'goroutine stamps from one global atomic counter order invocation/response events consistently with real time',
                       'callers never reconfigure a stub while calls are running (the property quantifies over concurrent callers only)']


# ---------------------------------------------------------------------------------------------------- replay

def replay(body):
    ops = body.get('ops', [])
    exe, derr = C.build_driver()
    if exe is None:
        raise C.Infra('goomdrv does not build: ' + derr[-1500:])
    b = build_probe(bool(body.get('race_build')))
    rc = 0
    seq = [o for o in ops if not o.startswith('c05.conc')]
    if seq:
        _, log, impl, p = run_lines(b, 'TestVerifC05', seq, 'c05-replay.seq')
        model = C.run_driver(exe, p, os.path.join(C.BUILD, 'c05-replay.seq.model'))
        spec = body.get('spec')
        for i, op in enumerate(seq):
            why = None
            if spec and len(spec) == 2:
                sp2 = [None if x is None else ([((c[0], c[1]), v) for c, v in x[0]], x[1]) for x in spec]
                exp, _, _ = spec_expected(op, sp2)
                got = (impl[i] or '').split(' | ')[0].split()
                got = [] if got == ['-'] else got
                if got != exp:
                    why = f'property demands {" ".join(exp)}'
            sb = serve_oracle([op], [impl[i]])
            if sb:
                why = sb[0][3]
            print(f'{op}\n  impl : {impl[i]}\n  model: {model[i]}\n  oracle: {why or "ok"}')
            if why or impl[i] != model[i]:
                rc = 1
    if body.get('hist') and ops:
        n = int(ops[0].split()[3])
        repeated = ops[0].split()[2] == 'r'
        for part in body['hist'].split(' ; '):
            held, hs = split_part(part)
            why = hist_oracle((n + 1) // 2 if repeated else n, parse_hist(hs))
            if held is not None and held != n:
                why = f'the stub was given a sequence of {n} results but holds {held} positions'
            print(f'recorded history (n={n}): oracle: {why or "ok"}')
            if why:
                rc = 1
            elif not repeated:
                w = witness(n, parse_hist(hs)) or witness_dfs(n, parse_hist(hs))
                print('  model: ' + ('admits' if isinstance(w, list) else 'no run of the model produces it'))
                if not isinstance(w, list):
                    rc = 1
    conc = [o for o in ops if o.startswith('c05.conc')]
    if conc:
        rounds = [o for o in conc for _ in range(200)]
        _, log, impl, _ = run_lines(b, 'TestVerifC05Conc', rounds, 'c05-replay.conc')
        res = validate_conc(exe, rounds, impl, 'c05-replay.conc')
        print(f're-ran {len(rounds)} rounds: {len(res["oracle_bad"])} violate the property, {len(res["rejected"])} rejected by the model, '
              f'{res["race_hits"]} hit the race window, data-race reports: {log.count("WARNING: DATA RACE")}')
        for i, op, hs, why in res['oracle_bad'][:3]:
            print(f'  {op}: {why}')
        if res['oracle_bad'] or res['rejected'] or 'WARNING: DATA RACE' in log:
            rc = 1
    return rc


def regen_setup():
    return regen_cursor()[:2]
