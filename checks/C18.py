"""C18 — argument expressions (arg.Any / arg.Equals / arg.In) form a consistent predicate algebra.

Proof: Props/C18.lean over Model/ValueC18.lean + Model/Equal.lean (a branch-by-branch transcription of arg/equals.go,
arg/expr.go, arg/builder.go and toValue/ToExpr of arg/value.go).  Tie X: an in-package probe builds real Go values from typed
value terms, runs the real Resolve/Eval, and the model driver answers the same lines.  The property oracle is computed by the
probe with Go's own ==/reflect.DeepEqual (never with the model) and judged here.
"""
import os
import struct

from vlib import common as C

META = {
    'property_id': 'C18',
    'technique': 'Lean 4 theorems about a transcription of arg.equal / Resolve / Eval over a typed value universe + differential run of the '
                 'real arg package on generated typed value terms, with Go ==/reflect.DeepEqual as independent oracle',
    'level': 'proof',
    'level_text': 'Full proof on the model: Any accepts every input; on same-typed ordinary values Equals(x) answers exactly Go equality '
                  '(== on scalars, identity on funcs, reflect.DeepEqual on composites, pointee for pointers, nil = nil) and is symmetric; '
                  'In is the union of its rows (of Equals(xi) for plain items); Eval never changes the expression state under any history of '
                  'calls; Resolve+Eval never panic on well-typed input. The model is tied to the source by running both on the same lines.',
    'level_note': 'Trusted: Lean kernel (propext, Classical.choice, Quot.sound), the hand transcription (cross-checked on every run against the '
                  'real code on all generated pairs), fmt/strconv facts supplied by the probe from the real runtime (%v of floats injective '
                  'except NaN: checked on every float that occurs; ParseInt/ParseFloat results), reflect.DeepEqual modelled on trees with '
                  'identity labels and canonical maps. Outside the statement (agreement with the model only): cross-typed patterns, NaN, '
                  '+0 vs -0 (known finding C18-signed-zero). reflect.DeepEqual and the fact that Eval writes nothing are transcribed, not derivable: their evidence is the '
                  'differential run (arguments delivered through reflect.MakeFunc, re-evaluation, in-place mutation between Evals). A []interface{} '
                  'alternative of In is a tuple in the code (known finding), unmodelled. Not modelled: variadic mode (C04/F6), cyclic values, the unsafe cast of value.go:56. '
                  'Excluded case (known finding C18-closure-code-identity, counter-example theorem in Findings/C18Closure.lean): two closures of one '
                  'function literal with different captured state compare equal; equals_spec_partial carries it as a decidable hypothesis, the '
                  'full statement is kept as C18.EqualsSpecFull. The model transcribes the code with fixes F10 and F18A applied.',
}

# ------------------------------------------------------------------------------------------------ the type zoo (mirrors the probe)

INTS = [('int', 64, True), ('int8', 8, True), ('int16', 16, True), ('int32', 32, True), ('int64', 64, True),
        ('uint', 64, False), ('uint8', 8, False), ('uint16', 16, False), ('uint32', 32, False), ('uint64', 64, False), ('uintptr', 64, False),
        ('NInt', 64, True), ('NI8', 8, True), ('NU16', 16, False), ('Level', 64, True), ('ULevel', 8, False), ('Errno', 32, True)]
FLTS = [('float64', 64), ('float32', 32), ('NF64', 64), ('NF32', 32), ('Temp', 64)]
METHOD_TYPES = {'Level', 'ULevel', 'Errno', 'Temp'}


def T_int(n):
    for name, bits, signed in INTS:
        if name == n:
            return ('int', name, bits, signed)
    raise KeyError(n)


def T_flt(n):
    for name, bits in FLTS:
        if name == n:
            return ('flt', name, bits)
    raise KeyError(n)


T_STR, T_NSTR, T_BOOL, T_NBOOL = ('str', 'string'), ('str', 'NStr'), ('bool', 'bool'), ('bool', 'NBool')
T_F0, T_F1, T_FU = ('fn', 'F0'), ('fn', 'F1'), ('fn', 'func()')


def T_ptr(t):
    return ('p', '*' + t[1], t)


def T_sl(t):
    return ('sl', '[]' + t[1], t)


def T_ar(n, t):
    return ('ar', f'[{n}]{t[1]}', n, t)


def T_mp(k, v):
    return ('mp', f'map[{k[1]}]{v[1]}', k, v)


SCALARS = [T_int(n) for n, _, _ in INTS] + [T_flt(n) for n, _ in FLTS] + [T_STR, T_NSTR, T_BOOL, T_NBOOL]
PLAIN_DYN = [T_int('int'), T_int('int64'), T_int('uint8'), T_int('uint64'), T_int('Level'), T_flt('float64'), T_flt('float32'), T_STR, T_BOOL]
T_ANY = ('if', 'any', None)
T_S1 = ('st', 'S1', [T_int('int'), T_STR])
T_S2 = ('st', 'S2', [T_int('int'), T_STR])
T_SF = ('st', 'SF', [T_FU])
T_SB = ('st', 'SB', [T_BOOL, T_int('uint16'), T_int('Level')])
T_SN = ('st', 'SN', [T_flt('float64'), T_ptr(T_int('int')), T_ANY, T_sl(T_int('int')), T_mp(T_STR, T_int('int')), T_ar(2, T_int('int8'))])
T_SS = ('st', 'SS', [T_S1, T_ptr(T_S1), T_flt('float32')])
T_ISTR = ('if', 'IStr', [T_int('Level'), T_int('ULevel'), T_flt('Temp'), ('st', 'SP', [T_int('int'), T_STR])])
_ERR_DYN = [T_int('Errno')]
T_ERR = ('if', 'error', _ERR_DYN)
T_ERRS = ('st', 'ErrS', [T_STR])
T_ERRW = ('st', 'ErrW', [T_STR, T_ERR])
T_ERRIS = ('st', 'ErrIs', [T_int('int'), T_STR])
T_ERRC = ('st', 'ErrC', [T_STR, T_ANY])
_ERR_DYN += [('p', '*ErrS', T_ERRS), ('p', '*ErrW', T_ERRW), T_ERRIS, T_ERRC]
T_E0 = ('st', 'E0', [])
T_U8 = ('int', 'uint8', 8, False)
T_BYTES = ('sl', '[]uint8', T_U8)
T_NBYTES = ('sl', 'NBytes', T_U8)
T_ARR4 = ('ar', '[4]uint8', 4, T_U8)
T_NARR4 = ('ar', 'NArr4', 4, T_U8)
T_SU = ('st', 'SU', [('int', 'int', 64, True), ('str', 'string')])
T_SP = ('st', 'SP', [T_int('int'), T_STR])
T_S3 = ('st', 'S3', [T_STR, T_STR])
STRUCTS = [T_S1, T_SF, T_SB, T_SN, T_SS]
COMPOSITES = STRUCTS + [T_ar(2, T_int('int8')), T_ar(3, T_STR), T_ar(2, T_S1), T_ar(2, T_flt('float64')), T_ar(0, T_int('int')),
                        T_sl(T_int('int')), T_sl(T_STR), T_sl(T_S1), T_sl(T_ANY), T_sl(T_flt('float64')), T_sl(T_sl(T_int('uint8'))), T_sl(T_F0),
                        T_mp(T_STR, T_int('int')), T_mp(T_int('int'), T_STR), T_mp(T_BOOL, T_S1), T_mp(T_STR, T_ANY), T_mp(T_int('uint8'), T_sl(T_int('int'))),
                        T_mp(T_STR, T_flt('float64')), T_sl(T_E0), T_sl(T_ar(0, T_int('int'))), T_E0,
                        T_BYTES, T_NBYTES, T_ARR4, T_NARR4, ('ar', '[0]uint8', 0, T_U8), T_SU, T_ar(2, T_SU)]
FUNCS = [T_F0, T_F1, T_FU]
POINTERS = ([T_ptr(t) for t in [T_int('int'), T_int('int8'), T_int('uint64'), T_int('Level'), T_flt('float64'), T_flt('float32'), T_STR, T_BOOL,
                                T_S1, T_SN, T_SF, T_F0, T_ANY, T_sl(T_int('int')), T_mp(T_STR, T_int('int')), T_ar(2, T_int('int8'))]]
            + [T_ptr(T_BYTES), T_ptr(T_ARR4), T_ptr(T_NBYTES), T_ptr(T_SU), T_ptr(T_ptr(T_int('int'))), T_ptr(T_ptr(T_S1)), T_ptr(T_ptr(T_F0)), T_ptr(T_ptr(T_flt('float64')))])
IFACES = [T_ANY, T_ISTR, T_ERR]
PARAM_TYPES = SCALARS + COMPOSITES + FUNCS + POINTERS + IFACES
ANY_DYN = PLAIN_DYN + [T_S1, T_SB, T_ptr(T_S1), T_ptr(T_int('int')), T_ptr(T_flt('float64')), T_sl(T_int('int')), T_mp(T_STR, T_int('int')), T_F0, T_FU,
                       T_ar(2, T_int('int8')), T_int('int32'), T_int('uint'), T_NSTR, T_NBOOL, T_flt('Temp'), T_sl(T_ANY), T_ptr(T_ptr(T_int('int'))),
                       T_BYTES, T_ARR4, T_NARR4, T_SU, T_ptr(T_BYTES)]

F64_BITS = [0x0, 0x8000000000000000, 0x1, 0x8000000000000001, 0x000fffffffffffff, 0x0010000000000000, 0x3ff0000000000000, 0xbff0000000000000,
            0x3fb999999999999a, 0x3fe0000000000000, 0x4000000000000000, 0x4340000000000000, 0x4340000000000001, 0x43e0000000000000, 0x412e848000000000,
            0x7fefffffffffffff, 0xffefffffffffffff, 0x7ff0000000000000, 0xfff0000000000000, 0x7ff8000000000000, 0x7ff8000000000001, 0xfff8000000000000,
            0x7ff0000000000001, 0x3ff0000000000001, 0x3ff8000000000000, 0x4024000000000000, 0x40f86a0000000000, 0x3f1a36e2eb1c432d, 0x3eb0c6f7a0b5ed8d]
F32_BITS = [0x0, 0x80000000, 0x1, 0x80000001, 0x007fffff, 0x00800000, 0x3f800000, 0xbf800000, 0x3dcccccd, 0x3f000000, 0x40000000, 0x4b800000, 0x4b800001,
            0x5f000000, 0x49742400, 0x7f7fffff, 0xff7fffff, 0x7f800000, 0xff800000, 0x7fc00000, 0x7fc00001, 0xffc00000, 0x7f800001, 0x3f800001, 0x3fc00000,
            0x41200000, 0x47c35000, 0x38d1b717]
STRINGS = ['', 'a', 'abc', 'b', '0', '1', '-1', '+1', '1.0', '1e3', '1E3', '0x10', '0x', 'true', 'false', 'f', 'F', 'T', 't', 'TRUE', 'False', ' 1', '1 ',
           'NaN', 'nan', 'inf', '-Inf', 'Infinity', '9223372036854775807', '9223372036854775808', '-9223372036854775808', '18446744073709551615',
           '1.5', '-0', '0.0', '0e0', '.5', '5.', '1_000', '0b1', '0o7', '007', '1e400', '1e-400', '4.9e-324', 'é', b'\xff\xfe', 'a b', 'hello world', '\x00',
           '0.1', '100000', '1000000', '1e6', '255', '256', '-128', 'unknown', 'debug']


def name(t):
    return t[1]


def kindclass(t):
    return t[0]


# ------------------------------------------------------------------------------------------------ value terms (token lists)

def hexs(s):
    b = s if isinstance(s, bytes) else s.encode('utf-8')
    return b.hex() if b else '-'


def int_bounds(bits, signed):
    return (-(1 << (bits - 1)), (1 << (bits - 1)) - 1) if signed else (0, (1 << bits) - 1)


def int_values(t):
    lo, hi = int_bounds(t[2], t[3])
    vs = {lo, hi, 0, 1, 2, 3, 7, 8, hi - 1, lo + 1, hi // 2, 100, 127, 128 if hi >= 128 else 1}
    if t[3]:
        vs |= {-1, -2}
    return sorted(v for v in vs if lo <= v <= hi)


class Gen:
    """Structured generator of typed value terms; every random choice comes from the forked Rng."""

    def __init__(self, rng):
        self.r = rng
        self.label = 0

    def fresh_label(self):
        self.label += 1
        return self.label

    def int_term(self, t, v):
        return ['i', name(t), 's' if t[3] else 'u', str(v)]

    def flt_term(self, t, bits):
        return ['f', name(t), str(t[2]), f'{bits:#x}', '?']

    def str_term(self, t, s):
        return ['s', name(t), hexs(s), '?', '?']

    def scalar(self, t):
        r = self.r
        k = t[0]
        if k == 'int':
            if r.chance(3, 4):
                return self.int_term(t, r.choice(int_values(t)))
            lo, hi = int_bounds(t[2], t[3])
            return self.int_term(t, lo + r.below(hi - lo + 1))
        if k == 'flt':
            pool = F64_BITS if t[2] == 64 else F32_BITS
            if r.chance(4, 5):
                return self.flt_term(t, r.choice(pool))
            return self.flt_term(t, r.next() & ((1 << t[2]) - 1))
        if k == 'str':
            return self.str_term(t, r.choice(STRINGS))
        if k == 'bool':
            return ['b', name(t), str(r.below(2))]
        raise ValueError(t)

    def value(self, t, depth=0, allow_nil=True):
        """A random value of type t as a token list."""
        r = self.r
        k = t[0]
        if k in ('int', 'flt', 'str', 'bool'):
            return self.scalar(t)
        if k == 'st':
            out = ['st', name(t), str(len(t[2]))]
            for ft in t[2]:
                out += self.value(ft, depth + 1)
            return out
        if k == 'ar':
            out = ['ar', name(t), str(t[2])]
            for _ in range(t[2]):
                out += self.value(t[3], depth + 1)
            return out
        if k == 'sl':
            if allow_nil and r.chance(1, 5):
                return ['sl', name(t), 'nil']
            n = r.choice([0, 0, 1, 1, 2, 3]) if depth < 3 else 0
            out = ['sl', name(t), '0', str(n)]
            for _ in range(n):
                out += self.value(t[2], depth + 1)
            return out
        if k == 'mp':
            if allow_nil and r.chance(1, 5):
                return ['mp', name(t), 'nil']
            n = r.choice([0, 1, 1, 2, 3]) if depth < 3 else 0
            keys = {}
            for _ in range(n):
                kt = self.scalar(t[2])
                keys[self.keysort(kt)] = kt
            out = ['mp', name(t), '0', str(len(keys))]
            for sk in sorted(keys):
                out += keys[sk] + self.value(t[3], depth + 1)
            return out
        if k == 'p':
            if allow_nil and r.chance(1, 5):
                return ['p', name(t), 'nil']
            return ['p', name(t), '0'] + self.value(t[2], depth + 1)
        if k == 'if':
            if (allow_nil and r.chance(1, 4)) or depth >= 4:
                return ['if', name(t), 'nil']
            dyn = r.choice(t[2] if t[2] else (ANY_DYN if depth < 2 else PLAIN_DYN))
            return ['if', name(t)] + self.value(dyn, depth + 1)
        if k == 'fn':
            if allow_nil and r.chance(1, 4):
                return ['fn', name(t), 'nil']
            code = r.choice([1, 1, 2, 3])
            return ['fn', name(t), str(code), str(r.below(2)) if code == 3 else '0']
        raise ValueError(t)

    @staticmethod
    def keysort(kt):
        if kt[0] == 'i':
            return (0, int(kt[3]), b'')
        if kt[0] == 'b':
            return (0, int(kt[2]), b'')
        return (1, 0, bytes.fromhex(kt[2]) if kt[2] != '-' else b'')

    def near(self, t, term, depth=0):
        """A value of type t close to `term`: usually equal in all but one position."""
        r = self.r
        k = t[0]
        if r.chance(1, 3) or k in ('bool',):
            return self.value(t, depth)
        if k == 'int':
            lo, hi = int_bounds(t[2], t[3])
            v = int(term[3]) + r.choice([-1, 1, 1 << (t[2] - 1), -(1 << (t[2] - 1))])
            return self.int_term(t, min(hi, max(lo, v)))
        if k == 'flt':
            bits = int(term[3], 16)
            return self.flt_term(t, (bits ^ r.choice([1, 1 << (t[2] - 1), 1 << (t[2] - 12)])) & ((1 << t[2]) - 1))
        if k == 'str':
            return self.str_term(t, r.choice(STRINGS))
        return self.value(t, depth)

    def share(self, term):
        """Give every pointer/slice/map inside `term` an identity label, so that a copy of the term denotes the very same objects."""
        out = list(term)
        for i in range(len(out) - 2):
            if out[i] in ('p', 'sl', 'mp') and out[i + 2] == '0':
                out[i + 2] = str(self.fresh_label())
        return out


def arg_tokens(term):
    return ['nil'] if term is None else ['?'] + term


def ty_tok(t):
    return name(t) + ':?:?:?'


def evv_line(fixed, slice_t, expr, inputs):
    """variadic In: inputs = [(fixed args, elements of the packed last argument)]"""
    toks = ['c18.evv', str(len(fixed) + 1)] + [ty_tok(t) for t in fixed + [slice_t]] + [ty_tok(slice_t[2])] + expr + [str(len(inputs))]
    for fx, es in inputs:
        for a in fx:
            toks += ['nil'] if a is None else a
        toks.append(str(len(es)))
        for a in es:
            toks += ['nil'] if a is None else a
    return ' '.join(toks)


def ev_line(types, expr, inputs):
    toks = ['c18.ev', str(len(types))] + [ty_tok(t) for t in types] + expr + [str(len(inputs))]
    for tup in inputs:
        for a in tup:
            toks += ['nil'] if a is None else a
    return ' '.join(toks)


NILABLE = ('p', 'sl', 'mp', 'if', 'fn')


def gen_ops(tier, rng):
    """Returns list of (line, lane).  lane 'wt' = well-typed (totality is demanded), 'x' = cross-typed / malformed (agreement only)."""
    g = Gen(rng)
    ops = []
    scale = 1 if tier == 'quick' else 150

    def add(line, lane):
        ops.append((line, lane))

    # ---- lane 1: boundary cross product per numeric type (every boundary value against every other of its type)
    for t in [T_int(n) for n, _, _ in INTS]:
        vals = int_values(t)
        if tier == 'quick':
            vals = vals[:3] + vals[-3:] + [v for v in vals if v in (0, 1, 2, 3, 7)]
            vals = sorted(set(vals))
        for x in vals:
            add(ev_line([t], ['eq'] + arg_tokens(g.int_term(t, x)), [[g.int_term(t, a)] for a in vals]), 'wt')
    for t in [T_flt(n) for n, _ in FLTS]:
        pool = F64_BITS if t[2] == 64 else F32_BITS
        if tier == 'quick' and name(t) not in ('float64', 'float32'):
            pool = pool[:10] + pool[17:21]
        for x in pool:
            add(ev_line([t], ['eq'] + arg_tokens(g.flt_term(t, x)), [[g.flt_term(t, a)] for a in pool]), 'wt')
    for t in (T_STR, T_NSTR):
        ss = STRINGS if (tier == 'thorough' or t is T_STR) else STRINGS[:12]
        for x in ss[::1 if tier == 'thorough' else 3]:
            add(ev_line([t], ['eq'] + arg_tokens(g.str_term(t, x)), [[g.str_term(t, a)] for a in ss]), 'wt')
    for t in (T_BOOL, T_NBOOL):
        for x in (0, 1):
            add(ev_line([t], ['eq', '?', 'b', name(t), str(x)], [[['b', name(t), '0']], [['b', name(t), '1']]]), 'wt')

    # ---- lane 2: same-typed random pairs over every parameter type (nil and non-nil, shared and fresh objects), repeated inputs
    n2 = 40 * scale
    for t in PARAM_TYPES:
        reps = n2 if t[0] not in ('int', 'flt', 'str', 'bool') else max(4, n2 // 8)
        for _ in range(reps):
            if t[0] in NILABLE and rng.chance(1, 6):
                x = None
            elif t[0] == 'if':
                dyn = rng.choice(t[2] if t[2] else ANY_DYN)
                x = g.value(dyn, 1)
            else:
                x = g.value(t)
            xt = t
            if t[0] == 'if' and x is not None:
                xt = next(d for d in (t[2] or ANY_DYN) if name(d) == x[1])
            inputs = []
            for _ in range(1 + rng.below(4)):
                m = rng.below(10)
                if x is None:
                    a = None if m < 4 else (g.value(rng.choice(t[2] or ANY_DYN), 1) if t[0] == 'if' else g.value(t))
                elif m < 3:
                    a = list(x)                                  # structurally equal, fresh objects
                elif m < 4:
                    x = g.share(x)                               # the very same object
                    a = list(x)
                elif m < 8:
                    a = g.near(xt, x, 1)
                elif m < 9 and t[0] in NILABLE:
                    a = None
                elif t[0] == 'if':
                    a = g.value(rng.choice(t[2] or ANY_DYN), 1)   # other dynamic type: cross-typed, agreement only
                else:
                    a = g.value(t)
                if a is not None and a[:3] == ['if', name(t), 'nil']:
                    a = None
                inputs.append([a])
            if rng.chance(1, 3):
                inputs = inputs + inputs[:2]                     # repeated evaluation inside one history
            add(ev_line([t], ['eq'] + arg_tokens(x), inputs), 'wt')

    # ---- lane 3: Any on everything
    for t in PARAM_TYPES[::1 if tier == 'thorough' else 3]:
        ins = [[g.value(rng.choice(t[2] or ANY_DYN), 1) if t[0] == 'if' else g.value(t)] for _ in range(2)]
        if t[0] in NILABLE:
            ins.append([None])
        add(ev_line([t], ['any'], ins), 'wt')
    add(ev_line([T_int('int'), T_STR], ['any'], [[g.value(T_int('int')), g.value(T_STR)]]), 'wt')

    # ---- lane 4: In — plain items, nested expressions, tuples over several parameters
    n4 = 150 * scale
    simple = SCALARS + [T_S1, T_SB, T_ptr(T_S1), T_ptr(T_int('int')), T_sl(T_int('int')), T_mp(T_STR, T_int('int')), T_F0, T_ANY, T_ISTR, T_ar(2, T_int('int8'))]

    def rand_of(t):
        if t[0] == 'if':
            return g.value(rng.choice(t[2] or PLAIN_DYN), 1)
        return g.value(t, 1, allow_nil=False)

    def comp(t, pool, depth=0):
        m = rng.below(10)
        if m < 6:
            return ['v'] + arg_tokens(rng.choice(pool) if pool and rng.chance(2, 3) else rand_of(t))
        if m < 7 and t[0] in NILABLE:
            return ['v', 'nil']
        if m < 8:
            return ['e', 'any']
        if m < 9 or depth >= 2:
            return ['e', 'eq'] + arg_tokens(rng.choice(pool) if pool else rand_of(t))
        k = 1 + rng.below(3)
        sub = ['e', 'in', str(k)]
        for _ in range(k):
            sub += ['c'] + comp(t, pool, depth + 1)
        return sub

    for _ in range(n4):
        nT = rng.choice([1, 1, 1, 2, 3])
        types = [rng.choice(simple) for _ in range(nT)]
        pools = [[rand_of(t) for _ in range(3)] for t in types]
        k = rng.below(5)
        expr = ['in', str(k)]
        for _ in range(k):
            if nT == 1 and rng.chance(2, 3):
                expr += ['c'] + comp(types[0], pools[0])
            else:
                expr += ['t', str(nT)]
                for j in range(nT):
                    expr += comp(types[j], pools[j])
        inputs = []
        for _ in range(1 + rng.below(4)):
            inputs.append([(rng.choice(pools[j]) if rng.chance(3, 4) else rand_of(types[j])) for j in range(nT)])
        if rng.chance(1, 3):
            inputs = inputs + inputs[:1]
        add(ev_line(types, expr, inputs), 'wt')

    # ---- lane 6: values that SHARE storage — sub-slices of one backing array (same or different start, same or different length),
    # the same header twice, fresh copies of the same contents, zero-size element slices of different length, behind a pointer / interface
    n6 = 60 * scale
    elem_types = [T_int('int'), T_STR, T_S1, T_ANY, T_flt('float64'), T_E0, T_ar(0, T_int('int')), T_F0, T_int('uint8')]
    for _ in range(n6):
        et = rng.choice(elem_types)
        st = T_sl(et)
        n = rng.below(5)
        elems = [g.value(rng.choice(PLAIN_DYN), 2) if False else g.value(et, 2) for _ in range(n)]
        flat = [tok for e in elems for tok in e]
        bid = g.fresh_label()

        def window(lo, hi):
            return ['ss', name(st), str(bid), str(lo), str(hi), str(n)] + flat

        def copy(lo, hi):
            return ['sl', name(st), '0', str(hi - lo)] + [tok for e in elems[lo:hi] for tok in e]

        wins = [(lo, hi) for lo in range(n + 1) for hi in range(lo, n + 1)]
        lo, hi = rng.choice(wins)
        cand = [window(lo, hi), copy(lo, hi)]
        for h2 in range(lo, n + 1):
            cand.append(window(lo, h2))                     # same data pointer, every length
        for _ in range(3):
            l2, h2 = rng.choice(wins)
            cand += [window(l2, h2), copy(l2, h2)]
        m = rng.below(3)
        if m == 0:
            wrap, pt = (lambda t: t), st
        elif m == 1:
            pt = T_ptr(st)
            wrap = lambda t: ['p', name(pt), '0'] + t
        else:
            wrap, pt = (lambda t: t), T_ANY
        ins = [[wrap(c)] for c in cand]
        if rng.chance(1, 2):
            add(ev_line([pt], ['eq'] + arg_tokens(wrap(window(lo, hi))), ins), 'wt')
        else:
            k = 1 + rng.below(2)
            expr = ['in', str(k)]
            for _ in range(k):
                l2, h2 = rng.choice(wins)
                expr += ['c', 'v'] + arg_tokens(wrap(window(l2, h2)))
            # a []interface{} alternative of In IS a tuple (expr.go:71), never a value: known finding, judged by the union oracle only
            add(ev_line([pt], expr, ins), 'kt' if (et is T_ANY and m != 1) else 'wt')
    for et in (T_E0, T_ar(0, T_int('int'))):                # zero-size elements: every slice has the same data pointer
        st = T_sl(et)
        mk = lambda k: ['sl', name(st), '0', str(k)] + [tok for _ in range(k) for tok in g.value(et)]
        for a in range(4):
            add(ev_line([st], ['eq'] + arg_tokens(mk(a)), [[mk(b)] for b in range(4)]), 'wt')

    # ---- lane 7: variadic In with tuple items; every argument list is evaluated repeatedly (purity of Eval w.r.t. its input list)
    n7 = 40 * scale
    var_elems = [T_int('int'), T_STR, T_ANY, T_int('uint8'), T_flt('float64')]
    for _ in range(n7):
        et = rng.choice(var_elems)
        st = T_sl(et)
        fixed = [rng.choice([T_STR, T_int('int'), T_BOOL, T_ANY]) for _ in range(rng.below(3))]
        fpools = [[rand_of(t) for _ in range(2)] for t in fixed]
        epool = [rand_of(et) for _ in range(3)]
        k = 1 + rng.below(3)
        expr = ['in', str(k)]
        for _ in range(k):
            m = rng.below(4)
            expr += ['t', str(len(fixed) + m)]
            for j in range(len(fixed)):
                expr += ['v'] + arg_tokens(rng.choice(fpools[j])) if rng.chance(4, 5) else ['e', 'any']
            for _ in range(m):
                expr += ['v'] + arg_tokens(rng.choice(epool)) if rng.chance(4, 5) else ['e', 'any']
        inputs = []
        for _ in range(1 + rng.below(3)):
            inputs.append(([rng.choice(fpools[j]) for j in range(len(fixed))], [rng.choice(epool) for _ in range(rng.below(4))]))
        inputs = inputs + inputs[:1]
        add(evv_line(fixed, st, expr, inputs), 'wt')

    # ---- lane 8: ONE expression object shared between positions / clauses / Ins: scripts of interleaved Resolve and Eval calls
    # (Resolve ; Eval ; Resolve of the same object at another type, directly or through an In that holds it ; Eval of the first use again)
    n8 = 80 * scale
    sh_types = [T_int('int'), T_STR, T_ANY, T_ptr(T_S1), T_sl(T_int('int')), T_flt('float64'), T_int('Level'), T_BOOL, T_F0, T_sl(T_STR)]

    def sh_line(objs, steps):
        toks = ['c18.sh', str(len(objs))]
        for o in objs:
            toks += o
        toks.append(str(len(steps)))
        for st in steps:
            toks += st
        return ' '.join(toks)

    def sh_input(t):
        if t[0] in NILABLE and rng.chance(1, 8):
            return ['nil']
        return rand_of(t)

    def R(i, types):
        return ['R', str(i), str(len(types))] + [ty_tok(t) for t in types]

    def E(i, types):
        out = ['E', str(i), str(len(types))] + [ty_tok(t) for t in types]
        for t in types:
            out += sh_input(t)
        return out

    for anyk in ('any', 'anyvalues'):               # the shapes of real use, systematically over type pairs
        for t1 in sh_types:
            for t2 in sh_types[::1 if tier == 'thorough' else 3]:
                add(sh_line([[anyk]], [R(0, [t1]), E(0, [t1]), R(0, [t2]), E(0, [t1]), E(0, [t2])]), 'x')
                add(sh_line([[anyk], ['in', '1', 'c', 'r', '0']], [R(0, [t1]), E(0, [t1]), R(1, [t2]), E(1, [t2]), E(0, [t1])]), 'x')
                add(sh_line([[anyk], ['in', '1', 't', '2', 'r', '0', 'r', '0']], [R(1, [t1, t2]), E(1, [t1, t2]), E(0, [t1]), E(0, [t2])]), 'x')
                add(sh_line([[anyk], ['in', '1', 't', '2', 'r', '0', 'v'] + arg_tokens(rand_of(t2)), ['in', '1', 't', '2', 'v'] + arg_tokens(rand_of(t2)) + ['r', '0']],
                            [R(1, [t1, t2]), E(1, [t1, t2]), R(2, [t2, t1]), E(1, [t1, t2]), E(2, [t2, t1])]), 'x')
    for _ in range(n8):
        pool = [rng.choice(sh_types) for _ in range(2 + rng.below(2))]
        objs, arity = [], []
        for i in range(1 + rng.below(4)):
            m = rng.below(10)
            if m < 3 or i == 0 and m < 6:
                objs.append([rng.choice(['any', 'anyvalues'])])
                arity.append(1)
            elif m < 6 or i == 0:
                t = rng.choice(pool)
                objs.append(['eq'] + (['nil'] if t[0] in NILABLE and rng.chance(1, 6) else arg_tokens(rand_of(t))))
                arity.append(1)
            else:
                ar = rng.choice([1, 1, 2])
                k = 1 + rng.below(3)
                o = ['in', str(k)]
                for _ in range(k):
                    o += ['c'] if ar == 1 else ['t', str(ar)]
                    for _ in range(ar):
                        if rng.chance(1, 2):
                            o += ['r', str(rng.below(i))]
                        else:
                            o += ['v'] + arg_tokens(rand_of(rng.choice(pool)))
                objs.append(o)
                arity.append(ar)
        steps = []
        for _ in range(4 + rng.below(7)):
            i = rng.below(len(objs))
            types = [rng.choice(pool) for _ in range(arity[i])]
            steps.append(R(i, types) if rng.chance(2, 5) else E(i, types))
        add(sh_line(objs, steps), 'x')

    # ---- lane 9: In whose alternatives are DIFFERENT values with the SAME %v rendering (strings with spaces vs split strings, nil vs
    # empty slice/map, lossy String() methods, numeric-looking strings vs numbers, tuples whose concatenation coincides); every
    # alternative is also an input, so the union oracle (fresh Equals(xi) per alternative) demands that each of them is accepted
    S = lambda v, t=T_STR: g.str_term(t, v)
    I = lambda v, n='int': g.int_term(T_int(n), v)
    F = lambda bits, n='float64': g.flt_term(T_flt(n), bits)
    sl = lambda t, elems: ['sl', name(T_sl(t)), '0', str(len(elems))] + [tok for e in elems for tok in e]
    st = lambda t, fields: ['st', name(t), str(len(fields))] + [tok for f in fields for tok in f]
    mp_si = T_mp(T_STR, T_int('int'))
    groups = [   # (parameter type, alternatives that print alike)
        (T_sl(T_STR), [sl(T_STR, [S('a b')]), sl(T_STR, [S('a'), S('b')]), sl(T_STR, [S('a '), S(''), S('b')])]),
        (T_sl(T_STR), [sl(T_STR, []), ['sl', '[]string', 'nil'], sl(T_STR, [S('')])]),
        (T_sl(T_int('int')), [['sl', '[]int', 'nil'], sl(T_int('int'), [])]),
        (mp_si, [['mp', name(mp_si), 'nil'], ['mp', name(mp_si), '0', '0']]),
        (T_int('Level'), [I(7, 'Level'), I(8, 'Level'), I(-1, 'Level')]),
        (T_int('ULevel'), [I(9, 'ULevel'), I(10, 'ULevel')]),
        (T_flt('Temp'), [F(0x3ff0000000000000, 'Temp'), F(0x3ff0a3d70a3d70a4, 'Temp')]),
        (T_SP, [st(T_SP, [I(1), S('n')]), st(T_SP, [I(2), S('n')])]),
        (T_ptr(T_SP), [['p', '*SP', '0'] + st(T_SP, [I(1), S('n')]), ['p', '*SP', '0'] + st(T_SP, [I(2), S('n')])]),
        (T_ISTR, [st(T_SP, [I(1), S('unknown')]), I(7, 'Level'), st(T_SP, [I(3), S('unknown')])]),
        (T_SB, [st(T_SB, [['b', 'bool', '1'], I(5, 'uint16'), I(7, 'Level')]), st(T_SB, [['b', 'bool', '1'], I(5, 'uint16'), I(9, 'Level')])]),
        (T_S3, [st(T_S3, [S('a b'), S('c')]), st(T_S3, [S('a'), S('b c')])]),
        (T_S1, [st(T_S1, [I(1), S('2 3')]), st(T_S1, [I(1), S('2 3 ')])]),
        (T_ANY, [S('1'), I(1), I(1, 'uint8'), S('1', T_NSTR)]),
        (T_ANY, [S('1.5'), F(0x3fc00000, 'float32'), F(0x3ff8000000000000)]),
        (T_ANY, [S('true'), ['b', 'bool', '1'], ['b', 'NBool', '1']]),
        (T_ANY, [S('a'), S('a', T_NSTR)]),
        (T_ANY, [sl(T_STR, [S('x y')]), sl(T_STR, [S('x'), S('y')]), ['ar', '[2]string', '2'] + S('x') + S('y')]),
        (T_ANY, [I(7, 'Level'), S('unknown'), I(8, 'Level')]),
        (T_ANY, [['sl', '[]int', 'nil'], sl(T_int('int'), []), ['mp', name(mp_si), '0', '0'] if False else sl(T_STR, [])]),
        (T_ar(3, T_STR), [['ar', '[3]string', '3'] + S('a b') + S('') + S('c'), ['ar', '[3]string', '3'] + S('a') + S('b ') + S('c')]),
        (T_mp(T_STR, T_int('int')), [['mp', name(mp_si), '0', '1'] + S('a b') + I(1), ['mp', name(mp_si), '0', '1'] + S('a') + I(1)] if False else
                                    [['mp', name(mp_si), '0', '0'], ['mp', name(mp_si), 'nil']]),
    ]
    for pt, alts in groups:
        orders = [alts, alts[::-1]] + ([[alts[1], alts[0]] + alts[2:], alts[1:] + alts[:1]] if len(alts) > 2 else [])
        other = rand_of(pt) if pt[0] != 'if' else rand_of(rng.choice(pt[2] or PLAIN_DYN))
        for order in orders:
            expr = ['in', str(len(order))]
            for a in order:
                expr += ['c', 'v'] + arg_tokens(a)
            add(ev_line([pt], expr, [[a] for a in alts] + [[other]]), 'wt')
            # the same alternatives as the first component of two-parameter tuples
            expr = ['in', str(len(order))]
            for a in order:
                expr += ['t', '2', 'v'] + arg_tokens(a) + ['v'] + arg_tokens(I(5))
            add(ev_line([pt, T_int('int')], expr, [[a, I(5)] for a in alts] + [[alts[0], I(6)]]), 'wt')
    tuple_groups = [   # multi-argument groups whose concatenated rendering coincides
        ([T_STR, T_STR], [[S('a'), S('bc')], [S('ab'), S('c')], [S('abc'), S('')], [S(''), S('abc')]]),
        ([T_STR, T_STR, T_STR], [[S('a'), S('b'), S('c')], [S('ab'), S(''), S('c')], [S('a'), S('bc'), S('')]]),
        ([T_ANY, T_STR], [[S('1'), S('2')], [S('12'), S('')], [I(1), S('2')]]),
        ([T_int('Level'), T_STR], [[I(7, 'Level'), S('x')], [I(8, 'Level'), S('x')]]),
        ([T_sl(T_STR), T_int('int')], [[sl(T_STR, [S('a b')]), I(1)], [sl(T_STR, [S('a'), S('b')]), I(1)]]),
    ]
    for pts, alts in tuple_groups:
        for order in (alts, alts[::-1], alts[1:] + alts[:1]):
            expr = ['in', str(len(order))]
            for tup in order:
                expr += ['t', str(len(pts))]
                for a in tup:
                    expr += ['v'] + arg_tokens(a)
            add(ev_line(pts, expr, [list(tup) for tup in alts]), 'wt')
    for pts, alts in tuple_groups[:2]:               # and in variadic mode: func(string, ...string)
        for order in (alts, alts[::-1]):
            expr = ['in', str(len(order))]
            for tup in order:
                expr += ['t', str(len(pts))]
                for a in tup:
                    expr += ['v'] + arg_tokens(a)
            add(evv_line([T_STR], T_sl(T_STR), expr, [([tup[0]], list(tup[1:])) for tup in alts]), 'wt')

    # ---- lane 10: the caller REUSES one argument object and changes its contents between two calls: the probe mutates the pointee /
    # map / slice in place and evaluates the very same reflect.Value again (each answer must follow the current contents)
    n10 = 25 * scale
    mu_types = [T_ptr(T_S1), T_ptr(T_int('int')), T_ptr(T_flt('float64')), T_mp(T_STR, T_int('int')), T_ptr(T_SN), T_ptr(T_ptr(T_int('int'))),
                T_ptr(T_sl(T_int('int'))), T_ptr(T_STR), T_ptr(T_SU), T_ptr(T_BYTES)]

    def nonnil(t):
        if t[0] == 'sl':
            return ['sl', name(t), '0', '2'] + g.value(t[2], 2) + g.value(t[2], 2)
        while True:
            v = g.value(t, 0, allow_nil=False)
            if v[2] != 'nil':
                return v

    for _ in range(n10):
        t = rng.choice(mu_types + [T_sl(T_int('int')), T_BYTES])
        v0, v1, v2 = nonnil(t), nonnil(t), nonnil(t)
        seq = [v0, v1, v0, v0, v2, v1, v0][:3 + rng.below(5)]
        if rng.chance(1, 2):
            seq = [v1] + seq
        pt = T_ANY if rng.chance(1, 4) else t
        if rng.chance(2, 3):
            add(ev_line([pt], ['eq'] + arg_tokens(v0), [[a] for a in seq]).replace('c18.ev', 'c18.mu', 1), 'wt')
        else:
            add(ev_line([pt], ['in', '2', 'c', 'v'] + arg_tokens(v0) + ['c', 'v'] + arg_tokens(v2), [[a] for a in seq]).replace('c18.ev', 'c18.mu', 1), 'wt')

    # ---- lane 11: In with MANY alternatives (8 and more): every alternative, near misses between alternatives, unrelated values
    many_types = [T_flt('float64'), T_flt('float32'), T_int('int'), T_int('uint8'), T_int('Level'), T_STR, T_ptr(T_S1), T_S1, T_ANY, T_ptr(T_int('int')),
                  T_sl(T_int('int')), T_flt('Temp'), T_BYTES, T_ARR4]
    sizes = [8, 9, 12] if tier == 'quick' else [8, 9, 10, 12, 16, 17, 33, 64]
    for t in many_types:
        for k in sizes:
            if t[0] == 'flt':           # k+0.5 alternatives; inputs in between (same integer part)
                pack = (lambda x: struct.unpack('<Q', struct.pack('<d', x))[0]) if t[2] == 64 else (lambda x: struct.unpack('<I', struct.pack('<f', x))[0])
                alts = [g.flt_term(t, pack(i + 0.5)) for i in range(k)]
                ins = [alts[0], alts[k - 1], alts[k // 2]] + [g.flt_term(t, pack(i + 0.25)) for i in (0, 1, k // 2, k - 1)] + [g.flt_term(t, pack(1.0)), g.flt_term(t, pack(k + 5.0))]
            else:
                alts, seen_a = [], set()
                for _ in range(k * 20):
                    v = rand_of(t)
                    if ' '.join(v) not in seen_a:
                        seen_a.add(' '.join(v))
                        alts.append(v)
                    if len(alts) == k:
                        break
                dt = t if t[0] != 'if' else None
                ins = [alts[0], alts[-1], alts[len(alts) // 2]] + [rand_of(t) for _ in range(3)]
                if dt is not None:
                    ins += [g.near(dt, alts[0], 1), g.near(dt, alts[-1], 1)]
            expr = ['in', str(len(alts))]
            for a in alts:
                expr += ['c', 'v'] + arg_tokens(a)
            add(ev_line([t], expr, [[a] for a in ins]), 'wt')
            expr = ['in', str(len(alts))]            # the same as the first component of two-parameter tuples
            for a in alts:
                expr += ['t', '2', 'v'] + arg_tokens(a) + ['e', 'any']
            add(ev_line([t, T_STR], expr, [[a, g.str_term(T_STR, 'x')] for a in ins[:4]]), 'wt')

    # ---- lane 12: a []interface{} alternative of In (read as a tuple by the code: known finding C18-in-item-slice-of-interface-is-tuple)
    for pt in (T_ANY, T_sl(T_ANY)):
        for n in (0, 1, 2):
            v = ['sl', '[]any', '0', str(n)] + [tok for _ in range(n) for tok in (['if', 'any'] + g.value(rng.choice(PLAIN_DYN), 2))]
            add(ev_line([pt], ['in', '1', 'c', 'v'] + arg_tokens(v), [[v], [v]]), 'kt')
            add(ev_line([pt], ['eq'] + arg_tokens(v), [[v]]), 'wt')

    # ---- lane 13: nil against empty, systematically: every slice/map type, bare, behind a pointer and inside interface{}
    for t in [T_sl(T_int('int')), T_BYTES, T_NBYTES, T_sl(T_STR), T_sl(T_ANY), T_sl(T_E0), T_mp(T_STR, T_int('int')), T_mp(T_int('int'), T_STR)]:
        nil_v = [t[0], name(t), 'nil']
        empty = ['sl', name(t), '0', '0'] if t[0] == 'sl' else ['mp', name(t), '0', '0']
        for pt, wrap in ((t, lambda v: v), (T_ptr(t), lambda v: ['p', '*' + name(t), '0'] + v), (T_ANY, lambda v: v)):
            for x in (nil_v, empty):
                add(ev_line([pt], ['eq'] + arg_tokens(wrap(x)), [[wrap(nil_v)], [wrap(empty)]]), 'wt')
                # variadic mode with NON-tuple alternatives (expr.go:74-87 as repaired): a number / string / expression / nil is ONE argument,
    # a slice or array at the variadic position is expanded into a whole argument list
    IT = lambda v: g.int_term(T_int('int'), v)
    ST = lambda v: g.str_term(T_STR, v)
    sli = lambda vs: ['sl', '[]int', '0', str(len(vs))] + [tok for v in vs for tok in IT(v)]
    cv = lambda term: ['c', 'v'] + arg_tokens(term)
    vi = T_sl(T_int('int'))
    add(evv_line([], vi, ['in', '2'] + cv(IT(1)) + cv(IT(2)), [([], [IT(1)]), ([], [IT(2)]), ([], [IT(3)]), ([], []), ([], [IT(1), IT(2)])]), 'wt')
    add(evv_line([], T_sl(T_STR), ['in', '2', 'c', 'e', 'any'] + cv(ST('a')), [([], [ST('a')]), ([], [ST('b')]), ([], [])]), 'wt')
    add(evv_line([T_STR], vi, ['in', '2'] + cv(ST('a')) + cv(ST('b')), [([ST('a')], []), ([ST('b')], [IT(1)]), ([ST('c')], [])]), 'wt')
    add(evv_line([], vi, ['in', '3'] + cv(sli([1, 2])) + cv(sli([3])) + cv(sli([])), [([], [IT(1), IT(2)]), ([], [IT(3)]), ([], []), ([], [IT(2)])]), 'wt')
    add(evv_line([], vi, ['in', '2'] + cv(['sl', '[]int', 'nil']) + cv(IT(7)), [([], []), ([], [IT(7)]), ([], [IT(8)])]), 'wt')
    add(evv_line([], vi, ['in', '2'] + cv(['ar', '[2]int', '2'] + IT(1) + IT(2)) + cv(IT(2)), [([], [IT(1), IT(2)]), ([], [IT(2)])]), 'wt')
    add(evv_line([T_STR], vi, ['in', '3', 't', '2', 'v'] + arg_tokens(ST('a')) + ['v'] + arg_tokens(IT(1)) + cv(ST('b')) + cv(sli([1])),
                 [([ST('a')], [IT(1)]), ([ST('b')], []), ([ST('a')], [])]), 'x')
    add(evv_line([T_STR, T_BOOL], vi, ['in', '1'] + cv(ST('a')), [([ST('a'), ['b', 'bool', '1']], [])]), 'x')      # two fixed parameters: "number of args"
    add(evv_line([], T_sl(T_ANY), ['in', '2'] + cv(IT(1)) + cv(sli([1, 2])), [([], [IT(1)]), ([], [sli([1, 2])])]), 'x')
    for _ in range(10 * scale):
        et = rng.choice([T_int('int'), T_STR, T_flt('float64'), T_int('uint8')])
        st_ = T_sl(et)
        fixed = [rng.choice([T_STR, T_int('int')])] if rng.chance(1, 3) else []
        k = 1 + rng.below(4)
        expr = ['in', str(k)]
        t0 = fixed[0] if fixed else et
        pool = [rand_of(t0) for _ in range(3)]
        epool = [rand_of(et) for _ in range(3)]
        for _ in range(k):
            m = rng.below(4)
            if m < 2:
                expr += cv(rng.choice(pool))
            elif m < 3 and not fixed:
                n = rng.below(3)
                expr += cv(['sl', name(st_), '0', str(n)] + [tok for _ in range(n) for tok in rng.choice(epool)])
            else:
                expr += ['c', 'e', 'any']
        inputs = []
        for _ in range(3):
            inputs.append(([rng.choice(pool)] if fixed else [], [rng.choice(epool if fixed else pool + epool) for _ in range(rng.below(3))]))
        add(evv_line(fixed, st_, expr, inputs + inputs[:1]), 'wt')
    # executed only (the model answers `unmodelled`): the unsafe cast of a same-sized struct (value.go:51-57), nil for an array parameter
    add(ev_line([T_S1], ['eq'] + arg_tokens(['st', 'S2', '2'] + g.int_term(T_int('int'), 1) + g.str_term(T_STR, 'a')),
                [[['st', 'S1', '2'] + g.int_term(T_int('int'), 1) + g.str_term(T_STR, 'a')]]), 'x')
    add(ev_line([T_ar(2, T_int('int8'))], ['eq', 'nil'], [[['ar', '[2]int8', '2'] + g.int_term(T_int('int8'), 0) + g.int_term(T_int('int8'), 0)]]), 'x')

    # ---- lane 14: error values — sentinels (pointer identity), %w-style wrappers of a shared sentinel, chains of wrappers, errors with an
    # Is method that ignores a field, comparable struct errors with an interface field holding a slice; through `error`, interface{} and
    # the concrete types; as Equals and as In alternatives (Go equality on same-dynamic-type values, symmetry, no panic)
    ES = lambda lab, msg: ['p', '*ErrS', str(lab), 'st', 'ErrS', '1'] + g.str_term(T_STR, msg)
    EW = lambda lab, msg, inner: ['p', '*ErrW', str(lab), 'st', 'ErrW', '2'] + g.str_term(T_STR, msg) + (['if', 'error'] + inner if inner else ['if', 'error', 'nil'])
    EI = lambda code, note: ['st', 'ErrIs', '2'] + g.int_term(T_int('int'), code) + g.str_term(T_STR, note)
    EC = lambda msg, det: ['st', 'ErrC', '2'] + g.str_term(T_STR, msg) + (['if', 'any'] + det if det else ['if', 'any', 'nil'])
    sli2 = lambda vs: ['sl', '[]int', '0', str(len(vs))] + [tok for v in vs for tok in g.int_term(T_int('int'), v)]
    for rep_ in range(1 if tier == 'quick' else 6):
        l1, l2, l3, l4 = (g.fresh_label() for _ in range(4))
        s1, s1b, s3 = ES(l1, 'EOF'), ES(l2, 'EOF'), ES(l3, 'closed')
        w1 = EW(0, 'read', s1)
        w1lab = EW(l4, 'read', s1)
        fams = [
            [s1, s1b, s3, w1, EW(0, 'read', s1b), EW(0, 'open', w1), EW(0, 'read', None), w1lab, EW(0, 'outer', w1lab)],
            [EI(1, 'a'), EI(1, 'a'), EI(1, 'b'), EI(2, 'a'), EI(rng.below(3), rng.choice(['a', 'b']))],
            [EC('m', sli2([1])), EC('m', sli2([1])), EC('m', sli2([2])), EC('m', g.int_term(T_int('int'), 5)), EC('m', None), EC('n', sli2([1])),
             EC('m', ['mp', 'map[string]int', '0', '0'])],
            [g.int_term(T_int('Errno'), 5), g.int_term(T_int('Errno'), 6), g.int_term(T_int('Errno'), 0)],
        ]
        for fam in fams:
            for x in fam:
                add(ev_line([T_ERR], ['eq'] + arg_tokens(x), [[a] for a in fam] + [[None]]), 'wt')
                add(ev_line([T_ANY], ['eq'] + arg_tokens(x), [[a] for a in fam]), 'wt')
            k = min(3, len(fam))
            expr = ['in', str(k)]
            for a in fam[:k]:
                expr += ['c', 'v'] + arg_tokens(a)
            add(ev_line([T_ERR], expr, [[a] for a in fam]), 'wt')
        for ct, fam in ((('p', '*ErrW', T_ERRW), fams[0][3:]), (T_ERRIS, fams[1]), (T_ERRC, fams[2]), (('p', '*ErrS', T_ERRS), fams[0][:3])):
            for x in fam:
                add(ev_line([ct], ['eq'] + arg_tokens(x), [[a] for a in fam]), 'wt')
        add(ev_line([T_ERR], ['eq', 'nil'], [[None], [s1], [w1]]), 'wt')

    # ---- lane 5: cross-typed and malformed (agreement with the model only; panics/errors are observations)
    n5 = 120 * scale
    same_size = [T_int('int'), T_int('int64'), T_int('uint64'), T_int('uint'), T_int('uintptr'), T_flt('float64'), T_int('NInt'), T_flt('NF64'), T_int('Level'), T_flt('Temp')]
    small = [T_int('int8'), T_int('uint8'), T_BOOL, T_int('NI8'), T_int('ULevel'), T_NBOOL]
    mid = [T_int('int32'), T_int('uint32'), T_flt('float32'), T_flt('NF32'), T_int('Errno')]
    for _ in range(n5):
        m = rng.below(10)
        if m < 4:      # numbers of equal size but different type against each other (text comparison across kinds)
            grp = rng.choice([same_size, small, mid])
            tx, tp = rng.choice(grp), rng.choice(grp)
            ins = [[g.value(tp)] for _ in range(3)]
            add(ev_line([tp], ['eq'] + arg_tokens(g.value(tx)), ins), 'x')
        elif m < 7:    # anything against anything through interface{}
            tx, ta = rng.choice(ANY_DYN), rng.choice(ANY_DYN)
            add(ev_line([T_ANY], ['eq'] + arg_tokens(g.value(tx, 1)), [[g.value(ta, 1)], [g.value(tx, 1)]]), 'x')
        elif m < 8:    # size mismatch / nil for a non-nilable parameter / wrong arity
            tp = rng.choice(SCALARS + STRUCTS)
            c = rng.below(3)
            if c == 0:
                add(ev_line([tp], ['eq', 'nil'], [[g.value(tp)]]), 'x')
            elif c == 1:
                tx = rng.choice([t for t in SCALARS if t[0] != tp[0] or t[2:3] != tp[2:3]])
                add(ev_line([tp], ['eq'] + arg_tokens(g.value(tx)), [[g.value(tp)]]), 'x')
            else:
                add(ev_line([tp, tp], ['eq'] + arg_tokens(g.value(tp)), [[g.value(tp), g.value(tp)]]), 'x')
        elif m < 9:    # In with tuples of the wrong length
            tp = rng.choice(simple)
            add(ev_line([tp], ['in', '2', 'c', 'v'] + arg_tokens(rand_of(tp)) + ['t', '2', 'v'] + arg_tokens(rand_of(tp)) + ['v'] + arg_tokens(rand_of(tp)),
                        [[rand_of(tp)]]), 'x')
        else:          # a value that does not implement the interface
            add(ev_line([T_ISTR], ['eq'] + arg_tokens(g.value(T_int('int'))), [[g.value(T_int('Level'))]]), 'x')
    # bool / string / number looseness, systematically
    for s in STRINGS[::1 if tier == 'thorough' else 2]:
        for other in (g.int_term(T_int('int64'), 1), g.int_term(T_int('int'), 0), g.flt_term(T_flt('float64'), 0x3ff0000000000000), ['b', 'bool', '1'], ['b', 'bool', '0'],
                      g.int_term(T_int('uint8'), 1), g.flt_term(T_flt('float64'), 0x3ff8000000000000)):
            add(ev_line([T_ANY], ['eq'] + arg_tokens(g.str_term(T_STR, s)), [[other]]), 'x')
            add(ev_line([T_ANY], ['eq'] + arg_tokens(other), [[g.str_term(T_STR, s)]]), 'x')
    return ops


# ------------------------------------------------------------------------------------------------ running

# goom's own environment knobs must not leak into the probe
SCRUB = {'GOOM_DEBUG': '', 'GODEBUG': '', 'GOGC': '', 'GOTRACEBACK': ''}
FLOORS = {'c18.ev': 1500, 'c18.evv': 20, 'c18.sh': 100, 'c18.mu': 15}   # a lane that silently generated nothing is a machinery error

PROBE = ('c18-arg', 'arg', {'zz_verif_c18_test.go': 'c18/arg_probe_test.go'})
_bin = {}


def build_probe():
    if 'b' not in _bin:
        tag, pkg, files = PROBE
        fm = {k: os.path.join(C.HARNESS, v) for k, v in files.items()}
        b, err = C.overlay_build(tag, pkg, fm, C.helper_pkgs())
        if b is None:
            raise C.Infra(f'probe {tag} does not build against the current tree:\n{err[-3000:]}')
        _bin['b'] = b
    return _bin['b']


def annotate(lines, tag):
    """Pass 1: the probe fills in what only the Go runtime knows (type sizes/kinds, %v text of floats, strconv results)."""
    raw = os.path.join(C.BUILD, f'{tag}.raw')
    open(raw, 'w').write('\n'.join(lines) + '\n')
    outp = os.path.join(C.BUILD, f'{tag}.annot')
    rc, log = C.run_probe(build_probe(), 'TestVerifC18', raw, outp, env=dict(SCRUB, VERIF_MODE='annotate'), timeout=3600)
    if rc != 0:
        rc, log = C.run_probe(build_probe(), 'TestVerifC18', raw, outp, env=dict(SCRUB, VERIF_MODE='annotate'), timeout=3600)
    if rc != 0:
        raise C.Infra(f'annotate pass failed rc={rc}:\n{log[-2000:]}')
    res = C.read_indexed(outp, len(lines))
    bad = [(lines[i], r) for i, r in enumerate(res) if r is None or not r.startswith(('c18.ev ', 'c18.evv ', 'c18.sh ', 'c18.mu '))]
    if bad:
        raise C.Infra(f'generator produced {len(bad)} lines the probe cannot build, e.g. {bad[0]}')
    return res


def execute(ops, tag='c18'):
    ops_path = os.path.join(C.BUILD, f'{tag}.ops')
    open(ops_path, 'w').write('\n'.join(ops) + '\n')
    outp = os.path.join(C.BUILD, f'{tag}.impl')
    rc, log = C.run_probe(build_probe(), 'TestVerifC18', ops_path, outp, env=SCRUB, timeout=3600)
    if rc != 0:      # a loaded machine can kill or time out a run: once more before saying anything
        rc, log = C.run_probe(build_probe(), 'TestVerifC18', ops_path, outp, env=SCRUB, timeout=3600)
    if rc != 0:
        raise C.Infra(f'probe failed twice rc={rc}:\n{log[-2000:]}')
    impl = C.read_indexed(outp, len(ops))
    exe, err = C.build_driver()
    if exe is None:
        return impl, None, err
    model = C.run_driver(exe, ops_path, os.path.join(C.BUILD, f'{tag}.model'))
    return impl, model, ''


def split_obs(o):
    """'R=ok E=t,f P=1 O=…' -> dict"""
    d = {}
    for part in (o or '').split(' '):
        if '=' in part:
            k, v = part.split('=', 1)
            d[k] = v
    return d


def core(o):
    """The part of the implementation's observation the model also produces."""
    if o is None:
        return None
    return ' '.join(p for p in o.split(' ') if p[:2] in ('R=', 'E=', 'S='))


def expr_kind(line):
    toks = line.split(' ')
    if toks[0] == 'c18.sh':
        return 'shared-objects'
    return toks[2 + int(toks[1]) + (1 if toks[0] == 'c18.evv' else 0)]


def oracle(line, lane, obs):
    """The property itself on what the real code answered.  Returns list of (what, key)."""
    bad = []
    if obs is None:
        return [('no observation (probe crashed?)', None)]
    if obs.startswith('bad-annot') or obs.startswith('panic:c18'):
        raise C.Infra(f'probe rejected the line: {obs[:200]} :: {line[:200]}')
    d = split_obs(obs)
    kind = expr_kind(line)
    if kind == 'shared-objects':
        for k, (a, mark) in enumerate(zip(d.get('S', '').split(','), d.get('A', '').split(','))):
            if mark == 'a' and a != 't':
                bad.append((f'Any rejected an argument: step {k} of a script on shared expression objects answered {a} (an earlier Resolve/Eval changed a later answer)', None))
        return bad
    answers = d.get('E', '').split(',') if d.get('E') else []
    if lane == 'kt':       # In with a []interface{} alternative: whatever goes wrong here is the recorded finding
        tk = 'in-item-slice-of-interface-is-tuple'
        if d.get('R') != 'ok':
            return [(f'In with a []interface{{}} alternative does not resolve as a value: {d.get("R")}', tk)]
        for a, u in zip(answers, (d.get('U') or '').split(',')):
            if u != '-' and a != u:
                return [(f'In with a []interface{{}} alternative answered {a}, Equals of that alternative answers {u}', tk)]
        return bad
    if lane == 'wt':
        if d.get('R') != 'ok':
            bad.append((f'Resolve on well-typed input: {d.get("R")}', 'resolve-nil-func' if 'reflect.value.type' in d.get('R', '') else None))
        for a in answers:
            if a not in ('t', 'f'):
                bad.append((f'Eval on well-typed input: {a}', None))
    if d.get('R') != 'ok':
        return bad
    if d.get('P') != '1':
        bad.append(('evaluating the expression changed a later answer or rewrote the caller\'s argument list (same object and same list re-evaluated / fresh object)', None))
    if kind == 'any' and any(a != 't' for a in answers):
        bad.append(('Any rejected an argument', None))
    if kind == 'eq' and 'O' in d:
        for a, o in zip(answers, d['O'].split(',')):
            spec, swapped = o.split('/')
            if spec == '-':
                continue
            want, flags = spec[0], spec[1:]
            if 'Z' in flags and 'T' not in flags and 'N' not in flags:
                if a != want:                # +0 against -0: Go says equal, the %v text differs (recorded finding)
                    bad.append((f'Equals answered {a} for +0 against -0 where Go == says {want}', 'signed-zero'))
                continue
            if any(f in flags for f in 'TN'):
                continue                     # outside "same-typed ordinary": agreement with the model only
            if 'C' in flags:
                if a != want:
                    bad.append((f'Equals on two closures of one function literal with different captured state: got {a}, they are different funcs', 'closure-code-identity'))
                continue
            if a != want:
                bad.append((f'Equals answered {a} where Go equality says {want}' + (' (numeric type with a fmt method)' if 'M' in flags else ''), None))
            elif swapped != a:
                bad.append((f'Equals is not symmetric: Equals(x) on a = {a}, Equals(a) on x = {swapped}', None))
    if kind == 'in' and 'U' in d:
        for a, u in zip(answers, d['U'].split(',')):
            if u != '-' and a in ('t', 'f') and a != u:
                bad.append((f'In answered {a}, the union of its items answers {u}', None))
    return bad


def float_text_assumption(lines):
    """The stated fmt assumption, exercised on every float that occurred: within one width, equal %v text iff equal bits or both NaN."""
    seen = {}
    viol = []
    n = 0
    for line in lines:
        toks = line.split(' ')
        for i, t in enumerate(toks):
            if t == 'f' and i + 4 < len(toks) and toks[i + 2] in ('32', '64') and toks[i + 3].startswith('0x'):
                w, bits, txt = toks[i + 2], int(toks[i + 3], 16), toks[i + 4]
                n += 1
                if w == '64':
                    f = struct.unpack('<d', struct.pack('<Q', bits))[0]
                else:
                    f = struct.unpack('<f', struct.pack('<I', bits))[0]
                key = (w, txt)
                canon = 'nan' if f != f else bits
                if key in seen and seen[key] != canon:
                    viol.append((w, txt, seen[key], canon))
                seen.setdefault(key, canon)
    return n, len(seen), viol


def load_corpus():
    p = os.path.join(C.HARNESS, 'c18', 'corpus.ops')
    if not os.path.exists(p):
        return []
    return [(l.rstrip('\n'), 'wt') for l in open(p) if l.startswith(('c18.ev ', 'c18.evv ', 'c18.sh ', 'c18.mu '))]


def run(tier):
    out = C.Outcome('C18', tier)
    rng = C.Rng(C.seed()).fork('C18')
    proof = C.prove('C18', leanchecker=(tier == 'thorough'))
    raw = load_corpus() + gen_ops(tier, rng)
    seen = set()
    uniq = []
    for l, lane in raw:
        if l not in seen:
            seen.add(l)
            uniq.append((l, lane))
    lanes = [lane for _, lane in uniq]
    for pref, floor in FLOORS.items():
        have = sum(1 for l, _ in uniq if l.startswith(pref + ' '))
        if have < floor:
            raise C.Infra(f'generator produced only {have} `{pref}` lines (floor {floor})')
    ops = annotate([l for l, _ in uniq], 'c18')
    impl, model, derr = execute(ops)

    # 1. the property on the implementation
    nviol = 0
    classes = {}
    for i, op in enumerate(ops):
        for what, key in oracle(op, lanes[i], impl[i]):
            cls = what.split(':')[0][:70]
            classes[cls] = classes.get(cls, 0) + 1
            if classes[cls] <= 2:      # two replays per class of failure are enough
                out.violation(f'{what} :: {op[:300]}', {'kind': 'impl-oracle', 'ops': [op], 'lanes': [lanes[i]], 'observed': impl[i], 'why': what,
                                                        'how': 'python3 check.py C18 --replay <this file>'}, key=key)
            if key is None or not any(kf.get('match', {}).get('key') == key and kf.get('status') == 'known' for kf in C.known_findings('C18')):
                nviol += 1
    nfl, ntxt, fviol = float_text_assumption(ops)
    if fviol:
        out.violation(f'fmt assumption broken: %v text {fviol[0]} is shared by different floats', {'kind': 'assumption', 'detail': fviol[:5]}, no_failing_input=True)
    # 2. correspondence
    cimpl = [core(o) for o in impl]
    unmod = sum(1 for m in (model or []) if m and 'unmodelled' in m)
    diffs = []
    if model is not None:
        for i, op in enumerate(ops):
            if model[i] is not None and 'unmodelled' in model[i]:
                continue
            if cimpl[i] != model[i]:
                diffs.append((i, op, cimpl[i], model[i]))
    else:
        proof['failed'].append(('goomdrv', 'driver does not build: ' + derr[-500:]))
    if nviol == 0:
        if diffs:
            i, op, a, b = diffs[0]
            out.violation(f'model and implementation disagree on `{op[:300]}`', {'kind': 'correspondence', 'ops': [op], 'lanes': [lanes[i]], 'impl': a, 'model': b,
                          'broken': 'correspondence Model/Equal.lean vs arg package', 'n_disagreements': len(diffs)}, no_failing_input=True)
        elif not proof['ok']:
            out.violation('proof obligations of Props/C18.lean no longer check and no failing input was found in the search',
                          {'kind': 'proof', 'broken': proof['failed'], 'searched': len(ops), 'output': proof.get('output', '')[-3000:]}, no_failing_input=True)
    # evidence
    dist = {'lane well-typed': lanes.count('wt'), 'lane cross-typed/malformed': lanes.count('x')}
    evals = 0
    outcome = {}
    flagc = {}
    for i, op in enumerate(ops):
        d = split_obs(impl[i])
        k = 'expr ' + expr_kind(op) + (' (variadic)' if op.startswith('c18.evv') else '')
        dist[k] = dist.get(k, 0) + 1
        if not op.startswith('c18.sh'):
            pk = 'param ' + op.split(' ')[2].split(':')[1]
            dist[pk] = dist.get(pk, 0) + 1
        r = d.get('R', 'script' if 'S' in d else '?')
        outcome['resolve ' + r] = outcome.get('resolve ' + r, 0) + 1
        for a in (d.get('E', '').split(',') if d.get('E') else []) + (['step ' + x for x in d['S'].split(',')] if d.get('S') else []):
            evals += 1
            outcome['eval ' + a] = outcome.get('eval ' + a, 0) + 1
        for o in (d.get('O', '').split(',') if d.get('O') else []):
            fl = o.split('/')[0][1:] or 'in-domain'
            flagc[fl] = flagc.get(fl, 0) + 1
    nontrivial = len({op for i, op in enumerate(ops) if impl[i] and impl[i].startswith(('R=ok E=', 'S='))})
    out.coverage = {
        'obligations': proof['obligations'], 'discharged': proof['discharged'], 'checker_cmd': ' ; '.join(proof['cmds']),
        'trusted_base': ['Lean 4.33 kernel', 'axioms: ' + ', '.join(sorted({a for v in proof['axioms'].values() for a in v}) or ['none']),
                         'hand transcription Model/Equal.lean + Model/ValueC18.lean (cross-checked against the real arg package on every evaluation below)',
                         'fmt %v of float32/float64 and strconv.ParseInt/ParseFloat: results taken from the real runtime per value; %v injectivity checked on '
                         f'{nfl} float occurrences / {ntxt} distinct texts this run',
                         'reflect.DeepEqual on trees (identity labels, canonical maps); Go == computed by the probe is the specification oracle'],
        'theorems': proof['axioms'], 'proof_failures': proof['failed'],
        'evaluations': evals, 'distinct_nontrivial': nontrivial,
        'traces_validated_against_impl': len(ops) - len(diffs) - unmod,
        'rule': 'one op = one expression object resolved once against its parameter types and evaluated on 1..6 inputs (one evaluation = one Eval); '
                'non-trivial = distinct op lines whose Resolve succeeded and that were evaluated; in-domain = same-typed, no NaN, no +0/-0 pair',
        'distribution': {'ops': len(ops), **dist, 'outcomes': outcome, 'equals pairs by domain flag (T cross-typed, N NaN, Z signed zero, C closures, M fmt-method numeric)': flagc,
                         'model answered unmodelled (dropped)': unmod, 'oracle failures by class': classes},
        'samples': [{'op': ops[i][:400], 'impl': impl[i], 'model': model[i] if model else None} for i in (0, len(ops) // 3, len(ops) // 2, len(ops) - 1)],
    }
    out.assumptions = ['variadic mode is outside this model (C04)', 'values are trees: no cyclic data', 'func identity is observed through reflect code pointers']
    return out.finish()


def replay(body):
    ops = body.get('ops', [])
    lanes = body.get('lanes', ['wt'] * len(ops))
    impl, model, _ = execute(ops, tag='c18-replay')
    rc = 0
    for i, op in enumerate(ops):
        why = oracle(op, lanes[i], impl[i])
        print(f'{op}\n  impl : {impl[i]}\n  model: {model[i] if model else None}\n  oracle: {[w for w, _ in why] or "ok"}')
        if why or (model and core(impl[i]) != model[i] and 'unmodelled' not in (model[i] or '')):
            rc = 1
    return rc
