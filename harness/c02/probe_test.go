package c02

import (
	"bufio"
	"bytes"
	"fmt"
	"os"
	"reflect"
	"runtime"
	"sort"
	"strconv"
	"strings"
	"syscall"
	"testing"
	"unsafe"

	mocker "github.com/tencent/goom"
	"github.com/tencent/goom/internal/bytecode"
	"github.com/tencent/goom/internal/bytecode/memory"
	"github.com/tencent/goom/internal/patch"
	sub "github.com/tencent/goom/internal/zzverif/c02x/c02"
	"github.com/tencent/goom/internal/zzverif/vh"
)

const probeArg = ProbeArg

type target struct {
	name   string // name below the package path, as ExportFunc / ExportMethod want it
	method string // method name for Struct(..).Method / ExportMethod ("" for functions)
	fn     interface{}
	call   func() int
	orig   int
	entry  uintptr
	fam    string             // "" function, "T" / "L" method of that struct
	lit    bool               // function literal: reachable through Func(variable) only
	gen    bool               // generic instantiation: goom patches the shape body behind the wrapper
	mv     func() interface{} // the method value recv.M (via v)
}

var targets = []*target{
	{name: "F0", fn: F0, call: func() int { return F0(probeArg) }},
	{name: "F1", fn: F1, call: func() int { return F1(probeArg) }},
	{name: "F2", fn: F2, call: func() int { return F2(probeArg) }},
	{name: "F3", fn: F3, call: func() int { return F3(probeArg) }},
	{name: "u4", fn: u4, call: func() int { return u4(probeArg) }},
	{name: "G5", fn: G5int, gen: true, call: func() int { return CallG5(probeArg) }},
	{name: "Tiny6", fn: Tiny6, call: func() int { return Tiny6(probeArg) }},
	{name: "(*T).M7", method: "M7", fam: "T", fn: (*T).M7, mv: func() interface{} { return (&T{A: 1}).M7 }, call: func() int { return (&T{A: 1}).M7(probeArg) }},
	{name: "(*T).M8", method: "M8", fam: "T", fn: (*T).M8, mv: func() interface{} { return (&T{A: 1}).M8 }, call: func() int { return (&T{A: 1}).M8(probeArg) }},
	{name: "(*T).m9", method: "m9", fam: "T", fn: (*T).m9, mv: func() interface{} { return (&T{A: 1}).m9 }, call: func() int { return (&T{A: 1}).m9(probeArg) }},
	{name: "H10", lit: true, fn: H10, call: func() int { return H10(probeArg) }},
	{name: "H11", lit: true, fn: H11, call: func() int { return H11(probeArg) }},
	{name: "(*L).Add", method: "Add", fam: "L", fn: (*L).Add, mv: func() interface{} { return (&L{N: 1}).Add }, call: func() int { return (&L{N: 1}).Add(probeArg) }},
	{name: "(*L).Addf", method: "Addf", fam: "L", fn: (*L).Addf, mv: func() interface{} { return (&L{N: 1}).Addf }, call: func() int { return (&L{N: 1}).Addf(probeArg) }},
	{name: "(*L).Addm", method: "Addm", fam: "L", fn: (*L).Addm, mv: func() interface{} { return (&L{N: 1}).Addm }, call: func() int { return (&L{N: 1}).Addm(probeArg) }},
	{name: "(*L).Addfm", method: "Addfm", fam: "L", fn: (*L).Addfm, mv: func() interface{} { return (&L{N: 1}).Addfm }, call: func() int { return (&L{N: 1}).Addfm(probeArg) }},
	{name: "(*L).Addmf", method: "Addmf", fam: "L", fn: (*L).Addmf, mv: func() interface{} { return (&L{N: 1}).Addmf }, call: func() int { return (&L{N: 1}).Addmf(probeArg) }},
	{name: "(*T).M7", method: "M7", fam: "S", fn: (*sub.T).M7, mv: func() interface{} { return (&sub.T{A: 1}).M7 }, call: func() int { return (&sub.T{A: 1}).M7(probeArg) }},
	{name: "G5", fn: G5int64, gen: true, fam: "G", call: func() int { return int(CallG5b(probeArg)) }},
	{name: "u4", fn: sub.U4, fam: "P", call: func() int { return sub.CallU4(probeArg) }},
	{name: "Loop20", fn: Loop20, call: func() int { return Loop20(probeArg) }},
}

type neighbour struct {
	call func() int
	orig int
}

var neighbours = []*neighbour{
	{call: func() int { return N0(probeArg) }},
	{call: func() int { return N1(probeArg) }},
	{call: func() int { return helper(probeArg, 1) }},
}

var cbF = []interface{}{K0, K1, K2, K3}
var cbM = []interface{}{KM0, KM1, KM2, KM3}
var cbL = []interface{}{KL0, KL1, KL2, KL3}
var cbS = []interface{}{KS0, KS1, KS2, KS3}
var cbG = []interface{}{KG0, KG1, KG2, KG3}

// cbFor picks the callback of class k with the target's signature
func cbFor(t *target, k int) interface{} {
	switch t.fam {
	case "T":
		return cbM[k]
	case "L":
		return cbL[k]
	case "S":
		return cbS[k]
	case "G":
		return cbG[k]
	}
	return cbF[k]
}

type placeholder struct {
	ptr   interface{} // pointer to the func variable, as Origin(&o) wants it
	init  reflect.Value
	entry uintptr
	meth  bool
}

var placeholders = []*placeholder{{ptr: &O0}, {ptr: &O1}, {ptr: &O2}, {ptr: &O3, meth: true}}

var (
	textLo, textHi uintptr
	snapshot       []byte
	symByEntry     = map[uintptr]string{}
	cbSym          = map[uint64]string{}
)

func funcvalAddr(f interface{}) uint64 {
	return uint64(uintptr(bytecode.GetPtr(reflect.ValueOf(f))))
}

func setup() {
	if snapshot != nil {
		return
	}
	exe, _ := os.Readlink("/proc/self/exe")
	f, err := os.Open("/proc/self/maps")
	if err != nil {
		panic(err)
	}
	sc := bufio.NewScanner(f)
	for sc.Scan() {
		fs := strings.Fields(sc.Text())
		if len(fs) >= 6 && strings.Contains(fs[1], "x") && fs[5] == exe {
			ab := strings.SplitN(fs[0], "-", 2)
			lo, _ := strconv.ParseUint(ab[0], 16, 64)
			hi, _ := strconv.ParseUint(ab[1], 16, 64)
			if textLo == 0 {
				textLo = uintptr(lo)
			}
			textHi = uintptr(hi)
		}
	}
	f.Close()
	if textLo == 0 {
		panic("no executable mapping found")
	}
	for i, t := range targets {
		t.entry = reflect.ValueOf(t.fn).Pointer()
		if t.gen { // decided by the corpus, not by goom's own name classifier
			in, err := bytecode.GetInnerFunc(64, t.entry)
			if err != nil || in == 0 {
				panic("no inner function for generic target")
			}
			t.entry = in
		}
		symByEntry[t.entry] = fmt.Sprintf("f%d", i)
		t.orig = t.call()
	}
	for _, n := range neighbours {
		n.orig = n.call()
	}
	for j, p := range placeholders {
		p.init = reflect.ValueOf(reflect.ValueOf(p.ptr).Elem().Interface())
		p.entry = p.init.Pointer()
		symByEntry[p.entry] = fmt.Sprintf("o%d", j)
	}
	for k := range cbF {
		cbSym[funcvalAddr(cbF[k])] = fmt.Sprintf("k%d", k)
		cbSym[funcvalAddr(cbM[k])] = fmt.Sprintf("k%d", k)
		cbSym[funcvalAddr(cbL[k])] = fmt.Sprintf("k%d", k)
		cbSym[funcvalAddr(cbS[k])] = fmt.Sprintf("k%d", k)
		cbSym[funcvalAddr(cbG[k])] = fmt.Sprintf("k%d", k)
	}
	snapshot = make([]byte, textHi-textLo)
	copy(snapshot, memory.RawAccess(textLo, len(snapshot)))
}

func curText() []byte { return memory.RawAccess(textLo, int(textHi-textLo)) }

// canon13 renders 13 entry bytes: the jump goom writes is `NOP; MOV RDX,imm64; JMP [RDX]`.
func canon13(b []byte) string {
	if len(b) == 13 && b[0] == 0x90 && b[1] == 0x48 && b[2] == 0xba && b[11] == 0xff && b[12] == 0x22 {
		var imm uint64
		for i := 0; i < 8; i++ {
			imm |= uint64(b[3+i]) << (8 * i)
		}
		if s, ok := cbSym[imm]; ok {
			return "jmp(" + s + ")"
		}
		return "jmp(heap)"
	}
	return "raw(" + vh.Hex(b) + ")"
}

// diff reports, in symbolic form, every byte range of the executable image that differs from the pristine snapshot.
func diff() string {
	cur := curText()
	type reg struct{ lo, hi uintptr }
	regs := map[uintptr]*reg{} // function entry -> differing offsets
	names := map[uintptr]string{}
	const chunk = 4096
	for off := 0; off < len(cur); off += chunk {
		end := off + chunk
		if end > len(cur) {
			end = len(cur)
		}
		if bytes.Equal(cur[off:end], snapshot[off:end]) {
			continue
		}
		for i := off; i < end; i++ {
			if cur[i] != snapshot[i] {
				a := textLo + uintptr(i)
				fn := runtime.FuncForPC(a)
				var e uintptr
				if fn != nil {
					e = fn.Entry()
					names[e] = fn.Name()
				}
				r := regs[e]
				if r == nil {
					r = &reg{a - e, a - e}
					regs[e] = r
				}
				if a-e > r.hi {
					r.hi = a - e
				}
			}
		}
	}
	type ent struct {
		rank, idx int
		s         string
	}
	var ents []ent
	for e, r := range regs {
		sym, ok := symByEntry[e]
		idx := 0
		if ok {
			idx, _ = strconv.Atoi(sym[1:])
		}
		switch {
		case ok && sym[0] == 'f' && r.hi < 13:
			i := int(e - textLo)
			ents = append(ents, ent{0, idx, sym + "=" + canon13(cur[i:i+13])})
		case ok && sym[0] == 'f':
			ents = append(ents, ent{0, idx, fmt.Sprintf("%s!%d-%d", sym, r.lo, r.hi)})
		case ok:
			ents = append(ents, ent{1, idx, sym})
		default:
			ents = append(ents, ent{2, 0, fmt.Sprintf("?%s+%d-%d", names[e], r.lo, r.hi)})
		}
	}
	if len(ents) == 0 {
		return "-"
	}
	sort.Slice(ents, func(i, j int) bool {
		if ents[i].rank != ents[j].rank {
			return ents[i].rank < ents[j].rank
		}
		if ents[i].idx != ents[j].idx {
			return ents[i].idx < ents[j].idx
		}
		return ents[i].s < ents[j].s
	})
	out := make([]string, len(ents))
	for i, e := range ents {
		out[i] = e.s
	}
	return strings.Join(out, ",")
}

func classOf(v, orig int) string {
	switch {
	case v == orig:
		return "o"
	case v >= 100000 && v < 100050:
		return fmt.Sprintf("c%d", v-100000)
	case v >= 100050 && v < 100100:
		return fmt.Sprintf("c%d!arg", v-100050) // the callback ran but did not receive the caller's argument
	case v >= 200000 && v < 300000:
		return "s"
	}
	return fmt.Sprintf("?%d", v)
}

func safeCall(f func() int, orig int) (res string) {
	defer func() {
		if r := recover(); r != nil {
			res = "p:" + vh.Class(fmt.Sprint(r))
		}
	}()
	return classOf(f(), orig)
}

func behaviour() string {
	for _, t := range targets {
		if t.gen {
			i := int(t.entry - textLo)
			if !bytes.Equal(curText()[i:i+13], snapshot[i:i+13]) {
				runtime.GC() // the adapter behind a generic target's jump is referenced from machine code: it must survive a collection
				break
			}
		}
	}
	var b []string
	for _, t := range targets {
		b = append(b, safeCall(t.call, t.orig))
	}
	var n []string
	for _, x := range neighbours {
		n = append(n, safeCall(x.call, x.orig))
	}
	return "b=" + strings.Join(b, ",") + " n=" + strings.Join(n, ",")
}

// ---- running one history through goom's public API

type hist struct {
	b       []*mocker.Builder
	handles map[string]*handle
	structs map[int]*mocker.CachedMethodMocker // `sm := b.Struct(x)` kept by the user (op K)
	cur     *mocker.CachedMethodMocker         // set while an s* op runs: go through the kept struct mocker
	subT    bool                               // set while an op on the namesake type's method runs
}

// structM is the struct mocker an operation goes through: the kept one (s* ops) or a fresh b.Struct(x) lookup
func (h *hist) structM(b *mocker.Builder) *mocker.CachedMethodMocker {
	if h.cur != nil {
		return h.cur
	}
	if h.subT {
		return b.Struct(&sub.T{}) // the namesake type: its own struct mocker
	}
	return b.Struct(&T{})
}

// handle is a mocker the user keeps in a variable: un is what ExportFunc / ExportMethod returned (nil for Func / Method)
type handle struct {
	exp mocker.ExportedMocker
	un  mocker.UnExportedMocker
}

func atoi(s string) int {
	v, err := strconv.Atoi(s)
	if err != nil {
		panic("bad-op")
	}
	return v
}

// exported returns the ExportedMocker for (builder, via, target), exactly as a user would obtain it.
func (h *hist) exported(b *mocker.Builder, via string, t *target) mocker.ExportedMocker {
	switch via {
	case "f":
		return b.Func(t.fn)
	case "m":
		return h.structM(b).Method(t.method)
	case "e":
		return b.ExportFunc(t.name).As(t.fn)
	case "u":
		return h.structM(b).ExportMethod(t.method).As(t.fn)
	case "v":
		return b.Func(methodValue(t))
	case "x":
		return b.ExportStruct("*T").Method(t.method).As(t.fn)
	case "p":
		return b.Pkg(sub.PkgPath).ExportFunc(t.name).As(t.fn)
	}
	panic("bad-op")
}

// unexported returns the UnExportedMocker of the by-name vias: e ExportFunc(name), u Struct(x).ExportMethod(m),
// x ExportStruct("*T").Method(m)
func (h *hist) unexported(b *mocker.Builder, via string, t *target) mocker.UnExportedMocker {
	switch via {
	case "e":
		return b.ExportFunc(t.name)
	case "u":
		return h.structM(b).ExportMethod(t.method)
	case "x":
		return b.ExportStruct("*T").Method(t.method)
	case "p":
		return b.Pkg(sub.PkgPath).ExportFunc(t.name)
	}
	panic("bad-op")
}

// retVal is the stub value with the target's result type
func retVal(t *target, v int) interface{} {
	if t.fam == "G" {
		return int64(200000 + v)
	}
	return 200000 + v
}

// methodValue is `recv.M` (a method value): goom sees the `-fm` wrapper and patches the method by name
func methodValue(t *target) interface{} {
	if t.mv == nil {
		panic("bad-op")
	}
	return t.mv()
}

func (h *hist) step(toks []string) {
	if len(toks) < 2 {
		panic("bad-op")
	}
	bi := atoi(toks[1])
	if bi < 0 || bi >= len(h.b) {
		panic("bad-op")
	}
	b := h.b[bi]
	if toks[0] == "x" {
		if len(toks) != 2 {
			panic("bad-op")
		}
		b.Reset()
		return
	}
	if toks[0] == "K" {
		if len(toks) != 2 {
			panic("bad-op")
		}
		if h.structs == nil {
			h.structs = map[int]*mocker.CachedMethodMocker{}
		}
		h.structs[bi] = b.Struct(&T{})
		return
	}
	if toks[0] == "Y" {
		// a mocker kind outside C02 in the builder's cache: looked up, never Set; Reset walks it too
		if len(toks) != 2 {
			panic("bad-op")
		}
		_ = b.Var(&VarTarget)
		return
	}
	if toks[0] == "ab" {
		// Func(f).Apply(callback with a signature the target does not have): must be rejected before anything is patched
		if len(toks) != 4 || toks[2] != "f" {
			panic("bad-op")
		}
		ti := atoi(toks[3])
		if ti < 0 || ti >= len(targets) {
			panic("bad-op")
		}
		b.Func(targets[ti].fn).Apply(KBad)
		return
	}
	if len(toks[0]) == 2 && toks[0][0] == 's' {
		// sa / sr / sw / sc / sk: the same as a / r / w / c / k, but through the kept struct mocker
		if h.structs[bi] == nil || len(toks) < 3 || (toks[2] != "m" && toks[2] != "u") {
			panic("bad-op")
		}
		h.cur = h.structs[bi]
		defer func() { h.cur = nil }()
		toks = append([]string{toks[0][1:]}, toks[1:]...)
	}
	want := map[string]int{"a": 5, "r": 5, "w": 5, "c": 4, "k": 4, "A": 5, "R": 5, "C": 4}[toks[0]]
	if want == 0 || len(toks) < want || len(toks) > want+1 || (strings.Contains("ckARC", toks[0]) && len(toks) != want) {
		panic("bad-op")
	}
	ti := atoi(toks[3])
	if ti < 0 || ti >= len(targets) {
		panic("bad-op")
	}
	via, t := toks[2], targets[ti]
	if !strings.Contains("femuvxp", via) || len(via) != 1 || (via == "p") != (t.fam == "P") {
		panic("bad-op")
	}
	if toks[0] == "w" && t.method != "" && via != "m" { // generic shape bodies take a dictionary first: argument matching on them is C01's subject
		panic("bad-op") // When(arg) on a method needs the Struct(..).Method mocker (receiver handling)
	}
	if (toks[0] == "a" || toks[0] == "A") && (atoi(toks[4]) < 0 || atoi(toks[4]) >= len(cbF)) {
		panic("bad-op")
	}
	isMeth := t.method != ""
	if (via == "m" && t.fam != "T" && t.fam != "S") || ((via == "u" || via == "x") && t.fam != "T") || (via == "v" && !isMeth) ||
		(via == "e" && (t.lit || t.gen || t.fam == "S")) || (t.lit && via != "f") || (h.cur != nil && t.fam != "T") {
		panic("bad-op")
	}
	h.subT = t.fam == "S"
	defer func() { h.subT = false }()
	var origin interface{}
	argn := 4
	if toks[0] != "c" {
		argn = 5
	}
	if len(toks) > argn {
		pi := atoi(toks[argn])
		if pi < 0 || pi >= len(placeholders) {
			panic("bad-op")
		}
		p := placeholders[pi]
		if p.meth != (t.fam == "T") || (t.fam != "" && t.fam != "T" && t.fam != "P") {
			panic("bad-op")
		}
		origin = p.ptr
	}
	hkey := toks[1] + "/" + via + "/" + toks[3]
	switch toks[0] {
	case "k":
		hd := &handle{}
		switch via {
		case "e", "u", "x", "p":
			hd.un = h.unexported(b, via, t)
		default:
			hd.exp = h.exported(b, via, t)
		}
		if h.handles == nil {
			h.handles = map[string]*handle{}
		}
		h.handles[hkey] = hd
		return
	case "A", "R", "C":
		hd := h.handles[hkey]
		if hd == nil {
			panic("bad-op")
		}
		switch toks[0] {
		case "A":
			cb := cbFor(t, atoi(toks[4]))
			if hd.un != nil {
				hd.un.Apply(cb)
			} else {
				hd.exp.Apply(cb)
			}
		case "R":
			if hd.un != nil {
				hd.un.As(t.fn).Return(retVal(t, atoi(toks[4])))
			} else {
				hd.exp.Return(retVal(t, atoi(toks[4])))
			}
		case "C":
			if hd.un != nil {
				hd.un.Cancel()
			} else {
				hd.exp.Cancel()
			}
		}
		return
	}
	switch toks[0] {
	case "a":
		cb := cbFor(t, atoi(toks[4]))
		switch via {
		case "f", "m", "v":
			m := h.exported(b, via, t)
			if origin != nil {
				m = m.Origin(origin)
			}
			m.Apply(cb)
		case "e", "u", "x", "p":
			m := h.unexported(b, via, t)
			if origin != nil {
				m = m.Origin(origin)
			}
			m.Apply(cb)
		default:
			panic("bad-op")
		}
	case "r", "w":
		m := h.exported(b, via, t)
		if origin != nil {
			m = m.Origin(origin)
		}
		v := retVal(t, atoi(toks[4]))
		if toks[0] == "r" {
			m.Return(v)
		} else if t.fam == "G" {
			m.When(int64(probeArg)).Return(v)
		} else {
			m.When(probeArg).Return(v)
		}
	case "c":
		switch via {
		case "f", "m", "v":
			h.exported(b, via, t).Cancel()
		case "e", "u", "x", "p":
			h.unexported(b, via, t).Cancel()
		default:
			panic("bad-op")
		}
	default:
		panic("bad-op")
	}
}

func (h *hist) safeStep(toks []string) (res string) {
	defer func() {
		if r := recover(); r != nil {
			msg := fmt.Sprint(r)
			if msg == "bad-op" {
				res = "bad-op"
				return
			}
			res = "panic:" + errClass(msg)
		}
	}()
	h.step(toks)
	return "ok"
}

// errClass maps goom's panic texts to the model's error classes.
func errClass(msg string) string {
	switch {
	case strings.Contains(msg, "is bigger than origin FuncSize"):
		return "too-small"
	case strings.Contains(msg, "already patched"):
		return "already-patched"
	case strings.Contains(msg, "not found") || strings.Contains(msg, "unknown method"):
		return "symbol-not-found"
	case strings.Contains(msg, "func signature mismatch"):
		return "rejected"
	case strings.HasPrefix(msg, "proxy ") || strings.HasPrefix(msg, "address overflow"):
		return "fix-origin" // every other error of replaceFunc comes from fixOrigin (relocation into the placeholder)
	}
	return vh.Class(msg)
}

// cleanup brings the process back to the pristine state so that the next history starts like the model's `init`.
func cleanup(h *hist) string {
	for _, b := range h.b {
		func() {
			defer func() { recover() }()
			b.Reset()
		}()
	}
	afterReset := diff()
	patch.UnpatchAll()
	cur := curText()
	for i := 0; i < len(cur); i++ {
		if cur[i] == snapshot[i] {
			continue
		}
		j := i + 1
		for j < len(cur) && j < i+4096 {
			k := j + 8
			if k > len(cur) {
				k = len(cur)
			}
			if bytes.Equal(cur[j:k], snapshot[j:k]) {
				break
			}
			j++
		}
		if err := memory.WriteTo(textLo+uintptr(i), snapshot[i:j]); err != nil {
			return afterReset + " dirty"
		}
		i = j
	}
	for _, p := range placeholders {
		reflect.ValueOf(p.ptr).Elem().Set(p.init)
	}
	if !bytes.Equal(curText(), snapshot) {
		return afterReset + " dirty"
	}
	return afterReset
}

func splitSteps(toks []string) [][]string {
	var steps [][]string
	var cur []string
	for _, t := range toks {
		if t == ";" {
			steps = append(steps, cur)
			cur = nil
			continue
		}
		cur = append(cur, t)
	}
	if len(cur) > 0 {
		steps = append(steps, cur)
	}
	return steps
}

// TestVerifC02 runs every history line `c02.hist <env...> | <nb> | step ; step ...` from index $VERIF_FROM on.
func TestVerifC02(t *testing.T) {
	setup()
	out := vh.OpenOut()
	defer out.Close()
	from, _ := strconv.Atoi(os.Getenv("VERIF_FROM"))
	env := describeStatic()
	for _, op := range vh.ReadOps() {
		if op.Idx < from || len(op.Toks) == 0 || op.Toks[0] != "c02.hist" {
			continue
		}
		parts := strings.Split(op.Line, " | ")
		if len(parts) != 3 {
			out.Put(op.Idx, "bad-op")
			continue
		}
		envToks := strings.Fields(parts[0])[1:]
		if len(envToks) != 4 || strings.Join(envToks[:3], " ") != env {
			out.Put(op.Idx, "env-mismatch")
			continue
		}
		nb, err := strconv.Atoi(strings.TrimSpace(parts[1]))
		if err != nil || nb < 1 || nb > 8 {
			out.Put(op.Idx, "bad-op")
			continue
		}
		// announce the history before running it: a crash leaves this marker as the last line
		fmt.Fprintf(os.Stderr, "c02 running %d\n", op.Idx)
		h := &hist{}
		for i := 0; i < nb; i++ {
			if i%2 == 1 {
				// the shared-test-helper pattern: created in another package, used from this one; the first lookup still
				// resolves names in the creator's package, so spend it on a mocker kind that is none of C02's business
				bb := sub.NewBuilder()
				_ = bb.Var(&VarTarget)
				h.b = append(h.b, bb)
			} else {
				h.b = append(h.b, mocker.Create())
			}
		}
		var obs []string
		for _, st := range splitSteps(strings.Fields(parts[2])) {
			r := h.safeStep(st)
			if r == "bad-op" {
				obs = append(obs, "bad-op")
				break
			}
			obs = append(obs, r+" d="+diff()+" "+behaviour())
		}
		end := cleanup(h)
		obs = append(obs, "end d="+end)
		out.Put(op.Idx, "%s", strings.Join(obs, " ; "))
		if strings.HasSuffix(end, "dirty") {
			os.Exit(3)
		}
	}
}

// describeStatic renders the measured facts about the binary that the model takes as parameters:
// T=<funcSize>:<first 16 pristine bytes> per target, K=<funcval address> per callback (functions;methods),
// P=<GetFuncSize of the placeholder> per placeholder.
func describeStatic() string {
	var ts, ks, ps []string
	for _, t := range targets {
		sz, err := bytecode.GetFuncSize(64, t.entry, false)
		if err != nil {
			sz = 1024
		}
		i := int(t.entry - textLo)
		ts = append(ts, fmt.Sprintf("%d:%s", sz, vh.Hex(snapshot[i:i+16])))
	}
	for k := range cbF {
		ks = append(ks, fmt.Sprintf("%#x", funcvalAddr(cbF[k])))
	}
	for k := range cbM {
		ks = append(ks, fmt.Sprintf("%#x", funcvalAddr(cbM[k])))
	}
	for _, fam := range [][]interface{}{cbL, cbS, cbG} {
		for k := range fam {
			ks = append(ks, fmt.Sprintf("%#x", funcvalAddr(fam[k])))
		}
	}
	for _, p := range placeholders {
		sz, err := bytecode.GetFuncSize(64, p.entry, false)
		if err != nil {
			sz = 20
		}
		ps = append(ps, strconv.Itoa(sz))
	}
	return "T=" + strings.Join(ts, ",") + " K=" + strings.Join(ks, ",") + " P=" + strings.Join(ps, ",")
}

// TestVerifC02Describe prints the environment line, including X=<outcome of fixOrigin per target x placeholder>
// (measured by actually mocking each pair once in this throw-away process), and layout facts for the evidence file.
func TestVerifC02Describe(t *testing.T) {
	setup()
	out := vh.OpenOut()
	defer out.Close()
	static := describeStatic()
	var rows []string
	for _, tg := range targets {
		row := ""
		for _, p := range placeholders {
			if p.meth != (tg.fam == "T") || tg.fam == "L" || tg.fam == "S" || tg.fam == "G" || tg.fam == "P" {
				row += "-"
				continue
			}
			h := &hist{b: []*mocker.Builder{mocker.Create()}}
			cb := cbFor(tg, 0)
			ok := func() (ok bool) {
				defer func() {
					if r := recover(); r != nil {
						ok = false
						fmt.Fprintf(os.Stderr, "describe %s: %v\n", tg.name, r)
					}
				}()
				h.b[0].Func(tg.fn).Origin(p.ptr).Apply(cb)
				return true
			}()
			if ok {
				row += "1"
			} else {
				row += "0"
			}
			if c := cleanup(h); strings.HasSuffix(c, "dirty") {
				t.Fatal("cannot clean up after describe")
			}
		}
		rows = append(rows, row)
	}
	out.Put(0, "%s X=%s", static, strings.Join(rows, ","))
	// layout facts: distances between consecutive targets, same-page pairs, text size
	var lay []string
	for i := 1; i < len(targets); i++ {
		d := int64(targets[i].entry) - int64(targets[i-1].entry)
		same := targets[i].entry>>12 == targets[i-1].entry>>12
		lay = append(lay, fmt.Sprintf("f%d-f%d:%d:%v", i-1, i, d, same))
	}
	out.Put(1, "text=%d layout=%s", len(snapshot), strings.Join(lay, ","))
	_ = unsafe.Sizeof(0)
}

// TestVerifC02Stale is the oracle-only lane for mocker handles that are used again after their own Cancel / the builder's
// Reset (`m := b.Func(f); m.Return(..); m.Cancel(); m.Return(..)`): lines `c02.stale <via> <target> <first> <undo> <second>`
// with first/second ∈ {a, r} and undo ∈ {c, x}.  Observation: behaviour class of the target after each of the four phases
// (mock, undo, mock again through the SAME handle, Reset) and the image diff after the final Reset.
func TestVerifC02Stale(t *testing.T) {
	setup()
	out := vh.OpenOut()
	defer out.Close()
	from, _ := strconv.Atoi(os.Getenv("VERIF_FROM"))
	for _, op := range vh.ReadOps() {
		if op.Idx >= from && len(op.Toks) == 1 && op.Toks[0] == "c02.plow" {
			fmt.Fprintf(os.Stderr, "c02 running %d\n", op.Idx)
			out.Put(op.Idx, "%s", patchLevel())
			continue
		}
		if op.Idx >= from && len(op.Toks) == 1 && op.Toks[0] == "c02.shape" {
			// two instantiations with the same gc shape: mock one, observe both, Reset, observe both
			fmt.Fprintf(os.Stderr, "c02 running %d\n", op.Idx)
			h := &hist{b: []*mocker.Builder{mocker.Create()}}
			origA, origB := CallQA(probeArg), CallQB(probeArg)
			res := vh.Catch(func() string {
				h.b[0].Func(QA).Apply(KQA)
				a, b := safeCall(func() int { return CallQA(probeArg) }, origA), safeCall(func() int { return CallQB(probeArg) }, origB)
				h.b[0].Reset()
				a2, b2 := safeCall(func() int { return CallQA(probeArg) }, origA), safeCall(func() int { return CallQB(probeArg) }, origB)
				return fmt.Sprintf("a=%s b=%s after=%s,%s", a, b, a2, b2)
			})
			end := cleanup(h)
			if strings.HasPrefix(end, "?") { // the shape body is not a corpus target: its own jump is expected before Reset only
				end = "?"
			}
			out.Put(op.Idx, "%s end d=%s", res, end)
			continue
		}
		if op.Idx >= from && len(op.Toks) == 1 && op.Toks[0] == "c02.phantom" {
			// two instantiations that differ only in a type parameter absent from the signature: two targets in ONE builder
			fmt.Fprintf(os.Stderr, "c02 running %d\n", op.Idx)
			h := &hist{b: []*mocker.Builder{mocker.Create()}}
			origA, origB := CallZI(probeArg), CallZS(probeArg)
			res := vh.Catch(func() string {
				h.b[0].Func(ZI).Apply(KZ1)
				h.b[0].Func(ZS).Apply(KZ2)
				a, b := safeCall(func() int { return CallZI(probeArg) }, origA), safeCall(func() int { return CallZS(probeArg) }, origB)
				h.b[0].Func(ZI).Return(200001)
				a1, b1 := safeCall(func() int { return CallZI(probeArg) }, origA), safeCall(func() int { return CallZS(probeArg) }, origB)
				h.b[0].Reset()
				a2, b2 := safeCall(func() int { return CallZI(probeArg) }, origA), safeCall(func() int { return CallZS(probeArg) }, origB)
				return fmt.Sprintf("a=%s b=%s then=%s,%s after=%s,%s", a, b, a1, b1, a2, b2)
			})
			end := cleanup(h)
			out.Put(op.Idx, "%s end d=%s", res, end)
			continue
		}
		if op.Idx < from || len(op.Toks) != 6 || op.Toks[0] != "c02.stale" {
			continue
		}
		fmt.Fprintf(os.Stderr, "c02 running %d\n", op.Idx)
		ti, err := strconv.Atoi(op.Toks[2])
		if err != nil || ti < 0 || ti >= len(targets) || (op.Toks[1] != "f" && op.Toks[1] != "m") || (op.Toks[1] == "m" && targets[ti].method == "") {
			out.Put(op.Idx, "bad-op")
			continue
		}
		tg := targets[ti]
		h := &hist{b: []*mocker.Builder{mocker.Create()}}
		var m mocker.ExportedMocker
		res := vh.Catch(func() string {
			m = h.exported(h.b[0], op.Toks[1], tg)
			mock := func(kind string, n int) {
				if kind == "a" {
					m.Apply(cbFor(tg, n))
				} else {
					m.Return(200000 + n)
				}
			}
			var obs []string
			mock(op.Toks[3], 1)
			obs = append(obs, safeCall(tg.call, tg.orig))
			if op.Toks[4] == "c" {
				m.Cancel()
			} else {
				h.b[0].Reset()
			}
			obs = append(obs, safeCall(tg.call, tg.orig))
			mock(op.Toks[5], 2)
			obs = append(obs, safeCall(tg.call, tg.orig))
			h.b[0].Reset()
			obs = append(obs, safeCall(tg.call, tg.orig))
			return strings.Join(obs, ",")
		})
		end := cleanup(h)
		out.Put(op.Idx, "%s end d=%s", res, end)
		if strings.HasSuffix(end, "dirty") {
			os.Exit(3)
		}
	}
}

// patchLevel drives internal/patch directly (the layer Model/Patch.lean transcribes) where Go-compiled targets cannot reach:
// A. synthetic machine code in an anonymous executable page: a function shorter than the 13-byte jump (refused by the size
//    check, every time it is offered), one whose first byte is the NOP sentinel (refused as already patched), and an ordinary one
//    next to them (patched: exactly its first 13 bytes change; unpatched: the page is byte-identical again);
// B. patch.Unpatch of a function that carries no patch while its first callee is mocked: nothing may change.
func patchLevel() string {
	region, err := syscall.Mmap(-1, 0, 4096, syscall.PROT_READ|syscall.PROT_WRITE|syscall.PROT_EXEC, syscall.MAP_PRIVATE|syscall.MAP_ANON)
	if err != nil {
		return "A:no-exec-memory"
	}
	defer syscall.Munmap(region)
	for i := range region {
		region[i] = 0xCC
	}
	base := uintptr(unsafe.Pointer(&region[0]))
	put := func(off int, b ...byte) uintptr { copy(region[off:], b); return base + uintptr(off) }
	tiny := put(0x100, 0xB8, 0x01, 0, 0, 0, 0xC3)        // mov eax,1; ret; 2 bytes of padding: 8 bytes up to the neighbour
	nb := put(0x108, 0xB8, 0x02, 0, 0, 0, 0xC3)          // mov eax,2; ret; padding up to 0x128
	put(0x128, 0xB8, 0x03, 0, 0, 0, 0xC3)                // ends the neighbour's padding
	nop := put(0x200, 0x90, 0xB8, 0x04, 0, 0, 0, 0xC3)   // first byte = goom's sentinel; long enough otherwise
	put(0x240, 0xB8, 0x05, 0, 0, 0, 0xC3)
	snap := append([]byte(nil), region...)
	repl := func() int { return 42 }
	same := func() string {
		for i := range region {
			if region[i] != snap[i] {
				j := i
				for j < len(region) && region[j] != snap[j] {
					j++
				}
				return fmt.Sprintf("diff@%#x+%d", i, j-i)
			}
		}
		return "same"
	}
	try := func(addr uintptr, n int) string {
		var r []string
		for k := 0; k < n; k++ {
			g, err := patch.Ptr(addr, repl)
			switch {
			case err != nil:
				r = append(r, "refused/"+same())
			default:
				g.Apply()
				d := same()
				g.Unpatch()
				r = append(r, "accepted/"+d+"/"+same())
			}
		}
		return strings.Join(r, ",")
	}
	a := "A:tiny=" + try(tiny, 3) + " nop=" + try(nop, 2) + " nb=" + try(nb, 2)
	patch.UnpatchAll()
	// B
	h := &hist{b: []*mocker.Builder{mocker.Create()}}
	origN0 := N0(probeArg)
	b := vh.Catch(func() string {
		h.b[0].Func(N0).Apply(K1)
		before := safeCall(func() int { return N0(probeArg) }, origN0)
		r := patch.Unpatch(H10) // H10 carries no patch; its first call goes to N0
		after := safeCall(func() int { return N0(probeArg) }, origN0)
		h.b[0].Reset()
		return fmt.Sprintf("n0=%s unpatch(H10)=%v n0=%s reset=%s", before, r, after, safeCall(func() int { return N0(probeArg) }, origN0))
	})
	return a + " B:" + b + " end d=" + cleanup(h)
}
