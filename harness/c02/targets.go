// Package c02 is the virtual user package of the C02 check: mock targets, callbacks and origin placeholders.
// It is injected as github.com/tencent/goom/internal/zzverif/c02 with `go test -overlay` and uses goom's public API only
// (the probe additionally reads .text and calls internal helpers for measuring and for cleaning up between histories).
package c02

// Sink keeps the bodies from being optimised away.
var Sink int

// T is the receiver of the method targets.
type T struct{ A int }

// ---- targets (index = position in Targets); bodies are long enough (> 13 bytes) except Tiny6

//go:noinline
func F0(x int) int {
	if x < 0 {
		Sink += x
		return -x*3 + 11
	}
	return x*7 + 1000
}

//go:noinline
func F1(x int) int {
	if x < 0 {
		Sink -= x
		return -x*5 + 13
	}
	return x*7 + 1001
}

// N0 is a neighbour that is never mocked.
//
//go:noinline
func N0(x int) int {
	if x < 0 {
		Sink ^= x
		return -x*9 + 17
	}
	return x*7 + 5000
}

//go:noinline
func F2(x int) int {
	if x > 1<<41 {
		return helper(x, x+5) + helper(x+6, x+7)
	}
	return x*7 + 1002
}

// F3 has a stack frame and calls out (prologue with stack check, CALL rel32 in the first bytes region).
//
//go:noinline
func F3(x int) int {
	if x > 1<<40 {
		return helper(x, x+1) + helper(x+2, x+3)
	}
	return x*7 + 1003
}

//go:noinline
func helper(a, b int) int { Sink += a; return a ^ b }

//go:noinline
func u4(x int) int {
	if x > 1<<42 {
		return helper(x, x+9) + helper(x+10, x+11)
	}
	return x*7 + 1004
}

// Tiny6 is shorter than the 13-byte entry jump: goom must refuse it.
//
//go:noinline
func Tiny6(x int) int { return x }

// N1 is a neighbour that is never mocked.
//
//go:noinline
func N1(x int) int {
	if x < 0 {
		Sink ^= 3 * x
		return -x*9 + 31
	}
	return x*7 + 5001
}

//go:noinline
func (t *T) M7(x int) int {
	if x < 0 {
		Sink += t.A
		return -x*3 + 37
	}
	return x*7 + 1007
}

//go:noinline
func (t *T) M8(x int) int {
	if x > 1<<43 {
		return helper(x, t.A) + helper(x+12, x+13)
	}
	return x*7 + 1008
}

//go:noinline
func (t *T) m9(x int) int {
	if x < 0 {
		Sink ^= t.A
		return -x*3 + 43
	}
	return x*7 + 1009
}

// ---- function literals held in package variables (runtime names <pkg>.glob..func<N> / <pkg>.init.func<N> / makeHook.func1):
// their bodies call other corpus functions, and one is a closure that captures a variable

// H10 is a plain func literal.
var H10 = func(x int) int {
	if x > 1<<44 {
		return N0(x) + helper(x, 1)
	}
	return x*7 + 1010
}

func makeHook(c int) func(int) int {
	return func(x int) int {
		if x > 1<<45 {
			return N1(x+c) + helper(x, c)
		}
		return x*7 + 1000 + c
	}
}

// H11 is a closure capturing c = 11.
var H11 = makeHook(11)

// ---- a method family whose names end in the letters of the method-value suffix "-fm": Add / Addf / Addm / Addfm / Addmf

// L is the receiver of the method family.
type L struct{ N int }

//go:noinline
func (l *L) Add(x int) int {
	if x > 1<<46 {
		return helper(x, l.N) + helper(x+20, x+21)
	}
	return x*7 + 1012
}

//go:noinline
func (l *L) Addf(x int) int {
	if x > 1<<47 {
		return helper(x, l.N) + helper(x+22, x+23)
	}
	return x*7 + 1013
}

//go:noinline
func (l *L) Addm(x int) int {
	if x > 1<<48 {
		return helper(x, l.N) + helper(x+24, x+25)
	}
	return x*7 + 1014
}

//go:noinline
func (l *L) Addfm(x int) int {
	if x > 1<<49 {
		return helper(x, l.N) + helper(x+26, x+27)
	}
	return x*7 + 1015
}

//go:noinline
func (l *L) Addmf(x int) int {
	if x > 1<<50 {
		return helper(x, l.N) + helper(x+28, x+29)
	}
	return x*7 + 1016
}

// Loop20 has a loop whose head lies inside its first 13 bytes: goom can mock it, but must REFUSE to relocate it into an origin
// placeholder (fix_addr_amd64.go checkJumpBetween returns an error — the other refusals in this corpus are panics).
//
//go:noinline
func Loop20(x int) int {
	for i := x; i > 100000; i-- {
		Sink += i
	}
	return x*7 + 1020
}

// ---- callbacks: class cb<k> returns 100000+k when it receives exactly the argument the probe passes, 100050+k otherwise

// ProbeArg is what the probe passes to every target.
const ProbeArg = 7

func cbv(x, k int) int {
	if x == ProbeArg {
		return 100000 + k
	}
	return 100050 + k
}

func K0(x int) int { return cbv(int(x), 0) }
func K1(x int) int { return cbv(int(x), 1) }
func K2(x int) int { return cbv(int(x), 2) }
func K3(x int) int { return cbv(int(x), 3) }

func KM0(t *T, x int) int { return cbv(int(x), 0) }
func KM1(t *T, x int) int { return cbv(int(x), 1) }
func KM2(t *T, x int) int { return cbv(int(x), 2) }
func KM3(t *T, x int) int { return cbv(int(x), 3) }

func KL0(l *L, x int) int { return cbv(int(x), 0) }
func KL1(l *L, x int) int { return cbv(int(x), 1) }
func KL2(l *L, x int) int { return cbv(int(x), 2) }
func KL3(l *L, x int) int { return cbv(int(x), 3) }

func KG0(x int64) int64 { return int64(cbv(int(x), 0)) }
func KG1(x int64) int64 { return int64(cbv(int(x), 1)) }
func KG2(x int64) int64 { return int64(cbv(int(x), 2)) }
func KG3(x int64) int64 { return int64(cbv(int(x), 3)) }

// KBad has a signature no target has: goom's signature check must reject it before anything is patched.
func KBad() int { return 100099 }

// VarTarget is mocked-by-lookup only (`b.Var(&VarTarget)`, never Set): a mocker kind outside C02 that Reset walks too.
var VarTarget = 41

// ---- origin placeholders (bodies are overwritten by goom with the relocated original)

func filler(x int) int {
	Sink += x
	Sink ^= x * 3
	Sink += x * 5
	Sink ^= x * 7
	Sink += x * 9
	Sink ^= x * 11
	Sink += x * 13
	Sink ^= x * 17
	Sink += x * 19
	Sink ^= x * 23
	return Sink
}

var O0 = func(x int) int { return helper(filler(x), filler(x+1)) + helper(filler(x+2), filler(x+3)) + filler(x+4) + filler(x+5) }
var O1 = func(x int) int { return helper(filler(x+6), filler(x+7)) + helper(filler(x+8), filler(x+9)) + filler(x+10) + filler(x+11) }

// O2 is too small to hold a relocated prologue: goom must refuse it.
var O2 = func(x int) int { return 0 }

var O3 = func(t *T, x int) int {
	return helper(filler(x+12), filler(x+13)) + helper(filler(x+14), filler(x+15)) + filler(x+16) + filler(t.A)
}
