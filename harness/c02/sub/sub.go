// Package c02 (a second package with the SAME name, import path .../internal/zzverif/c02x/c02) holds a struct type and an
// unexported function whose names collide with the main corpus package: `*c02.T` with a method M7, and u4.  Mocking the
// namesakes in the main package must never touch these, and vice versa.
package c02

import (
	mocker "github.com/tencent/goom"
)

// Sink keeps the bodies from being optimised away.
var Sink int

// T has the same name (and the same Type.String(), "*c02.T") as the main corpus type.
type T struct{ A int }

//go:noinline
func hlp(a, b int) int { Sink += a; return a ^ b }

// M7 is a target of its own (index 17 of the corpus).
//
//go:noinline
func (t *T) M7(x int) int {
	if x > 1<<51 {
		return hlp(x, t.A) + hlp(x+30, x+31)
	}
	return x*7 + 1017
}

//go:noinline
func u4(x int) int {
	if x > 1<<52 {
		return hlp(x, x+32) + hlp(x+33, x+34)
	}
	return x*7 + 7004
}

// U4 hands the unexported namesake out as a value (the probe needs its address and type); it is target 19 of the corpus,
// mocked through `b.Pkg("<this package>").ExportFunc("u4")` only.
var U4 = u4

// PkgPath is this package's import path, as Builder.Pkg wants it.
const PkgPath = "github.com/tencent/goom/internal/zzverif/c02x/c02"

// CallU4 lets the probe observe the namesake of the main package's u4.
//
//go:noinline
func CallU4(x int) int { return u4(x) }

// NewBuilder is the shared test-helper pattern: the builder is created in this package and used from another.
func NewBuilder() *mocker.Builder { return mocker.Create() }
