//go:build go1.18

package c02

import (
	"fmt"
	"unsafe"
)

// G5 is generic; the target is the instantiation at int.
//
//go:noinline
func G5[V int | int64](x V) V {
	if x < 0 {
		Sink += int(x)
		return -x*15 + 29
	}
	return x*7 + 1005
}

// G5int is the instantiation that is mocked.
var G5int = G5[int]

// CallG5 calls the instantiation directly (through the dictionary stub, not through the func value).
//
//go:noinline
func CallG5(x int) int { return G5[int](x) }

// G5int64 is a second instantiation with a different gc shape (its own body, its own entry): target 18.
var G5int64 = G5[int64]

// CallG5b calls the second instantiation directly.
//
//go:noinline
func CallG5b(x int64) int64 { return G5[int64](x) }

// ShA and ShB are two pointer types: Q[*ShA] and Q[*ShB] have the same gc shape, i.e. ONE compiled body.
type ShA struct{ X int }
type ShB struct{ Y int }

// Q is the generic function of the same-shape lane.
//
//go:noinline
func Q[P any](p P, x int) int {
	if x > 1<<53 {
		return helper(x, 1) + helper(x+40, x+41)
	}
	return x*7 + 1020
}

var QA = Q[*ShA]

//go:noinline
func CallQA(x int) int { return Q[*ShA](&ShA{}, x) }

//go:noinline
func CallQB(x int) int { return Q[*ShB](&ShB{}, x) }

func KQA(p *ShA, x int) int { return 100001 }

// Z is generic in a type parameter that does NOT occur in its signature: Z[int8] and Z[string] have the same func type
// `func(int) int` but different gc shapes, i.e. two compiled bodies and two distinct targets (seed C12-R6-2).
//
//go:noinline
func Z[T any](x int) int {
	var z T
	if x > 1<<53 {
		Sink += len(fmt.Sprint(z))
		return helper(x, 1) + helper(x+50, x+51)
	}
	return x*7 + 1030 + int(unsafe.Sizeof(z))
}

var ZI = Z[int8]
var ZS = Z[string]

//go:noinline
func CallZI(x int) int { return Z[int8](x) }

//go:noinline
func CallZS(x int) int { return Z[string](x) }

func KZ1(x int) int { return 100001 }
func KZ2(x int) int { return 100002 }
