//go:build go1.18

package c02

// G5 is generic; the target is the instantiation at int.
//
//go:noinline
func G5[V int | int64](x V) V {
	if x < 0 {
		Sink += int(x)
		return -x*15 + 29
	}
	return x*7 + 1005
}

// G5int is the instantiation that is mocked.
var G5int = G5[int]

// CallG5 calls the instantiation directly (through the dictionary stub, not through the func value).
//
//go:noinline
func CallG5(x int) int { return G5[int](x) }
