package c02

import (
	sub "github.com/tencent/goom/internal/zzverif/c02x/c02"
)

// callbacks for the namesake type's method

func KS0(t *sub.T, x int) int { return cbv(x, 0) }
func KS1(t *sub.T, x int) int { return cbv(x, 1) }
func KS2(t *sub.T, x int) int { return cbv(x, 2) }
func KS3(t *sub.T, x int) int { return cbv(x, 3) }
