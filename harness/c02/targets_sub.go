package c02

import (
	sub "github.com/tencent/goom/internal/zzverif/c02x/c02"
)

// callbacks for the namesake type's method

func KS0(t *sub.T, x int) int { return 100000 }
func KS1(t *sub.T, x int) int { return 100001 }
func KS2(t *sub.T, x int) int { return 100002 }
func KS3(t *sub.T, x int) int { return 100003 }
