package arm64asm

// Accessors for unexported operand fields, added by the verification harness (the decoder itself is the
// toolchain's unmodified vendored copy).

// ImmShiftParts returns the 16-bit immediate and the shift amount in bits.
func ImmShiftParts(a Arg) (imm uint16, shift uint8, ok bool) {
	v, ok := a.(ImmShift)
	if !ok {
		return 0, 0, false
	}
	return v.imm, v.shift, true
}

// MemImmParts returns base register, addressing mode and offset of a MemImmediate.
func MemImmParts(a Arg) (base RegSP, mode AddrMode, imm int32, ok bool) {
	v, ok := a.(MemImmediate)
	if !ok {
		return 0, 0, 0, false
	}
	return v.Base, v.Mode, v.imm, true
}
