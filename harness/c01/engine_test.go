// Package c01_test is the external probe of property C01: it uses goom's public API on the generated corpus
// (c01lib) and records bit-exactly what the callbacks saw and what the callers received.
package c01_test

import (
	"encoding/hex"
	"fmt"
	"math"
	"os"
	"runtime"
	"sort"
	"strconv"
	"strings"
	"sync"
	"testing"
	"time"

	mocker "github.com/tencent/goom"
	"github.com/tencent/goom/internal/patch"
	lib "github.com/tencent/goom/internal/zzverif/c01lib"
	"github.com/tencent/goom/internal/zzverif/vh"
)

type sigOps struct {
	mk               func(k int, fo *finObj) interface{}
	call             func(form string, depth int) bool
	setArgs, setRes  func(r *rd)
	gotArgs, recvRes func(w *wr)
	same             func() bool
	clear            func()
	setArgsReuse     func(r *rd)
	get              func(b *mocker.Builder) mocker.ExportedMocker
	retVals          func() []interface{}
	sentVals         func() []interface{}
}

var sigs = map[int]*sigOps{}

var (
	cbGrow      bool
	cbGrowDepth int
	ranK        []int
	ranFin      int
	sinkB       byte
)

// finObj is captured by every callback; its finalizer tells us the callback was collected.
type finObj struct {
	id  int
	pad [2]int
}

var (
	finMu     sync.Mutex
	finalized = map[int]bool{} // only ids of the line being replayed (finLine)
	finLine   = -1
)

func newFin(id int) *finObj {
	f := &finObj{id: id}
	runtime.SetFinalizer(f, func(f *finObj) {
		finMu.Lock()
		if f.id/1000 == finLine {
			finalized[f.id] = true
		}
		finMu.Unlock()
	})
	return f
}

func nop() {}

//go:noinline
func deep(n int, f func()) {
	var pad [200]byte
	pad[n%200] = byte(n)
	if n <= 0 {
		f()
	} else {
		deep(n-1, f)
	}
	sinkB += pad[(n*7)%200]
}

// junk objects of the size classes closures live in, filled with a poison pattern: if a callback closure had been
// freed, its slot is likely reused and the poisoned code word makes the next call crash visibly.
type junk3 struct {
	a uintptr
	p *int
	q *int
}
type junk4 struct {
	a uintptr
	p *int
	q *int
	b uintptr
}
type junk2 struct {
	a uintptr
	p *int
}

var (
	junkKeep []interface{}
	junkInt  int
)

func churn() {
	for r := 0; r < 3; r++ {
		junkKeep = junkKeep[:0]
		for i := 0; i < 3000; i++ {
			switch i % 3 {
			case 0:
				junkKeep = append(junkKeep, &junk3{a: 0x4141414141414141, p: &junkInt, q: &junkInt})
			case 1:
				junkKeep = append(junkKeep, &junk4{a: 0x4141414141414141, p: &junkInt, q: &junkInt, b: 0x4242424242424242})
			default:
				junkKeep = append(junkKeep, &junk2{a: 0x4141414141414141, p: &junkInt})
			}
		}
		runtime.GC()
	}
	runtime.Gosched()
	time.Sleep(200 * time.Microsecond)
}

// ---- canonical token reader / writer

type rd struct {
	t []string
	i int
}

func newRd(s string) *rd {
	if s == "-" || s == "" {
		return &rd{}
	}
	return &rd{t: strings.Split(s, ",")}
}

func (r *rd) next() string {
	if r.i >= len(r.t) {
		panic("token underflow")
	}
	r.i++
	return r.t[r.i-1]
}
func (r *rd) isnil() bool {
	if r.i < len(r.t) && r.t[r.i] == "nil" {
		r.i++
		return true
	}
	return false
}
func (r *rd) peeknil() bool { return r.i < len(r.t) && r.t[r.i] == "nil" }
func (r *rd) expect(s string) {
	if r.next() != s {
		panic("expected " + s)
	}
}
func (r *rd) u64() uint64 {
	v, err := strconv.ParseUint(r.next(), 10, 64)
	if err != nil {
		panic(err)
	}
	return v
}
func (r *rd) count(pfx byte) (int, bool) {
	if r.isnil() {
		return 0, true
	}
	t := r.next()
	if t[0] != pfx {
		panic("bad count token " + t)
	}
	n, _ := strconv.Atoi(t[1:])
	return n, false
}
func unhex(s string) string {
	b, err := hex.DecodeString(s)
	if err != nil {
		panic(err)
	}
	return string(b)
}
func (r *rd) str() string {
	t := r.next()
	if t[0] != 's' {
		panic("bad string token " + t)
	}
	return unhex(t[1:])
}
func (r *rd) eface() interface{} {
	if r.isnil() {
		return nil
	}
	switch t := r.next(); t {
	case "iint":
		return int(r.u64())
	case "istr":
		return r.str()
	case "if64":
		return math.Float64frombits(r.u64())
	case "iu8":
		return uint8(r.u64())
	case "iS":
		return lib.ES{A: int64(r.u64()), B: r.str()}
	case "ipint":
		v := int(r.u64())
		return &v
	case "ibool":
		return r.u64() != 0
	default:
		panic("bad iface tag " + t)
	}
}

type wr struct{ t []string }

func (w *wr) tok(s string) { w.t = append(w.t, s) }
func (w *wr) u64(v uint64) { w.t = append(w.t, strconv.FormatUint(v, 10)) }
func (w *wr) str(s string) { w.t = append(w.t, "s"+hex.EncodeToString([]byte(s))) }
func (w *wr) String() string {
	if len(w.t) == 0 {
		return "-"
	}
	return strings.Join(w.t, ",")
}
func (w *wr) eface(v interface{}) {
	switch x := v.(type) {
	case nil:
		w.tok("nil")
	case int:
		w.tok("iint")
		w.u64(uint64(x))
	case string:
		w.tok("istr")
		w.str(x)
	case float64:
		w.tok("if64")
		w.u64(math.Float64bits(x))
	case uint8:
		w.tok("iu8")
		w.u64(uint64(x))
	case lib.ES:
		w.tok("iS")
		w.u64(uint64(x.A))
		w.str(x.B)
	case *int:
		w.tok("ipint")
		w.u64(uint64(*x))
	case bool:
		w.tok("ibool")
		if x {
			w.u64(1)
		} else {
			w.u64(0)
		}
	default:
		w.tok(fmt.Sprintf("i?%T", v))
	}
}

// sameEface: identical dynamic type and identical data word (pointer-shaped payloads must be the same pointer).
func sameEface(a, b interface{}) bool {
	if pa, ok := a.(*int); ok {
		pb, ok2 := b.(*int)
		return ok2 && pa == pb
	}
	if fa, ok := a.(float64); ok {
		fb, ok2 := b.(float64)
		return ok2 && math.Float64bits(fa) == math.Float64bits(fb)
	}
	return a == b
}

func finList(line int) string {
	finMu.Lock()
	defer finMu.Unlock()
	var ks []int
	for id := range finalized {
		if id/1000 == line {
			ks = append(ks, id%1000)
		}
	}
	sort.Ints(ks)
	s := make([]string, len(ks))
	for i, k := range ks {
		s[i] = strconv.Itoa(k)
	}
	return strings.Join(s, ",")
}

// TestVerifC01 replays mocker-level histories.
func TestVerifC01(t *testing.T) {
	out := vh.OpenOut()
	defer out.Close()
	skip := -1
	if s := os.Getenv("VERIF_SKIP"); s != "" {
		skip, _ = strconv.Atoi(s)
	}
	for _, op := range vh.ReadOps() {
		if len(op.Toks) < 2 || op.Toks[0] != "c01.hist" || op.Idx <= skip {
			continue
		}
		idx, _ := strconv.Atoi(strings.TrimPrefix(op.Toks[1], "s"))
		s := sigs[idx]
		if s == nil {
			out.Put(op.Idx, "bad-op")
			continue
		}
		finMu.Lock()
		finLine, finalized = op.Idx, map[int]bool{}
		finMu.Unlock()
		var builders [4]*mocker.Builder
		builder := func(b int) *mocker.Builder {
			if builders[b] == nil {
				builders[b] = mocker.Create()
			}
			return builders[b]
		}
		var obs []string
		var handles [4]mocker.ExportedMocker
		handle := func(b int, kept bool) mocker.ExportedMocker {
			if !kept || handles[b] == nil {
				handles[b] = s.get(builder(b))
			}
			return handles[b]
		}
		doCall := func(form string, depth int, args, res string, reuse bool) string {
			s.clear()
			ranK = ranK[:0]
			before := lib.OrigRan
			known := true
			if p := vh.Catch(func() string {
				if reuse {
					s.setArgsReuse(newRd(args))
				} else {
					s.setArgs(newRd(args))
				}
				s.setRes(newRd(res))
				known = s.call(form, depth)
				return ""
			}); p != "" {
				return p
			}
			if !known {
				return "bad-op"
			}
			d := lib.OrigRan - before
			switch {
			case len(ranK) == 0 && d == 1:
				return "orig"
			case len(ranK) == 1 && d == 0:
				var wa, wr2 wr
				s.gotArgs(&wa)
				s.recvRes(&wr2)
				id := "ok"
				if !s.same() {
					id = "bad"
				}
				return fmt.Sprintf("cb%d a=%s r=%s id=%s", ranK[0], wa.String(), wr2.String(), id)
			case len(ranK) == 0 && d == 0:
				var wr2 wr
				s.recvRes(&wr2)
				return "stub r=" + wr2.String()
			default:
				return fmt.Sprintf("anomaly:ran=%v,orig=%d", ranK, d)
			}
		}
		for _, st := range strings.Split(strings.Join(op.Toks[2:], " "), ";") {
			f := strings.Fields(st)
			if len(f) == 0 {
				continue
			}
			var o string
			switch f[0] {
			case "A", "Ah":
				b, k := int(vh.I64(f[1])), int(vh.I64(f[2]))
				o = vh.Catch(func() string {
					handle(b, f[0] == "Ah").Apply(s.mk(k, newFin(op.Idx*1000+k)))
					return "ok"
				})
			case "R", "Rh":
				b := int(vh.I64(f[1]))
				o = vh.Catch(func() string {
					s.setRes(newRd(f[2]))
					handle(b, f[0] == "Rh").Return(s.retVals()...)
					return "ok"
				})
			case "W", "Wh":
				b := int(vh.I64(f[1]))
				o = vh.Catch(func() string {
					s.setArgs(newRd(f[2]))
					s.setRes(newRd(f[3]))
					handle(b, f[0] == "Wh").When(s.sentVals()...).Return(s.retVals()...)
					return "ok"
				})
			case "X":
				b := int(vh.I64(f[1]))
				o = vh.Catch(func() string {
					if builders[b] != nil {
						builders[b].Reset()
					}
					return "ok"
				})
			case "D":
				builders[int(vh.I64(f[1]))] = nil
				handles[int(vh.I64(f[1]))] = nil
				o = "ok"
			case "G":
				churn()
				o = "ok ## fin=" + finList(op.Idx)
			case "C", "Cr":
				form, depth := f[1], 0
				if i := strings.IndexByte(form, ':'); i >= 0 {
					depth, _ = strconv.Atoi(form[i+1:])
					form = form[:i]
				}
				o = doCall(form, depth, f[2], f[3], f[0] == "Cr") + " ## fin=" + finList(op.Idx)
			default:
				o = "bad-op"
			}
			if strings.HasPrefix(o, "panic:") && f[0] != "C" && f[0] != "Cr" {
				o = "rej:" + strings.TrimPrefix(o, "panic:")
			}
			obs = append(obs, o)
		}
		// cleanup (not part of the history): whatever is still patched is removed, and the original must be back
		patch.UnpatchAll()
		if a, r, ok := lastCall(op.Toks); ok {
			if o := doCall("direct", 0, a, r, false); o != "orig" {
				obs = append(obs, "LEFTOVER:"+o)
			}
		}
		out.Put(op.Idx, "%s", strings.Join(obs, " | "))
	}
}

// lastCall finds the argument/result tokens of the last call step (any well-typed lists will do for the cleanup call).
func lastCall(toks []string) (a, r string, ok bool) {
	for i, t := range toks {
		if (t == "C" || t == "Cr") && i+3 < len(toks) {
			a, r, ok = toks[i+2], toks[i+3], true
		}
	}
	return
}

// ---- method values: `b.Func(obj.M)` (goom routes the `-fm` wrapper to the method itself, mocker.go doApply)

type fmT struct{ n int }

//go:noinline
func (z *fmT) M(a, b int) int {
	lib.OrigRan++
	if lib.OrigRan > 1<<40 {
		println("never")
	}
	return a + b + z.n
}

// TestVerifC01FM: `c01.fm <form> <a> <b> <r>` mocks the method value obj.M with a callback of the method value's own
// type, calls it in the given form, resets, calls again.
func TestVerifC01FM(t *testing.T) {
	out := vh.OpenOut()
	defer out.Close()
	for _, op := range vh.ReadOps() {
		if len(op.Toks) != 5 || op.Toks[0] != "c01.fm" {
			continue
		}
		if sk, err := strconv.Atoi(os.Getenv("VERIF_SKIP")); err == nil && op.Idx <= sk {
			continue
		}
		a, b, r := int(vh.I64(op.Toks[2])), int(vh.I64(op.Toks[3])), int(vh.I64(op.Toks[4]))
		obj, other := &fmT{n: 1}, &fmT{n: 2}
		var gotA, gotB, ran int
		call := func() string {
			ran = 0
			before := lib.OrigRan
			var res int
			if p := vh.Catch(func() string {
				switch op.Toks[1] {
				case "direct":
					res = obj.M(a, b)
				case "mv":
					f := obj.M
					res = f(a, b)
				case "other":
					res = other.M(a, b)
				case "go":
					ch := make(chan struct{})
					go func() { defer close(ch); res = obj.M(a, b) }()
					<-ch
				default:
					return "bad-op"
				}
				return ""
			}); p != "" {
				return p
			}
			switch {
			case ran == 0 && lib.OrigRan == before+1:
				return "orig"
			case ran == 1 && lib.OrigRan == before:
				return fmt.Sprintf("cb a=%d,%d r=%d", gotA, gotB, res)
			default:
				return fmt.Sprintf("anomaly:ran=%d,orig=%d", ran, lib.OrigRan-before)
			}
		}
		bld := mocker.Create()
		o1 := vh.Catch(func() string {
			bld.Func(obj.M).Apply(func(x, y int) int { gotA, gotB = x, y; ran++; return r })
			return ""
		})
		if o1 == "" {
			o1 = call()
		}
		bld.Reset()
		o2 := call()
		patch.UnpatchAll()
		out.Put(op.Idx, "%s | %s", o1, o2)
	}
}
