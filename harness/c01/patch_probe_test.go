package patch

import (
	"fmt"
	"reflect"
	"runtime"
	"strings"
	"testing"
	"unsafe"

	"github.com/tencent/goom/internal/bytecode"
	"github.com/tencent/goom/internal/bytecode/memory"
	"github.com/tencent/goom/internal/zzverif/vh"
)

var (
	c01sink int
	c01last = -1
)

func c01t0(a int) int { c01sink += a; c01last = -1; return a*3 + 1 }
func c01t1(a int) int { c01sink += a; c01last = -1; return a*5 + 2 }
func c01t2(a int) int { c01sink += a; c01last = -1; return a*7 + 3 }

// c01nopw has the shape of the other targets; index 3 is patched through the assembly function's own address
func c01nopw(a int) int { return c01nop() + a }

func c01mk(k int) func(int) int {
	return func(a int) int { c01last = k; return -k }
}

func c01fv(f func(int) int) uintptr { return *(*uintptr)(unsafe.Pointer(&f)) }

// TestVerifC01 replays patch-layer histories on the real patch table and text segment.
func TestVerifC01(t *testing.T) {
	out := vh.OpenOut()
	defer out.Close()
	targets := []func(int) int{c01t0, c01t1, c01t2, c01nopw}
	ptrs := make([]uintptr, len(targets))
	pristine := make([][]byte, len(targets))
	for i, f := range targets {
		ptrs[i] = reflect.ValueOf(f).Pointer()
		if i == 3 {
			ptrs[i] = c01nopAddr
		}
		pristine[i] = append([]byte(nil), memory.RawRead(ptrs[i], 13)...)
	}
	for _, op := range vh.ReadOps() {
		if len(op.Toks) == 0 || op.Toks[0] != "c01.patch" {
			continue
		}
		reps := map[int]func(int) int{}
		rep := func(k int) func(int) int {
			if reps[k] == nil {
				reps[k] = c01mk(k)
			}
			return reps[k]
		}
		replName := func(a uintptr) string {
			for k, f := range reps {
				if c01fv(f) == a {
					return fmt.Sprintf("r%d", k)
				}
			}
			return "r?"
		}
		var guards []*Guard
		show := func() string {
			var parts []string
			for i := range targets {
				cur := memory.RawRead(ptrs[i], 13)
				txt := "other"
				if string(cur) == string(pristine[i]) {
					txt = "pristine"
				} else if cur[0] == 0x90 && cur[1] == 0x48 && cur[2] == 0xba && cur[11] == 0xff && cur[12] == 0x22 {
					var to uintptr
					for j := 0; j < 8; j++ {
						to |= uintptr(cur[3+j]) << (8 * j)
					}
					txt = "jmp:" + replName(to)
				}
				reg := "none"
				lock()
				p, ok := patches[ptrs[i]]
				unlock()
				if ok {
					g := "-"
					for gi, gg := range guards {
						if p.guard != nil && gg == p.guard {
							g = fmt.Sprintf("g%d", gi)
						}
					}
					reg = replName(uintptr(bytecode.GetPtr(p.replacementValue))) + ":" + g
				}
				parts = append(parts, txt+"/"+reg)
			}
			return strings.Join(parts, ",")
		}
		var obs []string
		steps := strings.Split(strings.Join(op.Toks[1:], " "), " ; ")
		for _, st := range steps {
			f := strings.Fields(st)
			if len(f) == 0 {
				continue
			}
			arg := 0
			if len(f) > 1 {
				arg = int(vh.I64(f[1]))
			}
			o := vh.Catch(func() string {
				switch f[0] {
				case "rep":
					var g *Guard
					var err error
					if arg == 3 {
						g, err = PtrTrampoline(ptrs[3], rep(int(vh.I64(f[2]))), nil)
					} else {
						g, err = Trampoline(targets[arg], rep(int(vh.I64(f[2]))), nil)
					}
					if err != nil {
						if strings.Contains(err.Error(), "already patched") {
							return "rej:patched " + show()
						}
						return "rej:size " + show()
					}
					guards = append(guards, g)
					return "ok " + show()
				case "app":
					if arg < len(guards) {
						guards[arg].Apply()
					}
				case "unp":
					if arg < len(guards) {
						guards[arg].UnpatchWithLock()
					}
				case "unf":
					lock()
					unpatchValue(ptrs[arg])
					unlock()
				case "all":
					UnpatchAll()
				case "gc":
					runtime.GC()
				case "call":
					c01last = -2
					targets[arg](5)
					if c01last == -1 {
						return "orig"
					}
					return fmt.Sprintf("cb%d", c01last)
				}
				return show()
			})
			obs = append(obs, o)
		}
		UnpatchAll()
		for i := range targets {
			if string(memory.RawRead(ptrs[i], 13)) != string(pristine[i]) {
				// a stale guard re-applied after its patch was unregistered: not reachable by UnpatchAll (cleanup only)
				_ = memory.WriteTo(ptrs[i], pristine[i])
			}
		}
		out.Put(op.Idx, "%s", strings.Join(obs, " | "))
	}
}
