"""Generator of the C01 signature corpus (deterministic from a seed).

Produces two Go files:
  lib.go         package c01lib   — the functions/methods that get mocked (originals record that they ran), their
                                    types, and one `CallFn` helper per function (the "called from another package" form)
  probe_test.go  package c01_test — per signature: typed readers/writers for the canonical token form of values,
                                    the recording callback factory, every call form, and the table the engine uses.
and the Python-side description of every signature (type trees, ABI classification) used to generate values.

Canonical token form of a value (no spaces, no commas): integers = decimal of the unsigned bit pattern, floats = decimal
of the IEEE bit pattern, bool 0/1, string = `s`+hex, slice = `n<len>` elems… or `nil`, array = elems…, struct = fields…,
pointer = `p` pointee… or `nil`, interface{} = `i<tag>` payload… or `nil`, error = `e`+hex or `nil`,
func() int64 = `f<value it returns>` or `nil`, map[string]int64 = `m<n>` sorted pairs or `nil`, chan int = `c<cap>` or `nil`.
"""
import struct as _struct

INT_REGS, FP_REGS = 9, 15


class Ty:
    def __init__(self, kind, tid, **kw):
        self.kind, self.tid = kind, tid
        self.__dict__.update(kw)

    def go(self, q):
        """Go type expression; q = package qualifier ('' inside lib, 'lib.' in the probe)."""
        k = self.kind
        if k in ('int', 'bool', 'f32', 'f64', 'c64', 'c128', 'str'):
            return self.goname
        if k == 'slice':
            return '[]' + self.elem.go(q)
        if k == 'arr':
            return f'[{self.n}]' + self.elem.go(q)
        if k == 'struct':
            if getattr(self, 'generic_decl', None):
                return f'{q}{self.generic_decl}[{self.targ.go(q)}]'
            return q + self.name
        if k == 'ptr':
            return '*' + self.elem.go(q)
        if k == 'eface':
            return 'interface{}'
        if k == 'err':
            return 'error'
        if k == 'fn':
            return 'func() int64'
        if k == 'map':
            return 'map[string]int64'
        if k == 'chan':
            return 'chan int'
        raise ValueError(k)


def mkint(goname, bits, signed):
    return Ty('int', goname, goname=goname, bits=bits, signed=signed)


INTS = {n: mkint(n, b, s) for n, b, s in [
    ('int8', 8, True), ('int16', 16, True), ('int32', 32, True), ('int64', 64, True), ('int', 64, True),
    ('uint8', 8, False), ('uint16', 16, False), ('uint32', 32, False), ('uint64', 64, False), ('uint', 64, False),
    ('uintptr', 64, False)]}
BOOL = Ty('bool', 'bool', goname='bool')
F32 = Ty('f32', 'float32', goname='float32')
F64 = Ty('f64', 'float64', goname='float64')
C64 = Ty('c64', 'complex64', goname='complex64')
C128 = Ty('c128', 'complex128', goname='complex128')
STR = Ty('str', 'string', goname='string')
EFACE = Ty('eface', 'eface')
ERR = Ty('err', 'err')
FN = Ty('fn', 'fn')
MAP = Ty('map', 'map')
CHAN = Ty('chan', 'chan')


class Universe:
    """All types used by one corpus (structs get names S0, S1, …)."""

    def __init__(self):
        self.types = {}
        self.structs = []
        for t in list(INTS.values()) + [BOOL, F32, F64, C64, C128, STR, EFACE, ERR, FN, MAP, CHAN]:
            self.types[t.tid] = t

    def slice(self, e):
        return self._get(Ty('slice', 'sl_' + e.tid, elem=e))

    def arr(self, n, e):
        return self._get(Ty('arr', f'a{n}_' + e.tid, n=n, elem=e))

    def ptr(self, e):
        return self._get(Ty('ptr', 'p_' + e.tid, elem=e))

    def struct(self, fields):
        key = 'st_' + '_'.join(f.tid for f in fields)
        for s in self.structs:
            if s.key == key:
                return s
        s = Ty('struct', f'S{len(self.structs)}', name=f'S{len(self.structs)}', fields=fields, key=key)
        self.structs.append(s)
        self.types[s.tid] = s
        return s

    def struct_named(self, name, fields, generic_decl=None, targ=None):
        """an instantiated generic struct type `GTn[T]` (declared in lib as `type GTn[T any] struct{X0 T; X1 int64}`)"""
        s = Ty('struct', generic_decl, name=name, fields=fields, key='gen_' + name, generic_decl=generic_decl, targ=targ)
        self.structs.append(s)
        self.types[s.tid] = s
        return s

    def _get(self, t):
        if t.tid not in self.types:
            self.types[t.tid] = t
        return self.types[t.tid]


# ------------------------------------------------------------------ ABI classification (Go internal ABI, amd64)

def _assign(t, st):
    """Try to register-assign t; st = [ints, fps]; returns False if it must go to the stack."""
    k = t.kind
    if k in ('int', 'bool', 'ptr', 'fn', 'map', 'chan'):
        st[0] += 1
    elif k in ('f32', 'f64'):
        st[1] += 1
    elif k in ('c64', 'c128'):
        st[1] += 2
    elif k == 'str':
        st[0] += 2
    elif k in ('eface', 'err'):
        st[0] += 2
    elif k == 'slice':
        st[0] += 3
    elif k == 'arr':
        if t.n == 0:
            return True
        if t.n > 1:
            return False
        return _assign(t.elem, st)
    elif k == 'struct':
        for f in t.fields:
            if not _assign(f, st):
                return False
    return st[0] <= INT_REGS and st[1] <= FP_REGS


def classify(tys):
    """Returns (int regs used, fp regs used, number of values passed on the stack)."""
    st = [0, 0]
    stack = 0
    for t in tys:
        trial = list(st)
        if _assign(t, trial):
            st = trial
        else:
            stack += 1
    return st[0], st[1], stack


def words(t):
    k = t.kind
    if k in ('str', 'eface', 'err', 'c128'):
        return 2
    if k == 'slice':
        return 3
    if k == 'arr':
        return t.n * words(t.elem)
    if k == 'struct':
        return sum(words(f) for f in t.fields)
    return 1


# ------------------------------------------------------------------ values (token lists)

F64_SPECIAL = [0, 1 << 63, 0x7ff0000000000000, 0xfff0000000000000, 0x7ff8000000000001, 0x7ff0000000000001, 1,
               0x3ff0000000000000, 0x7fefffffffffffff, 0x000fffffffffffff, 0xfff8dead0000beef]
F32_SPECIAL = [0, 1 << 31, 0x7f800000, 0xff800000, 0x7fc00001, 0x7f800001, 1, 0x3f800000, 0x7f7fffff, 0xffc0beef]
EFACE_TAGS = ['int', 'str', 'f64', 'u8', 'S', 'pint', 'bool']


def gen_value(t, rng, depth=0):
    k = t.kind
    if k == 'int':
        m = rng.below(6)
        mask = (1 << t.bits) - 1
        if m == 0:
            v = rng.choice([0, 1, mask, 1 << (t.bits - 1), (1 << (t.bits - 1)) - 1, mask - 1])
        elif m == 1:
            v = rng.below(256)
        else:
            v = rng.next() & mask
        return [str(v)]
    if k == 'bool':
        return [str(rng.below(2))]
    if k == 'f64':
        return [str(rng.choice(F64_SPECIAL) if rng.below(3) == 0 else rng.next())]
    if k == 'f32':
        return [str(rng.choice(F32_SPECIAL) if rng.below(3) == 0 else rng.next() & 0xffffffff)]
    if k == 'c64':
        return gen_value(F32, rng) + gen_value(F32, rng)
    if k == 'c128':
        return gen_value(F64, rng) + gen_value(F64, rng)
    if k == 'str':
        n = rng.choice([0, 0, 1, 3, 8, 17])
        return ['s' + ''.join('%02x' % rng.below(256) for _ in range(n))]
    if k == 'slice':
        if rng.below(6) == 0:
            return ['nil']
        n = rng.below(4)
        out = [f'n{n}']
        for _ in range(n):
            out += gen_value(t.elem, rng, depth + 1)
        return out
    if k == 'arr':
        out = []
        for _ in range(t.n):
            out += gen_value(t.elem, rng, depth + 1)
        return out
    if k == 'struct':
        out = []
        for f in t.fields:
            out += gen_value(f, rng, depth + 1)
        return out
    if k == 'ptr':
        if rng.below(6) == 0:
            return ['nil']
        return ['p'] + gen_value(t.elem, rng, depth + 1)
    if k == 'eface':
        if rng.below(7) == 0:
            return ['nil']
        tag = rng.choice(EFACE_TAGS)
        pay = {'int': lambda: gen_value(INTS['int'], rng), 'str': lambda: gen_value(STR, rng),
               'f64': lambda: gen_value(F64, rng), 'u8': lambda: gen_value(INTS['uint8'], rng),
               'S': lambda: gen_value(INTS['int64'], rng) + gen_value(STR, rng),
               'pint': lambda: gen_value(INTS['int'], rng), 'bool': lambda: gen_value(BOOL, rng)}[tag]()
        return ['i' + tag] + pay
    if k == 'err':
        if rng.below(5) == 0:
            return ['nil']
        return ['e' + ''.join('%02x' % rng.below(256) for _ in range(rng.below(6)))]
    if k == 'fn':
        if rng.below(6) == 0:
            return ['nil']
        return ['f' + str(rng.next() & ((1 << 63) - 1))]
    if k == 'map':
        if rng.below(6) == 0:
            return ['nil']
        n = rng.below(3)
        keys = sorted({''.join('%02x' % (97 + rng.below(26)) for _ in range(1 + rng.below(3))) for _ in range(n)})
        out = [f'm{len(keys)}']
        for kk in keys:
            out += ['s' + kk, str(rng.next())]
        return out
    if k == 'chan':
        if rng.below(6) == 0:
            return ['nil']
        return [f'c{rng.below(3)}']
    raise ValueError(k)


# ------------------------------------------------------------------ signatures

class Sig:
    def __init__(self, idx, params, results, variadic=False, recv=None, recv_ptr=False, lane='', gen=None):
        self.idx, self.params, self.results, self.variadic = idx, params, results, variadic
        self.recv, self.recv_ptr, self.lane = recv, recv_ptr, lane
        # gen: None, or {'T': concrete Ty, 'pin': positions of params of type T, 'pout': positions of results of type T}
        # for `func F[T any](...)` / a method of `type GT[T any] struct{X0 T; X1 int64}` instantiated at T
        self.gen = gen
        self.name = f'F{idx}' if recv is None else f'M{idx}'

    def all_in(self, u):
        """types as the ABI sees them (receiver first)"""
        r = []
        if self.recv is not None:
            r.append(u.ptr(self.recv) if self.recv_ptr else self.recv)
        return r + self.params

    def returnable(self):
        """every result kind can be given to Return(...); values travel through arg.I2V/toValue and reflect.makeFuncStub"""
        return True

    def whenable(self):
        """signatures for which goom's argument equality coincides with equality of the canonical tokens"""
        flat = lambda t: t.kind in ('int', 'bool', 'str') or (t.kind == 'struct' and t.fields and all(flat(f) for f in t.fields))
        ok = lambda t: flat(t) or (t.kind == 'ptr' and flat(t.elem))
        return (not self.variadic and self.recv is None and self.params and self.results and self.returnable() and self.gen is None
                and all(ok(t) for t in self.params))

    def has_ptr_param(self):
        return any(t.kind == 'ptr' for t in self.params)

    def describe(self, u):
        ins = self.all_in(u)
        s = 'func(' + ', '.join(t.go('') for t in ins) + ('...' if self.variadic else '') + ')'
        if self.results:
            s += ' (' + ', '.join(t.go('') for t in self.results) + ')'
        if self.gen:
            s = f'generic[T={self.gen["T"].go("")}] ' + s
        return s


def build_corpus(rng, nrandom):
    u = Universe()
    I = INTS
    sigs = []

    def add(params, results, lane, **kw):
        sigs.append(Sig(len(sigs), params, results, lane=lane, **kw))

    cyc = [I['int'], I['int64'], I['uint8'], I['int32'], I['uint16'], I['uintptr'], I['int8'], I['uint64'], I['int16'], I['uint32'], BOOL]
    # 1. 0–14 integer arguments, 0–4 results
    for n in range(15):
        add([cyc[(n + j) % len(cyc)] for j in range(n)], [cyc[(n + j) % len(cyc)] for j in range(n % 5)], 'int-args')
    # 2. floats in X0–X14 and beyond
    for n in (1, 2, 8, 15, 16, 20):
        add([F64 if j % 3 else F32 for j in range(n)], [F64, F32][:n % 3], 'float-args')
    add([C128, C64, F64], [C64, C128], 'float-args')
    add([C128] * 8, [C128], 'float-args')
    # 3. mixed
    add([I['int'], F64] * 6, [F64, I['int']], 'mixed')
    add([I['int'], F64] * 12, [I['int'], F64, I['int'], F64], 'mixed')
    add([F32, I['uint8'], STR, F64, BOOL, I['int16']], [STR, F32], 'mixed')
    # 4. multi-word values
    for n in (1, 4, 5, 7):
        add([STR] * n, [STR][:n % 2], 'strings')
    for n in (1, 3, 4):
        add([u.slice(I['int64'])] * n, [u.slice(I['int64'])], 'slices')
    add([u.slice(STR), u.slice(I['uint8']), u.slice(F64)], [u.slice(I['uint8']), u.slice(STR)], 'slices')
    for n in (1, 4, 5):
        add([EFACE] * n, [EFACE], 'ifaces')
    add([ERR, EFACE, ERR], [ERR], 'ifaces')
    add([I['int'], ERR], [I['int'], ERR], 'ifaces')
    # 5. structs: register-assigned (≤ 4 words and more while registers last) and stack-passed
    s1 = u.struct([I['int']])
    s2 = u.struct([I['int64'], I['int64']])
    sfi = u.struct([F64, I['int32']])
    ssi = u.struct([STR, I['int']])
    s4 = u.struct([I['int64']] * 4)
    smix = u.struct([I['uint8'], F32, BOOL, I['int16'], F64])
    snest = u.struct([s2, sfi, I['uint8']])
    sbig = u.struct([I['int64']] * 10)          # more than 9 integer registers → stack
    sbigf = u.struct([F64] * 16)                # more than 15 fp registers → stack
    sarr = u.struct([I['int'], u.arr(2, I['int'])])   # array of length 2 → stack
    sarr1 = u.struct([u.arr(1, I['int64']), F64])     # array of length 1 → registers
    sempty = u.struct([])
    sptr = u.struct([u.ptr(I['int']), STR, u.slice(I['uint8'])])
    for st in (s1, s2, sfi, ssi, s4, smix, snest, sbig, sbigf, sarr, sarr1, sempty, sptr):
        add([st], [st], 'structs')
        add([I['int'], st, F64, st], [st, I['int']], 'structs')
    add([s4, s4, s4], [s4, s4], 'structs')         # third one no longer fits the 9 registers
    add([sbig, I['int'], sbig], [sbig, sbig], 'structs')
    # 6. arrays
    for a in (u.arr(0, I['int']), u.arr(1, I['int64']), u.arr(2, I['int64']), u.arr(4, F64), u.arr(1, STR), u.arr(3, I['uint8']), u.arr(1, s2)):
        add([a], [a], 'arrays')
        add([I['int'], a, I['int']], [a, BOOL], 'arrays')
    # 7. pointers, funcs, maps, chans
    add([u.ptr(I['int']), u.ptr(s2), u.ptr(sbig)], [u.ptr(s2)], 'pointers')
    add([u.ptr(u.ptr(I['int64']))], [u.ptr(u.ptr(I['int64']))], 'pointers')
    add([FN], [FN], 'funcs')
    add([I['int'], FN, FN], [FN, I['int']], 'funcs')
    add([MAP, CHAN], [CHAN, MAP], 'maps-chans')
    # 8. variadic
    add([u.slice(I['int'])], [I['int']], 'variadic', variadic=True)
    add([I['int'], u.slice(STR)], [STR], 'variadic', variadic=True)
    add([u.slice(EFACE)], [], 'variadic', variadic=True)
    add([F64, STR, u.slice(F64)], [F64, I['int']], 'variadic', variadic=True)
    add([s2, u.slice(s2)], [s2], 'variadic', variadic=True)
    # 9. many results
    add([], [I['int']] * 4, 'results')
    add([I['int']], [I['int64'], F64, STR, ERR], 'results')
    add([I['int']], [sbig, I['int'], sbigf], 'results')
    add([], [STR, STR, STR, STR], 'results')
    add([F64], [u.slice(I['int64']), u.slice(I['int64']), u.slice(I['int64']), I['int']], 'results')   # 10 int regs of results → last on stack
    # 10. methods, value and pointer receivers
    for rv in (s1, s2, sfi, ssi, smix, sbig, sempty, sarr):
        add([I['int'], STR], [I['int']], 'methods', recv=rv, recv_ptr=False)
        add([F64, rv], [rv, F64], 'methods', recv=rv, recv_ptr=True)
    add([I['int']] * 9, [I['int']], 'methods', recv=s2, recv_ptr=True)     # receiver + 9 ints: last one on the stack
    add([], [], 'methods', recv=s1, recv_ptr=True)
    add([u.slice(I['int'])], [I['int']], 'methods', recv=s2, recv_ptr=False, variadic=True)
    # 10b. generic functions and methods of generic types (the shape body that goom patches takes a hidden dictionary).
    #      'generic' = pointer-free instantiations (a shifted argument is a harmless wrong number);
    #      'generic-ptr' = instantiations with pointers/strings (a shifted argument is a wild pointer: these lines are only
    #      run once the pointer-free lines have shown that arguments are not shifted)
    for T, lane in ((I['int'], 'generic'), (I['int64'], 'generic'), (F64, 'generic'), (s2, 'generic'), (I['uint8'], 'generic'),
                    (STR, 'generic-ptr'), (u.ptr(I['int']), 'generic-ptr'), (ssi, 'generic-ptr')):
        add([T, T], [T], lane, gen={'T': T, 'pin': {0, 1}, 'pout': {0}})
        add([I['int'], T, STR if lane == 'generic-ptr' else I['int16'], T], [I['int'], T], lane, gen={'T': T, 'pin': {1, 3}, 'pout': {1}})
        add([], [T], lane, gen={'T': T, 'pin': set(), 'pout': {0}})
        grecv = u.struct_named(f'GT{len(sigs)}[{T.go("")}]', [T, I['int64']], generic_decl=f'GT{len(sigs)}', targ=T)
        add([T, I['int']], [T, I['int']], lane, recv=grecv, recv_ptr=True, gen={'T': T, 'pin': {0}, 'pout': {0}})
        grecv2 = u.struct_named(f'GT{len(sigs)}[{T.go("")}]', [T, I['int64']], generic_decl=f'GT{len(sigs)}', targ=T)
        add([I['int'], T], [T], lane, recv=grecv2, recv_ptr=False, gen={'T': T, 'pin': {1}, 'pout': {0}})
    # 10c. pointer parameters with flat pointees (conditional stubs judge the pointee of *this* call)
    add([u.ptr(s2), I['int']], [I['int']], 'when-ptr')
    add([u.ptr(ssi)], [STR], 'when-ptr')
    add([I['int'], u.ptr(I['int64']), STR], [I['int64'], STR], 'when-ptr')
    add([u.ptr(ssi), BOOL], [I['int']], 'when-ptr', recv=s2, recv_ptr=True)
    # 11. random signatures
    pool = list(I.values()) + [BOOL, F32, F64, C64, C128, STR, STR, EFACE, ERR, FN, MAP, CHAN, u.slice(I['int64']), u.slice(STR),
                               u.slice(I['uint8']), s1, s2, sfi, ssi, s4, smix, snest, sbig, sarr, sarr1, sptr, u.arr(2, I['int64']),
                               u.arr(1, F64), u.arr(3, I['uint8']), u.ptr(I['int']), u.ptr(s2)]
    for _ in range(nrandom):
        np_ = rng.choice([0, 1, 2, 3, 4, 5, 6, 8, 10, 12, 16])
        nr = rng.below(5)
        ps = [rng.choice(pool) for _ in range(np_)]
        rs = [rng.choice(pool) for _ in range(nr)]
        kw = {}
        m = rng.below(8)
        if m == 0:
            kw = dict(recv=rng.choice([s1, s2, sfi, ssi, smix, sbig]), recv_ptr=bool(rng.below(2)))
        elif m == 1:
            ps.append(u.slice(rng.choice([I['int'], STR, EFACE, F64, s2])))
            kw = dict(variadic=True)
        add(ps, rs, 'random', **kw)
    return u, sigs


# ------------------------------------------------------------------ Go emission

def _leaf_go(u):
    """rd_/wr_/same_ functions for every type of the universe (probe package)."""
    o = []
    q = 'lib.'
    for tid, t in u.types.items():
        g = t.go(q)
        k = t.kind
        rd, wr, same = f'func rd_{tid}(r *rd) {g}', f'func wr_{tid}(w *wr, v {g})', f'func same_{tid}(a, b {g}) bool'
        if k == 'int':
            un = {8: 'uint8', 16: 'uint16', 32: 'uint32', 64: 'uint64'}[t.bits]
            o.append(f'{rd} {{ return {g}(r.u64()) }}')
            o.append(f'{wr} {{ w.u64(uint64({un}(v))) }}')
            o.append(f'{same} {{ return a == b }}')
        elif k == 'bool':
            o.append(f'{rd} {{ return r.u64() != 0 }}')
            o.append(f'{wr} {{ if v {{ w.u64(1) }} else {{ w.u64(0) }} }}')
            o.append(f'{same} {{ return a == b }}')
        elif k == 'f64':
            o.append(f'{rd} {{ return math.Float64frombits(r.u64()) }}')
            o.append(f'{wr} {{ w.u64(math.Float64bits(v)) }}')
            o.append(f'{same} {{ return math.Float64bits(a) == math.Float64bits(b) }}')
        elif k == 'f32':
            o.append(f'{rd} {{ return math.Float32frombits(uint32(r.u64())) }}')
            o.append(f'{wr} {{ w.u64(uint64(math.Float32bits(v))) }}')
            o.append(f'{same} {{ return math.Float32bits(a) == math.Float32bits(b) }}')
        elif k == 'c64':
            o.append(f'{rd} {{ a := rd_float32(r); b := rd_float32(r); return complex(a, b) }}')
            o.append(f'{wr} {{ wr_float32(w, real(v)); wr_float32(w, imag(v)) }}')
            o.append(f'{same} {{ return same_float32(real(a), real(b)) && same_float32(imag(a), imag(b)) }}')
        elif k == 'c128':
            o.append(f'{rd} {{ a := rd_float64(r); b := rd_float64(r); return complex(a, b) }}')
            o.append(f'{wr} {{ wr_float64(w, real(v)); wr_float64(w, imag(v)) }}')
            o.append(f'{same} {{ return same_float64(real(a), real(b)) && same_float64(imag(a), imag(b)) }}')
        elif k == 'str':
            o.append(f'{rd} {{ return r.str() }}')
            o.append(f'{wr} {{ w.str(v) }}')
            o.append(f'{same} {{ return len(a) == len(b) && (*[2]uintptr)(unsafe.Pointer(&a))[0] == (*[2]uintptr)(unsafe.Pointer(&b))[0] }}')
        elif k == 'slice':
            e = t.elem
            o.append(f'{rd} {{ n, isnil := r.count(\'n\'); if isnil {{ return nil }}; v := make({g}, n, n+2); for i := range v {{ v[i] = rd_{e.tid}(r) }}; return v }}')
            o.append(f'{wr} {{ if v == nil {{ w.tok("nil"); return }}; w.tok("n" + strconv.Itoa(len(v))); for _, x := range v {{ wr_{e.tid}(w, x) }} }}')
            o.append(f'{same} {{ return len(a) == len(b) && cap(a) == cap(b) && (*[3]uintptr)(unsafe.Pointer(&a))[0] == (*[3]uintptr)(unsafe.Pointer(&b))[0] }}')
        elif k == 'arr':
            e = t.elem
            o.append(f'{rd} {{ var v {g}; for i := range v {{ v[i] = rd_{e.tid}(r) }}; return v }}')
            o.append(f'{wr} {{ for _, x := range v {{ wr_{e.tid}(w, x) }} }}')
            o.append(f'{same} {{ for i := range a {{ if !same_{e.tid}(a[i], b[i]) {{ return false }} }}; return true }}')
        elif k == 'struct':
            o.append(f'{rd} {{ var v {g}; ' + '; '.join(f'v.X{i} = rd_{f.tid}(r)' for i, f in enumerate(t.fields)) + '; return v }')
            o.append(f'{wr} {{ ' + '; '.join(f'wr_{f.tid}(w, v.X{i})' for i, f in enumerate(t.fields)) + ' }')
            o.append(f'{same} {{ return true' + ''.join(f' && same_{f.tid}(a.X{i}, b.X{i})' for i, f in enumerate(t.fields)) + ' }')
        elif k == 'ptr':
            e = t.elem
            o.append(f'{rd} {{ if r.isnil() {{ return nil }}; r.expect("p"); v := new({e.go(q)}); *v = rd_{e.tid}(r); return v }}')
            o.append(f'{wr} {{ if v == nil {{ w.tok("nil"); return }}; w.tok("p"); wr_{e.tid}(w, *v) }}')
            o.append(f'{same} {{ return a == b }}')
        elif k == 'eface':
            o.append(f'{rd} {{ return r.eface() }}')
            o.append(f'{wr} {{ w.eface(v) }}')
            o.append(f'{same} {{ return sameEface(a, b) }}')
        elif k == 'err':
            o.append(f'{rd} {{ if r.isnil() {{ return nil }}; t := r.next(); return &lib.E{{M: unhex(t[1:])}} }}')
            o.append(f'{wr} {{ if v == nil {{ w.tok("nil"); return }}; w.tok("e" + hex.EncodeToString([]byte(v.Error()))) }}')
            o.append(f'{same} {{ return a == b }}')
        elif k == 'fn':
            o.append(f'{rd} {{ if r.isnil() {{ return nil }}; t := r.next(); n, _ := strconv.ParseInt(t[1:], 10, 64); return func() int64 {{ return n }} }}')
            o.append(f'{wr} {{ if v == nil {{ w.tok("nil"); return }}; w.tok("f" + strconv.FormatInt(v(), 10)) }}')
            o.append(f'{same} {{ return *(*unsafe.Pointer)(unsafe.Pointer(&a)) == *(*unsafe.Pointer)(unsafe.Pointer(&b)) }}')
        elif k == 'map':
            o.append(f'{rd} {{ n, isnil := r.count(\'m\'); if isnil {{ return nil }}; v := map[string]int64{{}}; for i := 0; i < n; i++ {{ k := r.str(); v[k] = int64(r.u64()) }}; return v }}')
            o.append(f'{wr} {{ if v == nil {{ w.tok("nil"); return }}; w.tok("m" + strconv.Itoa(len(v))); ks := make([]string, 0, len(v)); for k := range v {{ ks = append(ks, k) }}; sort.Strings(ks); for _, k := range ks {{ w.str(k); w.u64(uint64(v[k])) }} }}')
            o.append(f'{same} {{ return reflect.ValueOf(a).Pointer() == reflect.ValueOf(b).Pointer() }}')
        elif k == 'chan':
            o.append(f'{rd} {{ n, isnil := r.count(\'c\'); if isnil {{ return nil }}; return make(chan int, n) }}')
            o.append(f'{wr} {{ if v == nil {{ w.tok("nil"); return }}; w.tok("c" + strconv.Itoa(cap(v))) }}')
            o.append(f'{same} {{ return a == b }}')
    return '\n'.join(o)


FORMS_FUNC = ['direct', 'fv', 'defer', 'pkg', 'lib', 'go', 'reflect', 'grow', 'cbgrow']
FORMS_METHOD = ['direct', 'fv', 'mv', 'iface', 'defer', 'pkg', 'lib', 'go', 'grow', 'cbgrow']


def emit(u, sigs):
    """Returns (lib.go text, probe_test.go text)."""
    for s in sigs:
        s.all_in(u)      # make sure receiver pointer types exist before the per-type helpers are emitted
    L = ['//go:build go1.18', '', '// GENERATED by harness/c01/gen.py — the functions the C01 corpus mocks.', 'package c01lib', '',
         '// OrigRan counts executions of any original body.', 'var OrigRan int', 'var Sink uintptr', '',
         '// E is the error type used for error-typed values.', 'type E struct{ M string }', '',
         'func (e *E) Error() string { return e.M }', '',
         '// ES is a small struct stored in interface values.', 'type ES struct { A int64; B string }', '',
         '//go:noinline', 'func bump(n int) { OrigRan += n }', '']
    for s in u.structs:
        gd = getattr(s, 'generic_decl', None)
        if gd:
            L.append(f'type {gd}[T any] struct {{ X0 T; X1 int64 }}')
            continue
        L.append(f'type {s.name} struct {{ ' + '; '.join(f'X{i} {f.go("")}' for i, f in enumerate(s.fields)) + ' }')
    L.append('')
    P = ['//go:build go1.18', '', '// GENERATED by harness/c01/gen.py — per-signature glue of the C01 corpus.', 'package c01_test', '',
         'import (', '\t"encoding/hex"', '\t"math"', '\t"reflect"', '\t"sort"', '\t"strconv"', '\t"unsafe"', '',
         '\tmocker "github.com/tencent/goom"', '\tlib "github.com/tencent/goom/internal/zzverif/c01lib"', ')', '',
         'var _ = hex.EncodeToString', 'var _ = math.Float64bits', 'var _ = reflect.ValueOf', 'var _ = sort.Strings',
         'var _ = strconv.Itoa', 'var _ unsafe.Pointer', 'var _ = mocker.Create', '', _leaf_go(u), '']
    table = []
    for s in sigs:
        i = s.idx
        ins = s.all_in(u)
        nin = len(ins)
        q = 'lib.'
        # ---- lib side
        def plist(qual, names=True, variadic_last=s.variadic, skip_recv=False, gsub=True):
            parts = []
            tys = s.params
            for j, t in enumerate(tys):
                g = t.go(qual)
                if gsub and s.gen and j in s.gen['pin']:
                    g = 'T'
                if variadic_last and j == len(tys) - 1:
                    g = '...' + t.elem.go(qual)
                parts.append((f'a{j} ' if names else '') + g)
            return ', '.join(parts)
        rty = lambda j, t: 'T' if s.gen and j in s.gen['pout'] else t.go("")
        res_l = ('(' + ', '.join(f'r{j} {rty(j, t)}' for j, t in enumerate(s.results)) + ')') if s.results else ''
        tp = '[T any]' if s.gen else ''
        targ = f'[{s.gen["T"].go(q)}]' if s.gen else ''
        body = ' OrigRan++; Sink += uintptr(OrigRan) * 3; if OrigRan > 1<<40 { bump(1) }; return '
        args_fwd = ', '.join(f'a{j}' + ('...' if s.variadic and j == len(s.params) - 1 else '') for j in range(len(s.params)))
        if s.recv is None:
            L.append(f'func {s.name}{tp}({plist("")}) {res_l} {{{body}}}')
            L.append(f'func Call{s.name}{tp}({plist("")}) {res_l} {{ ' + ('return ' if s.results else '') + f'{s.name}{"[T]" if s.gen else ""}({args_fwd}) }}')
        else:
            rt = ('*' if s.recv_ptr else '') + (s.recv.generic_decl + '[T]' if s.gen else s.recv.name)
            L.append(f'func (rc {rt}) {s.name}({plist("")}) {res_l} {{{body}}}')
            L.append(f'func Call{s.name}{tp}(rc {rt}{", " if s.params else ""}{plist("")}) {res_l} {{ ' + ('return ' if s.results else '') + f'rc.{s.name}({args_fwd}) }}')
            L.append(f'type I{i} interface {{ {s.name}({plist("", names=False, gsub=False)}) {("(" + ", ".join(t.go("") for t in s.results) + ")") if s.results else ""} }}')
        # ---- probe side
        fty_params = ', '.join(t.go(q) for t in ins[:-1] + ([ins[-1]] if ins else [])) if not s.variadic else \
            ', '.join([t.go(q) for t in ins[:-1]] + ['...' + ins[-1].elem.go(q)])
        fty_res = (' (' + ', '.join(t.go(q) for t in s.results) + ')') if s.results else ''
        fty = f'func({fty_params}){fty_res}'
        P.append(f'// ---- sig {i}: {s.describe(u)}  [{s.lane}]')
        P.append(f'var sent{i} struct {{ ' + '; '.join(f'a{j} {t.go(q)}' for j, t in enumerate(ins)) + ' }')
        P.append(f'var got{i} struct {{ ' + '; '.join(f'a{j} {t.go(q)}' for j, t in enumerate(ins)) + ' }')
        P.append(f'var ret{i} struct {{ ' + '; '.join(f'r{j} {t.go(q)}' for j, t in enumerate(s.results)) + ' }')
        P.append(f'var recv{i} struct {{ ' + '; '.join(f'r{j} {t.go(q)}' for j, t in enumerate(s.results)) + ' }')
        cb_params = ', '.join(f'a{j} ' + (('...' + t.elem.go(q)) if s.variadic and j == nin - 1 else t.go(q)) for j, t in enumerate(ins))
        rec = '; '.join(f'got{i}.a{j} = a{j}' for j in range(nin))
        retl = 'return ' + ', '.join(f'ret{i}.r{j}' for j in range(len(s.results))) if s.results else 'return'
        P.append(f'func mk{i}(k int, fo *finObj) interface{{}} {{ return func({cb_params}){fty_res} {{ if cbGrow {{ deep(cbGrowDepth, nop) }}; ranK = append(ranK, k); ranFin = fo.id; {rec}; {retl} }} }}')
        # target expression and call expressions
        a = [f'sent{i}.a{j}' for j in range(nin)]
        if s.variadic:
            a[-1] += '...'
        lhs = (', '.join(f'recv{i}.r{j}' for j in range(len(s.results))) + ' = ') if s.results else ''
        if s.recv is None:
            direct = f'{lhs}lib.{s.name}{targ}({", ".join(a)})'
            target = f'lib.{s.name}{targ}'
            pkg = f'{lhs}lib.Call{s.name}{targ}({", ".join(a)})'
            fvexpr = f'lib.{s.name}{targ}'
        else:
            direct = f'{lhs}{a[0]}.{s.name}({", ".join(a[1:])})'
            rt = ('*' if s.recv_ptr else '') + s.recv.go(q)
            target = f'({rt}).{s.name}'
            pkg = f'{lhs}lib.Call{s.name}({", ".join(a)})'
            fvexpr = target
        P.append(f'var fv{i} {fty} = {fvexpr}')
        forms = {
            'direct': direct,
            'fv': f'f := fv{i}; {lhs}f({", ".join(a)})',
            'defer': f'func() {{ defer func() {{ {direct} }}() }}()' if s.results or True else '',
            'pkg': pkg,
            'lib': f'done := false; xs := []int{{2, 1}}; sort.Slice(xs, func(x, y int) bool {{ if !done {{ done = true; {direct} }}; return xs[x] < xs[y] }})',
            'go': f'ch := make(chan struct{{}}); go func() {{ defer close(ch); {direct} }}(); <-ch',
            'grow': f'ch := make(chan struct{{}}); go func() {{ defer close(ch); deep(depth, func() {{ {direct} }}) }}(); <-ch',
            'cbgrow': f'ch := make(chan struct{{}}); go func() {{ defer close(ch); cbGrow, cbGrowDepth = true, depth; defer func() {{ cbGrow = false }}(); {direct} }}(); <-ch',
        }
        if s.recv is None:
            rargs = ', '.join(f'reflect.ValueOf(&sent{i}.a{j}).Elem()' for j in range(nin))
            call = 'CallSlice' if s.variadic else 'Call'
            sets = '; '.join(f'reflect.ValueOf(&recv{i}.r{j}).Elem().Set(out[{j}])' for j in range(len(s.results)))
            forms['reflect'] = f'out := reflect.ValueOf(lib.{s.name}{targ}).{call}([]reflect.Value{{{rargs}}}); _ = out; {sets}'
        else:
            forms['mv'] = f'f := {a[0]}.{s.name}; {lhs}f({", ".join(a[1:])})'
            forms['iface'] = f'var it lib.I{i} = {a[0]}; {lhs}it.{s.name}({", ".join(a[1:])})'
        P.append(f'func call{i}(form string, depth int) bool {{\n\tswitch form {{')
        for fname, code in forms.items():
            P.append(f'\tcase "{fname}":\n\t\t{code}')
        P.append('\tdefault:\n\t\treturn false\n\t}\n\treturn true\n}')
        setargs = '; '.join(f'sent{i}.a{j} = rd_{t.tid}(r)' for j, t in enumerate(ins))
        setres = '; '.join(f'ret{i}.r{j} = rd_{t.tid}(r)' for j, t in enumerate(s.results))
        gotw = '; '.join(f'wr_{t.tid}(w, got{i}.a{j})' for j, t in enumerate(ins))
        recvw = '; '.join(f'wr_{t.tid}(w, recv{i}.r{j})' for j, t in enumerate(s.results))
        same = ' && '.join([f'same_{t.tid}(sent{i}.a{j}, got{i}.a{j})' for j, t in enumerate(ins)] +
                           [f'same_{t.tid}(ret{i}.r{j}, recv{i}.r{j})' for j, t in enumerate(s.results)]) or 'true'
        retvals = ', '.join(f'ret{i}.r{j}' for j in range(len(s.results)))
        first = 0 if s.recv is None else 1
        sentvals = ', '.join(f'sent{i}.a{j}' for j in range(first, nin))
        if s.recv is None:
            get = f'func(b *mocker.Builder) mocker.ExportedMocker {{ return b.Func(lib.{s.name}{targ}) }}'
        else:
            inst = f'new({s.recv.go(q)})' if s.recv_ptr else f'{s.recv.go(q)}{{}}'
            get = f'func(b *mocker.Builder) mocker.ExportedMocker {{ return b.Struct({inst}).Method("{s.name}") }}'
        # re-use of argument objects: pointer arguments keep their address, the pointee is overwritten in place
        reuse = []
        for j, t in enumerate(ins):
            if t.kind == 'ptr' and not (s.recv is not None and j == 0):
                reuse.append(f'if p := sent{i}.a{j}; p != nil && !r.peeknil() {{ r.expect("p"); *p = rd_{t.elem.tid}(r) }} else {{ sent{i}.a{j} = rd_{t.tid}(r) }}')
            else:
                reuse.append(f'sent{i}.a{j} = rd_{t.tid}(r)')
        setreuse = '; '.join(reuse)
        P.append(f'func init() {{ sigs[{i}] = &sigOps{{\n'
                 f'\tmk: mk{i}, call: call{i},\n'
                 f'\tsetArgs: func(r *rd) {{ {setargs} }},\n\tsetRes: func(r *rd) {{ {setres} }},\n'
                 f'\tgotArgs: func(w *wr) {{ {gotw} }},\n\trecvRes: func(w *wr) {{ {recvw} }},\n'
                 f'\tsame: func() bool {{ return {same} }},\n'
                 f'\tclear: func() {{ got{i} = struct {{ ' + '; '.join(f'a{j} {t.go(q)}' for j, t in enumerate(ins)) + f' }}{{}}; recv{i} = struct {{ ' + '; '.join(f'r{j} {t.go(q)}' for j, t in enumerate(s.results)) + ' }{} },\n'
                 f'\tsetArgsReuse: func(r *rd) {{ {setreuse} }},\n'
                 f'\tget: {get},\n\tretVals: func() []interface{{}} {{ return []interface{{}}{{{retvals}}} }},\n'
                 f'\tsentVals: func() []interface{{}} {{ return []interface{{}}{{{sentvals}}} }},\n}} }}')
        P.append('')
    return '\n'.join(L) + '\n', '\n'.join(P) + '\n'


def abi_class(u, s):
    ii, fi, si = classify(s.all_in(u))
    ir, fr, sr = classify(s.results)
    return {'in_int': ii, 'in_fp': fi, 'in_stack': si, 'out_int': ir, 'out_fp': fr, 'out_stack': sr}
