// A function whose first byte is the NOP sentinel: goom must refuse to patch it ("already patched").
#include "textflag.h"

TEXT ·c01nop(SB), NOSPLIT, $0-8
	BYTE $0x90
	MOVQ $7, AX
	MOVQ AX, ret+0(FP)
	MOVQ $8, CX
	MOVQ $9, DX
	MOVQ $10, BX
	RET

DATA ·c01nopAddr+0(SB)/8, $·c01nop(SB)
GLOBL ·c01nopAddr(SB), RODATA, $8
