package bytecode

import (
	"reflect"
	"testing"
	"unsafe"

	"github.com/tencent/goom/internal/zzverif/vh"
)

type c01T struct{ n int }

func (t *c01T) M(a int) int { return t.n + a }
func c01plain(a int) int    { return a + 1 }

// TestVerifC01GetPtr checks on the real code what the model assumes about bytecode.GetPtr: it yields the data
// word of the reflect.Value, which for a func is the address of the func value, whose first word is the code.
func TestVerifC01GetPtr(t *testing.T) {
	out := vh.OpenOut()
	defer out.Close()
	for _, op := range vh.ReadOps() {
		if len(op.Toks) != 3 || op.Toks[0] != "c01.getptr" {
			continue
		}
		n := int(vh.I64(op.Toks[2]))
		var fn func(int) int
		switch op.Toks[1] {
		case "plain":
			fn = c01plain
		case "closure":
			fn = func(a int) int { return a + n }
		case "methodvalue":
			fn = (&c01T{n}).M
		case "makefunc":
			fn = reflect.MakeFunc(reflect.TypeOf(fn), func(in []reflect.Value) []reflect.Value {
				return []reflect.Value{reflect.ValueOf(n)}
			}).Interface().(func(int) int)
		default:
			out.Put(op.Idx, "bad-op")
			continue
		}
		var boxed interface{} = fn
		v := reflect.ValueOf(boxed)
		got := uintptr(GetPtr(v))
		funcval := *(*uintptr)(unsafe.Pointer(&fn))
		a, b := "other", "other"
		if got == funcval {
			a = "funcval"
		}
		if got != 0 && *(*uintptr)(unsafe.Pointer(got)) == v.Pointer() {
			b = "code"
		}
		out.Put(op.Idx, "data-word=%s first-word=%s", a, b)
	}
}
