package patch

// c01nop is implemented in assembly (zz_verif_c01_amd64.s); used only by the C01 verification probe.
func c01nop() int

// c01nopAddr is the address of the assembly body itself (not of an ABI wrapper).
var c01nopAddr uintptr
