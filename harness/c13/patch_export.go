package patch

// Injected with `go test -overlay` for the C13 probe only: read-only view of the patch registry.

// ZZC13Reg describes patches[ptr]: "none" (no entry), "stale" (entry without jump bytes: registered by a
// replaceFunc that failed afterwards), "idle" (complete entry whose guard was never applied) or "live".
func ZZC13Reg(ptr uintptr) string {
	lock()
	defer unlock()
	p, ok := patches[ptr]
	if !ok {
		return "none"
	}
	if p.jumpBytes == nil || p.originBytes == nil {
		return "stale"
	}
	if p.guard == nil || !p.guard.applied {
		return "idle"
	}
	return "live"
}

// ZZC13RegLen is len(patches).
func ZZC13RegLen() int {
	lock()
	defer unlock()
	return len(patches)
}

// ZZC13UnpatchAll calls UnpatchAll under the lock.
func ZZC13UnpatchAll() {
	lock()
	defer unlock()
	UnpatchAll()
}
