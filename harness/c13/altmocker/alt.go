// Package mocker is a second package whose import path ends in "/mocker" (overlaid as
// github.com/tencent/goom/internal/zzverif/alt/mocker): its ZDup prints exactly like the root package's ZDup
// ("mocker.ZDup") but is a different type of a different size.
package mocker

// ZDup is 1 byte (the root package's ZDup is 16).
type ZDup struct{ A int8 }
