package mocker

// C13 probe (injected into goom's root package with `go test -overlay`; nothing is written into the repository).
// Every operation line describes ONE configuration call on a fresh builder.  The probe performs it on the real
// goom code and reports: accepted / rejected (+ panic class), the error chain and the type reached by walking
// erro.Cause, the byte diff of the whole .text section, the behaviour class of the target afterwards, the state
// of patches[target], and whether a subsequent correct mock of the same target still works and restores.

import (
	"bytes"
	"debug/elf"
	"errors"
	"fmt"
	"os"
	"reflect"
	"regexp"
	"runtime"
	"strconv"
	"strings"
	"testing"
	"unsafe"

	"github.com/tencent/goom/arg"
	"github.com/tencent/goom/erro"
	"github.com/tencent/goom/internal/iface"
	"github.com/tencent/goom/internal/patch"
	altmocker "github.com/tencent/goom/internal/zzverif/alt/mocker"
	"github.com/tencent/goom/internal/zzverif/vh"
)

// ---------------------------------------------------------------- type universe (mirrors TYPES in checks/C13.py)

type ZS8 struct{ A int64 }
type ZS16 struct{ A, B int64 }
type ZS16b struct {
	A int64
	B uint64
}
type ZS24 struct{ A, B, C int64 }
// ZDup (16 bytes) shares its printed name "mocker.ZDup" with a function-local shadow (zlocalDup) and with altmocker.ZDup.
type ZDup struct{ A, B int64 }

// zlocalDup returns the function-local type that shadows ZDup: same String(), 4 bytes.
func zlocalDup() ztype {
	type ZDup struct{ A int32 }
	return ztype{reflect.TypeOf(ZDup{}), ZDup{1}, ZDup{7}}
}

type ZErr struct{ M string }

func (e *ZErr) Error() string { return e.M }

// ZRcv is the receiver of the generated method targets.
type ZRcv struct{ N int }

var (
	zErrOrig = errors.New("orig")
	zErrStub = &ZErr{"stub"}
	zIntO    = 1001
	zIntS    = 7
	zChO     = make(chan int)
	zChS     = make(chan int)
	zMapO    = map[string]int{"o": 1}
	zMapS    = map[string]int{"s": 2}
	zSink    int
)

//go:noinline
func ztouch() { zSink++ }

var zfnO = func() {}
var zfnS = func() { zSink += 0 }

// zrcv is the receiver bound into the method-value targets; zfnVar holds a function for Func(&zfnVar).
var zrcv = &ZRcv{N: 1}

type ztype struct {
	t    reflect.Type
	orig interface{} // what the unmocked targets return in a slot of this type
	stub interface{} // a different value, used for Return(...)/When(...)
}

var ztypes = map[string]ztype{
	"bool": {reflect.TypeOf(true), true, false},
	"i8":   {reflect.TypeOf(int8(0)), int8(11), int8(7)},
	"i16":  {reflect.TypeOf(int16(0)), int16(1001), int16(7)},
	"i32":  {reflect.TypeOf(int32(0)), int32(1001), int32(7)},
	"i64":  {reflect.TypeOf(int64(0)), int64(1001), int64(7)},
	"int":  {reflect.TypeOf(0), 1001, 7},
	"uint": {reflect.TypeOf(uint(0)), uint(1001), uint(7)},
	"u32":  {reflect.TypeOf(uint32(0)), uint32(1001), uint32(7)},
	"f32":  {reflect.TypeOf(float32(0)), float32(1.5), float32(7.25)},
	"f64":  {reflect.TypeOf(float64(0)), 1.5, 7.25},
	"c128": {reflect.TypeOf(complex128(0)), complex(1, 2), complex(7, 7)},
	"str":  {reflect.TypeOf(""), "orig", "stub"},
	"sl":   {reflect.TypeOf([]int(nil)), []int{1, 0, 0, 1}, []int{7}},
	"err":  {reflect.TypeOf((*error)(nil)).Elem(), zErrOrig, error(zErrStub)},
	"any":  {reflect.TypeOf((*interface{})(nil)).Elem(), "orig-any", 7},
	"pi":   {reflect.TypeOf((*int)(nil)), &zIntO, &zIntS},
	"ps":   {reflect.TypeOf((*ZS16)(nil)), &ZS16{1, 1}, &ZS16{7, 7}},
	"pe":   {reflect.TypeOf((*ZErr)(nil)), &ZErr{"o"}, zErrStub},
	"prc":  {reflect.TypeOf((*ZRcv)(nil)), &ZRcv{1}, &ZRcv{7}},
	"s8":   {reflect.TypeOf(ZS8{}), ZS8{1001}, ZS8{7}},
	"s16":  {reflect.TypeOf(ZS16{}), ZS16{1001, 1}, ZS16{7, 7}},
	"s16b": {reflect.TypeOf(ZS16b{}), ZS16b{1001, 1}, ZS16b{7, 7}},
	"s24":  {reflect.TypeOf(ZS24{}), ZS24{1001, 1, 1}, ZS24{7, 7, 7}},
	"a12":  {reflect.TypeOf([3]int32{}), [3]int32{1, 0, 1}, [3]int32{7, 7, 7}},
	"map":  {reflect.TypeOf(map[string]int(nil)), zMapO, zMapS},
	"ch":   {reflect.TypeOf((chan int)(nil)), zChO, zChS},
	"ictx": {reflect.TypeOf((*IContext)(nil)), &IContext{}, &IContext{}},
	"dup":  {reflect.TypeOf(ZDup{}), ZDup{1001, 1}, ZDup{7, 7}},
	"fn":   {reflect.TypeOf(func() {}), zfnO, zfnS},
	"dupl": zlocalDup(),
	"dupp": {reflect.TypeOf(altmocker.ZDup{}), altmocker.ZDup{A: 1}, altmocker.ZDup{A: 7}},
}

// zo returns the "original" value for a result slot; the generated targets call it.
func zo(tok string) interface{} { return ztypes[tok].orig }

func ztoks(s string) []string {
	if s == "-" || s == "" {
		return nil
	}
	return strings.Split(s, ",")
}

func zrtypes(toks []string) []reflect.Type {
	r := make([]reflect.Type, len(toks))
	for i, t := range toks {
		zt, ok := ztypes[t]
		if !ok {
			panic("probe: unknown type token " + t)
		}
		r[i] = zt.t
	}
	return r
}

// zvalue maps a value token of the op line to the interface{} handed to goom.
func zvalue(tok string) interface{} {
	switch tok {
	case "nil":
		return nil
	case "any()":
		return arg.Any()
	case "iictx":
		return &iface.IContext{}
	}
	zt, ok := ztypes[tok]
	if !ok {
		panic("probe: unknown value token " + tok)
	}
	return zt.stub
}

func zvalues(s string) []interface{} {
	t := ztoks(s)
	if t == nil {
		return nil // `Return()` / `When()` hand goom a nil slice
	}
	r := make([]interface{}, len(t))
	for i, x := range t {
		r[i] = zvalue(x)
	}
	return r
}

var zcbHits int

// zcallback builds a callback of the described signature; it counts its calls and returns zero values.
func zcallback(ins, outs []string, variadic bool) interface{} {
	ft := reflect.FuncOf(zrtypes(ins), zrtypes(outs), variadic)
	return reflect.MakeFunc(ft, func(_ []reflect.Value) []reflect.Value {
		zcbHits++
		r := make([]reflect.Value, ft.NumOut())
		for i := range r {
			r[i] = reflect.Zero(ft.Out(i))
		}
		return r
	}).Interface()
}

// ---------------------------------------------------------------- .text snapshot

var ztext []byte

func zinitText() {
	f, err := elf.Open(os.Args[0])
	if err != nil {
		panic(err)
	}
	defer f.Close()
	s := f.Section(".text")
	if s == nil || f.Type != elf.ET_EXEC {
		panic("probe: need a non-PIE ELF with a .text section")
	}
	ztext = (*[1 << 34]byte)(unsafe.Pointer(uintptr(s.Addr)))[:s.Size:s.Size] // (go.mod says go1.16: no unsafe.Slice)
}

func zsnap() []byte { return append([]byte(nil), ztext...) }

// zdiff classifies the bytes that differ from snap: "none", or a '+'-joined subset of tgt (first 13 bytes of the
// target), tramp (inside the origin placeholder), other.
func zdiff(snap []byte, tgt, tramp uintptr) string {
	if bytes.Equal(snap, ztext) { // the common case, at memcmp speed
		return "none"
	}
	base := uintptr(unsafe.Pointer(&ztext[0]))
	var inT, inTr, other bool
	for i := range snap {
		if snap[i] == ztext[i] {
			continue
		}
		a := base + uintptr(i)
		switch {
		case tgt != 0 && a >= tgt && a < tgt+13:
			inT = true
		case tramp != 0 && a >= tramp && a < tramp+4096 && runtime.FuncForPC(a) != nil && runtime.FuncForPC(a).Entry() == tramp:
			inTr = true
		default:
			other = true
		}
	}
	var p []string
	if inT {
		p = append(p, "tgt")
	}
	if inTr {
		p = append(p, "tramp")
	}
	if other {
		p = append(p, "other")
	}
	if p == nil {
		return "none"
	}
	return strings.Join(p, "+")
}

// ---------------------------------------------------------------- error classification

var zreNums = regexp.MustCompile(`: (\d+), expect: (\d+)$`)
var zreSlot = regexp.MustCompile(`(args|returns) (\d+)'s size`)

func znode(e error) string {
	switch e.(type) {
	case *erro.TraceableError:
		return "traceable"
	case *erro.IllegalParam:
		return "illegalparam"
	case *erro.IllegalParamType:
		return "illegalparamtype"
	case *erro.ArgsNotMatch:
		s := "argsnotmatch"
		if m := zreNums.FindStringSubmatch(e.Error()); m != nil {
			s += "(" + m[1] + "/" + m[2] + ")"
		}
		return s
	case *erro.ReturnsNotMatch:
		s := "returnsnotmatch"
		if m := zreNums.FindStringSubmatch(e.Error()); m != nil {
			s += "(" + m[1] + "/" + m[2] + ")"
		}
		return s
	case *erro.FuncNotFound:
		return "funcnotfound"
	case runtime.Error:
		return "runtime"
	case *reflect.ValueError:
		return "reflect"
	}
	return "plain"
}

// zchain lists the error nodes reachable through Cause()/Unwrap() (outermost first) and the node at which a
// walk that uses only erro.Cause (i.e. only through values implementing erro.Traceable) ends.
func zchain(e error) (chain string, walk string) {
	var parts []string
	for c, n := e, 0; c != nil && n < 16; n++ {
		parts = append(parts, znode(c))
		if x, ok := c.(interface{ Cause() error }); ok {
			c = x.Cause()
		} else {
			c = errors.Unwrap(c)
		}
	}
	last := e
	for c, n := e, 0; c != nil && n < 16; c, n = erro.Cause(c), n+1 {
		last = c
	}
	return strings.Join(parts, ">"), znode(last)
}

// zcauseBy exercises erro.CauseBy (traceable.go:26) on the value: k/n = for how many of the n Traceable nodes on the
// erro.Cause walk CauseBy(e, node) holds; x = 1 if CauseBy also claims a Traceable that is NOT on the walk.
func zcauseBy(e error) string {
	k, n := 0, 0
	for c, i := e, 0; c != nil && i < 16; c, i = erro.Cause(c), i+1 {
		if t, ok := c.(erro.Traceable); ok {
			n++
			if erro.CauseBy(e, t) {
				k++
			}
		}
	}
	x := 0
	if other, ok := erro.NewTraceableErrors("unrelated").(erro.Traceable); ok && erro.CauseBy(e, other) {
		x = 1
	}
	return fmt.Sprintf("%d/%d,%d", k, n, x)
}

func zstrClass(s string) string {
	has := func(x string) bool { return strings.Contains(s, x) }
	switch {
	case strings.HasPrefix(s, "func signature mismatch, args len"):
		return "sig-args-len"
	case strings.HasPrefix(s, "func signature mismatch, returns len"):
		return "sig-rets-len"
	case strings.HasPrefix(s, "func signature mismatch"):
		m := zreSlot.FindStringSubmatch(s)
		if m != nil && m[1] == "args" {
			return "sig-arg-size:" + m[2]
		} else if m != nil {
			return "sig-ret-size:" + m[2]
		}
	case strings.HasPrefix(s, "reflect:") || strings.HasPrefix(s, "reflect."):
		return "reflect"
	case strings.HasPrefix(s, "Return Value (") && has("the number of args does not match"):
		return "retval-count"
	case strings.HasPrefix(s, "Return Value (") && has("the type of the args does not match"):
		return "retval-type"
	case strings.HasPrefix(s, "Call When(") && has("the number of args does not match"):
		return "when-count"
	case strings.HasPrefix(s, "Call When(") && has("the type of the args does not match"):
		return "when-type"
	case s == "method is empty":
		return "method-empty"
	case strings.HasPrefix(s, "method ") && has(" not found on "):
		return "method-not-found"
	case has("function symbol not found"):
		return "symbol-not-found"
	case has("replacementValue has to be a ExportFunc"):
		return "repl-kind"
	case has("trampoline func must be a exported func"):
		return "tramp-kind"
	case has("bigger than trampoline FuncSize"):
		return "tramp-small"
	case has("bigger than origin FuncSize"):
		return "func-small"
	case has("create param match fail") && has("the number of args does not match"):
		return "in-count"
	case has("create param match fail") && has("the type of the args does not match"):
		return "in-type"
	case has("unknown method"):
		return "unknown-method"
	case has("goom not support Return() API when returns mocked interface"):
		return "ictx-return"
	case has("must use As() API"):
		return "iface-no-as"
	case s == "func name is empty":
		return "name-empty"
	case s == "funcDef is empty":
		return "funcdef-empty"
	}
	return "other:" + vh.Class(s)
}

// zrun performs f and reports "ok" or "rej:<class> chain=<..> walk=<..>".
func zrun(f func()) (res string) {
	defer func() {
		r := recover()
		if r == nil {
			return
		}
		switch v := r.(type) {
		case error:
			chain, walk := zchain(v)
			cls := walk
			if i := strings.IndexByte(cls, '('); i >= 0 {
				cls = cls[:i]
			}
			if cls == "plain" {
				cls = zstrClass(v.Error())
			}
			cby := zcauseBy(v)
			if cls == "reflect" || cls == "runtime" { // reflect panics with strings and *ValueError alike
				chain, walk, cby = cls, cls, "-"
			}
			res = fmt.Sprintf("rej:%s chain=%s walk=%s cby=%s", cls, chain, walk, cby)
		case string:
			if c := zstrClass(v); c == "reflect" {
				res = "rej:reflect chain=reflect walk=reflect cby=-"
			} else {
				res = fmt.Sprintf("rej:%s chain=str walk=str cby=-", c)
			}
		default:
			res = fmt.Sprintf("rej:other chain=%T walk=%T cby=-", r, r)
		}
	}()
	f()
	return "ok chain=- walk=- cby=-"
}

// ---------------------------------------------------------------- behaviour

type zsig struct {
	ins, outs []string
	variadic  bool
}

func (s zsig) callArgs() []reflect.Value {
	a := make([]reflect.Value, len(s.ins))
	for i, t := range s.ins {
		a[i] = reflect.ValueOf(ztypes[t].stub)
		if s.variadic && i == len(s.ins)-1 {
			a[i] = reflect.ValueOf(ztypes[t].stub)
		}
	}
	return a
}

func zeq(a, b interface{}) bool {
	av, bv := reflect.ValueOf(a), reflect.ValueOf(b)
	if av.IsValid() && bv.IsValid() && av.Type() == bv.Type() {
		switch av.Kind() {
		case reflect.Map, reflect.Chan, reflect.Ptr, reflect.Slice, reflect.Func:
			if av.Kind() == reflect.Slice {
				return reflect.DeepEqual(a, b)
			}
			return av.Pointer() == bv.Pointer()
		}
	}
	return reflect.DeepEqual(a, b)
}

// zbehave calls fn (a func value whose code pointer is the possibly patched target) and classifies the result.
func zbehave(fn reflect.Value, s zsig, stub []string) (res string) {
	defer func() {
		if r := recover(); r != nil {
			msg := fmt.Sprint(r)
			if strings.Contains(msg, "there is no suitable condition matched") {
				res = "nomatch"
			} else {
				res = "panic:" + vh.Class(msg)
			}
		}
	}()
	zcbHits = 0
	zSinkMoved()
	var out []reflect.Value
	if s.variadic {
		out = fn.CallSlice(s.callArgs())
	} else {
		out = fn.Call(s.callArgs())
	}
	ran := zSinkMoved() // every generated target body calls ztouch
	if zcbHits > 0 {
		return "cb"
	}
	if ran {
		for i, o := range out {
			if !zeq(o.Interface(), ztypes[s.outs[i]].orig) {
				return "other"
			}
		}
		return "orig"
	}
	// neither the body nor a callback ran: results come from a stub; compare where the configured value has the slot's type
	if zloose {
		return "stub"
	}
	for i, o := range out {
		if stub == nil || len(stub) != len(out) {
			return "other"
		}
		if stub[i] == "nil" {
			if !o.IsZero() {
				return "other"
			}
			continue
		}
		want := zvalue(stub[i])
		if reflect.TypeOf(want) == o.Type() && !zeq(o.Interface(), want) {
			return "other"
		}
	}
	return "stub"
}

// zloose: sequence ops classify a stubbed result without comparing values (result cursors move between calls).
var zloose bool

var zsinkSeen int

// zSinkMoved reports whether a generated target body ran since the last check (every body calls ztouch).
func zSinkMoved() bool {
	m := zSink != zsinkSeen
	zsinkSeen = zSink
	return m
}

// ---------------------------------------------------------------- origin placeholders

//go:noinline
func zsmallTramp(a int) int { return 0 }

var zbigTrampSink int

// zorigin builds the value handed to Origin(...): a pointer to a func variable of the target's type whose code is
// a large dummy ("ok"), a tiny dummy ("small"), or a value that is no function at all.
func zorigin(kind string, ft reflect.Type) (interface{}, uintptr) {
	switch kind {
	case "none":
		return nil, 0
	case "int":
		return 5, 0
	case "str":
		return "x", 0
	case "pint":
		return new(int), 0
	case "fnval": // a plain function value (not a pointer to a func variable): its own body is the placeholder
		return zbigTramp2, reflect.ValueOf(zbigTramp2).Pointer()
	case "small", "ok":
		code := reflect.ValueOf(zsmallTramp).Pointer()
		if kind == "ok" {
			code = reflect.ValueOf(zbigTramp).Pointer()
		}
		holder := new(uintptr) // a func value is a pointer to a record that starts with the code pointer
		*holder = code
		p := reflect.New(ft)
		*(*unsafe.Pointer)(unsafe.Pointer(p.Pointer())) = unsafe.Pointer(holder)
		return p.Interface(), code
	}
	panic("probe: bad origin kind " + kind)
}

//go:noinline
func zbigTramp2() int { return zbigTramp() + zbigTramp() + zbigTramp() + zbigTramp() + zbigTramp() + zbigTramp() }

//go:noinline
func zbigTramp() int {
	// a body long enough to receive a relocated prologue (never executed as written)
	for i := 0; i < 3; i++ {
		zbigTrampSink += i * 3
		zbigTrampSink ^= i << 2
		zbigTrampSink -= i / 3
		zbigTrampSink += i * 5
		zbigTrampSink ^= i << 3
		zbigTrampSink -= i / 7
		zbigTrampSink += i * 11
		zbigTrampSink ^= i << 5
		zbigTrampSink -= i / 13
		zbigTrampSink += i * 17
		zbigTrampSink ^= i << 7
		zbigTrampSink -= i / 19
	}
	ztouch()
	ztouch()
	ztouch()
	ztouch()
	return zbigTrampSink
}

// ---------------------------------------------------------------- the interpreter

func zparseSig(ins, outs, v string) zsig { return zsig{ztoks(ins), ztoks(outs), v == "1"} }

// zcheckSig verifies that the op line describes the real target (ties the line the model reads to the code).
func zcheckSig(ft reflect.Type, s zsig) bool {
	if ft.Kind() != reflect.Func || ft.NumIn() != len(s.ins) || ft.NumOut() != len(s.outs) || ft.IsVariadic() != s.variadic {
		return false
	}
	for i, t := range zrtypes(s.ins) {
		if ft.In(i) != t {
			return false
		}
	}
	for i, t := range zrtypes(s.outs) {
		if ft.Out(i) != t {
			return false
		}
	}
	return true
}

// zmid, when set, is called between the two calls of `When(..).Return(..)`: the second call is judged against the
// state the first (accepted) call left.
var zmid func()

// zaction performs the configuration call on mocker m.
func zaction(m ExportedMocker, act []string) (stub []string) {
	switch act[0] {
	case "apply":
		m.Apply(zcallback(ztoks(act[1]), ztoks(act[2]), act[3] == "1"))
	case "applyval":
		m.Apply(zvalue(act[1]))
	case "return":
		stub = ztoks(act[1])
		m.Return(zvalues(act[1])...)
	case "when":
		w := m.When(zvalues(act[1])...)
		if zmid != nil {
			zmid()
		}
		if len(act) > 2 && act[2] == "return" {
			stub = ztoks(act[3])
			w.Return(zvalues(act[3])...)
		}
	default:
		panic("probe: bad action " + act[0])
	}
	return stub
}

func zfuncOp(t []string) string {
	// func <tgt> <ins> <outs> <var> <pre> <origin> <action...>
	fn, ok := zzoo[t[0]]
	if !ok {
		return "bad-op"
	}
	sig := zparseSig(t[1], t[2], t[3])
	fv := reflect.ValueOf(fn)
	if !zcheckSig(fv.Type(), sig) {
		return "zoo-mismatch"
	}
	entry := fv.Pointer()
	snap0 := zsnap()
	var a *Builder
	if t[4] == "1" {
		a = Create()
		a.Func(fn).Apply(zcallback(sig.ins, sig.outs, sig.variadic))
	}
	before := zbehave(fv, sig, nil)
	snap1 := zsnap()
	b := Create()
	var stub []string
	var tramp uintptr
	var midBefore string
	var midSnap []byte
	zmid = func() { midBefore = zbehave(fv, sig, nil); midSnap = zsnap() }
	defer func() { zmid = nil }()
	res := zrun(func() {
		m := ExportedMocker(b.Func(fn))
		if t[5] != "none" {
			var o interface{}
			o, tramp = zorigin(t[5], fv.Type())
			m = m.Origin(o)
		}
		stub = zaction(m, t[6:])
	})
	if midSnap != nil && strings.HasPrefix(res, "rej:") { // the rejected call is the Return() that followed an accepted When()
		before, snap1 = midBefore, midSnap
	}
	d := zdiff(snap1, entry, tramp)
	if strings.HasPrefix(res, "ok") { // what an ACCEPTED Origin() call writes into its placeholder is C03's subject
		d = strings.TrimSuffix(strings.TrimSuffix(d, "tramp"), "+")
		if d == "" {
			d = "none"
		}
	}
	beh := zbehave(fv, sig, stub)
	reg := patch.ZZC13Reg(entry)
	b.Reset()
	if a != nil {
		a.Reset()
	}
	after := zafter(fn, fv, sig, snap0, entry, tramp)
	patch.ZZC13UnpatchAll()
	return fmt.Sprintf("%s before=%s diff=%s beh=%s reg=%s after=%s", res, before, d, beh, reg, after)
}

// zafter: a correct mock of the same target on a fresh builder must take effect, and its Reset must bring back
// the original behaviour and the original bytes.
func zafter(fn interface{}, fv reflect.Value, sig zsig, snap0 []byte, entry, tramp uintptr) string {
	if got := zbehave(fv, sig, nil); got != "orig" {
		return "fail:not-orig-after-reset:" + got
	}
	if d := zdiff(snap0, entry, tramp); d != "none" && d != "tramp" {
		return "fail:text-after-reset:" + d
	}
	c := Create()
	r := zrun(func() { c.Func(fn).Apply(zcallback(sig.ins, sig.outs, sig.variadic)) })
	if !strings.HasPrefix(r, "ok") {
		return "fail:correct-mock-rejected:" + r
	}
	if got := zbehave(fv, sig, nil); got != "cb" {
		return "fail:correct-mock-ineffective:" + got
	}
	c.Reset()
	if got := zbehave(fv, sig, nil); got != "orig" {
		return "fail:not-orig-after-correct-mock:" + got
	}
	if d := zdiff(snap0, entry, tramp); d != "none" && d != "tramp" {
		return "fail:text-after-correct-mock:" + d
	}
	return "ok"
}

// zfmOp: Func(zrcv.<M>) — a METHOD VALUE as target (symbol name ends in "-fm"; mocker.go:462 applies it by name).
// fm <method> <ins (no receiver)> <outs> <var> <action...>; callbacks are written with the receiver first.
func zfmOp(t []string) string {
	m, ok := reflect.TypeOf(zrcv).MethodByName(t[0])
	if !ok {
		return "zoo-mismatch"
	}
	mv := reflect.ValueOf(zrcv).MethodByName(t[0]) // the bound method value
	sig := zparseSig(t[1], t[2], t[3])
	if !zcheckSig(mv.Type(), sig) {
		return "zoo-mismatch"
	}
	target := zmvals[t[0]]
	if target == nil {
		return "zoo-mismatch"
	}
	entry := m.Func.Pointer()
	full := zsig{append([]string{"prc"}, sig.ins...), sig.outs, sig.variadic}
	snap := zsnap()
	b := Create()
	var stub []string
	act := t[4:]
	res := zrun(func() { stub = zaction(b.Func(target), act) })
	d := zdiff(snap, entry, 0)
	beh := "skip"
	fits := act[0] != "applyval" && act[0] != "apply" || act[0] == "apply" && (act[1] == strings.Join(full.ins, ",") && act[2] == strings.Join(full.outs, ",") || (len(full.outs) == 0 && act[2] == "-" && act[1] == strings.Join(full.ins, ",")))
	if strings.HasPrefix(res, "rej:") || fits {
		zloose = true
		beh = zbehave(m.Func, full, stub)
		zloose = false
	}
	reg := patch.ZZC13Reg(entry)
	b.Reset()
	patch.ZZC13UnpatchAll()
	after := "ok"
	if got := zbehave(m.Func, full, nil); got != "orig" {
		after = "fail:not-orig-after-reset:" + got
	} else if d0 := zdiff(snap, entry, 0); d0 != "none" {
		after = "fail:text-after-reset:" + d0
	}
	return fmt.Sprintf("%s diff=%s beh=%s reg=%s after=%s", res, d, beh, reg, after)
}

func znonfuncOp(t []string) string {
	// nonfunc <valtok> <action...>   -- Builder.Func(<non-function>)
	snap := zsnap()
	n0 := patch.ZZC13RegLen()
	b := Create()
	var target interface{}
	if t[0] == "pfn" { // pointer to a variable that holds the function zt3
		fv := zzoo["t3"]
		p := reflect.New(reflect.TypeOf(fv))
		p.Elem().Set(reflect.ValueOf(fv))
		target = p.Interface()
	} else {
		target = zvalue(t[0])
	}
	res := zrun(func() { zaction(b.Func(target), t[1:]) })
	d := zdiff(snap, 0, 0)
	n1 := patch.ZZC13RegLen()
	b.Reset()
	patch.ZZC13UnpatchAll()
	return fmt.Sprintf("%s diff=%s regdelta=%d", res, d, n1-n0)
}

func zmethodOp(t []string) string {
	// method <name> <found> <ins (with receiver)> <outs> <var> <action...>  -- Struct(&ZRcv{}).Method(name).<action>
	name := t[0]
	if name == "-" {
		name = ""
	}
	if _, ok := reflect.TypeOf(&ZRcv{}).MethodByName(name); ok != (t[1] == "1") {
		return "zoo-mismatch"
	}
	t = append([]string{t[0]}, t[2:]...)
	sig := zparseSig(t[1], t[2], t[3])
	snap := zsnap()
	n0 := patch.ZZC13RegLen()
	rt := reflect.TypeOf(&ZRcv{})
	var fv reflect.Value
	var entry uintptr
	if m, ok := rt.MethodByName(name); ok {
		if !zcheckSig(m.Func.Type(), sig) {
			return "zoo-mismatch"
		}
		fv, entry = m.Func, m.Func.Pointer()
	}
	b := Create()
	var stub []string
	var midSnap []byte
	zmid = func() { midSnap = zsnap() }
	defer func() { zmid = nil }()
	res := zrun(func() { stub = zaction(b.Struct(&ZRcv{}).Method(name), t[4:]) })
	d := zdiff(snap, entry, 0)
	if midSnap != nil && strings.HasPrefix(res, "rej:") {
		d = zdiff(midSnap, entry, 0)
	}
	beh, reg, after := "-", "-", "-"
	if fv.IsValid() {
		beh = zbehave(fv, sig, stub)
		reg = patch.ZZC13Reg(entry)
	}
	n1 := patch.ZZC13RegLen()
	b.Reset()
	if fv.IsValid() {
		after = "ok"
		if got := zbehave(fv, sig, nil); got != "orig" {
			after = "fail:not-orig-after-reset:" + got
		} else if d := zdiff(snap, entry, 0); d != "none" {
			after = "fail:text-after-reset:" + d
		} else {
			c := Create()
			r := zrun(func() { c.Struct(&ZRcv{}).Method(name).Apply(zcallback(sig.ins, sig.outs, sig.variadic)) })
			if !strings.HasPrefix(r, "ok") {
				after = "fail:correct-mock-rejected:" + r
			} else if got := zbehave(fv, sig, nil); got != "cb" {
				after = "fail:correct-mock-ineffective:" + got
			}
			c.Reset()
			if got := zbehave(fv, sig, nil); after == "ok" && got != "orig" {
				after = "fail:not-orig-after-correct-mock:" + got
			}
		}
	}
	patch.ZZC13UnpatchAll()
	return fmt.Sprintf("%s diff=%s beh=%s reg=%s regdelta=%d after=%s", res, d, beh, reg, n1-n0, after)
}

func zexportOp(t []string) string {
	// export <func|struct> <known|unknown|empty> <apply cbIns cbOuts var | as cbIns cbOuts var>
	snap := zsnap()
	n0 := patch.ZZC13RegLen()
	b := Create()
	name := map[string]string{"known": "ztouch", "unknown": "zNoSuchFunction", "empty": "", "suffix1": "ztouch", "suffix2": "ztouch"}[t[1]]
	// suffix1/suffix2: the package path is cut to a '/'-aligned SUFFIX of the real one, so the full symbol name does not exist
	pkgSuffix := map[string]string{"suffix1": "tencent/goom", "suffix2": "goom"}[t[1]]
	structName, methodName := "ZRcv", name
	if pkgSuffix != "" {
		structName, methodName = "*ZRcv", "M1"
	}
	res := zrun(func() {
		cb := zcallback(ztoks(t[3]), ztoks(t[4]), t[5] == "1")
		if t[2] == "asapply" || t[2] == "asreturn" { // export func known asapply <asIns> <asOuts> 0 <cbIns> <cbOuts> | asreturn ... <vals>
			m := b.ExportFunc(name).As(cb)
			if t[2] == "asapply" {
				m.Apply(zcallback(ztoks(t[6]), ztoks(t[7]), false))
			} else {
				m.Return(zvalues(t[6])...)
			}
			return
		}
		if pkgSuffix != "" {
			b.Pkg(pkgSuffix)
		}
		if t[0] == "func" {
			m := b.ExportFunc(name)
			if t[2] == "as" {
				m.As(cb)
			} else {
				m.Apply(cb)
			}
		} else {
			m := b.ExportStruct(structName).Method(methodName)
			if t[2] == "as" {
				m.As(cb)
			} else {
				m.Apply(cb)
			}
		}
	})
	d := zdiff(snap, 0, 0)
	n1 := patch.ZZC13RegLen()
	b.Reset()
	patch.ZZC13UnpatchAll()
	d2 := zdiff(snap, 0, 0)
	return fmt.Sprintf("%s diff=%s regdelta=%d afterdiff=%s", res, d, n1-n0, d2)
}

func zifaceOp(t []string) string {
	// iface <varkind> <method> <found> <mins> <mouts> apply <cbIns> <cbOuts> | applyval <tok>
	// iface <varkind> <method> <found> <mins> <mouts> as <cbIns> <cbOuts> (return <vals> | when <args> [return <vals>])
	name := t[1]
	if name == "-" {
		name = ""
	}
	if _, ok := reflect.TypeOf((*ZIfc)(nil)).Elem().MethodByName(name); ok != (t[2] == "1") {
		return "zoo-mismatch"
	}
	t = append([]string{t[0], t[1]}, t[3:]...)
	msig := zparseSig(t[2], t[3], "0")
	var iv ZIfc
	var target interface{}
	switch t[0] {
	case "ok":
		target = &iv
	case "nonptr":
		target = ZImpl{}
	case "int":
		target = 5
	case "pint":
		target = new(int)
	case "pstruct":
		target = &ZImpl{}
	case "slice":
		target = []ZIfc{nil}
	case "array":
		target = [1]ZIfc{}
	case "map":
		target = map[string]ZIfc{"k": nil}
	case "chan":
		target = make(chan ZIfc, 1)
	case "func":
		target = func() ZIfc { return nil }
	case "pptr":
		pp := &iv
		target = &pp
	case "nilv":
		target = nil
	default:
		return "bad-op"
	}
	if m, ok := reflect.TypeOf((*ZIfc)(nil)).Elem().MethodByName(name); ok {
		if !zcheckSig(m.Type, msig) {
			return "zoo-mismatch"
		}
	}
	snap := zsnap()
	n0 := patch.ZZC13RegLen()
	b := Create()
	res := zrun(func() {
		m := b.Interface(target).Method(name)
		if t[4] == "applyval" {
			m.Apply(zvalue(t[5]))
			return
		}
		cb := zcallback(ztoks(t[5]), ztoks(t[6]), false)
		if t[4] == "apply" {
			m.Apply(cb)
		} else {
			zaction(m.As(cb), t[7:])
		}
	})
	d := zdiff(snap, 0, 0)
	beh := "nil"
	if iv != nil {
		beh = "set"
	}
	n1 := patch.ZZC13RegLen()
	b.Reset()
	after := "nil"
	if iv != nil {
		after = "set"
	}
	return fmt.Sprintf("%s diff=%s var=%s regdelta=%d afterreset=%s", res, d, beh, n1-n0, after)
}

// ---------------------------------------------------------------- sequences of configuration calls on one mocker

func zsplit(t []string) [][]string {
	var out [][]string
	cur := []string{}
	for _, x := range t {
		if x == ";" {
			out = append(out, cur)
			cur = []string{}
		} else {
			cur = append(cur, x)
		}
	}
	return append(out, cur)
}

// zgroup: a `|`-separated element of Returns/In: one token is handed over bare, several as []interface{}.
func zgroup(g string) interface{} {
	v := zvalues(g)
	if len(v) == 1 {
		return v[0]
	}
	return v
}

type zseq struct {
	lookup func() ExportedMocker
	m      ExportedMocker
	byName func(name string) // Struct(x).Method(name) / Interface(&i).Method(name), result discarded
	setAs  func(ci, co string)
	useHolder func() // from now on configure through Interface(&<struct that holds the variable>)
	w      *When // the handle returned by the last When/Return/Returns/... call
	via    bool  // route the next When/Return/Returns through the mocker (after a repeated lookup)
}

func (q *zseq) step(st []string) {
	switch st[0] {
	case "again":
		q.m, q.via = q.lookup(), true
		return
	case "lookup":
		n := st[1]
		if n == "-" {
			n = ""
		}
		q.byName(n)
		return
	case "holder":
		q.useHolder()
		q.w = nil
		return
	case "as":
		q.setAs(st[1], st[2])
		q.m = q.lookup()
		return
	case "applyval":
		q.m.Apply(zvalue(st[1]))
		q.w = nil
	case "apply":
		q.m.Apply(zcallback(ztoks(st[1]), ztoks(st[2]), st[3] == "1"))
		q.w = nil
	case "return":
		if q.w != nil && !q.via {
			q.w = q.w.Return(zvalues(st[1])...)
		} else {
			q.w = q.m.Return(zvalues(st[1])...)
		}
	case "when":
		if q.w != nil && !q.via {
			q.w = q.w.When(zvalues(st[1])...)
		} else {
			q.w = q.m.When(zvalues(st[1])...)
		}
	case "returns":
		var gs []interface{}
		for _, g := range strings.Split(st[1], "|") {
			if st[1] == "()" { // Returns() without any value
				break
			}
			gs = append(gs, zgroup(g))
		}
		if q.w != nil && !q.via {
			q.w = q.w.Returns(gs...)
		} else {
			q.w = q.m.Returns(gs...)
		}
	case "andreturn":
		q.w = q.w.AndReturn(zvalues(st[1])...)
	case "in":
		var gs []interface{}
		for _, g := range strings.Split(st[1], "|") {
			gs = append(gs, zgroup(g))
		}
		q.w = q.w.In(gs...)
	case "matches":
		var ps []arg.Pair
		for _, p := range strings.Split(st[1], "|") {
			ar := strings.SplitN(p, "=", 2)
			ps = append(ps, arg.Pair{Args: zgroup(ar[0]), Return: zgroup(ar[1])})
		}
		q.w = q.w.Matches(ps...)
	default:
		panic("probe: bad step " + st[0])
	}
	q.via = false
}

// zstubFor returns the stub value of the universe type t (what the behaviour calls pass).
func zstubFor(t reflect.Type) reflect.Value {
	for _, zt := range ztypes {
		if zt.t == t {
			return reflect.ValueOf(zt.stub).Convert(t)
		}
	}
	return reflect.Zero(t)
}

// zholderE / zholderN: structs whose FIRST field is the interface variable (embedded / named).
type zholderE struct {
	ZIfc
	name string
}
type zholderN struct {
	F    ZIfc
	name string
}

// zseqOp runs the steps one configuration call at a time; the observation is about the LAST executed call (the first
// rejected one, or the final one) relative to the state right before it.
func zseqOp(form string, t []string) string {
	var (
		fv     reflect.Value
		sig    zsig
		entry  uintptr
		steps  [][]string
		b      = Create()
		a      *Builder
		q      = &zseq{}
		behave func() string
		retry  func(c *Builder, cb interface{})
		hold   zholderE
		holdN  zholderN
		meths  func() string
	)
	ivp := &hold.ZIfc // the interface variable is the first field of a struct (embedded, or named with `<method>@n`): same address as the struct
	var holder interface{} = &hold
	cont := strings.HasPrefix(form, "rt") // retry forms run every step, also after a rejection
	if cont {
		form = "seq" + form[2:]
	}
	snap0 := zsnap()
	switch form {
	case "seqf": // seqf <tgt> <ins> <outs> <var> <pre> <steps>
		fn, ok := zzoo[t[0]]
		if !ok {
			return "bad-op"
		}
		sig, fv = zparseSig(t[1], t[2], t[3]), reflect.ValueOf(fn)
		if !zcheckSig(fv.Type(), sig) {
			return "zoo-mismatch"
		}
		entry, steps = fv.Pointer(), zsplit(t[5:])
		q.lookup = func() ExportedMocker { return b.Func(fn) }
		retry = func(c *Builder, cb interface{}) { c.Func(fn).Apply(cb) }
		if t[4] == "1" {
			a = Create()
			a.Func(fn).Apply(zcallback(sig.ins, sig.outs, sig.variadic))
		}
	case "seqm": // seqm <name> <ins> <outs> <var> <steps>
		m, ok := reflect.TypeOf(&ZRcv{}).MethodByName(t[0])
		sig = zparseSig(t[1], t[2], t[3])
		if !ok || !zcheckSig(m.Func.Type(), sig) {
			return "zoo-mismatch"
		}
		fv, entry, steps = m.Func, m.Func.Pointer(), zsplit(t[4:])
		rcv := &ZRcv{}
		q.lookup = func() ExportedMocker { return b.Struct(rcv).Method(t[0]) }
		q.byName = func(n string) { b.Struct(rcv).Method(n) }
		retry = func(c *Builder, cb interface{}) { c.Struct(rcv).Method(t[0]).Apply(cb) }
	case "seqi": // seqi <name> <all method names> <mins> <mouts> <cbIns> <cbOuts> <steps>
		if strings.HasSuffix(t[0], "@n") {
			t[0], ivp, holder = strings.TrimSuffix(t[0], "@n"), &holdN.F, &holdN
		}
		it := reflect.TypeOf((*ZIfc)(nil)).Elem()
		im, ok := it.MethodByName(t[0])
		namesTok := t[1]
		var names []string
		for i := 0; i < it.NumMethod(); i++ {
			names = append(names, it.Method(i).Name)
		}
		t = append([]string{t[0]}, t[2:]...)
		msig := zparseSig(t[1], t[2], "0")
		if !ok || !zcheckSig(im.Type, msig) || strings.Join(names, ",") != namesTok {
			return "zoo-mismatch"
		}
		steps = zsplit(t[5:])
		asFn := zcallback(ztoks(t[3]), ztoks(t[4]), false)
		viaHolder := false
		target := func() interface{} {
			if viaHolder {
				return holder
			}
			return ivp
		}
		q.useHolder = func() { viaHolder = true; q.m = q.lookup() }
		q.lookup = func() ExportedMocker { return b.Interface(target()).Method(t[0]).As(asFn) }
		q.byName = func(n string) { b.Interface(target()).Method(n) }
		q.setAs = func(ci, co string) { asFn = zcallback(ztoks(ci), ztoks(co), false) }
		callM := func(name string) (res string) {
			defer func() {
				if r := recover(); r != nil {
					msg := fmt.Sprint(r)
					switch {
					case strings.Contains(msg, "there is no suitable condition matched"):
						res = "nomatch"
					case strings.Contains(msg, "method not implements"):
						res = "unimpl"
					default:
						res = "panic:" + vh.Class(msg)
					}
				}
			}()
			mv := reflect.ValueOf(ivp).Elem().MethodByName(name)
			args := make([]reflect.Value, mv.Type().NumIn())
			for i := range args {
				args[i] = zstubFor(mv.Type().In(i))
			}
			zcbHits = 0
			mv.Call(args)
			if zcbHits > 0 {
				return "cb"
			}
			return "stub"
		}
		meths = func() string {
			if *ivp == nil {
				return "nil"
			}
			var p []string
			for _, n := range names {
				p = append(p, n+":"+callM(n))
			}
			return strings.Join(p, ",")
		}
		behave = func() (res string) {
			if *ivp == nil {
				return "nil"
			}
			defer func() {
				if r := recover(); r != nil {
					if strings.Contains(fmt.Sprint(r), "there is no suitable condition matched") {
						res = "nomatch"
					} else {
						res = "panic:" + vh.Class(fmt.Sprint(r))
					}
				}
			}()
			zcbHits = 0
			reflect.ValueOf(ivp).Elem().MethodByName(t[0]).Call(msig.callArgs())
			if zcbHits > 0 {
				return "cb"
			}
			return "stub"
		}
	}
	if behave == nil {
		behave = func() string { return zbehave(fv, sig, nil) }
	}
	var res, before string
	var snap []byte
	var trail []string
	last := 0
	for i, st := range steps {
		if i == 0 {
			r := zrun(func() { q.m = q.lookup() })
			if !strings.HasPrefix(r, "ok") {
				return "probe-panic:lookup " + r
			}
		}
		before, snap, last = behave(), zsnap(), i
		st := st
		res = zrun(func() { q.step(st) })
		trail = append(trail, strings.Fields(res)[0])
		if !strings.HasPrefix(res, "ok") && !cont {
			break
		}
	}
	where := fmt.Sprintf("step=%d", last)
	if cont {
		where = "trail=" + strings.Join(trail, ",")
	}
	d := zdiff(snap, entry, 0)
	beh := behave()
	if form == "seqi" {
		v := "nil"
		if *ivp != nil {
			v = "set"
		}
		ms := meths()
		b.Reset()
		return fmt.Sprintf("%s %s before=%s beh=%s var=%s meth=%s", res, where, before, beh, v, ms)
	}
	reg := patch.ZZC13Reg(entry)
	b.Reset()
	if a != nil {
		a.Reset()
	}
	after := "ok"
	if got := zbehave(fv, sig, nil); got != "orig" {
		after = "fail:not-orig-after-reset:" + got
	} else if d0 := zdiff(snap0, entry, 0); d0 != "none" {
		after = "fail:text-after-reset:" + d0
	} else {
		c := Create()
		r := zrun(func() { retry(c, zcallback(sig.ins, sig.outs, sig.variadic)) })
		if !strings.HasPrefix(r, "ok") {
			after = "fail:correct-mock-rejected:" + r
		} else if got := zbehave(fv, sig, nil); got != "cb" {
			after = "fail:correct-mock-ineffective:" + got
		}
		c.Reset()
		if got := zbehave(fv, sig, nil); after == "ok" && got != "orig" {
			after = "fail:not-orig-after-correct-mock:" + got
		}
	}
	patch.ZZC13UnpatchAll()
	return fmt.Sprintf("%s %s before=%s diff=%s beh=%s reg=%s after=%s", res, where, before, d, beh, reg, after)
}

// TestVerifC13 interprets the operation stream.
func TestVerifC13(t *testing.T) {
	out := vh.OpenOut()
	defer out.Close()
	func() {
		defer func() {
			if r := recover(); r != nil {
				out.Put(0, "probe-init-failed")
				out.Close()
				os.Exit(3)
			}
		}()
		zinitText()
	}()
	start, _ := strconv.Atoi(os.Getenv("VERIF_START"))
	for _, op := range vh.ReadOps() {
		if op.Idx < start || len(op.Toks) < 2 || op.Toks[0] != "c13" {
			continue
		}
		var obs string
		func() {
			defer func() {
				if r := recover(); r != nil {
					obs = "probe-panic:" + vh.Class(fmt.Sprint(r))
				}
			}()
			toks := op.Toks
			if toks[1] == "dbg" { // the same call with goom's debug mode on (debug.go wraps every callback)
				OpenDebug()
				defer CloseDebug()
				toks = append([]string{toks[0]}, toks[2:]...)
			}
			op.Toks = toks
			switch op.Toks[1] {
			case "fm":
				obs = zfmOp(op.Toks[2:])
			case "func":
				obs = zfuncOp(op.Toks[2:])
			case "nonfunc":
				obs = znonfuncOp(op.Toks[2:])
			case "method":
				obs = zmethodOp(op.Toks[2:])
			case "export":
				obs = zexportOp(op.Toks[2:])
			case "iface":
				obs = zifaceOp(op.Toks[2:])
			case "seqf", "seqm", "seqi", "rtf", "rtm", "rti":
				zloose = true
				obs = zseqOp(op.Toks[1], op.Toks[2:])
				zloose = false
			default:
				obs = "bad-op"
			}
		}()
		out.Put(op.Idx, "%s", obs)
	}
}
