//go:build go1.18

// Package w is the shared scoreboard of the C06 probe corpus: what the caller expects the callback to see, what the
// callback saw, and the field layouts every generated struct type is convertible to.
package w

import "unsafe"

// Sentinel is what every mock callback returns.
const Sentinel int64 = -7777777

// Layouts: every generated struct type has exactly the fields of one of these.
type (
	Lay0 struct{ A int64 }
	Lay1 struct {
		A int64
		B string
	}
	Lay2 struct {
		A int64
		B string
		C [3]int64
		D float64
	}
	Lay3 struct {
		A int32
		B int8
		C int64
	}
	Lay4 struct{}
)

// What the caller of a method expects the callback to receive.
var (
	Want0   Lay0
	Want1   Lay1
	Want2   Lay2
	Want3   Lay3
	Want4   Lay4
	WantA   int64          // field A of the receiver
	WantPtr unsafe.Pointer // receiver pointer (pointer receivers)
	// WantBasePtr is the receiver an embedded base type's method must see (= WantPtr unless the call went through an outer type)
	WantBasePtr unsafe.Pointer
	WantX       int64 = 41
	WantS             = "str"
	WantF             = 2.5 // float parameter (parameter kind 6)
	GenK        int64       // constant of the generic method about to be called (set by the call function)
)

// Stack-passed parameters (parameter kind 3).
var (
	WantArr  = [4]int64{7, 1, 2, 3}
	WantArr2 = [4]int64{4, 5, 6, 8}
	// WantArr16 is big enough to be copied with runtime.duffcopy (parameter kind 4)
	WantArr16 = [16]int64{9, 8, 7, 6, 5, 4, 3, 2, 1}
)

// What the last callback saw.
var (
	LastK      = -1
	LastRecvOK bool
	LastArgsOK bool
)

// Hit is called by every mock callback.
func Hit(k int, recvOK, argsOK bool) {
	LastK, LastRecvOK, LastArgsOK = k, recvOK, argsOK
}

// Id is the helper the non-leaf method bodies call (the build disables inlining).
//
//go:noinline
func Id(x int64) int64 { return x }
