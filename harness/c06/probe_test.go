//go:build go1.18

package pa

import (
	"bufio"
	"fmt"
	"os"
	"reflect"
	"strconv"
	"strings"
	"testing"

	mocker "github.com/tencent/goom"
	"github.com/tencent/goom/internal/patch"
	"github.com/tencent/goom/internal/zzverif/c06/w"
	"github.com/tencent/goom/internal/zzverif/vh"
)

// ent is one declared method of the corpus (generated registry: reg_gen_test.go).
type ent struct {
	ID      int
	Pkg     string // package path
	T       string // reflect name of the receiver type
	Ptr     bool
	M       string
	K       int64 // the method's own constant
	NP      int   // ordinary parameters
	Call    func(inst int) int64
	Look    func(b *mocker.Builder, via, pkg, raw, m, tmpl string) interface{} // the lookup through one API path
	Cb      func(via string, k int) interface{}                                // typed callback number k
	StandIn func(via string) interface{}                                       // typed stand-in for As(..)
	Tmpl    func(tmpl string) interface{}                                      // template instance for Struct / NewMethodMocker (nil: type not visible)
	Orig    func() interface{}                                                 // &placeholder for Origin(..) (nil: not generated)
	CbO     func(k int) interface{}                                            // callback that calls the placeholder and checks its result
}

// wireBase is what '@' abbreviates in the operation stream.
const wireBase = "github.com/tencent/goom/internal/zzverif/c06"

// expected original result of the call just made (the generated call function has set w.WantA)
func expect(e *ent) int64 {
	v := w.WantA*1000003 + e.K
	if e.NP >= 1 {
		v += w.WantX * 31
	}
	if e.NP == 2 {
		v += int64(len(w.WantS))
	}
	if e.NP == 3 { // two stack-passed arrays instead of (x, s)
		v += -w.WantX*31 + w.WantArr[0]*31 + w.WantArr2[3]
	}
	if e.NP == 5 { // variadic, called with (WantX, WantX+1)
		v += -w.WantX*31 + 2*31 + w.WantX
	}
	if e.NP == 6 { // (f float64, x int64)
		v += int64(w.WantF * 2)
	}
	if e.NP == 4 { // one stack-passed [16]int64
		v += -w.WantX*31 + w.WantArr16[3]*31
	}
	return v
}

// callOnce calls entry e on one instance: "o" original, "k<k>" callback k ran, "s<v>" another value came back
// (a Return/When stub), "p" the call panicked.
func callOnce(e *ent, inst int) (tok string, recvOK, argsOK bool) {
	defer func() {
		if r := recover(); r != nil {
			tok = "p"
		}
	}()
	w.LastK = -1
	r := e.Call(inst)
	switch {
	case w.LastK >= 0 && r == w.Sentinel:
		return "k" + strconv.Itoa(w.LastK), w.LastRecvOK, w.LastArgsOK
	case w.LastK < 0 && r == expect(e):
		return "o", true, true
	case w.LastK < 0:
		return "s" + strconv.FormatInt(r, 10), true, true
	}
	return "x", true, true
}

// snapshot calls every method of every type on three instances; returns the non-original entries as hit tokens.
func snapshot() (hits []string) {
	for i := range registry {
		e := &registry[i]
		var t [3]string
		rok, aok := true, true
		for inst := 0; inst < 3; inst++ {
			var r, a bool
			t[inst], r, a = callOnce(e, inst)
			rok, aok = rok && r, aok && a
		}
		switch {
		case t[0] == "o" && t[1] == "o" && t[2] == "o":
		case t[0][0] == 'k' && t[0] == t[1] && t[1] == t[2]:
			r, a := "r+", "a+"
			if !rok {
				r = "r-"
			}
			if !aok {
				a = "a-"
			}
			hits = append(hits, fmt.Sprintf("%d:%s:%s:%s", i, t[0][1:], r, a))
		default:
			hits = append(hits, fmt.Sprintf("%d:%s/%s/%s", i, t[0], t[1], t[2]))
		}
	}
	return
}

func classify(msg string) string {
	const pfx = "proxy func name error: "
	const sfx = ": function symbol not found"
	switch {
	case strings.HasSuffix(msg, sfx):
		return "nf:" + strings.TrimPrefix(msg[:len(msg)-len(sfx)], pfx)
	case strings.HasPrefix(msg, "method ") && strings.Contains(msg, " not found on "):
		return "err:nomethod"
	case strings.HasPrefix(msg, "proxy method error: unknown method"):
		return "err:nomethod"
	}
	return "panic:" + vh.Class(msg)
}

func try(f func()) (res string) {
	defer func() {
		if r := recover(); r != nil {
			res = classify(fmt.Sprint(r))
		}
	}()
	f()
	return "ok"
}

type handle struct {
	h   interface{}
	e   *ent
	via string
	um  *mocker.UnexportedMethodMocker // directly constructed (outside the builder caches)
	mm  *mocker.MethodMocker
	org bool // Origin(&placeholder) is set on the mocker
}

// directTok handles `UM~pkg~sn~m~eid` and `MM~pkg~T~ptr~m~eid[~tmpl]`: old == nil constructs a fresh mocker object with
// the exported constructor, otherwise the same object is pointed at another method name with Method(..).
func directTok(f []string, old *handle) (hd handle, res string) {
	var eidS, m, tmpl string
	switch {
	case len(f) == 5 && f[0] == "UM":
		m, eidS = f[3], f[4]
	case (len(f) == 6 || len(f) == 7) && f[0] == "MM":
		m, eidS, tmpl = f[4], f[5], "z"
		if len(f) == 7 {
			tmpl = f[6]
		}
	default:
		return hd, "bad-op"
	}
	eid, err := strconv.Atoi(eidS)
	if err != nil || eid < 0 || eid >= len(registry) {
		return hd, "bad-op"
	}
	e := &registry[eid]
	if f[0] == "MM" && (e.Pkg != f[1] || e.T != f[2] || e.Ptr != (f[3] == "1") || e.Tmpl == nil) {
		return hd, "err:inconsistent-op"
	}
	if old != nil {
		hd = *old
	}
	hd.e = e
	res = try(func() {
		if f[0] == "UM" {
			hd.via = "ES"
			if old == nil {
				hd.um = mocker.NewUnexportedMethodMocker(f[1], f[2])
			}
			if hd.um == nil {
				panic("probe: not a directly constructed by-name mocker")
			}
			hd.h = hd.um.Method(m)
		} else {
			hd.via = "SM"
			if old == nil {
				hd.mm = mocker.NewMethodMocker("", e.Tmpl(tmpl))
			}
			if hd.mm == nil {
				panic("probe: not a directly constructed method mocker")
			}
			hd.h = hd.mm.Method(m)
		}
	})
	return
}

func stdArgs(np int, std bool) []interface{} {
	x, s := int64(5), "zz"
	if std {
		x, s = w.WantX, w.WantS
	}
	if np == 1 {
		return []interface{}{x}
	}
	return []interface{}{x, s}
}

// lookupTok parses `SM~pkg~T~ptr~m~eid[~tmpl]` / `SX~..` / `ES~pkg~raw~m~eid` / `EC~..` and performs the lookup.
func lookupTok(b *mocker.Builder, f []string) (hd handle, res string) {
	var eidS, pkg, raw, m, tmpl string
	switch {
	case (len(f) == 6 || len(f) == 7) && (f[0] == "SM" || f[0] == "SX" || f[0] == "SP"):
		pkg, m, eidS, tmpl = f[1], f[4], f[5], "z"
		if len(f) == 7 {
			tmpl = f[6]
		}
	case len(f) == 5 && (f[0] == "ES" || f[0] == "EC"):
		pkg, raw, m, eidS = f[1], f[2], f[3], f[4]
	case len(f) == 4 && f[0] == "EF":
		pkg, raw, eidS = f[1], f[2], f[3]
	default:
		return hd, "bad-op"
	}
	eid, err := strconv.Atoi(eidS)
	if err != nil || eid < 0 || eid >= len(registry) {
		return hd, "bad-op"
	}
	e := &registry[eid]
	if (f[0] == "SM" || f[0] == "SX") && (e.Pkg != f[1] || e.T != f[2] || e.Ptr != (f[3] == "1")) {
		return hd, "err:inconsistent-op"
	}
	if f[0] == "SP" && (e.Pkg != f[1] || e.T != f[2] || e.Ptr || f[3] != "1") {
		return hd, "err:inconsistent-op"
	}
	if f[0] == "EC" && b.PkgName() != pkg {
		return hd, "err:curpkg:" + b.PkgName()
	}
	hd = handle{e: e, via: f[0]}
	res = try(func() { hd.h = e.Look(b, f[0], pkg, raw, m, tmpl) })
	return
}

func applyCb(hd handle, k int) string {
	cb := hd.e.Cb(hd.via, k)
	if hd.org {
		cb = hd.e.CbO(k)
	}
	return try(func() {
		switch h := hd.h.(type) {
		case mocker.ExportedMocker:
			h.Apply(cb)
		case mocker.UnExportedMocker:
			h.Apply(cb)
		default:
			panic("probe: no handle")
		}
	})
}

func atoi64(s string) int64 {
	v, err := strconv.ParseInt(s, 10, 64)
	if err != nil {
		panic("bad number " + s)
	}
	return v
}

func runHist(steps []string) string {
	if hits := snapshot(); len(hits) != 0 {
		patch.UnpatchAll()
		return "before=dirty:" + hits[0]
	}
	b := mocker.Create()
	handles := map[string]handle{}
	var res []string
	for k, tok := range steps {
		f := strings.Split(tok, "~")
		get := func() (handle, bool) {
			hd, ok := handles[f[1]]
			if !ok || hd.h == nil {
				res = append(res, "err:nohandle")
				return hd, false
			}
			return hd, true
		}
		switch {
		case len(f) == 1 && f[0] == "R":
			res = append(res, try(func() { b.Reset() }))
			for hn, hd := range handles {
				if hd.um == nil && hd.mm == nil {
					hd.org = false
					handles[hn] = hd
				}
			}
		case f[0] == "L" && len(f) > 2:
			hd, r := lookupTok(b, f[2:])
			if r == "bad-op" || strings.HasPrefix(r, "err:inconsistent") || strings.HasPrefix(r, "err:curpkg") {
				return r
			}
			if r == "ok" {
				handles[f[1]] = hd
			}
			res = append(res, r)
		case (f[0] == "D" || f[0] == "RD") && len(f) > 2:
			var old *handle
			if f[0] == "RD" {
				o, ok := handles[f[1]]
				if !ok {
					res = append(res, "err:nohandle")
					break
				}
				old = &o
			}
			hd, r := directTok(f[2:], old)
			if r == "bad-op" || strings.HasPrefix(r, "err:inconsistent") {
				return r
			}
			if r == "ok" {
				handles[f[1]] = hd
			}
			res = append(res, r)
		case f[0] == "A" && len(f) == 2:
			if hd, ok := get(); ok {
				res = append(res, applyCb(hd, k))
			}
		case f[0] == "C" && len(f) == 2:
			if hd, ok := get(); ok {
				res = append(res, try(func() { hd.h.(mocker.Mocker).Cancel() }))
				hd.org = false // Cancel forgets the origin (mocker.go:160)
				handles[f[1]] = hd
			}
		case f[0] == "O" && len(f) == 2:
			if hd, ok := get(); ok {
				if hd.e.Orig == nil || (hd.via != "SM" && hd.via != "SX") {
					res = append(res, "err:noorigin")
					break
				}
				res = append(res, try(func() {
					switch h := hd.h.(type) {
					case mocker.ExportedMocker:
						h.Origin(hd.e.Orig())
					case mocker.UnExportedMocker:
						h.Origin(hd.e.Orig())
					}
				}))
				hd.org = true
				handles[f[1]] = hd
			}
		case (f[0] == "T" && len(f) == 3) || (f[0] == "S" && len(f) == 4):
			if hd, ok := get(); ok {
				var vals []interface{}
				for _, s := range f[2:] {
					vals = append(vals, atoi64(s))
				}
				res = append(res, try(func() {
					var em mocker.ExportedMocker
					switch h := hd.h.(type) {
					case mocker.ExportedMocker:
						em = h
					case mocker.UnExportedMocker:
						em = h.As(hd.e.StandIn(hd.via))
					}
					if f[0] == "T" {
						em.Return(vals...)
					} else {
						em.Returns(vals...)
					}
				}))
			}
		case (f[0] == "W" && len(f) == 4) || (f[0] == "SW" && len(f) == 6):
			if hd, ok := get(); ok {
				em, isM := hd.h.(mocker.ExportedMocker)
				if !isM || hd.e.NP == 0 {
					res = append(res, "err:notmethod")
					break
				}
				res = append(res, try(func() {
					if f[0] == "W" {
						em.When(stdArgs(hd.e.NP, f[2] == "1")...).Return(atoi64(f[3]))
					} else {
						em.Returns(atoi64(f[2]), atoi64(f[3])).When(stdArgs(hd.e.NP, f[4] == "1")...).Return(atoi64(f[5]))
					}
				}))
			}
		default:
			hd, r := lookupTok(b, f)
			if r != "ok" {
				if r == "bad-op" || strings.HasPrefix(r, "err:inconsistent") || strings.HasPrefix(r, "err:curpkg") {
					return r
				}
				res = append(res, r)
				break
			}
			res = append(res, applyCb(hd, k))
		}
	}
	hits := snapshot()
	// clean-up of the test: the builder does not know directly constructed mockers
	for _, hd := range handles {
		if hd.um != nil || hd.mm != nil {
			try(func() { hd.h.(mocker.Mocker).Cancel() })
		}
	}
	rr := try(func() { b.Reset() })
	clean := "clean"
	if after := snapshot(); len(after) != 0 || rr != "ok" {
		clean = "dirty"
		patch.UnpatchAll() // do not let a leaked patch poison the following histories
	}
	return "r=" + strings.Join(res, ",") + " hit=" + strings.Join(hits, ",") + " after=" + clean
}

// runGuards executes a `c06.guard` history on the patch package directly: guards are created (patch.InstanceMethod) and
// applied / unpatched later.
func runGuards(steps []string) string {
	if hits := snapshot(); len(hits) != 0 {
		patch.UnpatchAll()
		return "before=dirty:" + hits[0]
	}
	guards := map[string]*patch.Guard{}
	var res []string
	for k, tok := range steps {
		f := strings.Split(tok, "~")
		switch {
		case f[0] == "GN" && len(f) == 7:
			eid, err := strconv.Atoi(f[6])
			if err != nil || eid < 0 || eid >= len(registry) || registry[eid].Tmpl == nil {
				return "bad-op"
			}
			e := &registry[eid]
			if e.Pkg != f[2] || e.T != f[3] || e.Ptr != (f[4] == "1") {
				return "err:inconsistent-op"
			}
			res = append(res, try(func() {
				g, err := patch.InstanceMethod(reflect.TypeOf(e.Tmpl("z")), f[5], e.Cb("SM", k))
				if err != nil {
					panic("proxy method error: " + err.Error())
				}
				guards[f[1]] = g
			}))
		case (f[0] == "GA" || f[0] == "GU") && len(f) == 2:
			g, ok := guards[f[1]]
			if !ok {
				res = append(res, "err:nohandle")
				break
			}
			if f[0] == "GA" {
				res = append(res, try(g.Apply))
			} else {
				res = append(res, try(g.UnpatchWithLock))
			}
		default:
			return "bad-op"
		}
	}
	hits := snapshot()
	for _, g := range guards {
		try(g.UnpatchWithLock)
	}
	clean := "clean"
	if after := snapshot(); len(after) != 0 {
		clean = "dirty"
	}
	patch.UnpatchAll() // also empties the package's patch table
	return "r=" + strings.Join(res, ",") + " hit=" + strings.Join(hits, ",") + " after=" + clean
}

// TestVerifC06 runs goom's real method mocking on the operation stream.  Only the steps (the text before the first " | ")
// are tokenised; the entry and symbol tables behind it are for the model.
func TestVerifC06(t *testing.T) {
	out := vh.OpenOut()
	defer out.Close()
	from, _ := strconv.Atoi(os.Getenv("VERIF_C06_FROM"))
	f, err := os.Open(os.Getenv("VERIF_OPS"))
	if err != nil {
		t.Fatal(err)
	}
	defer f.Close()
	sc := bufio.NewScanner(f)
	sc.Buffer(make([]byte, 1<<20), 1<<28)
	for idx := 0; sc.Scan(); idx++ {
		if idx < from {
			continue
		}
		line := sc.Text()
		if i := strings.Index(line, " | "); i >= 0 {
			line = line[:i]
		}
		toks := strings.Fields(line)
		if len(toks) == 0 || (toks[0] != "c06.hist" && toks[0] != "c06.guard") {
			continue
		}
		steps := make([]string, 0, len(toks)-1)
		for _, tk := range toks[1:] {
			steps = append(steps, strings.ReplaceAll(tk, "@", wireBase))
		}
		if toks[0] == "c06.guard" {
			out.Put(idx, "%s", runGuards(steps))
		} else {
			out.Put(idx, "%s", runHist(steps))
		}
	}
	if err := sc.Err(); err != nil {
		t.Fatal(err)
	}
}
