//go:build go1.18

package pa

import (
	"fmt"
	"os"
	"strconv"
	"strings"
	"testing"

	mocker "github.com/tencent/goom"
	"github.com/tencent/goom/internal/zzverif/c06/w"
	"github.com/tencent/goom/internal/zzverif/vh"
)

// ent is one declared method of the corpus (generated registry: reg_gen_test.go).
type ent struct {
	ID   int
	Pkg  string // package path
	T    string // reflect name of the receiver type
	Ptr  bool
	M    string
	K    int64 // the method's own constant
	NP   int   // ordinary parameters
	Call func(inst int) int64
	Mock func(b *mocker.Builder, via, pkg, raw, m string, k int)
}

// wireBase is what '@' abbreviates in the operation stream.
const wireBase = "github.com/tencent/goom/internal/zzverif/c06"

// expected original result of the call just made (the generated call function has set w.WantA)
func expect(e *ent) int64 {
	v := w.WantA*1000003 + e.K
	if e.NP >= 1 {
		v += w.WantX * 31
	}
	if e.NP >= 2 {
		v += int64(len(w.WantS))
	}
	return v
}

// snapshot calls every method of every type on three instances. Returns per entry: -1 original, k>=0 mocked by
// callback k on all instances, -2 anything else (mixed, wrong value); recv/args flags for mocked entries.
func snapshot() (state []int, recvOK, argsOK []bool) {
	state = make([]int, len(registry))
	recvOK = make([]bool, len(registry))
	argsOK = make([]bool, len(registry))
	for i := range registry {
		e := &registry[i]
		st, rok, aok := -3, true, true
		for inst := 0; inst < 3; inst++ {
			w.LastK = -1
			r := e.Call(inst)
			cur := -2
			if w.LastK >= 0 && r == w.Sentinel {
				cur = w.LastK
				rok = rok && w.LastRecvOK
				aok = aok && w.LastArgsOK
			} else if w.LastK < 0 && r == expect(e) {
				cur = -1
			}
			if st == -3 {
				st = cur
			} else if st != cur {
				st = -2
			}
		}
		state[i], recvOK[i], argsOK[i] = st, rok, aok
	}
	return
}

func classify(msg string) string {
	const pfx = "proxy func name error: "
	const sfx = ": function symbol not found"
	switch {
	case strings.HasPrefix(msg, pfx) && strings.HasSuffix(msg, sfx):
		return "nf:" + msg[len(pfx):len(msg)-len(sfx)]
	case strings.HasPrefix(msg, "method ") && strings.Contains(msg, " not found on "):
		return "err:nomethod"
	case strings.HasPrefix(msg, "proxy method error: unknown method"):
		return "err:nomethod"
	}
	return "panic:" + vh.Class(msg)
}

func try(f func()) (res string) {
	defer func() {
		if r := recover(); r != nil {
			res = classify(fmt.Sprint(r))
		}
	}()
	f()
	return "ok"
}

func runHist(steps []string) string {
	before, _, _ := snapshot()
	for i, s := range before {
		if s != -1 {
			return fmt.Sprintf("before=dirty:%d", i)
		}
	}
	b := mocker.Create()
	var res []string
	for k, tok := range steps {
		f := strings.Split(tok, "~")
		switch {
		case len(f) == 1 && f[0] == "R":
			res = append(res, try(func() { b.Reset() }))
		case len(f) == 6 && (f[0] == "SM" || f[0] == "SX"):
			eid, err := strconv.Atoi(f[5])
			if err != nil || eid < 0 || eid >= len(registry) {
				return "bad-op"
			}
			e := &registry[eid]
			if e.Pkg != f[1] || e.T != f[2] || e.Ptr != (f[3] == "1") {
				return "err:inconsistent-op"
			}
			res = append(res, try(func() { e.Mock(b, f[0], f[1], "", f[4], k) }))
		case len(f) == 5 && (f[0] == "ES" || f[0] == "EC"):
			eid, err := strconv.Atoi(f[4])
			if err != nil || eid < 0 || eid >= len(registry) {
				return "bad-op"
			}
			if f[0] == "EC" && b.PkgName() != f[1] {
				return "err:curpkg:" + b.PkgName()
			}
			res = append(res, try(func() { registry[eid].Mock(b, f[0], f[1], f[2], f[3], k) }))
		default:
			return "bad-op"
		}
	}
	during, rok, aok := snapshot()
	var hits []string
	for i, s := range during {
		switch {
		case s >= 0:
			r, a := "r+", "a+"
			if !rok[i] {
				r = "r-"
			}
			if !aok[i] {
				a = "a-"
			}
			hits = append(hits, fmt.Sprintf("%d:%d:%s:%s", i, s, r, a))
		case s == -2:
			hits = append(hits, fmt.Sprintf("%d:corrupt", i))
		}
	}
	b.Reset()
	after, _, _ := snapshot()
	clean := "clean"
	for _, s := range after {
		if s != -1 {
			clean = "dirty"
		}
	}
	return "r=" + strings.Join(res, ",") + " hit=" + strings.Join(hits, ",") + " after=" + clean
}

// TestVerifC06 runs goom's real method mocking on the operation stream.
func TestVerifC06(t *testing.T) {
	out := vh.OpenOut()
	defer out.Close()
	from, _ := strconv.Atoi(os.Getenv("VERIF_C06_FROM"))
	for _, op := range vh.ReadOps() {
		if op.Idx < from || len(op.Toks) == 0 || op.Toks[0] != "c06.hist" {
			continue
		}
		var steps []string
		for _, tk := range op.Toks[1:] {
			if tk == "|" {
				break
			}
			steps = append(steps, strings.ReplaceAll(tk, "@", wireBase))
		}
		out.Put(op.Idx, "%s", runHist(steps))
	}
}
