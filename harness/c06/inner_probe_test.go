package bytecode

import (
	"encoding/binary"
	"strconv"
	"testing"
	"unsafe"

	"github.com/tencent/goom/internal/zzverif/vh"
)

// fillers by length: instructions that are neither CALL nor INT3
var c06Fill = map[int][]byte{
	1: {0x55},
	2: {0x31, 0xc0},
	3: {0x48, 0x89, 0xe5},
	4: {0x48, 0x83, 0xec, 0x18},
	5: {0xb8, 1, 2, 3, 4},
	6: {0x81, 0xc0, 1, 2, 3, 4},
	7: {0x48, 0xc7, 0xc0, 1, 2, 3, 4},
	8: {0x48, 0x8b, 0x84, 0x24, 0x10, 0, 0, 0},
}

// TestVerifC06Inner runs the real GetInnerFunc on wrappers assembled from `c06.inner n<len> c<rel> i p ..` lines.
func TestVerifC06Inner(t *testing.T) {
	out := vh.OpenOut()
	defer out.Close()
	buf := make([]byte, 1<<17)
	const at = 1 << 16
	for _, op := range vh.ReadOps() {
		if len(op.Toks) < 2 || op.Toks[0] != "c06.inner" {
			continue
		}
		for i := range buf {
			buf[i] = 0xcc
		}
		code := buf[at:at]
		bad := op.Toks[1] == "p"
		for _, tk := range op.Toks[1:] {
			switch {
			case tk == "i":
				code = append(code, 0xcc)
			case tk == "p":
				code = append(code, funcPrologue...)
				code = append(code, 0x8b, 0x44, 0x24, 0x08)
			case tk[0] == 'n':
				n, _ := strconv.Atoi(tk[1:])
				f, ok := c06Fill[n]
				if !ok {
					bad = true
				}
				code = append(code, f...)
			case tk[0] == 'c':
				rel, err := strconv.ParseInt(tk[1:], 10, 32)
				if err != nil {
					bad = true
				}
				var b [4]byte
				binary.LittleEndian.PutUint32(b[:], uint32(int32(rel)))
				code = append(code, 0xe8, b[0], b[1], b[2], b[3])
			default:
				bad = true
			}
		}
		if bad {
			out.Put(op.Idx, "bad-op")
			continue
		}
		start := uintptr(unsafe.Pointer(&buf[at]))
		res := vh.Catch(func() string {
			in, err := GetInnerFunc(64, start)
			if err != nil {
				return "err"
			}
			if in == 0 {
				return "inner=none"
			}
			return "inner=" + strconv.FormatInt(int64(in)-int64(start), 10)
		})
		out.Put(op.Idx, "%s", res)
	}
}
