package mocker

// C19 probe: replays mock scenarios on goom's real code under ONE logging configuration per process.
//
//	c19.s <cfg> <target> <op> ; <op> ; ...        cfg: off | debug | trace | env   (only lines whose cfg equals $VERIF_C19_CFG run)
//	c19.sv <kind>:<val> <kind>:<val> ...           arg.SprintV on a vector of reflect.Values (kinds as delivered by reflect.MakeFunc)
//
// targets  f2 fv fm fp fa ms mv ia iv ip it ow ox oz         (plain / variadic / pointer+interface functions, methods, interface methods)
// ops      apply <cb> | ret <v,..> | when <a,..> <v,..> | rets <v,..>|<v,..>|.. | call <a,..> | cancel | dbg on|off|tron|troff
// cb       sum<k> | pan<k> | nilp | echo | retn
// values   int: -3   string: s<letters>   *node: nil | n<k>   interface{}: nil | i<int> | t<letters> | pn<k> | tn | z<k>
//
// Observation: T=<transcript> W=<per callback run: 1 if reached through the debug wrapper> L=<"called, args" lines logged>.
// T holds one token per op: ok | panic:<class> for configuration ops, and for calls the callbacks/originals that ran
// (with the argument tokens they received) followed by ->r:<results> or ->p:<class>.  Only T is the property's observable.

import (
	"bytes"
	"errors"
	"fmt"
	"io"
	"math"
	"os"
	"path"
	"path/filepath"
	"reflect"
	"runtime"
	"runtime/debug"
	"strconv"
	"strings"
	"testing"
	"time"
	"unsafe"

	"github.com/tencent/goom/arg"
	"github.com/tencent/goom/internal/zzverif/vh"
)

// ---- value zoo ---------------------------------------------------------------------------------------------------

type c19Node struct {
	ID     int
	Next   *c19Node
	hidden *c19Node
	name   string
	any    interface{}
}

type c19Hidden struct {
	a int
	b string
	c *int
}

type c19Deep struct {
	P  *c19Deep
	I  interface{}
	E  error
	M  map[string]*int
	S  []*c19Node
	F  func()
	C  chan int
	pp **int
}

type c19PanicStringer struct{ k int }

func (c c19PanicStringer) String() string { panic("stringer boom") }

type c19ValStringer struct{ k int }

func (c c19ValStringer) String() string { return "vs" + strconv.Itoa(c.k) }

type c19PanicErr struct{ k int }

func (c *c19PanicErr) Error() string { panic("error boom") }

type c19Box struct{ X interface{} }

type c19CountStr struct{ k int }

func (c *c19CountStr) String() string { c19Rec("!str"); return "cs" }

// c19ReStr: String() makes ONE nested call of the scenario's mocked function (bounded re-entry while the log line is rendered).
type c19ReStr struct{ k int }

var (
	c19ReHook  func()
	c19ReDepth int
)

func (c *c19ReStr) String() string {
	if c19ReHook != nil && c19ReDepth == 0 {
		c19ReDepth++
		c19Rec("!re{")
		func() {
			defer func() { recover() }()
			c19ReHook()
		}()
		c19Rec("}!")
		c19ReDepth--
	}
	return "rs"
}

type c19CountErr struct{ k int }

func (c *c19CountErr) Error() string { c19Rec("!err"); return "ce" }

// c19R is a receiver whose String() calls the very method that gets mocked.
type c19R struct{ k int }

//go:noinline
func (r *c19R) Val(a int, b string) int {
	c19Rec("orig(%d,%s)", a, c19Str(b))
	return 9000 + a + len(b)
}

func (r *c19R) String() string { return "R" + strconv.Itoa(r.Val(0, "")) }

var c19Void int

//go:noinline
func c19F0(a int) {
	c19Rec("orig(%d)", a)
	c19Void += a
}

//go:noinline
func c19LibTarget(s string) string {
	c19Void++
	return "o" + s
}

//go:noinline
func c19LibOuter(s string) string {
	c19Void += 2
	return "O" + s
}

type c19Tree struct {
	Name string
	Kids []c19Tree
}

var (
	c19Nodes [4]*c19Node
	c19Zoo   = map[int]interface{}{}
	c19Int7  = 7
)

func c19Init() {
	c19Nodes[0] = &c19Node{ID: 1}
	c19Nodes[1] = &c19Node{ID: 2}
	c19Nodes[1].Next = c19Nodes[1] // pointer cycle
	c19Nodes[1].any = c19Nodes[1]
	c19Nodes[2] = &c19Node{ID: 3, name: "hid", hidden: &c19Node{ID: 33}}
	c19Nodes[3] = &c19Node{ID: 4}
	c19Nodes[3].Next = &c19Node{ID: 5, Next: c19Nodes[3], hidden: c19Nodes[3]}
	c19Zoo[0] = c19Hidden{a: 1, b: "x", c: &c19Int7}
	c19Zoo[1] = map[string]interface{}{"b": 1, "a": nil, "c": (*c19Node)(nil)}
	c19Zoo[2] = &c19Deep{}
	c19Zoo[3] = c19PanicStringer{3}
	c19Zoo[4] = (*c19ValStringer)(nil)
	c19Zoo[5] = func() {}
	c19Zoo[6] = (chan int)(nil)
	c19Zoo[7] = math.NaN()
	c19Zoo[8] = []interface{}{1, nil, "x", (*int)(nil), []int(nil), c19Nodes[1]}
	bx := &c19Box{}
	bx.X = bx // interface -> pointer cycle (fmt prints nested pointers as addresses)
	c19Zoo[9] = bx
	c19Zoo[10] = error(&c19PanicErr{1})
	c19Zoo[11] = [3]*int{nil, &c19Int7, nil}
	c19Zoo[12] = unsafe.Pointer(&c19Int7)
	c19Zoo[13] = c19Deep{I: (*c19Deep)(nil), E: (*c19PanicErr)(nil)}
	c19Zoo[14] = (*c19PanicErr)(nil)
	c19Zoo[15] = struct{}{}
	c19Zoo[16] = &c19CountStr{}        // String() records an event: fmt runs user code (finding F27)
	c19Zoo[17] = error(&c19CountErr{}) // Error() records an event
	c19Zoo[18] = &c19ReStr{}           // String() calls the mocked function once more
	// the slice/map cycles of finding F13 (fmt recurses without bound): only ever sent in isolated child processes
	s := []interface{}{nil}
	s[0] = s
	c19Zoo[20] = s
	m := map[string]interface{}{}
	m["m"] = m
	c19Zoo[21] = m
	t := c19Tree{Name: "t", Kids: make([]c19Tree, 1)}
	t.Kids[0].Kids = t.Kids
	c19Zoo[22] = t
	c19Zoo[23] = &s
}

func c19SameRef(a, b interface{}) (same bool) {
	defer func() {
		if recover() != nil {
			same = false
		}
	}()
	va, vb := reflect.ValueOf(a), reflect.ValueOf(b)
	if !va.IsValid() || !vb.IsValid() || va.Type() != vb.Type() {
		return false
	}
	switch va.Kind() {
	case reflect.Slice:
		return va.Pointer() == vb.Pointer() && va.Len() == vb.Len()
	case reflect.Map, reflect.Func, reflect.Chan, reflect.Ptr, reflect.UnsafePointer:
		return va.Pointer() == vb.Pointer()
	case reflect.Float64:
		return math.Float64bits(va.Float()) == math.Float64bits(vb.Float())
	case reflect.Struct:
		if va.Type() == reflect.TypeOf(c19Tree{}) {
			x, y := a.(c19Tree), b.(c19Tree)
			return x.Name == y.Name && len(x.Kids) == len(y.Kids) && (len(x.Kids) == 0 || &x.Kids[0] == &y.Kids[0])
		}
		if va.Type() == reflect.TypeOf(c19Deep{}) {
			return reflect.DeepEqual(a, b)
		}
	}
	return a == b
}

func c19DescNode(p *c19Node) string {
	if p == nil {
		return "nil"
	}
	for k, n := range c19Nodes {
		if n == p {
			return "n" + strconv.Itoa(k)
		}
	}
	return "n?"
}

func c19DescAny(v interface{}) string {
	switch x := v.(type) {
	case nil:
		return "nil"
	case int:
		return "i" + strconv.Itoa(x)
	case string:
		return "t" + x
	case *c19Node:
		if x == nil {
			return "tn"
		}
		return "p" + c19DescNode(x)
	}
	for k := 0; k < 32; k++ {
		if z, ok := c19Zoo[k]; ok && c19SameRef(z, v) {
			return "z" + strconv.Itoa(k)
		}
	}
	return "?" + reflect.TypeOf(v).String()
}

func c19Str(s string) string { return "s" + s }

func c19Ints(xs []int) string {
	p := make([]string, len(xs))
	for i, x := range xs {
		p[i] = strconv.Itoa(x)
	}
	// what a callee can tell about the slice header it was handed
	if xs == nil {
		return "[" + strings.Join(p, ",") + "]nil"
	}
	return "[" + strings.Join(p, ",") + "]#" + strconv.Itoa(cap(xs))
}

// c19Poke is the last thing a `sum` callback does with its variadic parameter: a store the caller of a
// spread call f(xs...) must see.
func c19Poke(cb string, xs []int) {
	if strings.HasPrefix(cb, "sum") && len(xs) > 0 {
		xs[0] += 1000
	}
}

// ---- leaf targets for Origin placeholders: the first instructions are RIP-relative and execute ----------------------

var (
	c19LA, c19LB, c19LC = 7, 5, 11
	c19LFlag            bool
)

//go:noinline
func c19OW() int { return c19LA*3 + c19LB*5 + c19LC }

//go:noinline
func c19OX(x int) int { return c19LA + c19LB + x }

//go:noinline
func c19OZ(x int) int {
	if c19LFlag {
		return x + 1
	}
	return x + c19LA
}

var c19OrigW = func() int {
	fmt.Println("only for placeholder, will not call")
	fmt.Println("only for placeholder, will not call")
	return 0
}

var c19OrigX = func(x int) int {
	fmt.Println("only for placeholder, will not call")
	fmt.Println("only for placeholder, will not call")
	return x
}

var c19OrigZ = func(x int) int {
	fmt.Println("only for placeholder, will not call")
	fmt.Println("only for placeholder, will not call")
	return x
}

func c19Sum(xs []int) int {
	t := 0
	for _, x := range xs {
		t += x
	}
	return t
}

func c19ParseNode(s string) *c19Node {
	if s == "nil" {
		return nil
	}
	k, err := strconv.Atoi(strings.TrimPrefix(s, "n"))
	if err != nil || !strings.HasPrefix(s, "n") || k < 0 || k >= len(c19Nodes) {
		panic("bad-op")
	}
	return c19Nodes[k]
}

func c19ParseAny(s string) interface{} {
	switch {
	case s == "nil":
		return nil
	case s == "tn":
		return (*c19Node)(nil)
	case strings.HasPrefix(s, "pn"):
		return c19ParseNode(s[1:])
	case strings.HasPrefix(s, "i"):
		k, err := strconv.Atoi(s[1:])
		if err != nil {
			panic("bad-op")
		}
		return k
	case strings.HasPrefix(s, "t"):
		return s[1:]
	case strings.HasPrefix(s, "z"):
		k, err := strconv.Atoi(s[1:])
		z, ok := c19Zoo[k]
		if err != nil || !ok {
			panic("bad-op")
		}
		return z
	}
	panic("bad-op")
}

func c19ParseInt(s string) int {
	k, err := strconv.Atoi(s)
	if err != nil {
		panic("bad-op")
	}
	return k
}

func c19ParseStr(s string) string {
	if !strings.HasPrefix(s, "s") {
		panic("bad-op")
	}
	return s[1:]
}

// ---- recorder ----------------------------------------------------------------------------------------------------

var (
	c19Events []string
	c19Wraps  []byte
)

func c19Rec(format string, a ...interface{}) { c19Events = append(c19Events, fmt.Sprintf(format, a...)) }

// c19Wrapped notes whether the running callback was reached through interceptDebugInfo's MakeFunc wrapper.
func c19Wrapped() {
	// mechanism-neutral: a directly installed callback is entered by a jump from the target, a wrapped one through reflect
	pcs := make([]uintptr, 160)
	n := runtime.Callers(2, pcs)
	fr := runtime.CallersFrames(pcs[:n])
	w := byte('0')
	for {
		f, more := fr.Next()
		if strings.HasPrefix(f.Function, "reflect.") {
			w = '1'
		}
		if strings.Contains(f.Function, "c19Call") || !more {
			break
		}
	}
	c19Wraps = append(c19Wraps, w)
}

// ---- targets -----------------------------------------------------------------------------------------------------

//go:noinline
func c19F2(a int, b string) int {
	c19Rec("orig(%d,%s)", a, c19Str(b))
	return 1000 + a + len(b)
}

//go:noinline
func c19FV(xs ...int) int {
	c19Rec("orig(%s)", c19Ints(xs))
	return 2000 + c19Sum(xs)
}

//go:noinline
func c19FM(p string, xs ...int) int {
	c19Rec("orig(%s,%s)", c19Str(p), c19Ints(xs))
	return 3000 + len(p) + c19Sum(xs)
}

//go:noinline
func c19FP(p *c19Node, v interface{}) (*c19Node, interface{}) {
	c19Rec("orig(%s,%s)", c19DescNode(p), c19DescAny(v))
	return c19Nodes[0], "orig"
}

//go:noinline
func c19FA(v interface{}) int {
	c19Rec("orig(%s)", c19DescAny(v))
	return 6000
}

type c19S struct{ k int }

//go:noinline
func (s *c19S) M(a int, b string) int {
	c19Rec("orig(%d,%s)", a, c19Str(b))
	return 4000 + a + len(b)
}

//go:noinline
func (s *c19S) V(p string, xs ...int) int {
	c19Rec("orig(%s,%s)", c19Str(p), c19Ints(xs))
	return 5000 + len(p) + c19Sum(xs)
}

type c19I interface {
	A(a int, b string) int
	P(p *c19Node, v interface{}) (*c19Node, interface{})
	V(p string, xs ...int) int
}

type c19Impl struct{ k int }

//go:noinline
func (s *c19Impl) A(a int, b string) int {
	c19Rec("orig(%d,%s)", a, c19Str(b))
	return 7000 + a + len(b)
}

//go:noinline
func (s *c19Impl) P(p *c19Node, v interface{}) (*c19Node, interface{}) {
	c19Rec("orig(%s,%s)", c19DescNode(p), c19DescAny(v))
	return c19Nodes[0], "orig"
}

//go:noinline
func (s *c19Impl) V(p string, xs ...int) int {
	c19Rec("orig(%s,%s)", c19Str(p), c19Ints(xs))
	return 8000 + len(p) + c19Sum(xs)
}

// shape of a target's parameter list (without receiver): I int, S string, P *node, A interface{}, V ...int
var c19Shapes = map[string]string{"f2": "IS", "fv": "V", "fm": "SV", "fp": "PA", "fa": "A", "ms": "IS", "mv": "SV", "ia": "IS", "iv": "SV", "ip": "PA", "it": "I", "ow": "", "ox": "I", "oz": "I", "f0": "I", "rs": "IS"}

type c19Scn struct {
	tgt   string
	mock  *Builder
	recv  *c19S
	ivar  c19I
	shape string
}

func (c *c19Scn) intResult() bool { return c.shape != "PA" }

// mocker returns the (cached) mocker of the scenario's target, as a test would write it.
func (c *c19Scn) mocker() ExportedMocker {
	switch c.tgt {
	case "f2":
		return c.mock.Func(c19F2)
	case "fv":
		return c.mock.Func(c19FV)
	case "fm":
		return c.mock.Func(c19FM)
	case "fp":
		return c.mock.Func(c19FP)
	case "fa":
		return c.mock.Func(c19FA)
	case "it": // a library function goom's own console logger calls (logger.go:358 caller): finding F14
		return c.mock.Func(strconv.Itoa)
	case "ow":
		return c.mock.Func(c19OW).Origin(&c19OrigW)
	case "ox":
		return c.mock.Func(c19OX).Origin(&c19OrigX)
	case "oz":
		return c.mock.Func(c19OZ).Origin(&c19OrigZ)
	case "f0":
		return c.mock.Func(c19F0)
	case "rs":
		return c.mock.Struct(&c19R{}).Method("Val")
	case "ms":
		return c.mock.Struct(&c19S{}).Method("M")
	case "mv":
		return c.mock.Struct(&c19S{}).Method("V")
	case "ia":
		return c.mock.Interface(&c.ivar).Method("A").As(func(ctx *IContext, a int, b string) int { return 0 })
	case "iv":
		return c.mock.Interface(&c.ivar).Method("V").As(func(ctx *IContext, p string, xs ...int) int { return 0 })
	case "ip":
		return c.mock.Interface(&c.ivar).Method("P").As(func(ctx *IContext, p *c19Node, v interface{}) (*c19Node, interface{}) { return nil, nil })
	}
	panic("bad-op")
}

// callback builds the user callback `cb` with the exact signature goom demands for the target.
func (c *c19Scn) callback(cb string) interface{} {
	kind, k := cb, 0
	for _, p := range []string{"sum", "pan", "org"} {
		if strings.HasPrefix(cb, p) {
			kind, k = p, c19ParseInt(cb[len(p):])
		}
	}
	body := func(desc string, base int) int {
		c19Wrapped()
		c19Rec("cb%s(%s)", cb, desc)
		switch kind {
		case "sum":
			return k + base
		case "org": // the caller adds what the Origin placeholder returns
			return k
		case "pan":
			panic("boom" + strconv.Itoa(k))
		case "nilp":
			var p *c19Node
			return p.ID
		}
		panic("bad-op")
	}
	if isO := c.tgt == "ow" || c.tgt == "ox" || c.tgt == "oz"; kind == "org" && !isO {
		panic("bad-op")
	}
	bodyP := func(p *c19Node, v interface{}) (*c19Node, interface{}) {
		c19Wrapped()
		c19Rec("cb%s(%s,%s)", cb, c19DescNode(p), c19DescAny(v))
		switch kind {
		case "echo":
			return p, v
		case "retn":
			return nil, nil
		case "pan":
			panic("boom" + strconv.Itoa(k))
		case "nilp":
			var q *c19Node
			return q.Next, nil
		}
		panic("bad-op")
	}
	if okInt := kind == "sum" || kind == "pan" || kind == "nilp" || kind == "org"; c.intResult() && !okInt {
		panic("bad-op")
	}
	if okP := kind == "echo" || kind == "retn" || kind == "pan" || kind == "nilp"; !c.intResult() && !okP {
		panic("bad-op")
	}
	is := func(a int, b string) int { return body(fmt.Sprintf("%d,%s", a, c19Str(b)), a+len(b)) }
	sv := func(p string, xs ...int) int {
		r := body(c19Str(p)+","+c19Ints(xs), len(p)+c19Sum(xs))
		c19Poke(cb, xs)
		return r
	}
	viaOrigin := func(r int, orig func() int) int {
		if kind == "org" {
			return r + orig()
		}
		return r
	}
	switch c.tgt {
	case "f2":
		return is
	case "fv":
		return func(xs ...int) int {
			r := body(c19Ints(xs), c19Sum(xs))
			c19Poke(cb, xs)
			return r
		}
	case "ow":
		return func() int { return viaOrigin(body("", 0), func() int { return c19OrigW() }) }
	case "ox":
		return func(x int) int { return viaOrigin(body(fmt.Sprint(x), x), func() int { return c19OrigX(x) }) }
	case "oz":
		return func(x int) int { return viaOrigin(body(fmt.Sprint(x), x), func() int { return c19OrigZ(x) }) }
	case "fm":
		return sv
	case "fp":
		return bodyP
	case "fa":
		return func(v interface{}) int { return body(c19DescAny(v), 0) }
	case "it": // must not call strconv.Itoa itself
		return func(i int) string { return fmt.Sprint(body(fmt.Sprint(i), i)) }
	case "f0":
		return func(a int) { body(fmt.Sprint(a), a) }
	case "rs":
		return func(r *c19R, a int, b string) int { return is(a, b) }
	case "ms":
		return func(s *c19S, a int, b string) int { return is(a, b) }
	case "mv":
		return func(s *c19S, p string, xs ...int) int { return sv(p, xs...) }
	case "ia":
		return func(ctx *IContext, a int, b string) int { return is(a, b) }
	case "iv":
		return func(ctx *IContext, p string, xs ...int) int { return sv(p, xs...) }
	case "ip":
		return func(ctx *IContext, p *c19Node, v interface{}) (*c19Node, interface{}) { return bodyP(p, v) }
	}
	panic("bad-op")
}

// values parses a comma list of result values for the target (Return/Returns arguments).
func (c *c19Scn) results(s string) []interface{} {
	if s == "-" && c.tgt == "f0" {
		return nil // Return() without values
	}
	parts := strings.Split(s, ",")
	out := make([]interface{}, len(parts))
	for i, p := range parts {
		if c.tgt == "it" {
			out[i] = fmt.Sprint(c19ParseInt(p))
		} else if c.intResult() {
			out[i] = c19ParseInt(p)
		} else if i == 0 {
			if p == "nil" {
				out[i] = nil // Return(nil, ..) as users write it
			} else {
				out[i] = c19ParseNode(p)
			}
		} else {
			out[i] = c19ParseAny(p)
		}
	}
	return out
}

// args parses a comma list of argument tokens into typed values per the target's shape.
func (c *c19Scn) args(s string) []interface{} {
	if s == "-" {
		return nil
	}
	parts := strings.Split(s, ",")
	out := make([]interface{}, len(parts))
	for i, p := range parts {
		sh := byte('V')
		if i < len(c.shape) {
			sh = c.shape[i]
		}
		switch sh {
		case 'I', 'V':
			out[i] = c19ParseInt(p)
		case 'S':
			out[i] = c19ParseStr(p)
		case 'P':
			out[i] = c19ParseNode(p)
		case 'A':
			out[i] = c19ParseAny(p)
		}
	}
	return out
}

func c19Class(r interface{}) string {
	msg := fmt.Sprint(r)
	if e, ok := r.(error); ok {
		msg = e.Error()
	}
	switch {
	case strings.HasPrefix(msg, "boom"):
		return msg
	case strings.Contains(msg, "of non-func type"):
		return "reflect-nonfunc"
	case strings.Contains(msg, "no suitable condition"):
		return "nosuitable"
	case strings.Contains(msg, "nil pointer dereference"):
		return "nilderef"
	case strings.Contains(msg, "returns lenth not match") || strings.Contains(msg, "args length not match"):
		return "lenerr" // CreateWhen's checkParams (both constructors build the same error type)
	case strings.Contains(msg, "Return Value ("):
		return "reterr"
	case strings.Contains(msg, "Call When("):
		return "whenerr"
	case strings.Contains(msg, "method not implements"):
		return "notimpl"
	case strings.Contains(msg, "reflect"):
		return "reflect-" + vh.Class(msg)
	case msg == "bad-op":
		return "bad-op"
	}
	return "other-" + vh.Class(msg)
}

// c19Call invokes the target the way compiled client code does.
func (c *c19Scn) c19Call(a []interface{}) (res string) {
	defer func() {
		if r := recover(); r != nil {
			c19PTag(r)
			res = "->p:" + c19Class(r)
		}
	}()
	var spread []int // the caller's own slice of a spread call f(xs...); nil when there are no variadic arguments
	ints := func(from int) []int {
		if n := len(a) - from; n > 0 {
			spread = make([]int, 0, n)
			for _, v := range a[from:] {
				spread = append(spread, v.(int))
			}
		}
		return spread
	}
	first := 0
	alias := func() string {
		if len(spread) == 0 {
			return ""
		}
		if spread[0] != first {
			return "~a1" // a callee's store into xs[0] reached the caller
		}
		return "~a0"
	}
	setFirst := func(xs []int) []int {
		if len(xs) > 0 {
			first = xs[0]
		}
		return xs
	}
	nev := len(c19Events)
	var r int
	switch c.tgt {
	case "f2":
		r = c19F2(a[0].(int), a[1].(string))
	case "fv":
		r = c19FV(setFirst(ints(0))...)
	case "fm":
		r = c19FM(a[0].(string), setFirst(ints(1))...)
	case "fa":
		r = c19FA(a[0])
	case "it":
		return "->r:" + strconv.Itoa(a[0].(int))
	case "ow", "ox", "oz":
		c19Fault(func() {
			switch c.tgt {
			case "ow":
				r = c19OW()
			case "ox":
				r = c19OX(a[0].(int))
			default:
				r = c19OZ(a[0].(int))
			}
		})
		if len(c19Events) == nev { // the leaf originals cannot record: no callback ran, so the original did
			d := ""
			if len(a) > 0 {
				d = fmt.Sprint(a[0])
			}
			c19Rec("orig(%s)", d)
		}
	case "f0":
		c19F0(a[0].(int))
		return "->r:"
	case "rs":
		r = (&c19R{}).Val(a[0].(int), a[1].(string))
	case "ms":
		r = c.recv.M(a[0].(int), a[1].(string))
	case "mv":
		r = c.recv.V(a[0].(string), setFirst(ints(1))...)
	case "ia":
		r = c.ivar.A(a[0].(int), a[1].(string))
	case "iv":
		r = c.ivar.V(a[0].(string), setFirst(ints(1))...)
	case "fp", "ip":
		var p *c19Node
		if a[0] != nil {
			p = a[0].(*c19Node)
		}
		var rp *c19Node
		var rv interface{}
		if c.tgt == "fp" {
			rp, rv = c19FP(p, a[1])
		} else {
			rp, rv = c.ivar.P(p, a[1])
		}
		return "->r:" + c19DescNode(rp) + "," + c19DescAny(rv)
	default:
		panic("bad-op")
	}
	return "->r:" + strconv.Itoa(r) + alias()
}

// c19Fault turns a wild memory access in relocated code into a panic instead of killing the process.
func c19Fault(f func()) {
	defer debug.SetPanicOnFault(debug.SetPanicOnFault(true))
	f()
}

var c19PTags []byte

// c19PTag notes the dynamic kind of a panic value: s string, r runtime.Error, e other error, o anything else.
func c19PTag(r interface{}) {
	t := byte('o')
	switch r.(type) {
	case string:
		t = 's'
	case runtime.Error:
		t = 'r'
	case error:
		t = 'e'
	}
	c19PTags = append(c19PTags, t)
}

func c19Guard(f func()) (res string) {
	defer func() {
		if r := recover(); r != nil {
			c19PTag(r)
			res = "panic:" + c19Class(r)
		}
	}()
	f()
	return "ok"
}

func c19SplitOps(toks []string) [][]string {
	var ops [][]string
	var cur []string
	for _, t := range toks {
		if t == ";" {
			ops = append(ops, cur)
			cur = nil
		} else {
			cur = append(cur, t)
		}
	}
	return append(ops, cur)
}

func c19RunScenario(toks []string, logf *os.File) string {
	if len(toks) < 4 {
		return "bad-op"
	}
	shape, ok := c19Shapes[toks[2]]
	if !ok {
		return "bad-op"
	}
	c := &c19Scn{tgt: toks[2], mock: Create(), recv: &c19S{}, ivar: &c19Impl{}, shape: shape}
	c19Events, c19Wraps, c19PTags = nil, nil, nil
	c19ReDepth, c19ReHook = 0, nil
	switch c.tgt {
	case "fp":
		c19ReHook = func() { c19FP(nil, 5) }
	case "ip":
		c19ReHook = func() { c.ivar.P(nil, 5) }
	case "fa":
		c19ReHook = func() { c19FA(5) }
	}
	L := 0
	logf.Seek(0, 0)
	var T []string
	for _, op := range c19SplitOps(toks[3:]) {
		if len(op) == 0 {
			return "bad-op"
		}
		c19Events = c19Events[:0]
		var r string
		switch {
		case op[0] == "apply" && len(op) == 2:
			r = c19Guard(func() { c.mocker().Apply(c.callback(op[1])) })
		case op[0] == "applybad" && len(op) == 1:
			r = c19Guard(func() { c.mocker().Apply(42) })
		case op[0] == "ret" && len(op) == 2:
			r = c19Guard(func() { c.mocker().Return(c.results(op[1])...) })
		case op[0] == "when" && len(op) == 3:
			r = c19Guard(func() { c.mocker().When(c.args(op[1])...).Return(c.results(op[2])...) })
		case op[0] == "rets" && len(op) == 2:
			r = c19Guard(func() {
				var seq []interface{}
				for _, t := range strings.Split(op[1], "|") {
					seq = append(seq, c.results(t))
				}
				c.mocker().Returns(seq...)
			})
		case op[0] == "call" && len(op) == 2:
			var a []interface{}
			if g := c19Guard(func() { a = c.args(op[1]) }); g != "ok" {
				return "bad-op"
			}
			if n := len(shape); len(a) < n-1 || ((n == 0 || shape[n-1] != 'V') && len(a) != n) {
				return "bad-op"
			}
			p0, _ := logf.Seek(0, 1)
			res := c.c19Call(a)
			if p1, _ := logf.Seek(0, 1); p1 > p0 { // console lines written while the call ran (wording is free)
				buf := make([]byte, p1-p0)
				logf.ReadAt(buf, p0)
				L += bytes.Count(buf, []byte("\n"))
			}
			r = strings.Join(c19Events, "") + res
		case op[0] == "cancel" && len(op) == 1:
			r = c19Guard(func() { c.mock.Reset() })
		case op[0] == "dbg" && len(op) == 2:
			switch op[1] {
			case "on":
				OpenDebug()
			case "off":
				CloseDebug()
			case "tron":
				OpenTrace()
			case "troff":
				CloseTrace()
			default:
				return "bad-op"
			}
			r = "ok"
		default:
			return "bad-op"
		}
		if strings.Contains(r, "bad-op") {
			return "bad-op"
		}
		T = append(T, r)
	}
	c19Guard(func() { c.mock.Reset() })
	logf.Truncate(0) // the log text is never compared; keep the file small
	logf.Seek(0, 0)
	w := string(c19Wraps)
	if w == "" {
		w = "-"
	}
	pt := string(c19PTags)
	if pt == "" {
		pt = "-"
	}
	return fmt.Sprintf("T=%s P=%s W=%s L=%d", strings.Join(T, "|"), pt, w, L)
}

// ---- SprintV lane ------------------------------------------------------------------------------------------------

// c19Value builds a reflect.Value with the Kind a MakeFunc parameter of that static type would have.
func c19Value(tok string) reflect.Value {
	i := strings.IndexByte(tok, ':')
	if i < 0 {
		panic("bad-op")
	}
	kind, val := tok[:i], tok[i+1:]
	switch kind {
	case "I":
		return reflect.ValueOf(c19ParseInt(val))
	case "S":
		return reflect.ValueOf(c19ParseStr(val))
	case "P":
		return reflect.ValueOf(c19ParseNode(val))
	case "A": // static type interface{}: Kind() == Interface
		x := c19ParseAny(val)
		return reflect.ValueOf(&x).Elem()
	case "E": // static type error
		var e error
		if val != "nil" {
			e = errors.New(c19ParseStr(val))
		}
		return reflect.ValueOf(&e).Elem()
	case "V": // packed variadic []int ("-" = nil slice, as the compiler passes for no arguments)
		var xs []int
		if val != "-" {
			for _, p := range strings.Split(val, ".") {
				xs = append(xs, c19ParseInt(p))
			}
		}
		return reflect.ValueOf(xs)
	case "M": // nil map
		return reflect.ValueOf(map[string]int(nil))
	case "Q": // **int nil / pointer to nil pointer
		var p *int
		if val == "nil" {
			return reflect.ValueOf((**int)(nil))
		}
		return reflect.ValueOf(&p)
	}
	panic("bad-op")
}

var c19Hex = func(s string) string { // mask addresses
	var b strings.Builder
	for i := 0; i < len(s); i++ {
		if s[i] == '0' && i+1 < len(s) && s[i+1] == 'x' {
			j := i + 2
			for j < len(s) && strings.IndexByte("0123456789abcdef", s[j]) >= 0 {
				j++
			}
			b.WriteString("ADDR")
			i = j - 1
			continue
		}
		b.WriteByte(s[i])
	}
	return b.String()
}

func c19RunSprintV(toks []string) (res string) {
	defer func() {
		if r := recover(); r != nil {
			if fmt.Sprint(r) == "bad-op" {
				res = "bad-op"
			} else {
				res = "panic:" + c19Class(r)
			}
		}
	}()
	vs := make([]reflect.Value, 0, len(toks)-1)
	for _, t := range toks[1:] {
		vs = append(vs, c19Value(t))
	}
	return "sv=" + strings.ReplaceAll(c19Hex(arg.SprintV(vs)), " ", "_")
}

// ---- library lane: functions that are NOT on the logger's path on the unchanged tree ----------------------------------

// c19RunLib mocks one standard-library function with a callback, calls it once, resets.  Between Apply and Reset the
// probe itself uses none of the functions of the lane (no fmt, no strings, no strconv, no path).
func c19RunLib(fn string) (res string) {
	n := 0
	r := ""
	mock := Create()
	defer func() {
		if p := recover(); p != nil {
			mock.Reset()
			res = "lib panic:" + c19Class(p)
		}
	}()
	one := func(v int) string {
		if v == 7 {
			return "m"
		}
		return "?"
	}
	if strings.HasPrefix(fn, "sites") {
		if fn != "sites"+strconv.Itoa(len(c19Sites)) {
			return "bad-op"
		}
		fn = "sites"
	}
	switch fn {
	case "fmt.Print":
		mock.Func(fmt.Print).Apply(func(a ...interface{}) (int, error) { n++; return 7, nil })
		v, _ := fmt.Print("x")
		r = one(v)
	case "fmt.Println":
		mock.Func(fmt.Println).Apply(func(a ...interface{}) (int, error) { n++; return 7, nil })
		v, _ := fmt.Println("x")
		r = one(v)
	case "fmt.Fprint":
		mock.Func(fmt.Fprint).Apply(func(w io.Writer, a ...interface{}) (int, error) { n++; return 7, nil })
		v, _ := fmt.Fprint(io.Discard, "x")
		r = one(v)
	case "fmt.Sprint":
		mock.Func(fmt.Sprint).Apply(func(a ...interface{}) string { n++; return "m" })
		r = fmt.Sprint("x", 1)
	case "fmt.Sprintln":
		mock.Func(fmt.Sprintln).Apply(func(a ...interface{}) string { n++; return "m" })
		r = fmt.Sprintln("x", 1)
	case "strings.Repeat":
		mock.Func(strings.Repeat).Apply(func(s string, c int) string { n++; return "m" })
		r = strings.Repeat("x", 3)
	case "strings.ToUpper":
		mock.Func(strings.ToUpper).Apply(func(s string) string { n++; return "m" })
		r = strings.ToUpper("x")
	case "strings.TrimSpace":
		mock.Func(strings.TrimSpace).Apply(func(s string) string { n++; return "m" })
		r = strings.TrimSpace(" x ")
	case "strconv.Quote":
		mock.Func(strconv.Quote).Apply(func(s string) string { n++; return "m" })
		r = strconv.Quote("x")
	case "strconv.FormatBool":
		mock.Func(strconv.FormatBool).Apply(func(b bool) string { n++; return "m" })
		r = strconv.FormatBool(true)
	case "path.Join":
		mock.Func(path.Join).Apply(func(e ...string) string { n++; return "m" })
		r = path.Join("a", "b")
	case "filepath.Base":
		mock.Func(filepath.Base).Apply(func(p string) string { n++; return "m" })
		r = filepath.Base("/a/b")
	case "byname.func": // the ExportFunc call site of interceptDebugInfo (mocker.go UnexportedFuncMocker.Apply)
		mock.ExportFunc("c19LibTarget").Apply(func(s string) string { n++; return "m" })
		r = c19LibTarget("x")
	case "byname.method": // ExportStruct(..).Method(..) (UnexportedMethodMocker.Apply)
		mock.ExportStruct("*c19S").Method("M").Apply(func(s *c19S, a int, b string) int { n++; return 7 })
		r = one((&c19S{}).M(1, "s"))
	case "two.nested": // two mockers alive; the callback of one calls the other mocked function
		mock.Func(c19LibTarget).Apply(func(s string) string { n++; return "m" })
		mock.Func(c19LibOuter).Apply(func(s string) string { n++; return c19LibTarget(s) })
		r = c19LibOuter("x")
	case "two.timenow": // time.Now mocked first, then another function: its log line calls the mocked time.Now
		mock.Func(time.Now).Apply(func() time.Time { return time.Unix(1234567, 0) })
		mock.Func(c19LibTarget).Apply(func(s string) string { n++; return "m" })
		r = c19LibTarget("x")
	case "sites": // one mocked function called from c19NSites distinct source lines (generated file)
		mock.Func(c19LibTarget).Apply(func(s string) string { n++; return "m" })
		r = "m"
		for _, f := range c19Sites {
			if f() != "m" {
				r = "?"
			}
		}
	case "tiny.const/apply": // first thing this process does to the target, so no function-size cache is warm
		mock.Func(c19TinyConst).Apply(func() int { n++; return 7 })
		r = one(c19TinyConst())
	case "tiny.const/ret":
		mock.Func(c19TinyConst).Return(7)
		n = 1
		r = one(c19TinyConst())
	case "tiny.getter/apply":
		mock.Struct(&c19G{}).Method("Get").Apply(func(g *c19G) int { n++; return 7 })
		r = one((&c19G{v: 1}).Get())
	case "tiny.getter/ret":
		mock.Struct(&c19G{}).Method("Get").Return(7)
		n = 1
		r = one((&c19G{v: 1}).Get())
	case "tiny.neg/apply":
		mock.Func(c19TinyNeg).Apply(func(x int) int { n++; return 7 })
		r = one(c19TinyNeg(3))
	case "time.Now/func", "time.Now/name", "time.Now/ret", "time.Now/as":
		// time.Now through every handle kind; the logger calls time.Now itself (debug.go:14 excludes it from call logging),
		// so only what OUR call sees is recorded, not how often the callback ran
		fixed := time.Unix(1234567, 0)
		switch fn {
		case "time.Now/func":
			mock.Func(time.Now).Apply(func() time.Time { n++; return fixed })
		case "time.Now/name":
			mock.Pkg("time").ExportFunc("Now").Apply(func() time.Time { n++; return fixed })
		case "time.Now/ret":
			mock.Func(time.Now).Return(fixed)
		default:
			mock.Pkg("time").ExportFunc("Now").As(func() time.Time { return time.Time{} }).Return(fixed)
		}
		got := time.Now()
		mock.Reset()
		if got.Equal(fixed) {
			return "lib r=m"
		}
		return "lib r=?"
	default:
		return "bad-op"
	}
	mock.Reset()
	return "lib n=" + strconv.Itoa(n) + " r=" + r
}

// ---- variable mocks ----------------------------------------------------------------------------------------------------

var (
	c19VarP *c19Node // nil before the mock (a lazily initialised singleton)
	c19VarQ *c19Node // set in c19Init
	c19VarI = 7
	c19varUP *c19Node
	c19varUQ *c19Node
	c19varUI = 7
)

// c19RunVar: `c19.v <cfg> <var> <op> ; ...` with ops set <v> | apply <v> | reset | read | dbg ..
func c19RunVar(toks []string, logf *os.File) string {
	if len(toks) < 4 {
		return "bad-op"
	}
	c19VarP, c19VarQ, c19VarI, c19varUP, c19varUQ, c19varUI = nil, c19Nodes[0], 7, nil, c19Nodes[0], 7
	mock := Create()
	const pkg = "github.com/tencent/goom."
	kind := toks[2]
	isPtr := kind[1] != 'i'
	handle := func() VarMock {
		switch kind {
		case "vp":
			return mock.Var(&c19VarP)
		case "vq":
			return mock.Var(&c19VarQ)
		case "vi":
			return mock.Var(&c19VarI)
		case "up":
			return mock.UnExportedVar(pkg + "c19varUP")
		case "uq":
			return mock.UnExportedVar(pkg + "c19varUQ")
		case "ui":
			return mock.UnExportedVar(pkg + "c19varUI")
		}
		panic("bad-op")
	}
	read := func() string {
		switch kind {
		case "vp":
			return c19DescNode(c19VarP)
		case "vq":
			return c19DescNode(c19VarQ)
		case "vi":
			return strconv.Itoa(c19VarI)
		case "up":
			return c19DescNode(c19varUP)
		case "uq":
			return c19DescNode(c19varUQ)
		case "ui":
			return strconv.Itoa(c19varUI)
		}
		panic("bad-op")
	}
	c19PTags = nil
	L := 0
	logf.Seek(0, 0)
	var T []string
	for _, op := range c19SplitOps(toks[3:]) {
		if len(op) == 0 {
			return "bad-op"
		}
		r := "bad-op"
		switch {
		case (op[0] == "set" || op[0] == "apply") && len(op) == 2:
			var v interface{}
			if g := c19Guard(func() {
				if isPtr {
					v = c19ParseNode(op[1]) // typed: (*c19Node)(nil) for "nil"
				} else {
					v = c19ParseInt(op[1])
				}
			}); g != "ok" {
				return "bad-op"
			}
			p0, _ := logf.Seek(0, 1)
			r = c19Guard(func() {
				if op[0] == "set" {
					handle().Set(v)
				} else if isPtr {
					handle().Apply(func() *c19Node { return v.(*c19Node) })
				} else {
					handle().Apply(func() int { return v.(int) })
				}
			})
			if p1, _ := logf.Seek(0, 1); p1 > p0 {
				buf := make([]byte, p1-p0)
				logf.ReadAt(buf, p0)
				L += bytes.Count(buf, []byte("\n"))
			}
		case op[0] == "reset" && len(op) == 1:
			r = c19Guard(func() { mock.Reset() })
		case op[0] == "read" && len(op) == 1:
			r = read()
		case op[0] == "dbg" && len(op) == 2:
			switch op[1] {
			case "on":
				OpenDebug()
			case "off":
				CloseDebug()
			case "tron":
				OpenTrace()
			case "troff":
				CloseTrace()
			default:
				return "bad-op"
			}
			r = "ok"
		}
		if strings.Contains(r, "bad-op") {
			return "bad-op"
		}
		T = append(T, r)
	}
	c19Guard(func() { mock.Reset() })
	logf.Truncate(0)
	logf.Seek(0, 0)
	pt := string(c19PTags)
	if pt == "" {
		pt = "-"
	}
	return fmt.Sprintf("T=%s P=%s W=- L=%d", strings.Join(T, "|"), pt, L)
}

// ---- tiny targets: the function's own instructions are shorter than the 13-byte jump (it spills into the padding) ----

//go:noinline
func c19TinyConst() int { return 42 }

type c19G struct{ v int }

//go:noinline
func (g *c19G) Get() int { return g.v }

//go:noinline
func c19TinyNeg(x int) int { return -x }

func c19HasCycle(toks []string) bool {
	for _, t := range toks {
		for _, v := range strings.Split(t, ",") {
			if len(v) == 3 && v[0] == 'z' && v[1] == '2' {
				return true
			}
		}
	}
	return false
}

func TestVerifC19(t *testing.T) {
	cfg := os.Getenv("VERIF_C19_CFG")
	if ms := os.Getenv("VERIF_C19_MAXSTACK"); ms != "" {
		n, _ := strconv.Atoi(ms)
		debug.SetMaxStack(n)
	}
	logf, err := os.OpenFile(os.Getenv("VERIF_C19_LOG"), os.O_CREATE|os.O_RDWR|os.O_TRUNC, 0o644)
	if err != nil {
		t.Fatal(err)
	}
	realStdout := os.Stdout
	os.Stdout = logf // goom's logger writes to os.Stdout; the log text is counted, never compared
	defer func() { os.Stdout = realStdout }()
	c19Init()
	switch cfg {
	case "debug":
		OpenDebug()
	case "trace":
		OpenTrace()
	case "env":
		if os.Getenv("GOOM_DEBUG") == "" {
			t.Fatal("env configuration needs GOOM_DEBUG in the process environment")
		}
	case "off":
		if os.Getenv("GOOM_DEBUG") != "" {
			t.Fatal("off configuration must not have GOOM_DEBUG set")
		}
	default:
		t.Fatal("VERIF_C19_CFG not set")
	}
	out := vh.OpenOut()
	defer out.Close()
	// c19.h lines run in a process whose HOME does not exist: goom's logger cannot open its private log file
	nohome := os.Getenv("VERIF_C19_NOHOME") != ""
	if nohome {
		if _, err := os.Stat(os.Getenv("HOME")); err == nil {
			t.Fatal("VERIF_C19_NOHOME needs a HOME that does not exist")
		}
	}
	dirty := false
	start, _ := strconv.Atoi(os.Getenv("VERIF_START"))
	for _, op := range vh.ReadOps() {
		if len(op.Toks) == 0 || op.Idx < start {
			continue
		}
		switch op.Toks[0] {
		case "c19.s", "c19.h":
			if (op.Toks[0] == "c19.h") != nohome {
				continue
			}
			if len(op.Toks) < 2 || op.Toks[1] != cfg {
				continue
			}
			if os.Getenv("VERIF_C19_ISOLATED") == "" && (c19HasCycle(op.Toks) || (len(op.Toks) > 2 && (op.Toks[2] == "it" || op.Toks[2] == "rs" || op.Toks[2][0] == 'o'))) {
				continue // slice/map cycles (F13) only run in a child process of their own
			}
			if dirty { // a previous scenario toggled the switches: put the process configuration back
				switch cfg {
				case "off":
					CloseTrace()
				case "debug", "env":
					CloseTrace()
					OpenDebug()
				case "trace":
					OpenTrace()
				}
			}
			dirty = strings.Contains(op.Line, " dbg ")
			out.Put(op.Idx, "%s", c19RunScenario(op.Toks, logf))
		case "c19.v":
			if nohome || len(op.Toks) < 2 || op.Toks[1] != cfg {
				continue
			}
			if dirty {
				switch cfg {
				case "off":
					CloseTrace()
				case "debug", "env":
					CloseTrace()
					OpenDebug()
				case "trace":
					OpenTrace()
				}
			}
			dirty = strings.Contains(op.Line, " dbg ")
			out.Put(op.Idx, "%s", c19RunVar(op.Toks, logf))
		case "c19.lib":
			if len(op.Toks) == 3 && op.Toks[1] == cfg && os.Getenv("VERIF_C19_ISOLATED") != "" {
				out.Put(op.Idx, "%s", c19RunLib(op.Toks[2]))
			}
		case "c19.sv":
			if cfg == "off" {
				out.Put(op.Idx, "%s", c19RunSprintV(op.Toks))
			}
		}
	}
}
