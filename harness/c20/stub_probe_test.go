package stub

// Probe for property C20, injected into package stub with `go test -overlay` (nothing is written to the repository).
// It runs the REAL allocator (Acquire / acquireFromHolder / Write) on the operation stream and reports canonical
// observations: reserve-relative offsets, never absolute addresses (except in c20.info).

import (
	"bufio"
	"fmt"
	"os"
	"runtime"
	"runtime/debug"
	"sort"
	"strconv"
	"strings"
	"sync"
	"sync/atomic"
	"syscall"
	"testing"
	"unsafe"

	"github.com/tencent/goom/internal/zzverif/vh"
)

type c20region struct{ addr, n uintptr }

// c20live: every mmap-type region handed out in this process (they are never unmapped by goom).
var c20live []c20region

// c20funcExtent: extent of the function containing pc according to the runtime's pclntab (independent of goom's scan).
func c20funcExtent(pc uintptr) (string, uintptr, uintptr) {
	f := runtime.FuncForPC(pc)
	if f == nil {
		return "?", 0, 0
	}
	entry := f.Entry()
	end := pc
	for {
		g := runtime.FuncForPC(end)
		if g == nil || g.Entry() != entry {
			break
		}
		end++
		if end-entry > 1<<22 {
			break
		}
	}
	return f.Name(), entry, end
}

// c20perms returns the permission string of the mapping containing addr ("" if unmapped).
func c20perms(addr uintptr) string {
	f, err := os.Open("/proc/self/maps")
	if err != nil {
		return "?"
	}
	defer f.Close()
	sc := bufio.NewScanner(f)
	for sc.Scan() {
		fs := strings.Fields(sc.Text())
		if len(fs) < 2 {
			continue
		}
		r := strings.SplitN(fs[0], "-", 2)
		lo, _ := strconv.ParseUint(r[0], 16, 64)
		hi, _ := strconv.ParseUint(r[1], 16, 64)
		if uint64(addr) >= lo && uint64(addr) < hi {
			return fs[1]
		}
	}
	return ""
}

// c20call calls the machine code at addr as a func() (it must return).
func c20call(addr uintptr) {
	fv := &struct{ fn uintptr }{addr}
	f := *(*func())(unsafe.Pointer(&fv))
	f()
}

// c20write calls stub.Write; a memory fault inside the writer (SIGSEGV on a protected page) becomes an error.
func c20write(s *Space, data []byte) (err error) {
	old := debug.SetPanicOnFault(true)
	defer debug.SetPanicOnFault(old)
	defer func() {
		if r := recover(); r != nil {
			err = fmt.Errorf("fault: %v", r)
		}
	}()
	return Write(s, data)
}

// c20denyMappings makes every NEW mapping fail with ENOMEM (soft RLIMIT_AS of one page; existing mappings, mprotect and
// MAP_FIXED inside the Go heap's reserved arena are unaffected), which is what stub.Acquire sees where anonymous W+X
// mappings are unavailable.  The returned func restores the limit.
func c20denyMappings() (func(), bool) {
	var old syscall.Rlimit
	if err := syscall.Getrlimit(syscall.RLIMIT_AS, &old); err != nil {
		return func() {}, false
	}
	lim := old
	lim.Cur = 4096
	if err := syscall.Setrlimit(syscall.RLIMIT_AS, &lim); err != nil {
		return func() {}, false
	}
	return func() { _ = syscall.Setrlimit(syscall.RLIMIT_AS, &old) }, true
}

// c20kernelGrants reports whether the kernel grants an anonymous RWX mapping of n bytes right now (the oracle of the model).
func c20kernelGrants(n int) bool {
	b, err := syscall.Mmap(-1, 0, n, syscall.PROT_READ|syscall.PROT_WRITE|syscall.PROT_EXEC, syscall.MAP_SHARED|syscall.MAP_ANON)
	if err != nil {
		return false
	}
	_ = syscall.Munmap(b)
	return true
}

// c20check examines one returned Space: slice/address consistency, writability through stub.Write, executability.
// It returns "" or a string of !flags.
func c20check(s *Space, want int, seq uint64, fentry, fend uintptr) string {
	flags := ""
	if s.Space == nil {
		return "!slice"
	}
	if len(*s.Space) < 0 || want < 0 {
		return "!negative-length-region"
	}
	if len(*s.Space) < want || cap(*s.Space) < len(*s.Space) { // "at least as large as requested"
		return "!slice"
	}
	if want > 0 && uintptr(unsafe.Pointer(&(*s.Space)[0])) != s.Addr {
		flags += "!slice"
	}
	if s.typ == TypeMMap {
		for _, r := range c20live {
			if s.Addr < r.addr+r.n && r.addr < s.Addr+uintptr(want) {
				flags += "!overlap"
				break
			}
		}
		if s.Addr < fend && fentry < s.Addr+uintptr(want) {
			flags += "!overlap-reserve"
		}
		c20live = append(c20live, c20region{s.Addr, uintptr(want)})
	}
	if want == 0 {
		return flags
	}
	n := want
	if n > 1<<16 {
		n = 1 << 16 // write the first 64 KiB of very large mappings only
	}
	// "writable through the provided writer" is a property of EVERY write, not of the first one: the owner of a region
	// re-generates its stub in place.  Write 2-4 times with different contents and read back after each write; a memory
	// fault inside the writer is turned into an observation.
	got := *(*[]byte)(unsafe.Pointer(&struct {
		p    uintptr
		l, c int
	}{s.Addr, n, n}))
	data := make([]byte, n)
	rounds := 2 + int(seq%3)
	for r := 0; r < rounds; r++ {
		for i := range data {
			data[i] = byte(seq*131 + uint64(i)*7 + 1 + uint64(r)*29)
		}
		data[0] = 0xC3 // RET
		if err := c20write(s, data); err != nil {
			if strings.Contains(err.Error(), "fault") {
				return flags + fmt.Sprintf("!write-fault-on-write-%d", r+1)
			}
			return flags + fmt.Sprintf("!write-err-on-write-%d", r+1)
		}
		for i := range data {
			if got[i] != data[i] {
				return flags + fmt.Sprintf("!readback-after-write-%d", r+1)
			}
		}
		// the protection the writer leaves behind must allow the next write through the same writer and execution
		pm := c20perms(s.Addr)
		if s.typ == TypeMMap && !strings.Contains(pm, "w") {
			flags += fmt.Sprintf("!mapping-not-writable-after-write-%d", r+1)
			break
		}
	}
	p1, p2 := c20perms(s.Addr), c20perms(s.Addr+uintptr(want)-1)
	if !strings.Contains(p1, "x") || !strings.Contains(p2, "x") {
		return flags + "!noexec"
	}
	c20call(s.Addr)
	return flags
}

func c20seq(toks []string, fentry, fend uintptr) string {
	min, max := uintptr(vh.U64(toks[2])), uintptr(vh.U64(toks[3]))
	if placeHolderIns.min != min || placeHolderIns.max != max {
		return "env-mismatch geometry"
	}
	if strings.HasPrefix(toks[1], "pristine:") {
		if atomic.LoadUintptr(&placeHolderIns.off) != uintptr(vh.U64(toks[1][9:])) {
			return "env-mismatch off"
		}
	} else {
		atomic.StoreUintptr(&placeHolderIns.off, uintptr(vh.U64(toks[1])))
	}
	var out []string
	var mapped []*Space
	for k, rq := range toks[4:] {
		n64, err := strconv.ParseInt(rq[1:], 0, 64)
		if err != nil || n64 > 1<<62 || n64 < -(1<<62) {
			return "bad-op"
		}
		n := int(n64)
		var sp *Space
		switch rq[0] {
		case 'h':
			if a, b, err := acquireFromHolder(n); err == nil {
				sp = &Space{Addr: a, Space: b, typ: TypeHolder}
			}
		case 'd': // the real Acquire while the kernel refuses every new mapping: the fallback runs for requests that fit
			restore, ok := c20denyMappings()
			granted := !ok || c20kernelGrants(4096)
			var s *Space
			var err error
			if !granted {
				s, err = Acquire(n)
			}
			restore()
			if granted {
				return "env-mismatch cannot deny mappings"
			}
			if (s == nil) != (err != nil) {
				out = append(out, "!nil-and-err")
				continue
			}
			sp = s
		case 'm', 'f':
			if c20kernelGrants(n) != (rq[0] == 'm') {
				return "env-mismatch kernel answer for " + rq
			}
			s, err := Acquire(n)
			if (s == nil) != (err != nil) {
				out = append(out, "!nil-and-err")
				continue
			}
			sp = s
		default:
			return "bad-op"
		}
		if sp == nil {
			out = append(out, "E")
			continue
		}
		flags := c20check(sp, n, uint64(k), fentry, fend)
		if sp.typ == TypeMMap && sp.Space != nil && len(*sp.Space) > 0 {
			mapped = append(mapped, sp)
		}
		switch sp.typ {
		case TypeHolder:
			out = append(out, fmt.Sprintf("H+%d:%d%s", int64(sp.Addr)-int64(min), len(*sp.Space), flags))
		case TypeMMap:
			out = append(out, fmt.Sprintf("M:%d%s", len(*sp.Space), flags))
		default:
			out = append(out, "?typ")
		}
	}
	out = append(out, fmt.Sprintf("off=+%d", int64(atomic.LoadUintptr(&placeHolderIns.off))-int64(min)))
	// goom never unmaps; the probe does at the end of each history so that long runs do not pile up mappings
	for _, m := range mapped {
		_ = syscall.Munmap(*m.Space)
	}
	c20live = c20live[:0]
	return strings.Join(out, " ")
}

type c20rec struct {
	inv, resp uint64
	addr      uintptr
	ok        bool
	n         int
	viaAcq    bool    // issued through the real Acquire (primary path) instead of acquireFromHolder
	typ       int     // type of the Space when viaAcq
	sl        *[]byte // the slice handed out with the address
}

// c20crun: T goroutines released from a spin barrier, each issuing its requests back to back.
func c20crun(toks []string) string {
	min, max := uintptr(vh.U64(toks[2])), uintptr(vh.U64(toks[3]))
	if placeHolderIns.min != min || placeHolderIns.max != max {
		return "env-mismatch geometry"
	}
	stamps := toks[4] == "stamps"
	per := strings.Split(toks[5], "/")
	T := len(per)
	recs := make([][]c20rec, T)
	for t, p := range per {
		for _, x := range strings.Split(p, ",") {
			via := strings.HasPrefix(x, "a")
			n, err := strconv.Atoi(strings.TrimPrefix(x, "a"))
			if err != nil || n < 0 {
				return "bad-op"
			}
			recs[t] = append(recs[t], c20rec{n: n, viaAcq: via})
		}
	}
	old := runtime.GOMAXPROCS(0)
	if T+1 > old {
		runtime.GOMAXPROCS(T + 1)
	}
	defer runtime.GOMAXPROCS(old)
	atomic.StoreUintptr(&placeHolderIns.off, uintptr(vh.U64(toks[1])))
	var ready int32
	var clock uint64
	var wg sync.WaitGroup
	for t := 0; t < T; t++ {
		wg.Add(1)
		go func(rs []c20rec) {
			defer wg.Done()
			runtime.LockOSThread()
			atomic.AddInt32(&ready, 1)
			for atomic.LoadInt32(&ready) < int32(T) { // spin: all requesters are running before the first request
			}
			for i := range rs {
				if stamps {
					rs[i].inv = atomic.AddUint64(&clock, 1)
				}
				if rs[i].viaAcq {
					sp, err := Acquire(rs[i].n)
					if stamps {
						rs[i].resp = atomic.AddUint64(&clock, 1)
					}
					if err == nil && sp != nil {
						rs[i].addr, rs[i].ok, rs[i].typ, rs[i].sl = sp.Addr, true, sp.typ, sp.Space
					}
					continue
				}
				a, b, err := acquireFromHolder(rs[i].n)
				if stamps {
					rs[i].resp = atomic.AddUint64(&clock, 1)
				}
				rs[i].addr, rs[i].ok, rs[i].sl, rs[i].typ = a, err == nil, b, TypeHolder
			}
		}(recs[t])
	}
	wg.Wait()
	// data-level check of disjointness: fill every region with its own pattern, then read all of them back
	type reg struct {
		addr uintptr
		n    int
		id   int
		sl   *[]byte
		typ  int
	}
	var regs []reg
	var maps []reg
	id := 0
	sliceflaws := 0
	for t := range recs {
		for _, r := range recs[t] {
			if r.ok {
				// the slice handed out with the address must be that region ("at least as large as requested")
				if r.sl == nil || len(*r.sl) < r.n || cap(*r.sl) < len(*r.sl) ||
					(r.n > 0 && uintptr(unsafe.Pointer(&(*r.sl)[0])) != r.addr) {
					sliceflaws++
				}
			}
			if r.ok && r.typ == TypeMMap {
				maps = append(maps, reg{r.addr, r.n, id, r.sl, r.typ})
				if r.n > 0 && r.sl != nil && len(*r.sl) >= r.n {
					regs = append(regs, reg{r.addr, r.n, id, r.sl, r.typ})
				}
			} else if r.ok && r.n > 0 && r.addr >= min && r.addr+uintptr(r.n) <= max && r.sl != nil {
				regs = append(regs, reg{r.addr, r.n, id, r.sl, TypeHolder})
			}
			id++
		}
	}
	// mappings handed out concurrently: pairwise disjoint, and disjoint from the reserve
	mmapdup := 0
	sort.Slice(maps, func(i, j int) bool { return maps[i].addr < maps[j].addr })
	for i := range maps {
		if i+1 < len(maps) && maps[i].addr+uintptr(maps[i].n) > maps[i+1].addr {
			mmapdup++
		}
		if maps[i].addr < max && min < maps[i].addr+uintptr(maps[i].n) {
			mmapdup++
		}
	}
	pat := func(id, i int) byte { return byte(id*37 + i*11 + 5) }
	for _, r := range regs {
		d := make([]byte, r.n)
		for i := range d {
			d[i] = pat(r.id, i)
		}
		if err := c20write(&Space{Addr: r.addr, Space: r.sl, typ: r.typ}, d); err != nil {
			return "!write-err"
		}
	}
	clobbered := 0
	for _, r := range regs {
		got := *(*[]byte)(unsafe.Pointer(&struct {
			p    uintptr
			l, c int
		}{r.addr, r.n, r.n}))
		for i := 0; i < r.n; i++ {
			if got[i] != pat(r.id, i) {
				clobbered++
				break
			}
		}
	}
	var out []string
	for t := range recs {
		for _, r := range recs[t] {
			res := "e"
			if r.ok && r.typ == TypeMMap {
				res = "m"
			} else if r.ok {
				res = fmt.Sprintf("o%d", int64(r.addr)-int64(min))
			}
			out = append(out, fmt.Sprintf("%d:%d:%s", r.inv, r.resp, res))
		}
	}
	for _, m := range maps { // goom never unmaps; the probe does, after all checks
		if m.sl != nil && len(*m.sl) > 0 {
			_ = syscall.Munmap(*m.sl)
		}
	}
	return fmt.Sprintf("clobbered=%d off=+%d sliceflaws=%d mmapdup=%d %s", clobbered, int64(atomic.LoadUintptr(&placeHolderIns.off))-int64(min), sliceflaws, mmapdup, strings.Join(out, " "))
}

// c20writes: `c20.writes <m|h> <len> <n>` — acquire one region on the given path and write it n times through stub.Write.
// Observation: `ok perm=<rwx|rx>` (protection left behind) or `fault@<k>` / `err@<k>` / `readback@<k>`.
func c20writes(toks []string) string {
	n, _ := strconv.Atoi(toks[2])
	k, _ := strconv.Atoi(toks[3])
	var sp *Space
	if toks[1] == "m" {
		s, err := Acquire(n)
		if err != nil || s.typ != TypeMMap {
			return "env-mismatch no mapping"
		}
		sp = s
	} else {
		atomic.StoreUintptr(&placeHolderIns.off, placeHolderIns.min)
		a, b, err := acquireFromHolder(n)
		if err != nil {
			return "env-mismatch reserve"
		}
		sp = &Space{Addr: a, Space: b, typ: TypeHolder}
	}
	got := *(*[]byte)(unsafe.Pointer(&struct {
		p    uintptr
		l, c int
	}{sp.Addr, n, n}))
	data := make([]byte, n)
	for r := 1; r <= k; r++ {
		for i := range data {
			data[i] = byte(r*17 + i*3 + 2)
		}
		if err := c20write(sp, data); err != nil {
			if strings.Contains(err.Error(), "fault") {
				return fmt.Sprintf("fault@%d", r)
			}
			return fmt.Sprintf("err@%d", r)
		}
		for i := range data {
			if got[i] != data[i] {
				return fmt.Sprintf("readback@%d", r)
			}
		}
	}
	pm := c20perms(sp.Addr)
	if strings.Contains(pm, "w") && strings.Contains(pm, "x") {
		return "ok perm=rwx"
	}
	if strings.Contains(pm, "x") {
		return "ok perm=rx"
	}
	return "ok perm=" + pm
}

// c20owrite: `c20.owrite <m|h> <regionLen> <dataLen>` — one stub.Write of dataLen bytes into a freshly acquired region of
// regionLen bytes whose surroundings hold a known pattern.  Observation: `err`, or how many bytes of data were stored,
// how many were silently dropped, and how many bytes PAST the region's end changed (reserve: the neighbouring region;
// mapping: the rest of the page).
func c20owrite(toks []string) string {
	rl, _ := strconv.Atoi(toks[2])
	dl, _ := strconv.Atoi(toks[3])
	if rl < 1 || dl < 0 || rl > 2048 || dl > 4096 {
		return "bad-op"
	}
	var sp *Space
	span := rl + 4096 // bytes observed from the region's start
	if toks[1] == "m" {
		s, err := Acquire(rl)
		if err != nil || s.typ != TypeMMap {
			return "env-mismatch no mapping"
		}
		sp = s
		span = 4096 // the mapping is one page
		defer func() { _ = syscall.Munmap(*s.Space) }()
	} else {
		atomic.StoreUintptr(&placeHolderIns.off, placeHolderIns.min)
		a, b, err := acquireFromHolder(rl)
		if err != nil {
			return "env-mismatch reserve"
		}
		sp = &Space{Addr: a, Space: b, typ: TypeHolder}
		// the neighbours: the regions that would be handed out next
		na, nb, err := acquireFromHolder(4096)
		if err != nil || na != a+uintptr(rl) {
			return "env-mismatch reserve neighbour"
		}
		fill := make([]byte, 4096)
		for i := range fill {
			fill[i] = 0xA5
		}
		if err := c20write(&Space{Addr: na, Space: nb, typ: TypeHolder}, fill); err != nil {
			return "env-mismatch neighbour write"
		}
	}
	view := *(*[]byte)(unsafe.Pointer(&struct {
		p    uintptr
		l, c int
	}{sp.Addr, span, span}))
	before := append([]byte(nil), view...)
	data := make([]byte, dl)
	for i := range data {
		data[i] = byte(0x11 + i*5)
		if i < len(before) && data[i] == before[i] {
			data[i] ^= 0x40 // every stored byte is a visible change
		}
	}
	if err := c20write(sp, data); err != nil {
		if strings.Contains(err.Error(), "fault") {
			return "fault"
		}
		for i := range before {
			if view[i] != before[i] {
				return "err-but-wrote"
			}
		}
		return "err"
	}
	stored := 0
	for stored < dl && stored < span && view[stored] == data[stored] {
		stored++
	}
	beyond := 0
	for i := rl; i < span; i++ {
		if view[i] != before[i] {
			beyond++
		}
	}
	return fmt.Sprintf("wrote=%d dropped=%d beyond=%d", stored, dl-stored, beyond)
}

// c20cwrite: `c20.cwrite <off> <min> <max> <writers> <regions per writer> <len> <rounds>` — regions are taken from the
// reserve one after the other and dealt to the writers round-robin, so neighbouring regions (same code page) belong to
// different writers; then every writer, released from a spin barrier, writes each of ITS OWN regions `rounds` times
// through stub.Write and reads it back.  A fault inside the writer is an observation.
func c20cwrite(toks []string) string {
	min, max := uintptr(vh.U64(toks[2])), uintptr(vh.U64(toks[3]))
	if placeHolderIns.min != min || placeHolderIns.max != max {
		return "env-mismatch geometry"
	}
	W, _ := strconv.Atoi(toks[4])
	per, _ := strconv.Atoi(toks[5])
	n, _ := strconv.Atoi(toks[6])
	rounds, _ := strconv.Atoi(toks[7])
	if W < 1 || per < 1 || n < 1 || rounds < 1 {
		return "bad-op"
	}
	atomic.StoreUintptr(&placeHolderIns.off, uintptr(vh.U64(toks[1])))
	regs := make([][]*Space, W)
	pages := map[uintptr]map[int]bool{}
	for k := 0; k < W*per; k++ {
		a, b, err := acquireFromHolder(n)
		if err != nil {
			return "env-mismatch reserve exhausted"
		}
		regs[k%W] = append(regs[k%W], &Space{Addr: a, Space: b, typ: TypeHolder})
		pg := a &^ 4095
		if pages[pg] == nil {
			pages[pg] = map[int]bool{}
		}
		pages[pg][k%W] = true
	}
	shared := 0
	for _, ws := range pages {
		if len(ws) > 1 {
			shared++
		}
	}
	old := runtime.GOMAXPROCS(0)
	if W+1 > old {
		runtime.GOMAXPROCS(W + 1)
	}
	defer runtime.GOMAXPROCS(old)
	var ready, stop int32
	var faults, errs, mism, writes int64
	var first atomic.Value
	var wg sync.WaitGroup
	for w := 0; w < W; w++ {
		wg.Add(1)
		go func(w int) {
			defer wg.Done()
			debug.SetPanicOnFault(true)
			data := make([]byte, n)
			atomic.AddInt32(&ready, 1)
			for atomic.LoadInt32(&ready) < int32(W) {
			}
			for r := 0; r < rounds && atomic.LoadInt32(&stop) == 0; r++ {
				for j, sp := range regs[w] {
					for i := range data {
						data[i] = byte(w*53 + j*19 + r*7 + i + 3)
					}
					err := c20write(sp, data)
					atomic.AddInt64(&writes, 1)
					if err != nil {
						if strings.Contains(err.Error(), "fault") {
							atomic.AddInt64(&faults, 1)
						} else {
							atomic.AddInt64(&errs, 1)
						}
						first.CompareAndSwap(nil, fmt.Sprintf("writer%d:region+%d:round%d", w, int64(sp.Addr)-int64(min), r))
						atomic.StoreInt32(&stop, 1)
						return
					}
					got := *(*[]byte)(unsafe.Pointer(&struct {
						p    uintptr
						l, c int
					}{sp.Addr, n, n}))
					for i := range data {
						if got[i] != data[i] {
							atomic.AddInt64(&mism, 1)
							first.CompareAndSwap(nil, fmt.Sprintf("writer%d:region+%d:round%d", w, int64(sp.Addr)-int64(min), r))
							atomic.StoreInt32(&stop, 1)
							return
						}
					}
				}
			}
		}(w)
	}
	wg.Wait()
	f, _ := first.Load().(string)
	if f == "" {
		f = "-"
	}
	return fmt.Sprintf("faults=%d errs=%d mismatches=%d writes=%d regions=%d shared_pages=%d first=%s perm=%s", faults, errs, mism, writes,
		W*per, shared, f, c20perms(min))
}

// TestVerifC20 runs the operation stream.
func TestVerifC20(t *testing.T) {
	out := vh.OpenOut()
	defer out.Close()
	name, fentry, fend := c20funcExtent(placeHolderIns.min)
	for _, op := range vh.ReadOps() {
		if len(op.Toks) == 0 || !strings.HasPrefix(op.Toks[0], "c20.") {
			continue
		}
		switch {
		case op.Toks[0] == "c20.info":
			ws := []string{}
			for _, a := range []uintptr{placeHolderIns.min, placeHolderIns.max - 1} {
				ws = append(ws, c20perms(a))
			}
			sort.Strings(ws)
			out.Put(op.Idx, "min=%d max=%d off=%d fname=%s fentry=%d fend=%d perms=%s pagesize=%d", placeHolderIns.min, placeHolderIns.max,
				atomic.LoadUintptr(&placeHolderIns.off), name, fentry, fend, strings.Join(ws, ","), syscall.Getpagesize())
		case op.Toks[0] == "c20.seq" && len(op.Toks) >= 4:
			out.Put(op.Idx, "%s", c20seq(op.Toks, fentry, fend))
		case op.Toks[0] == "c20.owrite" && len(op.Toks) == 4:
			out.Put(op.Idx, "%s", c20owrite(op.Toks))
		case op.Toks[0] == "c20.writes" && len(op.Toks) == 4:
			out.Put(op.Idx, "%s", c20writes(op.Toks))
		case op.Toks[0] == "c20.cwrite" && len(op.Toks) == 8:
			out.Put(op.Idx, "%s", c20cwrite(op.Toks))
		case op.Toks[0] == "c20.crun" && len(op.Toks) == 6:
			out.Put(op.Idx, "%s", c20crun(op.Toks))
		default:
			out.Put(op.Idx, "bad-op")
		}
	}
}
