package unexports2

import (
	"fmt"
	"os"
	"reflect"
	"runtime"
	"strings"
	"sync"
	"sync/atomic"
	"testing"
	"unsafe"

	"github.com/tencent/goom/internal/zzverif/vh"
)

// In-package probe for C10.  One process = one history (the package keeps its symbol table, the load error and
// the two alignments in package variables that are initialised once), so the check starts one process per
// `c10.hist` line.  The probe only reads the queries of the line (tokens after `q=`): the table description in
// front of them is the model's input, extracted from the executable file by the check's own ELF/pclntab reader.
//
//	f:<name>  FindFuncByName      v:<name>  FindVarByName      x:<name>  ExposeFunction      a:<edit>  AllFunctions, then the caller edits the returned set
//
// Names are percent-encoded (bytes outside 0x21..0x7e, '%' and '@').  Observation per query, space separated:
// ok:0x<addr> | err:<class> | panic:<class>.  A second stream ($VERIF_OUT.rt) carries, per query, what the
// *running process* says about the returned address (the property oracle): for functions the outermost frame of
// runtime.CallersFrames at that pc (name and entry, independent of goom's table, robust against inlining marks),
// for variables the address of the Go variable itself where the probe can take it (`&v`).

// zzC10Vars / zzC10Funcs are filled by the generated companion file (or stay empty).
var (
	zzC10Vars  = map[string]unsafe.Pointer{}
	zzC10Funcs = map[string]uintptr{}
)

type c10ExposedFn struct {
	fn interface{}
	a  uintptr
}

var (
	c10Exposed   []c10ExposedFn
	c10ExposedMu sync.Mutex
)

func c10ErrClass(err error) string {
	m := err.Error()
	switch {
	case strings.HasSuffix(m, ": function symbol not found"):
		return "err:nofunc"
	case strings.HasSuffix(m, ": variable symbol not found"):
		return "err:novar"
	case strings.Contains(m, "Unable to find ELF .text section"):
		return "err:no-text"
	case strings.Contains(m, "Unable to find ELF .gopclntab section"):
		return "err:no-pclntab"
	}
	// anything else comes out of debug/elf / debug/gosym / os while reading the file (bad magic, EOF, …): one class
	return "err:read"
}

func c10VarTruth(name string, addr uintptr) string {
	if want, ok := zzC10Vars[name]; ok {
		if uintptr(want) == addr {
			return "exact+ptr"
		}
		return fmt.Sprintf("ptr=%#x", uintptr(want))
	}
	// a text symbol looked up through the ELF symbol table: the runtime's function table is the truth
	if t := vh.FuncTruth(name, addr, zzC10Funcs); t == "exact" || t == "exact+ptr" {
		return "exact-func"
	}
	return "unk"
}

func c10Query(q string) (obs, rt string) {
	defer func() {
		if r := recover(); r != nil {
			obs, rt = "panic:"+vh.Class(fmt.Sprint(r)), "-"
		}
	}()
	if len(q) < 2 || q[1] != ':' {
		return "bad-query", "-"
	}
	name := vh.SymUnesc(q[2:])
	switch q[0] {
	case 'f':
		a, err := FindFuncByName(name)
		if err != nil {
			if a != 0 {
				return "err-with-addr", "-"
			}
			return c10ErrClass(err), "-"
		}
		return fmt.Sprintf("ok:%#x", a), vh.FuncTruth(name, a, zzC10Funcs)
	case 'v':
		a, err := FindVarByName(name)
		if err != nil {
			if a != 0 {
				return "err-with-addr", "-"
			}
			return c10ErrClass(err), "-"
		}
		return fmt.Sprintf("ok:%#x", a), c10VarTruth(name, a)
	case 'a':
		// AllFunctions(); afterwards the CALLER edits the set it was handed: none | clear | keep=<prefix> | del=<name> | add=<name>
		fs, err := AllFunctions()
		if err != nil {
			if fs != nil {
				return "err-with-addr", "-"
			}
			return c10ErrClass(err), "-"
		}
		n := len(fs)
		switch {
		case name == "clear":
			for k := range fs {
				delete(fs, k)
			}
		case strings.HasPrefix(name, "keep="):
			for k := range fs {
				if !strings.HasPrefix(k, name[5:]) {
					delete(fs, k)
				}
			}
		case strings.HasPrefix(name, "del="):
			delete(fs, name[4:])
		case strings.HasPrefix(name, "add="):
			fs[name[4:]] = true
		}
		return fmt.Sprintf("set:%d", n), "-"
	case 'x':
		fn, err := ExposeFunction(name, (func())(nil))
		if err != nil {
			if fn != nil {
				return "err-with-addr", "-"
			}
			return c10ErrClass(err), "-"
		}
		a := reflect.ValueOf(fn).Pointer()
		// function values handed out earlier must keep pointing where they pointed (each owns its code-pointer cell)
		c10ExposedMu.Lock()
		for _, e := range c10Exposed {
			if reflect.ValueOf(e.fn).Pointer() != e.a {
				c10ExposedMu.Unlock()
				return "exposed-value-changed", "-"
			}
		}
		if len(c10Exposed) >= 8 {
			c10Exposed = c10Exposed[1:]
		}
		c10Exposed = append(c10Exposed, c10ExposedFn{fn, a})
		c10ExposedMu.Unlock()
		return fmt.Sprintf("ok:%#x", a), vh.FuncTruth(name, a, zzC10Funcs)
	}
	return "bad-query", "-"
}

// c10SelfAction damages the process' own executable file before the first lookup ($VERIF_C10_SELF):
// delete | chmod000 | replace-same (new file, same bytes) | replace-other (new file, another program).  It reports whether the file can still be opened.
func c10SelfAction() string {
	act := os.Getenv("VERIF_C10_SELF")
	if act == "" {
		return ""
	}
	exe, err := os.Executable()
	if err != nil {
		return "self=" + act + " executable=err"
	}
	switch act {
	case "delete":
		err = os.Remove(exe)
	case "chmod000":
		err = os.Chmod(exe, 0)
	case "replace-other":
		// the file at the executable's path now holds ANOTHER program ($VERIF_C10_OTHER), as after a rebuild while running
		var b []byte
		if b, err = os.ReadFile(os.Getenv("VERIF_C10_OTHER")); err == nil {
			if err = os.Remove(exe); err == nil {
				err = os.WriteFile(exe, b, 0o755)
			}
		}
	case "replace-same":
		var b []byte
		if b, err = os.ReadFile(exe); err == nil {
			if err = os.Remove(exe); err == nil {
				err = os.WriteFile(exe, b, 0o755)
			}
		}
	}
	if err != nil {
		return "self=" + act + " action-failed"
	}
	f, err := os.Open(exe)
	if err != nil {
		return "self=" + act + " open=fail"
	}
	f.Close()
	return "self=" + act + " open=ok"
}

// TestVerifC10 runs the history of the ops file (exactly one per process: package state is per process).
// `c10.hist`: the calls one after the other.  `c10.conc … g=<N> …`: call i is issued by goroutine i mod N; the
// goroutines are released together from a spin barrier, so their FIRST lookups (the once-only initialisation of
// the alignments and of the table) race.
func TestVerifC10(t *testing.T) {
	out := vh.OpenOut()
	defer out.Close()
	rtf, err := os.OpenFile(os.Getenv("VERIF_OUT")+".rt", os.O_CREATE|os.O_WRONLY|os.O_TRUNC, 0o644)
	if err != nil {
		t.Fatal(err)
	}
	defer rtf.Close()
	if self := c10SelfAction(); self != "" {
		os.WriteFile(os.Getenv("VERIF_OUT")+".self", []byte(self+" argv0="+vh.SymEsc(os.Args[0])+"\n"), 0o644)
	}
	for _, op := range vh.ReadOps() {
		if len(op.Toks) == 0 || (op.Toks[0] != "c10.hist" && op.Toks[0] != "c10.conc") {
			continue
		}
		qi, g := -1, 1
		for i, tk := range op.Toks {
			if op.Toks[0] == "c10.conc" && strings.HasPrefix(tk, "g=") && i < 4 {
				fmt.Sscanf(tk, "g=%d", &g)
			}
			if strings.HasPrefix(tk, "q=") {
				qi = i
				break
			}
		}
		if qi < 0 || g < 1 {
			out.Put(op.Idx, "bad-op")
			continue
		}
		qs := op.Toks[qi+1:]
		obs := make([]string, len(qs))
		rts := make([]string, len(qs))
		if g == 1 {
			for i, q := range qs {
				obs[i], rts[i] = c10Query(q)
			}
		} else {
			var ready int32
			var wg sync.WaitGroup
			for j := 0; j < g; j++ {
				wg.Add(1)
				go func(j int) {
					defer wg.Done()
					runtime.LockOSThread()
					atomic.AddInt32(&ready, 1)
					for atomic.LoadInt32(&ready) < int32(g) {
						runtime.Gosched()
					}
					for i := j; i < len(qs); i += g {
						obs[i], rts[i] = c10Query(qs[i])
					}
				}(j)
			}
			wg.Wait()
		}
		if len(obs) == 0 {
			obs, rts = []string{"-"}, []string{"-"}
		}
		out.Put(op.Idx, "%s", strings.Join(obs, " "))
		fmt.Fprintf(rtf, "%d\t%s\n", op.Idx, strings.Join(rts, " "))
	}
}

// TestVerifC10Facts reports the loader facts the model takes as input: the run-time addresses of the two anchors
// goom derives its alignments from (unexports2.go:22), and the probe's registries of directly known addresses.
func TestVerifC10Facts(t *testing.T) {
	out := vh.OpenOut()
	defer out.Close()
	mf := reflect.ValueOf(FindFuncByName).Pointer()
	mv := uintptr(unsafe.Pointer(&stubVar))
	out.Put(0, "mf=%#x mv=%#x nvars=%d nfuncs=%d", mf, mv, len(zzC10Vars), len(zzC10Funcs))
}
