package mocker

import (
	"fmt"
	"os"
	"reflect"
	"strings"
	"testing"
	"unsafe"

	"github.com/tencent/goom/internal/unexports2"
	"github.com/tencent/goom/internal/zzverif/vh"
)

// C10, public-API lane: the lookups as goom's users reach them (mocker.go UnexportedFuncMocker.As /
// UnexportedMethodMocker.As, ue_var.go NewUnExportedVarMocker, through the Builder).  Same protocol as the
// in-package probe of internal/unexports2, other query forms:
//
//	F:<pkg>|<name>            Create().Pkg(pkg).ExportFunc(name).As(func(){})
//	M:<pkg>|<type>|<method>   Create().Pkg(pkg).ExportStruct(type).Method(method).As(func(){})
//	V:<path>                  Create().UnExportedVar(path)
//
// The observed address is the code pointer of the function value goom built / the target pointer of the variable
// mocker; goom reports failures by panicking, which is mapped to the same error classes.

var (
	zzC10Vars  = map[string]unsafe.Pointer{}
	zzC10Funcs = map[string]uintptr{}
)

type c10Made struct {
	fn interface{}
	a  uintptr
}

// function values goom built earlier (As): each must keep its own code pointer
var c10MadeFns []c10Made

func c10Remember(fn interface{}, a uintptr) bool {
	for _, e := range c10MadeFns {
		if reflect.ValueOf(e.fn).Pointer() != e.a {
			return false
		}
	}
	if len(c10MadeFns) >= 8 {
		c10MadeFns = c10MadeFns[1:]
	}
	c10MadeFns = append(c10MadeFns, c10Made{fn, a})
	return true
}

func c10ApiClass(msg string) string {
	switch {
	case strings.Contains(msg, ": function symbol not found"):
		return "err:nofunc"
	case strings.Contains(msg, ": variable symbol not found"):
		return "err:novar"
	case strings.Contains(msg, "Unable to find ELF .text section"):
		return "err:no-text"
	case strings.Contains(msg, "Unable to find ELF .gopclntab section"):
		return "err:no-pclntab"
	case strings.Contains(msg, "name is empty"):
		return "panic:empty-name"
	case strings.Contains(msg, "runtime error"):
		return "panic:" + vh.Class(msg)
	}
	// whatever debug/elf, debug/gosym or os said while reading the file
	return "err:read"
}

func c10ApiQuery(q string) (obs, rt string) {
	defer func() {
		if r := recover(); r != nil {
			obs, rt = c10ApiClass(fmt.Sprint(r)), "-"
		}
	}()
	if len(q) < 2 || q[1] != ':' {
		return "bad-query", "-"
	}
	parts := strings.Split(q[2:], "|")
	for i := range parts {
		parts[i] = vh.SymUnesc(parts[i])
	}
	switch {
	case q[0] == 'F' && len(parts) == 2:
		m := Create().Pkg(parts[0]).ExportFunc(parts[1]).As(func() {})
		a := reflect.ValueOf(m.(*DefMocker).funcDef).Pointer()
		if !c10Remember(m.(*DefMocker).funcDef, a) {
			return "exposed-value-changed", "-"
		}
		return fmt.Sprintf("ok:%#x", a), vh.FuncTruth(parts[0]+"."+parts[1], a, zzC10Funcs)
	case q[0] == 'M' && len(parts) == 3:
		m := Create().Pkg(parts[0]).ExportStruct(parts[1]).Method(parts[2]).As(func() {})
		a := reflect.ValueOf(m.(*DefMocker).funcDef).Pointer()
		if !c10Remember(m.(*DefMocker).funcDef, a) {
			return "exposed-value-changed", "-"
		}
		recv := parts[1]
		if strings.Contains(recv, "*") {
			recv = "(" + recv + ")"
		}
		return fmt.Sprintf("ok:%#x", a), vh.FuncTruth(parts[0]+"."+recv+"."+parts[2], a, zzC10Funcs)
	case q[0] == 'V' && len(parts) == 1:
		m := Create().UnExportedVar(parts[0])
		a := uintptr(m.(*unExportedVarMocker).target)
		if want, ok := zzC10Vars[parts[0]]; ok {
			if uintptr(want) == a {
				return fmt.Sprintf("ok:%#x", a), "exact+ptr"
			}
			return fmt.Sprintf("ok:%#x", a), fmt.Sprintf("ptr=%#x", uintptr(want))
		}
		if t := vh.FuncTruth(parts[0], a, zzC10Funcs); t == "exact" || t == "exact+ptr" {
			return fmt.Sprintf("ok:%#x", a), "exact-func"
		}
		return fmt.Sprintf("ok:%#x", a), "unk"
	}
	return "bad-query", "-"
}

// TestVerifC10Api runs one history (one process).
func TestVerifC10Api(t *testing.T) {
	out := vh.OpenOut()
	defer out.Close()
	rtf, err := os.OpenFile(os.Getenv("VERIF_OUT")+".rt", os.O_CREATE|os.O_WRONLY|os.O_TRUNC, 0o644)
	if err != nil {
		t.Fatal(err)
	}
	defer rtf.Close()
	for _, op := range vh.ReadOps() {
		if len(op.Toks) == 0 || op.Toks[0] != "c10.hist" {
			continue
		}
		qi := -1
		for i, tk := range op.Toks {
			if strings.HasPrefix(tk, "q=") {
				qi = i
				break
			}
		}
		if qi < 0 {
			out.Put(op.Idx, "bad-op")
			continue
		}
		var obs, rts []string
		for _, q := range op.Toks[qi+1:] {
			o, r := c10ApiQuery(q)
			obs = append(obs, o)
			rts = append(rts, r)
		}
		if len(obs) == 0 {
			obs, rts = []string{"-"}, []string{"-"}
		}
		out.Put(op.Idx, "%s", strings.Join(obs, " "))
		fmt.Fprintf(rtf, "%d\t%s\n", op.Idx, strings.Join(rts, " "))
	}
}

// TestVerifC10Facts: the anchor function's address (the anchor variable is not reachable from this package; the
// check takes it from the file, these executables are not relocated).
func TestVerifC10Facts(t *testing.T) {
	out := vh.OpenOut()
	defer out.Close()
	out.Put(0, "mf=%#x mv=0 nvars=%d nfuncs=%d", reflect.ValueOf(unexports2.FindFuncByName).Pointer(), len(zzC10Vars), len(zzC10Funcs))
}
