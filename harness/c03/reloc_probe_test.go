package patch

// Pure-layer probe of property C03: runs goom's real fixRelativeAddr / fixOriginFuncToTrampoline.
//
// Requests ($VERIF_OPS), one per line:
//   c03.fns <start> <step> <max> <d,d,…>         every step-th function of this test binary, beginning with the
//                                                start-th, at most max of them; trampoline positions: d<0 → from+d,
//                                                d>=0 → from+funcSize+d
//   c03.zoo <name> <from> <t,t,…> <hexbytes>      a byte-exact shape at a made-up address, absolute trampoline positions
//   c03.tramp <start> <step> <max>                real fixOriginFuncToTrampoline into the probe's own placeholder functions
//   c03.small <originOff> <trampOff> <tsize> <hex> real fixOriginFuncToTrampoline on a SMALL hand-built function placed in a
//                                                fresh executable page (int3 padded, followed by a RET "next function") with
//                                                an empty trampoline function of tsize bytes in the same page
// Output ($VERIF_OUT), one line per evaluated case (NOT per request):
//   <request idx>\t<canonical op line for goomdrv>\t<result of the real code>\t<oracle verdict per trampoline>
// The op line carries the instruction list exactly as goom's decoder produced it; the verdict is computed with the
// toolchain's reference decoder and states the property itself (independently of the Lean model).

import (
	"debug/elf"
	"encoding/binary"
	"fmt"
	"os"
	"reflect"
	"sort"
	"strconv"
	"strings"
	"syscall"
	"testing"
	"unsafe"

	"github.com/tencent/goom/internal/bytecode"
	"github.com/tencent/goom/internal/bytecode/memory"
	refx86 "github.com/tencent/goom/internal/zzverif/refx86"
	"github.com/tencent/goom/internal/zzverif/vh"
)

// c03JumpLen is the number of bytes Guard.Apply overwrites at the entry: taken from the real emitter, never a literal.
var c03JumpLen = len(jmpToFunctionValue(0x401000, 0x402000))

func c03class(kind, msg string) string {
	switch {
	case strings.Contains(msg, "address overflow:"):
		return "panic:address-overflow"
	case strings.Contains(msg, "decode address error"), strings.Contains(msg, "address overflow check error"):
		return "panic:decode-address"
	case strings.Contains(msg, "fixRelativeAddr err:"), strings.Contains(msg, "checkJumpBetween err:"):
		return "panic:decode-error"
	case strings.Contains(msg, "not support of jump to inside"):
		return "err:jump-between"
	case strings.Contains(msg, "jumpInstSize["):
		return "err:trampoline-too-small"
	case strings.Contains(msg, "fixOriginSize["):
		return "err:fixed-bigger-than-trampoline"
	case strings.Contains(msg, "runtime error"):
		return kind + ":runtime"
	}
	return kind + ":other-" + vh.Class(msg)
}

// c03Decode lists the instructions of block as goom's ParseIns reports them.
func c03Decode(block []byte) (items []string, tail string) {
	tail = "e"
	for pos := 0; ; {
		ins, _, err := bytecode.ParseIns(pos, block)
		if err != nil {
			return items, "b"
		}
		if ins == nil {
			return items, "e"
		}
		if ins.Len <= 0 {
			return items, "b"
		}
		fl := ""
		if ins.String() == "RET" {
			fl += "r"
		}
		if ins.Op.String() == bytecode.CallInsName {
			fl += "c"
		}
		if ins.PCRelOff > 0 && (ins.PCRel == 1 || ins.PCRel == 2 || ins.PCRel == 4 || ins.PCRel == 8) {
			// observe the sign flag of DecodeRelativeAddr on a crafted field holding +1
			if bytecode.DecodeRelativeAddr(ins, []byte{1, 0, 0, 0, 0, 0, 0, 0}, 0) < 0 {
				fl += "b"
			}
		}
		if ins.Opcode == 0 {
			fl += "z"
		}
		if fl == "" {
			fl = "-"
		}
		items = append(items, fmt.Sprintf("%d:%d:%d:%s:%s", ins.Len, ins.PCRelOff, ins.PCRel, fl, vh.Hex(block[pos:pos+ins.Len])))
		pos += ins.Len
	}
}

func c03Run(from uintptr, block []byte, tramp uintptr) (res string, out []byte, n int) {
	defer func() {
		if r := recover(); r != nil {
			res, out, n = c03class("panic", fmt.Sprint(r)), nil, 0
		}
	}()
	cp := append([]byte(nil), block...)
	data, size, err := fixRelativeAddr(from, cp, tramp, len(cp), c03JumpLen)
	if err != nil {
		if len(data) != 0 {
			return "err-with-data", nil, 0
		}
		return c03class("err", err.Error()), nil, 0
	}
	if string(cp) != string(block) {
		return "input-mutated", nil, 0
	}
	return fmt.Sprintf("ok n=%d out=%s", size, vh.Hex(data)), data, size
}

// ---- the property, stated with the reference decoder

type c03ref struct {
	pos int
	ins refx86.Inst
}

func c03RefDecode(b []byte, upto int) ([]c03ref, string) {
	var l []c03ref
	for pos := 0; pos < upto; {
		end := pos + 16
		if end > len(b) {
			end = len(b)
		}
		ins, err := refx86.Decode(b[pos:end], 64)
		if err != nil {
			return l, fmt.Sprintf("undecodable@%d", pos)
		}
		l = append(l, c03ref{pos, ins})
		pos += ins.Len
	}
	return l, ""
}

// pcTarget returns (has PC-relative operand, displacement, index of that argument)
func c03PCRel(ins refx86.Inst) (bool, int64, int) {
	for k, a := range ins.Args {
		switch v := a.(type) {
		case refx86.Rel:
			return true, int64(v), k
		case refx86.Mem:
			if v.Base == refx86.RIP {
				return true, int64(int32(v.Disp)), k // the reference decoder does not sign-extend disp32
			}
		}
	}
	return false, 0, -1
}

// c03Faithful: out (placed at tramp) must be an instruction-by-instruction copy of block[0:n] (placed at from): same
// operation, prefixes and operands; every PC-relative operand keeps its absolute target when the target lies outside
// [0,n), and is mapped to the copy of the target instruction when it lies inside; n >= 13 and n is an instruction boundary.
func c03Faithful(from uint64, block []byte, tramp uint64, out []byte, n int, extent []byte) string {
	if n < c03JumpLen && n != len(block) {
		// a whole function shorter than the jump is refused earlier (jumpdata.go genJumpData); a partial copy must cover the jump
		return "unfaithful:n<jumplen"
	}
	if n > len(block) {
		return "unfaithful:n>len"
	}
	a, e := c03RefDecode(block, n)
	if e != "" {
		return "skip:origin-" + e
	}
	if len(a) > 0 && a[len(a)-1].pos+a[len(a)-1].ins.Len != n {
		return "unfaithful:n-not-a-boundary"
	}
	b, e := c03RefDecode(out, len(out))
	if e != "" {
		return "unfaithful:copy-" + e
	}
	if len(a) != len(b) {
		return fmt.Sprintf("unfaithful:count-%d-vs-%d", len(a), len(b))
	}
	if len(b) > 0 && b[len(b)-1].pos+b[len(b)-1].ins.Len != len(out) {
		return "unfaithful:copy-overruns"
	}
	newpos := map[int]int{}
	for k := range a {
		newpos[a[k].pos] = b[k].pos
	}
	for k := range a {
		x, y := a[k].ins, b[k].ins
		if x.Op != y.Op || x.Prefix != y.Prefix || x.DataSize != y.DataSize || x.AddrSize != y.AddrSize || x.MemBytes != y.MemBytes {
			return fmt.Sprintf("unfaithful:op@%d", a[k].pos)
		}
		hx, dx, kx := c03PCRel(x)
		hy, dy, ky := c03PCRel(y)
		if hx != hy || kx != ky {
			return fmt.Sprintf("unfaithful:pcrel-kind@%d", a[k].pos)
		}
		for j := range x.Args {
			if hx && j == kx {
				continue
			}
			if x.Args[j] != y.Args[j] {
				return fmt.Sprintf("unfaithful:operand@%d", a[k].pos)
			}
		}
		if hx {
			if m, ok := x.Args[kx].(refx86.Mem); ok {
				m2 := y.Args[ky].(refx86.Mem)
				m.Disp, m2.Disp = 0, 0
				if m != m2 {
					return fmt.Sprintf("unfaithful:operand@%d", a[k].pos)
				}
			}
			rel := int64(a[k].pos+x.Len) + dx
			got := tramp + uint64(b[k].pos+y.Len) + uint64(dy)
			switch {
			case rel >= 0 && rel < int64(n):
				np, ok := newpos[int(rel)]
				if !ok || got != tramp+uint64(np) {
					return fmt.Sprintf("unfaithful:inner-target@%d", a[k].pos)
				}
			case rel == int64(n) && got == tramp+uint64(len(out)):
				// falls through to the jump-back, which lands on from+n
			default:
				if got != from+uint64(rel) {
					return fmt.Sprintf("unfaithful:target@%d", a[k].pos)
				}
			}
		}
	}
	// no instruction of the rest of the function may branch into (0,n)
	// "the function" is NOT goom's own GetFuncSize result here but the extent the linker recorded for the symbol (when known)
	if len(extent) < len(block) {
		extent = block
	}
	rest, _ := c03RefDecode(extent, len(extent))
	for _, r := range rest {
		if h, d, _ := c03PCRel(r.ins); h {
			t := int64(r.pos+r.ins.Len) + d
			if t > 0 && t < int64(n) {
				return fmt.Sprintf("unfaithful:branch-into-prefix@%d", r.pos)
			}
		}
	}
	return "faithful"
}

func c03Case(out *vh.Out, idx int, from uintptr, block []byte, tramps []uintptr, extent []byte, sym ...string) {
	items, tail := c03Decode(block)
	ts := make([]string, len(tramps))
	var res, ver []string
	for k, t := range tramps {
		ts[k] = fmt.Sprintf("0x%x", t)
		r, data, n := c03Run(from, block, t)
		res = append(res, r)
		if data != nil || strings.HasPrefix(r, "ok") {
			ver = append(ver, c03Faithful(uint64(from), block, uint64(t), data, n, extent))
		} else {
			ver = append(ver, "failed-clean")
		}
	}
	op := fmt.Sprintf("c03.reloc 0x%x %d %d %s %s %s", from, len(block), c03JumpLen, tail, strings.Join(ts, ","), strings.Join(items, " "))
	out.Put(idx, "%s\t%s\t%s\t%s", op, strings.Join(res, " | "), strings.Join(ver, " | "), strings.Join(sym, ""))
}

type c03fn struct {
	addr uintptr
	name string
	size int // st_size of the ELF symbol: the linker's extent of the function, independent of goom's GetFuncSize
}

func c03Funcs() []c03fn {
	f, err := elf.Open(os.Args[0])
	if err != nil {
		f, err = elf.Open("/proc/self/exe")
		if err != nil {
			panic(err)
		}
	}
	defer f.Close()
	text := f.Section(".text")
	syms, err := f.Symbols()
	if err != nil {
		panic(err)
	}
	var l []c03fn
	seen := map[uint64]bool{}
	for _, s := range syms {
		if elf.ST_TYPE(s.Info) != elf.STT_FUNC || s.Size == 0 || s.Value < text.Addr || s.Value >= text.Addr+text.Size || seen[s.Value] {
			continue
		}
		seen[s.Value] = true
		l = append(l, c03fn{uintptr(s.Value), s.Name, int(s.Size)})
	}
	sort.Slice(l, func(i, j int) bool { return l[i].addr < l[j].addr })
	return l
}

func c03Ints(s string) []int64 {
	var l []int64
	for _, p := range strings.Split(s, ",") {
		v, err := strconv.ParseInt(p, 0, 64)
		if err != nil {
			panic("bad int " + p)
		}
		l = append(l, v)
	}
	return l
}

// ---- placeholders for the fixOriginFuncToTrampoline tie (never called; bytes restored after every case)

var c03sink int

//go:noinline
func c03PlaceSmall() int { return c03sink + 1 }

//go:noinline
func c03PlaceMid() int {
	c03sink++
	fmt.Println(c03sink, "placeholder")
	c03sink += 3
	return c03sink
}

//go:noinline
func c03PlaceBig() int {
	for i := 0; i < 3; i++ {
		fmt.Println(c03sink, "placeholder", i)
		fmt.Println(c03sink+1, "placeholder", i)
		fmt.Println(c03sink+2, "placeholder", i)
		fmt.Println(c03sink+3, "placeholder", i)
	}
	c03sink += 3
	return c03sink
}

// c03JumpBack states the jump-back clause of the property on what the real fixOriginFuncToTrampoline left in the
// placeholder, independently of the Lean model: the placeholder starts with the relocated instructions (as the real, pure
// fixRelativeAddr produces them) and, whenever fewer bytes than the whole function were consumed (n < function size), they
// are followed by a jump that lands on origin+n (decoded with the reference decoder).
func c03JumpBack(origin uintptr, block []byte, pl uintptr, res string, after []byte) string {
	if res != "ok" {
		return "n/a"
	}
	r, data, n := c03Run(origin, block, pl)
	if !strings.HasPrefix(r, "ok") {
		return "written-although-relocation-fails"
	}
	if len(after) < len(data)+16 {
		return "n/a"
	}
	if n >= len(block) {
		// the whole function was consumed: the placeholder must hold the RELOCATED instructions (no jump back needed)
		switch {
		case string(after[:len(data)]) == string(data):
			return "whole-function"
		case string(after[:len(block)]) == string(block):
			return "whole-function-raw-copy" // the unrelocated original bytes were written
		}
		return "prefix-differs"
	}
	if string(after[:len(data)]) != string(data) {
		return "prefix-differs"
	}
	tail := after[len(data):]
	ins, err := refx86.Decode(tail[:16], 64)
	if err != nil {
		return "missing"
	}
	if ins.Op == refx86.JMP {
		if rel, ok := ins.Args[0].(refx86.Rel); ok {
			if uint64(pl)+uint64(len(data)+ins.Len)+uint64(int64(rel)) == uint64(origin)+uint64(n) {
				return "jumps-back"
			}
			return "jumps-elsewhere"
		}
	}
	// far form (more than 2 GiB apart): JMP qword ptr [RIP+0] followed by the 8-byte destination — register-free, lands ON it
	if ins.Op == refx86.JMP && ins.Len == 6 && tail[0] == 0xFF && tail[1] == 0x25 {
		if m, ok := ins.Args[0].(refx86.Mem); ok && m.Base == refx86.RIP && m.Disp == 0 {
			if binary.LittleEndian.Uint64(tail[6:14]) == uint64(origin)+uint64(n) {
				return "jumps-back"
			}
			return "jumps-elsewhere"
		}
	}
	// the form used before fix 36abd0c: MOV RDX,imm64 ; JMP [RDX] jumps THROUGH the bytes stored at the destination (defect F5)
	if tail[0] == 0x48 && tail[1] == 0xBA && tail[10] == 0xFF && tail[11] == 0x22 {
		return "jumps-through-memory"
	}
	return "missing"
}

var c03pages []byte

// c03Page returns a fresh RWX page filled with int3 (never reused: goom caches function sizes by address)
func c03Page() []byte {
	if len(c03pages) < 4096 {
		b, err := syscall.Mmap(-1, 0, 1024*4096, syscall.PROT_READ|syscall.PROT_WRITE|syscall.PROT_EXEC, syscall.MAP_ANON|syscall.MAP_PRIVATE)
		if err != nil {
			panic(err)
		}
		c03pages = b
	}
	pg := c03pages[:4096:4096]
	c03pages = c03pages[4096:]
	for i := range pg {
		pg[i] = 0xCC
	}
	return pg
}

// c03FarPage returns a fresh RWX page at least 4 GiB away from the pages c03Page hands out (address hint; never reused)
var c03farNext uintptr

func c03FarPage(near uintptr) []byte {
	if c03farNext == 0 {
		c03farNext = (near + 1<<36) &^ 0xfff
	}
	p, _, errno := syscall.Syscall6(syscall.SYS_MMAP, c03farNext, 4096, syscall.PROT_READ|syscall.PROT_WRITE|syscall.PROT_EXEC,
		syscall.MAP_ANON|syscall.MAP_PRIVATE, ^uintptr(0), 0)
	if errno != 0 {
		panic(errno)
	}
	c03farNext += 1 << 20
	pg := (*[4096]byte)(unsafe.Pointer(p))[:]
	for i := range pg {
		pg[i] = 0xCC
	}
	return pg
}

func c03Small(out *vh.Out, idx int, originOff, trampOff, tsize int, fn []byte, exact, far bool) {
	pg := c03Page()
	base := uintptr(unsafe.Pointer(&pg[0]))
	tpg, tbase := pg, base
	if far { // placeholder more than 2 GiB away: the jump back has to take the far form
		tpg = c03FarPage(base)
		tbase = uintptr(unsafe.Pointer(&tpg[0]))
	}
	copy(pg[originOff:], fn)
	if exact {
		// no padding at all: the next function starts right behind, with the prologue fingerprint GetFuncSize looks for
		copy(pg[originOff+len(fn):], []byte{0x65, 0x48, 0x8b, 0x0c, 0x25, 0x30, 0x00, 0x00, 0x00, 0x48, 0x3b, 0x61, 0x10, 0xc3})
	} else {
		pg[originOff+len(fn)] = 0xC3 // the "next function"
	}
	for i := 0; i < tsize-2; i++ {
		tpg[trampOff+i] = 0x90
	}
	tpg[trampOff+tsize-2] = 0xC3
	tpg[trampOff+tsize] = 0x90 // next function after one int3
	c03Tramp(out, idx, base+uintptr(originOff), []uintptr{tbase + uintptr(trampOff)}, 1024)
}

func c03Tramp(out *vh.Out, idx int, origin uintptr, places []uintptr, window int) {
	osz, err := bytecode.GetFuncSize(64, origin, false)
	if err != nil || osz <= 0 || osz > 1<<16 {
		return
	}
	block := append([]byte(nil), memory.RawRead(origin, osz)...)
	items, tail := c03Decode(block)
	if tail != "e" {
		return
	}
	for _, pl := range places {
		tsz, _ := bytecode.GetFuncSize(64, pl, false)
		before := append([]byte(nil), memory.RawRead(pl, window)...)
		res := func() (r string) {
			defer func() {
				if e := recover(); e != nil {
					r = c03class("panic", fmt.Sprint(e))
				}
			}()
			p, err := fixOriginFuncToTrampoline(origin, pl, c03JumpLen)
			if err != nil {
				return c03class("err", err.Error())
			}
			if p != pl {
				return "wrong-return"
			}
			return "ok"
		}()
		after := append([]byte(nil), memory.RawRead(pl, window)...)
		if err := memory.WriteTo(pl, before); err != nil {
			panic(err)
		}
		if string(memory.RawRead(origin, osz)) != string(block) {
			res = "origin-modified"
		}
		// the written range: first..last differing byte; canonical observation is the written data as the model gives it
		lo, hi := -1, -1
		for k := range before {
			if before[k] != after[k] {
				if lo < 0 {
					lo = k
				}
				hi = k
			}
		}
		op := fmt.Sprintf("c03.fixorigin 0x%x 0x%x %d %s", origin, pl, tsz, strings.Join(items, " "))
		out.Put(idx, "%s\t%s\tchanged=%d..%d\t%s\t%s", op, res, lo, hi, vh.Hex(after[:tsz]), c03JumpBack(origin, block, pl, res, after))
	}
}

// TestVerifC03 is the entry point.
func TestVerifC03(t *testing.T) {
	out := vh.OpenOut()
	defer out.Close()
	var fns []c03fn
	for _, op := range vh.ReadOps() {
		if len(op.Toks) == 0 {
			continue
		}
		switch op.Toks[0] {
		case "c03.fn": // c03.fn <symbol name> <absolute trampoline positions>: one function of this binary (replays)
			if fns == nil {
				fns = c03Funcs()
			}
			for k := range fns {
				if fns[k].name != op.Toks[1] {
					continue
				}
				from := fns[k].addr
				size, err := bytecode.GetFuncSize(64, from, false)
				if err != nil || size <= 0 {
					continue
				}
				block := append([]byte(nil), memory.RawRead(from, size)...)
				var tramps []uintptr
				for _, d := range c03Ints(op.Toks[2]) {
					tramps = append(tramps, uintptr(int64(from)+d))
				}
				var extent []byte
				if fns[k].size > 0 && fns[k].size < 1<<17 {
					extent = append([]byte(nil), memory.RawRead(from, fns[k].size)...)
				}
				c03Case(out, op.Idx, from, block, tramps, extent)
			}
		case "c03.fns", "c03.tramp":
			if fns == nil {
				fns = c03Funcs()
			}
			start, step, max := int(vh.I64(op.Toks[1])), int(vh.I64(op.Toks[2])), int(vh.I64(op.Toks[3]))
			done := 0
			for k := start; k < len(fns) && done < max; k += step {
				from := fns[k].addr
				if op.Toks[0] == "c03.tramp" {
					c03Tramp(out, op.Idx, from, []uintptr{reflect.ValueOf(c03PlaceSmall).Pointer(),
						reflect.ValueOf(c03PlaceMid).Pointer(), reflect.ValueOf(c03PlaceBig).Pointer()}, 4096)
					done++
					continue
				}
				size, err := bytecode.GetFuncSize(64, from, false)
				if err != nil || size <= 0 || size > 1<<17 {
					continue
				}
				block := append([]byte(nil), memory.RawRead(from, size)...)
				var tramps []uintptr
				for _, d := range c03Ints(op.Toks[4]) {
					if d < 0 {
						tramps = append(tramps, uintptr(int64(from)+d))
					} else {
						tramps = append(tramps, uintptr(int64(from)+int64(size)+d))
					}
				}
				var extent []byte
				if fns[k].size > 0 && fns[k].size < 1<<17 {
					extent = append([]byte(nil), memory.RawRead(from, fns[k].size)...)
				}
				c03Case(out, op.Idx, from, block, tramps, extent, fns[k].name)
				done++
			}
		case "c03.small":
			c03Small(out, op.Idx, int(vh.I64(op.Toks[1])), int(vh.I64(op.Toks[2])), int(vh.I64(op.Toks[3])), vh.UnHex(op.Toks[4]), len(op.Toks) > 5 && strings.Contains(op.Toks[5], "x"), len(op.Toks) > 5 && strings.Contains(op.Toks[5], "f"))
		case "c03.zoo":
			from := uintptr(vh.U64(op.Toks[2]))
			var tramps []uintptr
			for _, d := range c03Ints(op.Toks[3]) {
				tramps = append(tramps, uintptr(d))
			}
			c03Case(out, op.Idx, from, vh.UnHex(op.Toks[4]), tramps, nil)
		}
	}
}
