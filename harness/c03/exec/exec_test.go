// Package c03exec is the executed layer of property C03: real functions are mocked through goom's public API with an
// origin placeholder, the callback calls the placeholder, and the function is called at many stack depths in fresh
// goroutines.  Injected into the goom module as internal/zzverif/c03exec with `go test -overlay`.
//
// Parent mode ($VERIF_OPS lines `c03.exec <name> <maxdepth> <step>`): re-executes this binary once per line as a child
// (a wrong trampoline kills the process) and writes one observation per line:
//   applied calls=<n> wrong=<k> cbtwice=<k> cbzero=<k> first=<depth of the first bad call or ->
//   refused:<class> clean=<true|false>   |   crash:<class>   |   timeout
package c03exec

import (
	"context"
	"fmt"
	"os"
	"os/exec"
	"reflect"
	"strings"
	"sync/atomic"
	"testing"
	"time"
	"unsafe"

	goom "github.com/tencent/goom"
	repoa "github.com/tencent/goom/internal/zzverif/c03exec/a"
	repob "github.com/tencent/goom/internal/zzverif/c03exec/b"
	"github.com/tencent/goom/internal/zzverif/vh"
)

var (
	Flag  bool
	X     int64 = 5
	Y     int64 = 37
	Count int32
	sinkS string
)

//go:noinline
func S1() int { // CMPB $0, Flag(RIP) first: RIP-relative operand followed by an immediate (F2)
	if Flag {
		return 1
	}
	return 2
}

//go:noinline
func SetX() int { // MOVQ $12345, X(RIP) first (F2)
	X = 12345
	return 7
}

//go:noinline
func CmpX() int { // CMPQ X(RIP), $imm
	if X == 1000 {
		return 3
	}
	return 4
}

//go:noinline
func G() int { return int(Y) + 3 }

//go:noinline
func S2() int { return G() + 1 } // stock prologue, JBE widened, CALL inside the first 15 bytes (F3)

//go:noinline
func S3() int { return G() + G() }

//go:noinline
func Leaf() int { return 42 }

//go:noinline
func Load() int { return int(X + Y) } // MOVQ X(RIP), AX — no immediate

//go:noinline
func Big() int { // large frame: stack check against a computed bound
	var a [4096]byte
	for i := range a {
		a[i] = byte(i)
	}
	return int(a[77]) + int(a[4000])
}

//go:noinline
func Printer() int {
	sinkS = fmt.Sprint("x", Y, 3.5)
	return len(sinkS)
}

//go:noinline
func Fib(n int) int {
	if n < 2 {
		return n
	}
	return Fib(n-1) + Fib(n-2)
}

//go:noinline
func Sq(n int) int { return n*n + int(Y) }

//go:noinline
func Inc(n int) int { return n + 100 } // LEAQ; RET: the RET lies inside the copied prefix

//go:noinline
func Cube(n int) int { return n*n*n - int(Y) }

//go:noinline
func Dbl(n int) int { return len(fmt.Sprint(n)) - len(fmt.Sprint(n)) + 2*n }

//go:noinline
func Deep(n int) int { // recursion with a frame
	var pad [64]byte
	pad[n&63] = byte(n)
	if n <= 0 {
		return int(pad[0])
	}
	return Deep(n-1) + int(pad[n&63])&1
}

//go:noinline
func Mixed(a int, s string, b int) (int, string) { return a*b + len(s), s + fmt.Sprint(a) }

//go:noinline
func Tiny() {} // shorter than the jump: must be refused

//go:noinline
func Walk(x int) int { // a leaf that is one loop whose head lies in the first 13 bytes: goom must refuse (error), not half-apply
	n := 0
	for x != 0 {
		x &= x - 1
		n++
	}
	return n
}

//go:noinline
func SumTo(n int) int {
	s := 0
	for i := 0; i < n; i++ {
		s += i ^ 5
	}
	return s
}

//go:noinline
func Mul4(a, b, c, d int) int { return a * b * c * d } // IMULQ;IMULQ;IMULQ;RET: an instruction boundary at 12, the next at 13

//go:noinline
func Big2() int { // 1 KiB frame
	var a [1000]byte
	for i := range a {
		a[i] = byte(i)
	}
	return int(a[77]) + int(a[900])
}

//go:noinline
func ByName(n int) int { return 3*n + len(fmt.Sprint(n)) }

type Acc struct{ v int }

//go:noinline
func (a *Acc) Add(n int) int { return a.v + n + len(fmt.Sprint(n)) }

type kase struct {
	fns       []interface{} // the mocked functions (entry bytes are snapshotted; stack check detected from the code)
	prepare   func()        // runs before the reference result is taken
	recursive bool
	extra     func() string // additional canonical facts appended to the observation
	expect        int // callback runs per call (recursive functions re-enter the mock on purpose); 0 means 1
	hasStackCheck bool
	// install mocks with origin; returns call (canonical result string), reset
	install func(cnt *int32) (call func() string, target interface{}, reset func())
	plain   func() string
}

func phInt() int {
	fmt.Println("only for placeholder, will not call")
	fmt.Println("only for placeholder, will not call")
	fmt.Println("only for placeholder, will not call")
	return 0
}

func mk0(f func() int, stack bool) kase {
	return kase{fns: []interface{}{f}, hasStackCheck: stack, plain: func() string { return fmt.Sprint(f()) },
		install: func(cnt *int32) (func() string, interface{}, func()) {
			origin := func() int {
				fmt.Println("only for placeholder, will not call")
				fmt.Println("only for placeholder, will not call")
				fmt.Println("only for placeholder, will not call")
				return 0
			}
			m := goom.Create()
			m.Func(f).Origin(&origin).Apply(func() int {
				atomic.AddInt32(cnt, 1)
				return origin()
			})
			return func() string { return fmt.Sprint(f()) }, f, func() { m.Reset() }
		}}
}

func mk1(f func(int) int, arg int, stack bool) kase {
	return kase{fns: []interface{}{f}, hasStackCheck: stack, plain: func() string { return fmt.Sprint(f(arg)) },
		install: func(cnt *int32) (func() string, interface{}, func()) {
			origin := func(n int) int {
				fmt.Println("only for placeholder, will not call", n)
				fmt.Println("only for placeholder, will not call", n)
				fmt.Println("only for placeholder, will not call", n)
				return 0
			}
			m := goom.Create()
			m.Func(f).Origin(&origin).Apply(func(n int) int {
				atomic.AddInt32(cnt, 1)
				return origin(n)
			})
			return func() string { return fmt.Sprint(f(arg)) }, f, func() { m.Reset() }
		}}
}

func withExpect(k kase, n int) kase { k.expect = n; k.recursive = true; return k }

func ph0() func() int {
	return func() int {
		fmt.Println("only for placeholder, will not call")
		fmt.Println("only for placeholder, will not call")
		fmt.Println("only for placeholder, will not call")
		return 0
	}
}

func ph1() func(int) int {
	return func(n int) int {
		fmt.Println("only for placeholder, will not call", n)
		fmt.Println("only for placeholder, will not call", n)
		fmt.Println("only for placeholder, will not call", n)
		return 0
	}
}

// distinct func literals: every placeholder needs its own code (goom writes the trampoline into the placeholder's body)
var ph0s = []func() int{
	func() int {
		fmt.Println("only for placeholder, will not call", 0)
		fmt.Println("only for placeholder, will not call", 0)
		fmt.Println("only for placeholder, will not call", 0)
		return 0
	},
	func() int {
		fmt.Println("only for placeholder, will not call", 1)
		fmt.Println("only for placeholder, will not call", 1)
		fmt.Println("only for placeholder, will not call", 1)
		return 0
	},
	func() int {
		fmt.Println("only for placeholder, will not call", 2)
		fmt.Println("only for placeholder, will not call", 2)
		fmt.Println("only for placeholder, will not call", 2)
		return 0
	},
}

var ph1s = []func(int) int{
	func(n int) int {
		fmt.Println("only for placeholder, will not call", n, 0)
		fmt.Println("only for placeholder, will not call", n, 0)
		fmt.Println("only for placeholder, will not call", n, 0)
		return 0
	},
	func(n int) int {
		fmt.Println("only for placeholder, will not call", n, 1)
		fmt.Println("only for placeholder, will not call", n, 1)
		fmt.Println("only for placeholder, will not call", n, 1)
		return 0
	},
	func(n int) int {
		fmt.Println("only for placeholder, will not call", n, 2)
		fmt.Println("only for placeholder, will not call", n, 2)
		fmt.Println("only for placeholder, will not call", n, 2)
		return 0
	},
}

// several functions of the identical func type mocked at the same time, each with its own placeholder; the functions return
// different values, so a placeholder running the wrong original shows (callbacks are pass-through: a re-entry through
// morestack, known finding F4, must only change the callback count, not the result)
func multi0(stack bool, fs ...func() int) kase {
	plain := func() string {
		r := ""
		for _, f := range fs {
			r += fmt.Sprint(f(), ";")
		}
		return r
	}
	var tg []interface{}
	for _, f := range fs {
		tg = append(tg, f)
	}
	return kase{fns: tg, hasStackCheck: stack, expect: 2 * len(fs), plain: plain,
		install: func(cnt *int32) (func() string, interface{}, func()) {
			m := goom.Create()
			origins := make([]func() int, len(fs))
			for k := range fs {
				k := k
				origins[k] = ph0s[k]
				m.Func(fs[k]).Origin(&origins[k]).Apply(func() int {
					atomic.AddInt32(cnt, 1)
					return origins[k]()
				})
			}
			call := func() string {
				// through the mock (callback -> own placeholder), then every placeholder called directly
				r := ""
				for _, f := range fs {
					r += fmt.Sprint(f(), ";")
				}
				d := ""
				for k := range fs {
					atomic.AddInt32(cnt, 1)
					d += fmt.Sprint(origins[k](), ";")
				}
				if d != r {
					return "direct:" + d + " via-mock:" + r
				}
				return r
			}
			return call, fs[0], func() { m.Reset() }
		}}
}

func multi1(stack bool, arg int, fs ...func(int) int) kase {
	plain := func() string {
		r := ""
		for _, f := range fs {
			r += fmt.Sprint(f(arg), ";")
		}
		return r
	}
	var tg []interface{}
	for _, f := range fs {
		tg = append(tg, f)
	}
	return kase{fns: tg, hasStackCheck: stack, expect: 2 * len(fs), plain: plain,
		install: func(cnt *int32) (func() string, interface{}, func()) {
			m := goom.Create()
			origins := make([]func(int) int, len(fs))
			for k := range fs {
				k := k
				origins[k] = ph1s[k]
				m.Func(fs[k]).Origin(&origins[k]).Apply(func(n int) int {
					atomic.AddInt32(cnt, 1)
					return origins[k](n)
				})
			}
			call := func() string {
				r := ""
				for _, f := range fs {
					r += fmt.Sprint(f(arg), ";")
				}
				d := ""
				for k := range fs {
					atomic.AddInt32(cnt, 1)
					d += fmt.Sprint(origins[k](arg), ";")
				}
				if d != r {
					return "direct:" + d + " via-mock:" + r
				}
				return r
			}
			return call, fs[0], func() { m.Reset() }
		}}
}

// the function is mocked (plain callback, no placeholder) and, while that mock is still applied, mocked again with an
// origin placeholder — by the same builder or by another one; the placeholder has to run the real function
func remock1(f func(int) int, arg int, stack, sameBuilder bool) kase {
	return kase{fns: []interface{}{f}, hasStackCheck: stack, plain: func() string { return fmt.Sprint(f(arg)) },
		install: func(cnt *int32) (func() string, interface{}, func()) {
			m1 := goom.Create()
			m1.Func(f).Apply(func(n int) int { return -777 })
			if f(arg) != -777 {
				panic("first mock not active")
			}
			m2 := m1
			if !sameBuilder {
				m2 = goom.Create()
			}
			origin := ph1()
			m2.Func(f).Origin(&origin).Apply(func(n int) int {
				atomic.AddInt32(cnt, 1)
				return origin(n)
			})
			return func() string { return fmt.Sprint(f(arg)) }, f, func() { m2.Reset(); m1.Reset() }
		}}
}

// rebind1: the SAME origin placeholder variable is bound twice — mock with Origin(&origin), then mock the same function again with
// Origin(&origin) (no Reset in between): the placeholder body already holds the relocated prologue when goom measures and rewrites it
// the second time; it has to run the real function afterwards as well (seed C11-R6-2)
func rebind1(f func(int) int, arg int, stack bool) kase {
	return kase{fns: []interface{}{f}, hasStackCheck: stack, plain: func() string { return fmt.Sprint(f(arg)) },
		install: func(cnt *int32) (func() string, interface{}, func()) {
			m := goom.Create()
			origin := func(n int) int { // a call-free body (a loop): only room for the relocated instructions
				s := 0
				for i := 0; i < n; i++ {
					s += i * n
					if s%7 == 3 {
						s -= n
					}
				}
				return s + 1
			}
			m.Func(f).Origin(&origin).Apply(func(n int) int { return origin(n) - 777 })
			if f(arg) != origin(arg)-777 {
				panic("first mock with origin not active")
			}
			m.Func(f).Origin(&origin).Apply(func(n int) int { return origin(n) - 778 }) // a third binding, then Reset and a fourth
			if f(arg) != origin(arg)-778 {
				panic("second mock with origin not active")
			}
			m.Reset()
			m.Func(f).Origin(&origin).Apply(func(n int) int {
				atomic.AddInt32(cnt, 1)
				return origin(n)
			})
			return func() string { return fmt.Sprint(f(arg)) }, f, func() { m.Reset() }
		}}
}

var zoo = map[string]kase{
	"S1": mk0(S1, false), "SetX": mk0(SetX, false), "CmpX": mk0(CmpX, false), "S2": mk0(S2, true), "S3": mk0(S3, true),
	"Leaf": mk0(Leaf, false), "Load": mk0(Load, false), "Big": mk0(Big, true), "Printer": mk0(Printer, true), "G": mk0(G, false),
	"Fib": withExpect(mk1(Fib, 12, true), 465), "Sq": mk1(Sq, 9, false), "Deep": withExpect(mk1(Deep, 40, true), 41),
	"TwinLeafG": multi0(false, Leaf, G), "TripleLeafGLoad": multi0(false, Leaf, G, Load), "TwinS2S3": multi0(true, S2, S3),
	"TwinSqCube": multi1(false, 9, Sq, Cube), "TwinDblSq": multi1(true, 7, Dbl, Sq),
	"RemockSq": remock1(Sq, 9, false, false), "RemockDbl": remock1(Dbl, 7, true, false), "RemockSameBuilderCube": remock1(Cube, 5, false, true),
	"RebindSq": rebind1(Sq, 9, false), "RebindDbl": rebind1(Dbl, 7, true), "RebindInc": rebind1(Inc, 5, false),
	"Big2": mk0(Big2, true),
	"LoopHead": mk1(Walk, 0x5a5a5, false), "LoopCount": mk1(SumTo, 37, false),
	"Mul4": {fns: []interface{}{Mul4}, plain: func() string { return fmt.Sprint(Mul4(3, 5, 7, 11)) },
		install: func(cnt *int32) (func() string, interface{}, func()) {
			origin := func(a, b, c, d int) int {
				fmt.Println("only for placeholder, will not call", a, b, c, d)
				fmt.Println("only for placeholder, will not call", a, b, c, d)
				return 0
			}
			m := goom.Create()
			m.Func(Mul4).Origin(&origin).Apply(func(a, b, c, d int) int {
				atomic.AddInt32(cnt, 1)
				return origin(a, b, c, d)
			})
			return func() string { return fmt.Sprint(Mul4(3, 5, 7, 11)) }, Mul4, func() { m.Reset() }
		}},
	"ByName": {fns: []interface{}{ByName}, plain: func() string { return fmt.Sprint(ByName(14)) },
		install: func(cnt *int32) (func() string, interface{}, func()) {
			origin := ph1s[2]
			m := goom.Create()
			m.ExportFunc("github.com/tencent/goom/internal/zzverif/c03exec.ByName").Origin(&origin).Apply(func(n int) int {
				atomic.AddInt32(cnt, 1)
				return origin(n)
			})
			return func() string { return fmt.Sprint(ByName(14)) }, ByName, func() { m.Reset() }
		}},
	"Method": {fns: []interface{}{(*Acc).Add}, plain: func() string { return fmt.Sprint((&Acc{v: 30}).Add(12)) },
		install: func(cnt *int32) (func() string, interface{}, func()) {
			origin := func(a *Acc, n int) int {
				fmt.Println("only for placeholder, will not call", a, n)
				fmt.Println("only for placeholder, will not call", a, n)
				fmt.Println("only for placeholder, will not call", a, n)
				return 0
			}
			m := goom.Create()
			m.Struct(&Acc{}).Method("Add").Origin(&origin).Apply(func(a *Acc, n int) int {
				atomic.AddInt32(cnt, 1)
				return origin(a, n)
			})
			return func() string { return fmt.Sprint((&Acc{v: 30}).Add(12)) }, (*Acc).Add, func() { m.Reset() }
		}},
	// methods of two DIFFERENT types with the same package base name and type name, mocked one after the other (the first
	// one reset) and then both at once, each with its own placeholder
	"MethodTwinTypes": {fns: []interface{}{(*repoa.Repo).Load, (*repob.Repo).Load}, expect: 4,
		plain: func() string { return fmt.Sprint((&repoa.Repo{Base: 3}).Load(5), ";", (&repob.Repo{Base: 3}).Load(5), ";") },
		prepare: func() {
			// history: a's method was mocked (with origin) and reset before
			o := func(r *repoa.Repo, id int) int {
				fmt.Println("only for placeholder, will not call", r, id, 0)
				fmt.Println("only for placeholder, will not call", r, id, 0)
				fmt.Println("only for placeholder, will not call", r, id, 0)
				return 0
			}
			m := goom.Create()
			m.Struct(&repoa.Repo{}).Method("Load").Origin(&o).Apply(func(r *repoa.Repo, id int) int { return o(r, id) })
			(&repoa.Repo{Base: 1}).Load(1)
			m.Reset()
		},
		install: func(cnt *int32) (func() string, interface{}, func()) {
			oa := func(r *repoa.Repo, id int) int {
				fmt.Println("only for placeholder, will not call", r, id, 1)
				fmt.Println("only for placeholder, will not call", r, id, 1)
				fmt.Println("only for placeholder, will not call", r, id, 1)
				return 0
			}
			ob := func(r *repob.Repo, id int) int {
				fmt.Println("only for placeholder, will not call", r, id, 2)
				fmt.Println("only for placeholder, will not call", r, id, 2)
				fmt.Println("only for placeholder, will not call", r, id, 2)
				return 0
			}
			m := goom.Create()
			m.Struct(&repob.Repo{}).Method("Load").Origin(&ob).Apply(func(r *repob.Repo, id int) int {
				atomic.AddInt32(cnt, 1)
				return ob(r, id)
			})
			m.Struct(&repoa.Repo{}).Method("Load").Origin(&oa).Apply(func(r *repoa.Repo, id int) int {
				atomic.AddInt32(cnt, 1)
				return oa(r, id)
			})
			ra, rb := &repoa.Repo{Base: 3}, &repob.Repo{Base: 3}
			call := func() string {
				r := fmt.Sprint(ra.Load(5), ";", rb.Load(5), ";")
				atomic.AddInt32(cnt, 2)
				d := fmt.Sprint(oa(ra, 5), ";", ob(rb, 5), ";")
				if d != r {
					return "direct:" + d + " via-mock:" + r
				}
				return r
			}
			return call, (*repoa.Repo).Load, func() { m.Reset() }
		}},
	// a second mock of a still-mocked function fails inside fixOrigin (CmpX starts with a short JNE that cannot be widened):
	// the function must keep behaving as before the failed apply
	"RemockRefused": {fns: []interface{}{CmpX}, plain: func() string { return fmt.Sprint(CmpX()) },
		prepare: func() { goom.Create().Func(CmpX).Apply(func() int { return -777 }) },
		install: func(cnt *int32) (func() string, interface{}, func()) {
			origin := ph0s[2]
			m := goom.Create()
			m.Func(CmpX).Origin(&origin).Apply(func() int {
				atomic.AddInt32(cnt, 1)
				return origin()
			})
			return func() string { return fmt.Sprint(CmpX()) }, CmpX, func() { m.Reset() }
		}},
	"Mixed": {fns: []interface{}{Mixed}, hasStackCheck: true, plain: func() string { a, s := Mixed(3, "ab", 5); return fmt.Sprint(a, s) },
		install: func(cnt *int32) (func() string, interface{}, func()) {
			origin := func(a int, s string, b int) (int, string) {
				fmt.Println("only for placeholder, will not call", a, s, b)
				fmt.Println("only for placeholder, will not call", a, s, b)
				fmt.Println("only for placeholder, will not call", a, s, b)
				return 0, ""
			}
			m := goom.Create()
			m.Func(Mixed).Origin(&origin).Apply(func(a int, s string, b int) (int, string) {
				atomic.AddInt32(cnt, 1)
				return origin(a, s, b)
			})
			return func() string { a, s := Mixed(3, "ab", 5); return fmt.Sprint(a, s) }, Mixed, func() { m.Reset() }
		}},
	"Tiny": {fns: []interface{}{Tiny}, plain: func() string { Tiny(); return "-" },
		install: func(cnt *int32) (func() string, interface{}, func()) {
			origin := func() {
				fmt.Println("only for placeholder, will not call")
				fmt.Println("only for placeholder, will not call")
			}
			m := goom.Create()
			m.Func(Tiny).Origin(&origin).Apply(func() {
				atomic.AddInt32(cnt, 1)
				origin()
			})
			return func() string { Tiny(); return "-" }, Tiny, func() { m.Reset() }
		}},
}

func code(f interface{}, n int) []byte {
	p := reflect.ValueOf(f).Pointer()
	return append([]byte(nil), (*[64]byte)(unsafe.Pointer(p))[:n]...)
}

//go:noinline
func burn(d int, f func()) int {
	var pad [96]byte
	pad[d&63] = byte(d)
	if d <= 0 {
		f()
		return int(pad[0])
	}
	return burn(d-1, f) + int(pad[d&63])&1
}

func child(name string, maxDepth, step int) string {
	k, ok := zoo[name]
	if !ok {
		return "bad-op"
	}
	if k.prepare != nil {
		k.prepare()
	}
	want := k.plain()
	if name == "SetX" {
		X = 5
	}
	// facts read from the code itself: entry bytes, and whether the prologue has a stack check (CMPQ SP|R12, 16(R14))
	stack := false
	var snaps [][]byte
	for _, f := range k.fns {
		c := code(f, 48)
		snaps = append(snaps, c)
		if strings.Contains(string(c[:32]), "\x3b\x66\x10") {
			stack = true
		}
	}
	var cnt int32
	var target interface{}
	var call func() string
	var reset func()
	before := []byte(nil)
	refused := func() (r string) {
		defer func() {
			if e := recover(); e != nil {
				r = "refused:" + vh.Class(fmt.Sprint(e))
			}
		}()
		call, target, reset = k.install(&cnt)
		return ""
	}()
	if refused != "" {
		// nothing may have changed: the function still behaves as before
		clean := k.plain() == want && atomic.LoadInt32(&cnt) == 0
		for j, f := range k.fns {
			if string(code(f, 48)) != string(snaps[j]) {
				clean = false
			}
		}
		ef := ""
		if k.extra != nil {
			ef = " " + k.extra()
		}
		return fmt.Sprintf("%s%s clean=%v", refused, ef, clean)
	}
	_ = before
	extraFacts := ""
	if k.extra != nil {
		extraFacts = " " + k.extra()
	}
	calls, wrong, twice, zero, first := 0, 0, 0, 0, "-"
	firstWrong := ""
	over := 0
	for d := 0; d <= maxDepth; d += step {
		done := make(chan [2]string, 1)
		go func(d int) {
			atomic.StoreInt32(&cnt, 0)
			var got string
			burn(d, func() { got = call() })
			done <- [2]string{got, fmt.Sprint(atomic.LoadInt32(&cnt))}
		}(d)
		r := <-done
		calls++
		if name == "SetX" {
			X = 5
		}
		bad := false
		if r[0] != want {
			wrong++
			bad = true
			if firstWrong == "" {
				firstWrong = fmt.Sprintf(" got=%q want=%q", r[0], want)
			}
		}
		exp := k.expect
		if exp == 0 {
			exp = 1
		}
		if r[1] == "0" {
			zero++
			bad = true
		} else if r[1] != fmt.Sprint(exp) {
			twice++
			bad = true
			var c int
			fmt.Sscan(r[1], &c)
			if c-exp > over {
				over = c - exp
			}
		}
		if bad && first == "-" {
			first = fmt.Sprint(d)
		}
	}
	pre := code(target, 13)
	reset()
	post := code(target, 13)
	_, _ = pre, post
	restored := k.plain() == want
	for j, f := range k.fns {
		if string(code(f, 48)) != string(snaps[j]) {
			restored = false
		}
	}
	cntAfter := atomic.LoadInt32(&cnt)
	atomic.StoreInt32(&cnt, 0)
	k.plain()
	if atomic.LoadInt32(&cnt) != 0 {
		restored = false
	}
	_ = cntAfter
	return fmt.Sprintf("applied calls=%d wrong=%d cbtwice=%d cbzero=%d first=%s restored=%v stack=%v over=%d%s%s", calls, wrong, twice, zero, first, restored, stack, over, extraFacts, strings.ReplaceAll(firstWrong, ";", ","))
}

// TestVerifC03Exec is parent and child.
func TestVerifC03Exec(t *testing.T) {
	if spec := os.Getenv("VERIF_C03_CHILD"); spec != "" {
		var name string
		var maxd, step int
		fmt.Sscanf(spec, "%s %d %d", &name, &maxd, &step)
		res := child(name, maxd, step)
		os.WriteFile(os.Getenv("VERIF_C03_CHILD_OUT"), []byte(res), 0o644)
		return
	}
	out := vh.OpenOut()
	defer out.Close()
	type job struct {
		idx  int
		spec string
	}
	var jobs []job
	for _, op := range vh.ReadOps() {
		if len(op.Toks) == 4 && op.Toks[0] == "c03.exec" {
			jobs = append(jobs, job{op.Idx, strings.Join(op.Toks[1:], " ")})
		}
	}
	res := make([]string, len(jobs))
	sem := make(chan struct{}, 8)
	doneAll := make(chan int, len(jobs))
	for j := range jobs {
		go func(j int) {
			sem <- struct{}{}
			defer func() { <-sem; doneAll <- j }()
			runOnce := func(limit time.Duration) string {
				tmp := fmt.Sprintf("%s.child%d", os.Getenv("VERIF_OUT"), j)
				os.Remove(tmp)
				ctx, cancel := context.WithTimeout(context.Background(), limit)
				defer cancel()
				cmd := exec.CommandContext(ctx, os.Args[0], "-test.run", "^TestVerifC03Exec$", "-test.count=1")
				var env []string
				for _, e := range os.Environ() { // scrub goom / runtime knobs that change what the children do
					if strings.HasPrefix(e, "GOOM_") || strings.HasPrefix(e, "GODEBUG=") || strings.HasPrefix(e, "GOGC=") || strings.HasPrefix(e, "GOMAXPROCS=") {
						continue
					}
					env = append(env, e)
				}
				cmd.Env = append(env, "VERIF_C03_CHILD="+jobs[j].spec, "VERIF_C03_CHILD_OUT="+tmp)
				outb, _ := cmd.CombinedOutput()
				b, rerr := os.ReadFile(tmp)
				os.Remove(tmp)
				switch {
				case rerr == nil && len(b) > 0:
					return string(b)
				case ctx.Err() != nil:
					return "timeout"
				}
				cls := "exit"
				for _, sig := range []string{"SIGSEGV", "SIGTRAP", "SIGILL", "SIGBUS", "SIGFPE", "fatal error", "unexpected return pc", "panic"} {
					if strings.Contains(string(outb), sig) {
						cls = strings.ReplaceAll(sig, " ", "-")
						break
					}
				}
				return "crash:" + cls
			}
			// typical wall time of a child is < 1 s; a timeout or a crash is re-run once before anything is reported: a crash
			// that reproduces is reported, a timeout that does not reproduce is not
			res[j] = runOnce(120 * time.Second)
			if res[j] == "timeout" || strings.HasPrefix(res[j], "crash:") {
				second := runOnce(300 * time.Second)
				if second == "timeout" || strings.HasPrefix(second, "crash:") {
					res[j] = second
				} else {
					res[j] = second + " retried-after=" + res[j]
				}
			}
		}(j)
	}
	for range jobs {
		<-doneAll
	}
	for j := range jobs {
		out.Put(jobs[j].idx, "%s", res[j])
	}
}
