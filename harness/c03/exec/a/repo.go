// Package repo (variant a): same package base name and type name as variant b, different import path.
package repo

import "fmt"

// Repo is a receiver type.
type Repo struct{ Base int }

// Load is the method that gets mocked.
//
//go:noinline
func (r *Repo) Load(id int) int { return r.Base*100 + id + len(fmt.Sprint(id)) - 1 }
