//go:build go1.18

package c03exec

import (
	"fmt"
	"reflect"
	"sync/atomic"

	goom "github.com/tencent/goom"
	"github.com/tencent/goom/internal/bytecode"
	refx86 "github.com/tencent/goom/internal/zzverif/refx86"
)

// innerOfWrapper: the function goom patches for a generic instantiation is the target of the wrapper's first CALL
// (bytecode.GetInnerFunc); compare goom's answer with the reference decoder's reading of the wrapper.
func innerOfWrapper(f interface{}) string {
	p := reflect.ValueOf(f).Pointer()
	got, err := bytecode.GetInnerFunc(64, p)
	if err != nil {
		return "inner=error"
	}
	c := code(f, 64)
	for pos := 0; pos < 48; {
		ins, err := refx86.Decode(c[pos:], 64)
		if err != nil {
			break
		}
		if ins.Op == refx86.CALL {
			if rel, ok := ins.Args[0].(refx86.Rel); ok {
				if got == p+uintptr(pos+ins.Len)+uintptr(int64(rel)) {
					return "inner=ok"
				}
				return "inner=mismatch"
			}
		}
		pos += ins.Len
	}
	return "inner=nocall"
}

// the goom module declares go 1.16; the build constraint above lifts the language version for this file only

//go:noinline
func GenAdd[T int | int64](a, b T) T { return a + b + T(len(fmt.Sprint(a))) }

func init() {
	zoo["Generic"] = kase{fns: []interface{}{GenAdd[int]}, plain: func() string { return fmt.Sprint(GenAdd[int](20, 22)) },
		install: func(cnt *int32) (func() string, interface{}, func()) {
			origin := func(a, b int) int {
				fmt.Println("only for placeholder, will not call", a, b)
				fmt.Println("only for placeholder, will not call", a, b)
				fmt.Println("only for placeholder, will not call", a, b)
				return 0
			}
			m := goom.Create()
			m.Func(GenAdd[int]).Origin(&origin).Apply(func(a, b int) int {
				atomic.AddInt32(cnt, 1)
				return origin(a, b)
			})
			return func() string { return fmt.Sprint(GenAdd[int](20, 22)) }, GenAdd[int], func() { m.Reset() }
		}}
	// a generic target mocked WITHOUT an origin placeholder: the callback must run with exactly the caller's arguments (since
	// 79126f8 an adapter consumes the hidden dictionary word); the observation also carries goom's choice of the shape body
	zoo["GenericPlain"] = kase{extra: func() string { return innerOfWrapper(GenAdd[int]) }, fns: []interface{}{GenAdd[int]},
		plain: func() string { return fmt.Sprint(GenAdd[int](20, 22)) },
		install: func(cnt *int32) (func() string, interface{}, func()) {
			want := fmt.Sprint(GenAdd[int](20, 22))
			m := goom.Create()
			m.Func(GenAdd[int]).Apply(func(a, b int) int {
				atomic.AddInt32(cnt, 1)
				return a*1000 + b
			})
			return func() string {
				if r := GenAdd[int](20, 22); r != 20*1000+22 {
					return fmt.Sprint("callback-saw-other-arguments:", r)
				}
				return want
			}, GenAdd[int], func() { m.Reset() }
		}}
}
