//go:build go1.18

package c03exec

import (
	"fmt"
	"sync/atomic"

	goom "github.com/tencent/goom"
)

// the goom module declares go 1.16; the build constraint above lifts the language version for this file only

//go:noinline
func GenAdd[T int | int64](a, b T) T { return a + b + T(len(fmt.Sprint(a))) }

func init() {
	zoo["Generic"] = kase{fns: []interface{}{GenAdd[int]}, plain: func() string { return fmt.Sprint(GenAdd[int](20, 22)) },
		install: func(cnt *int32) (func() string, interface{}, func()) {
			origin := func(a, b int) int {
				fmt.Println("only for placeholder, will not call", a, b)
				fmt.Println("only for placeholder, will not call", a, b)
				fmt.Println("only for placeholder, will not call", a, b)
				return 0
			}
			m := goom.Create()
			m.Func(GenAdd[int]).Origin(&origin).Apply(func(a, b int) int {
				atomic.AddInt32(cnt, 1)
				return origin(a, b)
			})
			return func() string { return fmt.Sprint(GenAdd[int](20, 22)) }, GenAdd[int], func() { m.Reset() }
		}}
}
