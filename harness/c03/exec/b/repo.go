// Package repo (variant b): same package base name and type name as variant a, different import path.
package repo

import "fmt"

// Repo is a receiver type.
type Repo struct{ Base int }

// Load is the method that gets mocked.
//
//go:noinline
func (r *Repo) Load(id int) int { return r.Base*1000 + 7*id + len(fmt.Sprint(id)) }
