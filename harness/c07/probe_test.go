package mocker

// C07 probe: runs whole interface-mock histories on the real goom code (root package, in-package so that
// unexported interface methods can be called) and reports what a caller observes.  The interface types are
// generated per run by checks/C07.py (zz_verif_c07_types_test.go) and registered in c07Types.
//
// line:  c07.hist T:<tid>:<name>/<sig>,... V:<tid>:<init> ... <op> <op> ...
// ops :  ap:b:v:name:k  rt:b:v:name:k  wn:b:v:name:k:a  cn:b:v:name  rs:b  dr:b  gc  ca:v  wd:v  od:tid  mx
//        kind prefix `h`: through the CachedInterfaceMocker handle kept from the first b.Interface(&v) of the history;
//        kind suffix `x`: with a callback whose signature does not fit the method (must be rejected).
// one observation per op, joined by ';'.

import (
	"crypto/ecdh"
	"fmt"
	"os"
	"reflect"
	"runtime"
	"sort"
	"strconv"
	"strings"
	"sync"
	"testing"
	"time"
	"unsafe"

	"github.com/tencent/goom/internal/hack"
	"github.com/tencent/goom/internal/zzverif/vh"
)

type c07Type struct {
	sigs  map[string]int // per history, from the T: token
	rt    reflect.Type
	nvar  int
	ptr   func(slot int) interface{}
	set   func(slot, id int)
	call  func(slot int, name string, x int) string
	words func(slot int) [2]uintptr
	impl  func(slot int) int
}

var c07Types = map[int]*c07Type{}

func c07h(name string) int {
	h := 0
	for i := 0; i < len(name); i++ {
		h += int(name[i])
	}
	return h % 97
}

// results of the real implementations
func c07impl(id int, name string, x int, s string) int {
	return -(id*100000 + c07h(name)*1000 + x*10 + len(s))
}
func c07implS(id int) string { return "impl" + strconv.Itoa(id) }
func c07ri(v int) string     { return "r" + strconv.Itoa(v) }

// finalizer probes -----------------------------------------------------------------------------------
type c07Fin struct {
	k    int
	pad  [3]uintptr
	self *c07Fin
}

var (
	c07mu        sync.Mutex
	c07collected = map[int]bool{}
	c07epoch     int // finalizers of earlier histories may still fire: they are told apart by the epoch
)

func c07newFin(k int) *c07Fin {
	f := &c07Fin{k: k}
	f.self = f
	f.pad[0] = uintptr(c07epoch)
	runtime.SetFinalizer(f, func(f *c07Fin) {
		c07mu.Lock()
		if int(f.pad[0]) == c07epoch {
			c07collected[f.k] = true
		}
		c07mu.Unlock()
	})
	return f
}

// callbacks: capture k and a finalizer probe, so they are heap closures.
//
//go:noinline
func c07cb0(k int) func(*IContext, int) int {
	f := c07newFin(k)
	return func(c *IContext, x int) int { c.Data = f.k; return c.Data.(int)*100000 + x*10 }
}

//go:noinline
func c07cb1(k int) func(*IContext, int, string) int {
	f := c07newFin(k)
	return func(c *IContext, x int, s string) int { c.Data = s; return f.k*100000 + x*10 + len(c.Data.(string)) }
}

//go:noinline
func c07cb2(k int) func(*IContext) string {
	f := c07newFin(k)
	return func(c *IContext) string { c.Data = f; return "s" + strconv.Itoa(c.Data.(*c07Fin).k) }
}

// churn objects live in the same (pointer-carrying) size classes as closures (16 B), reflect.makeFuncImpl (48 B) and
// the mockers; their first word — where a func value keeps its code pointer — is poison.
type c07ch2 struct {
	a uintptr
	p *int
}
type c07ch4 struct {
	a uintptr
	p *int
	b [2]uintptr
}
type c07ch6 struct {
	a uintptr
	p *int
	b [4]uintptr
}
type c07ch8 struct {
	a uintptr
	p *int
	b [6]uintptr
}

var c07sink []interface{}
var c07one int

const c07poison = 0x4141414141414141

// c07churn forces full collections and overwrites freed small objects with a poison pattern.
func c07churn() {
	for r := 0; r < 3; r++ {
		runtime.GC()
		for i := 0; i < 4000; i++ {
			a := &c07ch2{c07poison, &c07one}
			b := &c07ch4{c07poison, &c07one, [2]uintptr{c07poison, c07poison}}
			c := &c07ch6{c07poison, &c07one, [4]uintptr{c07poison, c07poison, c07poison, c07poison}}
			d := &c07ch8{c07poison, &c07one, [6]uintptr{c07poison, c07poison, c07poison, c07poison, c07poison, c07poison}}
			e := make([]uintptr, 2+i%7)
			for j := range e {
				e[j] = c07poison
			}
			if i%16 != 0 {
				c07sink = append(c07sink, a, b, c, d, e)
			}
		}
		if r < 2 {
			c07sink = nil
		}
	}
	runtime.GC()
	time.Sleep(2 * time.Millisecond) // let the finalizer goroutine run
	runtime.GC()
	time.Sleep(1 * time.Millisecond)
	c07sink = nil
}

type c07Var struct {
	t    *c07Type
	tid  int
	slot int
}

func c07class(r interface{}) string {
	msg := fmt.Sprint(r)
	switch {
	case strings.Contains(msg, "method not implements"):
		return "notimpl"
	case strings.Contains(msg, "nil pointer dereference"):
		return "nilderef"
	case strings.Contains(msg, "no suitable condition"):
		return "nomatch"
	case strings.Contains(msg, "not found on"):
		return "nomethod"
	case strings.Contains(msg, "interface mock apply error"):
		return "applyerr"
	}
	return vh.Class(msg)
}

func c07catch(f func() string) (res string) {
	defer func() {
		if r := recover(); r != nil {
			res = "panic:" + c07class(r)
		}
	}()
	return f()
}

// c07sig: signature class of the own-package (or exported) method `name` as declared in the history's T: token —
// the callback a test author writes for the method he can call.
func c07sig(t *c07Type, name string) int { return t.sigs[name] }

// c07rsig: signature class of a method as reflect sees it (9 = not one of the three classes the probe can call)
func c07rsig(m reflect.Method) int {
	ft := m.Type
	isInt := func(t reflect.Type) bool { return t.Kind() == reflect.Int }
	switch {
	case ft.NumIn() == 1 && ft.NumOut() == 1 && isInt(ft.In(0)) && isInt(ft.Out(0)):
		return 0
	case ft.NumIn() == 2 && ft.NumOut() == 1 && isInt(ft.In(0)) && ft.In(1).Kind() == reflect.String && isInt(ft.Out(0)):
		return 1
	case ft.NumIn() == 0 && ft.NumOut() == 1 && ft.Out(0).Kind() == reflect.String:
		return 2
	}
	return 9
}

// c07qname: method id as the model writes it: name, plus @pkgpath for an unexported method of another package
func c07qname(m reflect.Method) string {
	if m.PkgPath != "" && m.PkgPath != "github.com/tencent/goom" {
		return m.Name + "@" + m.PkgPath
	}
	return m.Name
}

// a hand-written type for finding F27: the embedded crypto/ecdh.Curve brings an unexported method `ecdh` of another package
type c07Dup interface {
	ecdh.Curve
	ecdh(x int) int
	Zz(x int) int
}

var c07VDup [4]c07Dup

func init() {
	c07Types[7000] = &c07Type{
		rt: reflect.TypeOf((*c07Dup)(nil)).Elem(), nvar: 4,
		ptr:   func(s int) interface{} { return &c07VDup[s] },
		set:   func(s, id int) { c07VDup[s] = nil },
		words: func(s int) [2]uintptr { return *(*[2]uintptr)(unsafe.Pointer(&c07VDup[s])) },
		impl:  func(s int) int { return 0 },
		call: func(s int, name string, x int) string {
			v := c07VDup[s]
			switch name {
			case "ecdh":
				return c07ri(v.ecdh(x))
			case "Zz":
				return c07ri(v.Zz(x))
			}
			return "no-such-method"
		},
	}
}

// callbacks that keep *IContext first but do not fit the method (wrong count / wrong slot size)
func c07bad(sig, k int) interface{} {
	switch sig {
	case 0:
		if k%2 == 0 {
			return func(_ *IContext, x, y int) int { return 1 }
		}
		return func(_ *IContext, x int8) int { return 2 }
	case 1:
		if k%2 == 0 {
			return func(_ *IContext, x int) int { return 3 }
		}
		return func(_ *IContext, x int, s int) int { return 4 }
	}
	if k%2 == 0 {
		return func(_ *IContext, x int) string { return "5" }
	}
	return func(_ *IContext, x, y int) string { return "6" }
}

//go:noinline
func c07mock(h *CachedInterfaceMocker, v c07Var, kind string, fits bool, name string, k, a int) string {
	return c07catch(func() string {
		im := h.Method(name)
		sig := c07sig(v.t, name)
		if !fits {
			switch kind {
			case "ap":
				im.Apply(c07bad(sig, k))
			default:
				w := im.As(c07bad(sig, k))
				if sig == 2 {
					w.Return("s" + strconv.Itoa(k))
				} else {
					w.Return(k*100000 + 99)
				}
			}
			return "ok"
		}
		switch kind {
		case "ap":
			switch sig {
			case 0:
				im.Apply(c07cb0(k))
			case 1:
				im.Apply(c07cb1(k))
			default:
				im.Apply(c07cb2(k))
			}
		case "rt":
			switch sig {
			case 0:
				im.As(c07cb0(k)).Return(k*100000 + 99)
			case 1:
				im.As(c07cb1(k)).Return(k*100000 + 99)
			default:
				im.As(c07cb2(k)).Return("s" + strconv.Itoa(k))
			}
		case "wn":
			switch sig {
			case 0:
				im.As(c07cb0(k)).When(a).Return(k*100000 + 99)
			case 1:
				im.As(c07cb1(k)).When(a, "ab").Return(k*100000 + 99)
			default:
				im.As(c07cb2(k)).Return("s" + strconv.Itoa(k))
			}
		}
		return "ok"
	})
}

func c07methods(t *c07Type) []string {
	var ns []string
	for i := 0; i < t.rt.NumMethod(); i++ {
		ns = append(ns, c07qname(t.rt.Method(i)))
	}
	return ns
}

// c07run executes one history.
func c07run(toks []string) string {
	var vars []c07Var
	used := map[int]int{}
	builders := map[int]*Builder{}
	handles := map[[2]int]*CachedInterfaceMocker{}
	dropped := map[int]bool{}
	var obs []string
	c07mu.Lock()
	c07collected = map[int]bool{}
	c07epoch++
	c07mu.Unlock()
	defer func() { // leave no mock behind for the next history
		runtime.KeepAlive(handles) // what the test holds stays a GC root for the whole history (matches the model's roots)
		for _, b := range builders {
			if b != nil {
				b.Reset()
			}
		}
		for _, v := range vars {
			v.t.set(v.slot, 0)
		}
	}()
	for _, tk := range toks {
		f := strings.Split(tk, ":")
		switch f[0] {
		case "T": // T:tid:decl — check that the compiled type is the declared one
			tid, _ := strconv.Atoi(f[1])
			t := c07Types[tid]
			if t == nil {
				return "bad-op"
			}
			want := map[string]int{}
			if f[2] != "" {
				for _, d := range strings.Split(f[2], ",") {
					cut := strings.LastIndex(d, "/")
					if cut < 0 {
						return "bad-op"
					}
					sg, _ := strconv.Atoi(d[cut+1:])
					want[d[:cut]] = sg
				}
			}
			if t.rt.NumMethod() != len(want) {
				return "type-mismatch"
			}
			for i := 0; i < t.rt.NumMethod(); i++ {
				m := t.rt.Method(i)
				if sg, ok := want[c07qname(m)]; !ok || sg != c07rsig(m) {
					return "type-mismatch"
				}
			}
			t.sigs = want
		case "V":
			tid, _ := strconv.Atoi(f[1])
			init, _ := strconv.Atoi(f[2])
			t := c07Types[tid]
			if t == nil || used[tid] >= t.nvar {
				return "bad-op"
			}
			v := c07Var{t, tid, used[tid]}
			used[tid]++
			t.set(v.slot, init)
			vars = append(vars, v)
		case "ap", "rt", "wn", "apx", "rtx", "hap", "hrt", "hwn", "hapx", "hrtx":
			kind := f[0]
			viaH := strings.HasPrefix(kind, "h")
			kind = strings.TrimPrefix(kind, "h")
			fits := !strings.HasSuffix(kind, "x")
			kind = strings.TrimSuffix(kind, "x")
			b, _ := strconv.Atoi(f[1])
			vi, _ := strconv.Atoi(f[2])
			k, _ := strconv.Atoi(f[4])
			a := 0
			if len(f) > 5 {
				a, _ = strconv.Atoi(f[5])
			}
			if vi >= len(vars) || dropped[b] {
				return "bad-op"
			}
			if builders[b] == nil {
				builders[b] = Create()
			}
			v := vars[vi]
			var h *CachedInterfaceMocker
			if viaH {
				if handles[[2]int{b, vi}] == nil {
					handles[[2]int{b, vi}] = builders[b].Interface(v.t.ptr(v.slot))
				}
				h = handles[[2]int{b, vi}]
			} else {
				bb := builders[b]
				r := c07catch(func() string { h = bb.Interface(v.t.ptr(v.slot)); return "" })
				if r != "" {
					obs = append(obs, r)
					continue
				}
			}
			obs = append(obs, c07mock(h, v, kind, fits, f[3], k, a))
		case "pc": // pc:b:v:called:k:m1,m2,..  — another goroutine keeps calling `called` while this one mocks m1,m2,..
			b, _ := strconv.Atoi(f[1])
			vi, _ := strconv.Atoi(f[2])
			k, _ := strconv.Atoi(f[4])
			if vi >= len(vars) || dropped[b] || builders[b] == nil {
				return "bad-op"
			}
			v := vars[vi]
			called := f[3]
			want := c07catch(func() string { return v.t.call(v.slot, called, 5) })
			stop := make(chan struct{})
			started := make(chan struct{})
			done := make(chan string, 1)
			go func() {
				n, res := 0, "ok"
				defer func() {
					if r := recover(); r != nil {
						res = "panic:" + c07class(r)
					}
					done <- res
				}()
				for {
					select {
					case <-stop:
						return
					default:
					}
					if got := v.t.call(v.slot, called, 5); got != want {
						res = "wrong:" + got
						return
					}
					if n++; n == 1 {
						close(started)
					}
				}
			}()
			select { // the schedule is only exercised once the caller runs; a loaded machine may need a while
			case <-started:
			case <-time.After(5 * time.Second):
			}
			res := "ok"
			for i, name := range strings.Split(f[5], ",") {
				bb := builders[b]
				var h *CachedInterfaceMocker
				h = bb.Interface(v.t.ptr(v.slot))
				if r := c07mock(h, v, "ap", true, name, k+i, 0); r != "ok" {
					res = r
				}
				runtime.Gosched()
			}
			time.Sleep(200 * time.Microsecond)
			close(stop)
			if r := <-done; r != "ok" {
				res = "concurrent-call:" + r
			}
			obs = append(obs, res)
		case "as": // the test assigns the variable
			vi, _ := strconv.Atoi(f[1])
			id, _ := strconv.Atoi(f[2])
			if vi >= len(vars) {
				return "bad-op"
			}
			vars[vi].t.set(vars[vi].slot, id)
			obs = append(obs, "ok")
		case "cn": // cancel through ONE method's handle, obtained by a fresh lookup
			b, _ := strconv.Atoi(f[1])
			vi, _ := strconv.Atoi(f[2])
			if vi >= len(vars) || dropped[b] {
				return "bad-op"
			}
			if builders[b] == nil {
				builders[b] = Create()
			}
			bb, v, name := builders[b], vars[vi], f[3]
			obs = append(obs, c07catch(func() string { bb.Interface(v.t.ptr(v.slot)).Method(name).Cancel(); return "ok" }))
		case "rs":
			b, _ := strconv.Atoi(f[1])
			if dropped[b] {
				return "bad-op"
			}
			if builders[b] == nil {
				builders[b] = Create()
			}
			bb := builders[b]
			obs = append(obs, c07catch(func() string { bb.Reset(); return "ok" }))
		case "dr":
			b, _ := strconv.Atoi(f[1])
			builders[b] = nil
			dropped[b] = true
			for hk := range handles {
				if hk[0] == b {
					delete(handles, hk)
				}
			}
			obs = append(obs, "ok")
		case "gc":
			c07churn()
			c07mu.Lock()
			var ks []int
			for k := range c07collected {
				ks = append(ks, k)
			}
			c07mu.Unlock()
			sort.Ints(ks)
			ss := make([]string, len(ks))
			for i, k := range ks {
				ss[i] = strconv.Itoa(k)
			}
			obs = append(obs, "fin="+strings.Join(ss, ","))
		case "ca":
			vi, _ := strconv.Atoi(f[1])
			if vi >= len(vars) {
				return "bad-op"
			}
			v := vars[vi]
			var rs []string
			for mi, n := range c07methods(v.t) {
				if v.t.sigs[n] == 9 {
					continue
				}
				n, x := n, 7+mi
				rs = append(rs, n+"="+c07catch(func() string { return v.t.call(v.slot, n, x) }))
			}
			obs = append(obs, strings.Join(rs, "|"))
		case "wd":
			vi, _ := strconv.Atoi(f[1])
			if vi >= len(vars) {
				return "bad-op"
			}
			v := vars[vi]
			w := v.t.words(v.slot)
			switch {
			case w[0] == 0 && w[1] == 0:
				obs = append(obs, "nil")
			case v.t.impl(v.slot) != 0:
				obs = append(obs, "impl"+strconv.Itoa(v.t.impl(v.slot)))
			case w[0] != 0 && w[1] != 0:
				obs = append(obs, "fake")
			default:
				obs = append(obs, "torn")
			}
		case "mx":
			obs = append(obs, strconv.Itoa(hack.MaxMethod))
		case "od":
			tid, _ := strconv.Atoi(f[1])
			t := c07Types[tid]
			if t == nil {
				return "bad-op"
			}
			obs = append(obs, strings.Join(c07methods(t), ","))
		default:
			return "bad-op"
		}
	}
	return strings.Join(obs, ";")
}

func TestVerifC07(t *testing.T) {
	out := vh.OpenOut()
	defer out.Close()
	start, _ := strconv.Atoi(os.Getenv("VERIF_START"))
	end, err := strconv.Atoi(os.Getenv("VERIF_END"))
	if err != nil {
		end = 1 << 30
	}
	for _, op := range vh.ReadOps() {
		if op.Idx < start || op.Idx >= end || len(op.Toks) == 0 || op.Toks[0] != "c07.hist" {
			continue
		}
		out.Put(op.Idx, "%s", c07run(op.Toks[1:]))
	}
}
