// Package zzverifx — a decoy whose import path is
// github.com/tencent/goom/internal/zzverif/c08a/github.com/tencent/goom/zzverifx:
// it ENDS in "/" + the import path of harness/c08/goomx and declares variables with the same names, initialised with
// other values.  A by-name lookup that accepts a path suffix ("vendored"/"short path" matching) instead of the exact
// symbol name finds these first (this package precedes goomx in the symbol table) and mocks the wrong variable.
package zzverifx

var (
	zzx_int    int    = 9001
	zzx_string string = "suffix decoy"
)

// Keep makes the linker keep the decoys.
func Keep() int { return zzx_int + len(zzx_string) }
