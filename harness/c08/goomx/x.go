// Package zzverifx (import path github.com/tencent/goom/zzverifx, injected by overlay) serves the
// C08 probe in two roles: (1) variables of ANOTHER package, initialised (.data/.noptrdata), mocked by pointer and by
// their full "import/path.name"; (2) it declares variables with the same short names as the probe's root-package variables (a lookup that
// ignores the package part lands here); harness/c08/goomy is its path-suffix decoy.
package zzverifx

var (
	zzx_int    int    = 41
	zzx_string string = "initialised"

	zzv_int    int            = 1001
	zzv_string string         = "decoy"
	zzv_map    map[string]int = map[string]int{"decoy": 1}
	zzv_f64    float64        = 1001.5
	zzv_ptr    *int           = &zzv_int
	zzv_slice  []int          = []int{1001}
)

func PInt() *int          { return &zzx_int }
func PString() *string    { return &zzx_string }
func GetInt() int         { return zzx_int }
func GetString() string   { return zzx_string }
func SetInt(v int)        { zzx_int = v }
func SetString(v string)  { zzx_string = v }

// Decoys returns something that depends on every decoy so the linker keeps them.
func Decoys() int {
	return zzv_int + len(zzv_string) + len(zzv_map) + int(zzv_f64) + *zzv_ptr + len(zzv_slice)
}
