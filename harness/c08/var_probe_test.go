package mocker

import (
	"fmt"
	"os"
	"reflect"
	"runtime"
	"strconv"
	"strings"
	"testing"
	"unsafe"

	goomy "github.com/tencent/goom/internal/zzverif/c08a/github.com/tencent/goom/zzverifx"
	goomx "github.com/tencent/goom/zzverifx"
	"github.com/tencent/goom/internal/zzverif/vh"
)

// C08 probe: runs whole Set/Apply/Cancel/Reset histories on goom's real Builder.Var / Builder.UnExportedVar and
// reports, after every operation, the outcome, the content of every variable of the history (read directly and
// through an accessor function) and the Canceled() flag of every mocker handle obtained so far.

type zzS struct {
	A int
	B string
}
type zzMyInt int
type zzIntSlice []int
type zzStringer interface{ String() string }
type zzErrA struct{ c int }

func (e *zzErrA) Error() string { return "errA" }

type zzErrB struct{ C int }

// zzBig is larger than any inline buffer a mocker might use (64 bytes) and mixes scalars, a string and a pointer
type zzBig struct {
	A [5]int
	S string
	P *int
}

func (e zzErrB) Error() string  { return "errB" }
func (e zzErrB) String() string { return "errB" }

var zzMiscIface zzStringer

var (
	zzSl1, zzSl2, zzSl3    = []int{1, 2, 3}, []int{1, 2, 3}, []int{4, 5, 6}
	zzMp1, zzMp2, zzMp3    = map[string]int{"k": 1}, map[string]int{"k": 1}, map[string]int{}
	zzSt1, zzSt2, zzSt3    = zzS{1, "a"}, zzS{1, "a"}, zzS{3, "c"}
	zzCh1, zzCh2, zzCh3    = make(chan int), make(chan int), make(chan int, 1)
	zzEa1, zzEa2, zzEa3    = zzErrA{1}, zzErrA{1}, zzErrA{3}
	zzCallbackCalls        int
	zzI1, zzI2             = 1, 1
	zzChurn                []interface{}
	zzTypeNames            = map[reflect.Type]string{}
	zzIfaceTy              = map[string]bool{"err": true, "any": true, "str": true}
	zzPkgPath              = "github.com/tencent/goom."
	_                   = unsafe.Pointer(nil)
)

func zzF1() int { return 1 }
func zzF2() int { return 2 }
func zzF3() int { return 3 }

type zzVar struct {
	ty     string
	ptr    interface{}
	path   string // full "import/path.name" when the variable is not in the root package
	sym    string
	direct func() interface{}
	access func() interface{}
	assign func(interface{})
}

const zzXPath = "github.com/tencent/goom/zzverifx."

// zzInitX registers the variables of the other package (initialised data, full import path in the name)
func zzInitX() {
	zzVars["xint"] = &zzVar{ty: "int", ptr: goomx.PInt(), path: zzXPath + "zzx_int",
		direct: func() interface{} { return *goomx.PInt() }, access: func() interface{} { return goomx.GetInt() },
		assign: func(x interface{}) { goomx.SetInt(x.(int)) }}
	zzVars["xstring"] = &zzVar{ty: "string", ptr: goomx.PString(), path: zzXPath + "zzx_string",
		direct: func() interface{} { return *goomx.PString() }, access: func() interface{} { return goomx.GetString() },
		assign: func(x interface{}) { goomx.SetString(x.(string)) }}
}

func zzInitTypes() {
	for n, p := range zzPool {
		zzTypeNames[reflect.TypeOf(p[0])] = n
	}
}

// zzWord returns the data word of an interface value (the funcval pointer for funcs).
func zzWord(x interface{}) unsafe.Pointer {
	return (*[2]unsafe.Pointer)(unsafe.Pointer(&x))[1]
}

// zzSame: identity of two values of one type (header identity for reference kinds).
func zzSame(a, b interface{}) bool {
	va, vb := reflect.ValueOf(a), reflect.ValueOf(b)
	switch va.Kind() {
	case reflect.Slice:
		return va.IsNil() == vb.IsNil() && va.Pointer() == vb.Pointer() && va.Len() == vb.Len() && va.Cap() == vb.Cap()
	case reflect.Map, reflect.Chan, reflect.Ptr, reflect.UnsafePointer:
		return va.Pointer() == vb.Pointer()
	case reflect.Func:
		return zzWord(a) == zzWord(b)
	}
	return a == b
}

// ---- heap-built ("fresh") values: rep 10+k.  Built at run time, so the variable (or a mocker's saved origin) is the only
// reference to their storage; recognised by content, not identity.

func zzFreshString(k int) string {
	b := make([]byte, 100+k)
	for i := range b {
		b[i] = byte('p' + k)
	}
	return string(b)
}

func zzFresh(ty string, k int) (interface{}, bool) {
	switch ty {
	case "string":
		return zzFreshString(k), true
	case "slice":
		s := make([]int, 64)
		for i := range s {
			s[i] = 7000 + k
		}
		return s, true
	case "map":
		return map[string]int{"fresh": 7000 + k}, true
	case "ptr":
		return &zzS{A: 7000 + k, B: zzFreshString(k)}, true
	case "struct":
		return zzS{A: 7000 + k, B: zzFreshString(k)}, true
	case "perr":
		return &zzErrA{c: 7000 + k}, true
	case "big":
		p := new(int)
		*p = 7000 + k
		return zzBig{A: [5]int{7000 + k, 1, 2, 3, 7000 + k}, S: zzFreshString(k), P: p}, true
	}
	return nil, false
}

// zzFreshRep recognises a fresh value by its content; -1 if x is not one
func zzFreshRep(ty string, x interface{}) int {
	for k := 0; k < 4; k++ {
		ok := false
		switch v := x.(type) {
		case string:
			ok = v == zzFreshString(k)
		case []int:
			ok = len(v) == 64 && cap(v) == 64
			for i := 0; ok && i < 64; i++ {
				ok = v[i] == 7000+k
			}
		case map[string]int:
			ok = v != nil && len(v) == 1 && v["fresh"] == 7000+k
		case *zzS:
			ok = v != nil && v.A == 7000+k && v.B == zzFreshString(k)
		case zzS:
			ok = v.A == 7000+k && v.B == zzFreshString(k)
		case *zzErrA:
			ok = v != nil && v.c == 7000+k
		case zzBig:
			ok = v.A == [5]int{7000 + k, 1, 2, 3, 7000 + k} && v.S == zzFreshString(k) && v.P != nil && *v.P == 7000+k
		}
		if ok {
			return k
		}
	}
	return -1
}

// zzGC: two collections, then allocation churn in the size classes of the fresh values (scan and noscan), filled with
// other content and kept until the next zzGC, so that storage freed by the collections is reused.
func zzGC() {
	zzChurn = nil
	runtime.GC()
	runtime.GC()
	var keep []interface{}
	for _, sz := range []int{8, 16, 24, 32, 48, 64, 112, 128, 512, 640} {
		for i := 0; i < 1500; i++ {
			b := make([]byte, sz)
			for j := range b {
				b[j] = 'B'
			}
			keep = append(keep, b)
		}
	}
	for i := 0; i < 1500; i++ {
		keep = append(keep, &zzS{A: -1, B: "churn"}, &zzBig{S: "churn"}, map[string]int{"churn": i}, &[4]*int{})
	}
	zzChurn = keep
	runtime.GC()
}

// zzIdent names a value: nil, <type>:<rep>, <type>:? (no pool element is identical), ?:<go type>
func zzIdent(x interface{}) string {
	if x == nil {
		return "nil"
	}
	n, ok := zzTypeNames[reflect.TypeOf(x)]
	if !ok {
		return "?:" + reflect.TypeOf(x).String()
	}
	for j, p := range zzPool[n] {
		if zzSame(x, p) {
			return n + ":" + strconv.Itoa(j)
		}
	}
	if k := zzFreshRep(n, x); k >= 0 {
		return n + ":" + strconv.Itoa(10+k)
	}
	return n + ":?"
}

func zzValue(tok string) (interface{}, bool) {
	if tok == "nil" {
		return nil, true
	}
	p := strings.SplitN(tok, ":", 2)
	if len(p) != 2 {
		return nil, false
	}
	pool, ok := zzPool[p[0]]
	j, err := strconv.Atoi(p[1])
	if ok && err == nil && j >= 10 && j < 14 {
		return zzFresh(p[0], j-10)
	}
	if !ok || err != nil || j < 0 || j >= len(pool) {
		return nil, false
	}
	return pool[j], true
}

func zzClass(r interface{}) string {
	msg := fmt.Sprint(r)
	for _, c := range []struct{ sub, class string }{
		{"reflect.Value.Set on zero Value", "setZeroValue"},
		{"reflect.Set: value of type", "notAssignable"},
		{"reflect.Value.Elem on zero Value", "elemZeroValue"},
		{"reflect.Type is nil", "nilType"},
		{"must be a func", "notFunc"},
		{"call of nil function", "nilFunc"},
		{"too few input arguments", "fewArgs"},
		{"returns length must be 1", "retCount"},
		{"zz-callback-panic", "cbPanic"},
		{"target must be a pointer", "notPtr"},
		{"reflect.Value.Pointer on", "pointerOnNonPtr"},
		{"cannot find unexported var", "notFound"},
	} {
		if strings.Contains(msg, c.sub) {
			return "panic:" + c.class
		}
	}
	return "panic:other:" + vh.Class(msg)
}

func zzCallback(tok string) (interface{}, bool) {
	switch tok {
	case "notfunc":
		return 5, true
	case "nilfunc":
		return (func() int)(nil), true
	case "args":
		return func(a int) int { zzCallbackCalls++; return a }, true
	case "rets0":
		return func() { zzCallbackCalls++ }, true
	case "rets2":
		return func() (int, int) { zzCallbackCalls++; return 1, 2 }, true
	case "panics":
		return func() int { zzCallbackCalls++; panic("zz-callback-panic") }, true
	}
	if strings.HasPrefix(tok, "vret:") { // variadic callback: reflect's Call(nil) accepts it
		v, ok := zzValue(tok[5:])
		if !ok {
			return nil, false
		}
		return func(xs ...int) interface{} { zzCallbackCalls++; return v }, true
	}
	static := strings.HasPrefix(tok, "ret:")
	if !static && !strings.HasPrefix(tok, "reti:") {
		return nil, false
	}
	v, ok := zzValue(tok[strings.Index(tok, ":")+1:])
	if !ok {
		return nil, false
	}
	if v == nil || !static {
		// result type interface{}: ret[0].Interface() is the dynamic value, or the nil interface
		return func() interface{} { zzCallbackCalls++; return v }, true
	}
	// func() T for the value's own type T, as a user would write it
	ft := reflect.FuncOf(nil, []reflect.Type{reflect.TypeOf(v)}, false)
	return reflect.MakeFunc(ft, func([]reflect.Value) []reflect.Value {
		zzCallbackCalls++
		return []reflect.Value{reflect.ValueOf(v)}
	}).Interface(), true
}

type zzHist struct {
	names    []string
	vars     []*zzVar
	builders map[string]*Builder
	handles  []VarMock
}

func (h *zzHist) builder(b string) *Builder {
	if h.builders[b] == nil {
		h.builders[b] = Create()
	}
	return h.builders[b]
}

func (h *zzHist) observe(outcome string) string {
	var sb strings.Builder
	sb.WriteString(outcome)
	sb.WriteByte('|')
	for i, v := range h.vars {
		if i > 0 {
			sb.WriteByte(',')
		}
		d, a := zzIdent(v.direct()), zzIdent(v.access())
		sb.WriteString(h.names[i] + "=" + d)
		if a != d {
			sb.WriteString("/" + a)
		}
	}
	sb.WriteByte('|')
	for _, m := range h.handles {
		if m.Canceled() {
			sb.WriteByte('1')
		} else {
			sb.WriteByte('0')
		}
	}
	sb.WriteByte('|')
	for _, b := range []string{"0", "1"} {
		switch n := h.builder(b).PkgName(); n {
		case "github.com/tencent/goom":
			sb.WriteByte('0')
		case "zzpkg/p1":
			sb.WriteByte('1')
		case "zzpkg/p2":
			sb.WriteByte('2')
		default:
			sb.WriteString("?" + n)
		}
	}
	return sb.String()
}

// step runs one op on the real goom code; "" = unparsable
func (h *zzHist) step(t []string) (res string) {
	defer func() {
		if r := recover(); r != nil {
			res = zzClass(r)
		}
	}()
	handle := func(s string) VarMock {
		i, err := strconv.Atoi(s)
		if err != nil || i < 0 || i >= len(h.handles) {
			return nil
		}
		return h.handles[i]
	}
	switch {
	case len(t) == 4 && t[0] == "look":
		v := zzVars[t[3]]
		if v == nil || (t[2] != "p" && t[2] != "u") {
			return ""
		}
		var m VarMock
		if t[2] == "p" {
			m = h.builder(t[1]).Var(v.ptr)
		} else {
			name := zzPkgPath + v.sym
			if v.path != "" {
				name = v.path
			}
			m = h.builder(t[1]).UnExportedVar(name)
		}
		h.handles = append(h.handles, m)
		return "ok"
	case len(t) == 1 && t[0] == "gc":
		zzGC()
		return "ok"
	case len(t) == 3 && t[0] == "misc":
		// other kinds of mockers looked up (never applied) in the same builder: Reset walks them too
		switch t[2] {
		case "struct":
			h.builder(t[1]).Struct(&zzErrA{})
		case "func":
			h.builder(t[1]).Func(zzF3)
		case "iface":
			h.builder(t[1]).Interface(&zzMiscIface)
		case "exportfunc":
			h.builder(t[1]).ExportFunc("zzF2")
		default:
			return ""
		}
		return "ok"
	case len(t) == 3 && t[0] == "pkg" && (t[2] == "1" || t[2] == "2"):
		h.builder(t[1]).Pkg("zzpkg/p" + t[2]) // package override pending for the next lookup
		return "ok"
	case (len(t) == 2 || len(t) == 3) && t[0] == "lookbad":
		switch t[1] {
		case "missing":
			h.builder("0").UnExportedVar(zzPkgPath + "zzv_no_such_variable")
		case "stripped":
			h.builder("0").UnExportedVar(zzPkgPath + zzVars[t[2]].sym)
		case "nonptr-int":
			h.builder("0").Var(5)
		case "nil":
			h.builder("0").Var(nil)
		case "nonptr-map":
			h.builder("0").Var(zzMp1)
		default:
			return ""
		}
		return "ok"
	case len(t) == 3 && t[0] == "set":
		m := handle(t[1])
		x, ok := zzValue(t[2])
		if m == nil || !ok {
			return ""
		}
		m.Set(x)
		return "ok"
	case len(t) == 3 && t[0] == "apply":
		m := handle(t[1])
		cb, ok := zzCallback(t[2])
		if m == nil || !ok {
			return ""
		}
		zzCallbackCalls = 0
		m.Apply(cb)
		if zzCallbackCalls != 1 {
			return "ok-callback-calls=" + strconv.Itoa(zzCallbackCalls)
		}
		return "ok"
	case len(t) == 2 && t[0] == "cancel":
		m := handle(t[1])
		if m == nil {
			return ""
		}
		m.Cancel()
		return "ok"
	case len(t) == 2 && t[0] == "reset":
		h.builder(t[1]).Reset()
		return "ok"
	case len(t) == 3 && t[0] == "write":
		v := zzVars[t[1]]
		x, ok := zzValue(t[2])
		if v == nil || !ok {
			return ""
		}
		v.assign(x)
		return "ok"
	}
	return ""
}

func zzRunHist(toks []string) string {
	h := &zzHist{builders: map[string]*Builder{}}
	i := 0
	for ; i < len(toks) && toks[i] != ";"; i++ {
		p := strings.SplitN(toks[i], "=", 2)
		if len(p) != 2 || zzVars[p[0]] == nil {
			return "bad-op"
		}
		x, ok := zzValue(p[1])
		if !ok {
			return "bad-op"
		}
		h.names = append(h.names, p[0])
		h.vars = append(h.vars, zzVars[p[0]])
		zzVars[p[0]].assign(x)
	}
	var obs []string
	for i < len(toks) {
		j := i + 1
		for j < len(toks) && toks[j] != ";" {
			j++
		}
		r := h.step(toks[i+1 : j])
		if r == "" {
			return "bad-op"
		}
		obs = append(obs, h.observe(r))
		i = j
	}
	return strings.Join(obs, " ; ")
}

// TestVerifC08 runs the operation stream; VERIF_START skips lines already answered by a crashed predecessor.
func TestVerifC08(t *testing.T) {
	zzInitTypes()
	zzInitX()
	if len(zzDecoys) == 0 || goomx.Decoys() == 0 || goomy.Keep() == 0 {
		t.Fatal("decoys")
	}
	out := vh.OpenOut()
	defer out.Close()
	start, _ := strconv.Atoi(os.Getenv("VERIF_START"))
	for _, op := range vh.ReadOps() {
		if op.Idx < start || len(op.Toks) == 0 {
			continue
		}
		switch op.Toks[0] {
		case "c08.hist":
			out.Put(op.Idx, "%s", zzRunHist(op.Toks[1:]))
		case "c08.asg":
			if len(op.Toks) != 3 || zzPool[op.Toks[1]] == nil || zzVars[op.Toks[2]] == nil {
				out.Put(op.Idx, "bad-op")
				continue
			}
			vt := reflect.TypeOf(zzPool[op.Toks[1]][0])
			tt := reflect.TypeOf(zzVars[op.Toks[2]].ptr).Elem()
			out.Put(op.Idx, "asg=%v", vt.AssignableTo(tt))
		}
	}
}
