// Package vh holds the protocol helpers shared by the verification probes.  It is injected into the goom
// module as github.com/tencent/goom/internal/zzverif/vh with `go test -overlay`; nothing is written to /repo.
package vh

import (
	"bufio"
	"encoding/hex"
	"fmt"
	"os"
	"strconv"
	"strings"
)

// Op is one line of the operation stream.
type Op struct {
	Idx  int
	Toks []string
	Line string
}

// ReadOps reads $VERIF_OPS.
func ReadOps() []Op {
	f, err := os.Open(os.Getenv("VERIF_OPS"))
	if err != nil {
		panic(err)
	}
	defer f.Close()
	var ops []Op
	sc := bufio.NewScanner(f)
	sc.Buffer(make([]byte, 1<<20), 1<<26)
	i := 0
	for sc.Scan() {
		ops = append(ops, Op{Idx: i, Toks: strings.Fields(sc.Text()), Line: sc.Text()})
		i++
	}
	return ops
}

// Out writes `<idx>\t<observation>` lines to $VERIF_OUT, flushed per line so a crash loses nothing.
type Out struct{ f *os.File }

// OpenOut opens $VERIF_OUT for appending.
func OpenOut() *Out {
	f, err := os.OpenFile(os.Getenv("VERIF_OUT"), os.O_CREATE|os.O_WRONLY|os.O_APPEND, 0o644)
	if err != nil {
		panic(err)
	}
	return &Out{f}
}

// Put records the observation of op idx.
func (o *Out) Put(idx int, format string, a ...interface{}) {
	fmt.Fprintf(o.f, "%d\t%s\n", idx, fmt.Sprintf(format, a...))
}

// Close closes the stream.
func (o *Out) Close() { o.f.Close() }

// U64 parses decimal or 0x-hex.
func U64(s string) uint64 {
	v, err := strconv.ParseUint(s, 0, 64)
	if err != nil {
		panic("bad number " + s)
	}
	return v
}

// I64 parses a signed decimal or 0x-hex.
func I64(s string) int64 {
	v, err := strconv.ParseInt(s, 0, 64)
	if err != nil {
		panic("bad number " + s)
	}
	return v
}

// Hex renders bytes as lower-case hex, "-" when empty.
func Hex(b []byte) string {
	if len(b) == 0 {
		return "-"
	}
	return hex.EncodeToString(b)
}

// UnHex parses Hex output.
func UnHex(s string) []byte {
	if s == "-" {
		return nil
	}
	b, err := hex.DecodeString(s)
	if err != nil {
		panic("bad hex " + s)
	}
	return b
}

// Catch runs f and maps a panic to "panic:<class>" using classify.
func Catch(f func() string) (res string) {
	defer func() {
		if r := recover(); r != nil {
			res = "panic:" + Class(fmt.Sprint(r))
		}
	}()
	return f()
}

// Class maps a free-text message to a stable short class (first words, no addresses/numbers).
func Class(msg string) string {
	msg = strings.ToLower(msg)
	var b strings.Builder
	n := 0
	for _, w := range strings.Fields(msg) {
		keep := true
		for _, c := range w {
			if c >= '0' && c <= '9' {
				keep = false
			}
		}
		if !keep {
			continue
		}
		w = strings.Trim(w, ":,.()[]")
		if w == "" {
			continue
		}
		if n > 0 {
			b.WriteByte('-')
		}
		b.WriteString(w)
		n++
		if n == 4 {
			break
		}
	}
	return b.String()
}

// Rng is splitmix64.
type Rng struct{ S uint64 }

// Next returns the next value.
func (r *Rng) Next() uint64 {
	r.S += 0x9E3779B97F4A7C15
	z := r.S
	z = (z ^ (z >> 30)) * 0xBF58476D1CE4E5B9
	z = (z ^ (z >> 27)) * 0x94D049BB133111EB
	return z ^ (z >> 31)
}

// Below returns a value in [0,n).
func (r *Rng) Below(n int) int { return int(r.Next() % uint64(n)) }

// Seed reads VERIF_SEED.
func Seed() uint64 {
	v, err := strconv.ParseUint(os.Getenv("VERIF_SEED"), 10, 64)
	if err != nil {
		return 1
	}
	return v
}
