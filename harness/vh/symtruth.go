package vh

import (
	"fmt"
	"runtime"
	"strings"
)

// Helpers of the C10 probes (symbol lookup): name encoding of the line protocol and the run-time truth about a
// code address according to the runtime's own function table.

// SymUnesc decodes SymEsc.
func SymUnesc(s string) string {
	if !strings.Contains(s, "%") {
		return s
	}
	var b strings.Builder
	for i := 0; i < len(s); i++ {
		if s[i] == '%' && i+2 < len(s) {
			var v byte
			fmt.Sscanf(s[i+1:i+3], "%02x", &v)
			b.WriteByte(v)
			i += 2
		} else {
			b.WriteByte(s[i])
		}
	}
	return b.String()
}

// SymEsc percent-encodes every byte outside 0x21..0x7e and the protocol's own separators % @ |.
func SymEsc(s string) string {
	var b strings.Builder
	for i := 0; i < len(s); i++ {
		c := s[i]
		if c < 0x21 || c > 0x7e || c == '%' || c == '@' || c == '|' {
			fmt.Fprintf(&b, "%%%02x", c)
		} else {
			b.WriteByte(c)
		}
	}
	return b.String()
}

// SymPrintName is runtime.funcNameForPrint (traceback.go): the runtime reports generic instances with their type
// arguments replaced by "...", so that is the finest name comparison the runtime's own table allows for them.
func SymPrintName(name string) string {
	i := strings.IndexByte(name, '[')
	j := strings.LastIndexByte(name, ']')
	if i < 0 || j <= i {
		return name
	}
	return name[:i] + "[...]" + name[j+1:]
}

// FuncTruth asks the runtime which function starts at pc.
func FuncTruth(name string, pc uintptr, direct map[string]uintptr) string {
	if pc == 0 || pc+1 == 0 {
		return "rt:none"
	}
	frames := runtime.CallersFrames([]uintptr{pc + 1})
	var last runtime.Frame
	n := 0
	for {
		fr, more := frames.Next()
		if fr.PC != 0 || fr.Function != "" {
			last = fr
			n++
		}
		if !more {
			break
		}
	}
	if n == 0 {
		return "rt:none"
	}
	if last.Function == "" {
		// runtime quirk (symtab.go funcName): the function whose name sits at offset 0 of the name table is reported
		// nameless (the first function of the text segment in practice); only its entry can be compared
		if last.Entry == pc {
			return "entry-only"
		}
		return fmt.Sprintf("rt:@%#x", last.Entry)
	}
	res := "exact"
	if last.Entry != pc || last.Function != SymPrintName(name) {
		res = fmt.Sprintf("rt:%s@%#x", SymEsc(last.Function), last.Entry)
	}
	if want, ok := direct[name]; ok {
		if want == pc && res == "exact" {
			return "exact+ptr"
		}
		if want != pc {
			return fmt.Sprintf("%s,ptr=%#x", res, want)
		}
	}
	return res
}
