package vh

import (
	"fmt"

	refx86 "github.com/tencent/goom/internal/zzverif/refx86"
)

// Head is what WalkHead found in a trampoline.
type Head struct {
	K    int    // origin instructions whose relocated copy precedes the jump back
	N    int    // their total length in the origin: the jump back must land on origin+N
	Off  int    // offset of the jump back inside the trampoline (= length of the relocated copy)
	JLen int    // length of the jump-back sequence
	Run  string // RunX86Mem of the jump back executed where it sits (trampoline+Off)
	Err  string // non-empty: the trampoline is not "relocated head, then a jump"
}

// WalkHead reads a trampoline the way the property describes it, with the reference decoder only and without any
// knowledge of how goom chose the length of the head: instruction by instruction the trampoline must hold a copy of
// the origin's instructions (same mnemonic; relocation may change operands and widen a short branch), and after at
// least minLen origin bytes (the part of the origin overwritten by the entry jump) a jump follows.  The "intended
// destination" of that jump is the origin instruction that follows the copied ones: origin+N.
// `origin` must be the bytes of the origin function before it was patched.
func WalkHead(origin []byte, originAddr uint64, tramp []byte, trampAddr uint64, minLen int) Head {
	po, pt, k := 0, 0, 0
	for ; k < 64; k++ {
		if po+16 > len(origin) || pt+24 > len(tramp) {
			return Head{K: k, N: po, Off: pt, Err: "ran-off-the-snapshot"}
		}
		it, et := refx86.Decode(tramp[pt:], 64)
		if et != nil {
			return Head{K: k, N: po, Off: pt, Err: "trampoline-undecodable"}
		}
		io, eo := refx86.Decode(origin[po:], 64)
		if po >= minLen {
			final := false
			switch {
			case it.Op == refx86.JMP:
				if rel, ok := it.Args[0].(refx86.Rel); ok {
					lands := trampAddr + uint64(pt+it.Len) + uint64(int64(rel))
					// a copied JMP keeps its own absolute target; only a jump to itself could be confused with the jump back
					final = lands == originAddr+uint64(po) || eo != nil || io.Op != refx86.JMP
				} else {
					final = eo != nil || io.Op != refx86.JMP
				}
			case it.Op == refx86.MOV && tramp[pt] == 0x48 && tramp[pt+1] == 0xBA && tramp[pt+10] == 0xFF:
				// MOV RDX, imm64 followed by an FF-group instruction: the absolute form — unless the origin has the very same bytes
				final = string(origin[po:po+12]) != string(tramp[pt:pt+12])
			}
			if final {
				run, n := RunX86Mem(tramp[pt:], trampAddr+uint64(pt))
				return Head{K: k, N: po, Off: pt, JLen: n, Run: run}
			}
		}
		if eo != nil {
			return Head{K: k, N: po, Off: pt, Err: "origin-undecodable"}
		}
		if io.Op != it.Op {
			return Head{K: k, N: po, Off: pt, Err: fmt.Sprintf("diverges:%s-vs-%s", io.Op, it.Op)}
		}
		po += io.Len
		pt += it.Len
	}
	return Head{K: k, N: po, Off: pt, Err: "no-jump-found"}
}
