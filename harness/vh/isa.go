package vh

import (
	"encoding/binary"
	"fmt"
	"strings"

	refarm64 "github.com/tencent/goom/internal/zzverif/refarm64"
	refx86 "github.com/tencent/goom/internal/zzverif/refx86"
)

// RunX86 interprets a straight-line emitted sequence placed at `from`, decoding every instruction with the
// toolchain's reference decoder (independent of goom's decoder and of the Lean mini-ISA).  Memory is the
// marker mem64(a) = ^a.  Output format equals the Lean driver's.
func RunX86(bs []byte, from uint64, mode int) string {
	res, _ := runX86(bs, from, mode, true)
	return res
}

// RunX86Mem is RunX86 on bytes read from memory: the sequence ends with its first jump, whatever follows it in
// `bs`; the second result is the number of bytes the sequence occupies.
func RunX86Mem(bs []byte, from uint64) (string, int) {
	return runX86(bs, from, 64, false)
}

func runX86(bs []byte, from uint64, mode int, exact bool) (string, int) {
	pc := from
	rdx := uint64(0xdddddddddddddddd)
	if mode == 32 {
		rdx = 0xdddddddd
	}
	for off := 0; off < len(bs); {
		ins, err := refx86.Decode(bs[off:], mode)
		if err != nil {
			return "undecodable", 0
		}
		next := pc + uint64(ins.Len)
		switch ins.Op {
		case refx86.NOP:
		case refx86.MOV:
			r, ok1 := ins.Args[0].(refx86.Reg)
			imm, ok2 := ins.Args[1].(refx86.Imm)
			if !ok1 || !ok2 || (mode == 64 && r != refx86.RDX) || (mode == 32 && r != refx86.EDX) {
				return "undecodable", 0
			}
			rdx = uint64(imm)
			if mode == 32 {
				rdx &= 0xffffffff
			}
		case refx86.JMP:
			if m, isMem := ins.Args[0].(refx86.Mem); exact && off+ins.Len != len(bs) && !(isMem && m.Base == refx86.RIP) {
				return "undecodable", 0
			}
			switch a := ins.Args[0].(type) {
			case refx86.Rel:
				return fmt.Sprintf("rip=%#x rdx=%#x", next+uint64(int64(a)), rdx), off + ins.Len
			case refx86.Mem:
				if mode == 64 && a.Base == refx86.RIP && a.Index == 0 && a.Disp == 0 && a.Segment == 0 {
					// JMP [RIP+0]: the pointer is the quadword right behind the instruction, part of the sequence itself
					q := off + ins.Len
					if len(bs) < q+8 || (exact && len(bs) != q+8) {
						return "undecodable", 0
					}
					return fmt.Sprintf("rip=%#x rdx=%#x", binary.LittleEndian.Uint64(bs[q:]), rdx), q + 8
				}
				okb := (mode == 64 && a.Base == refx86.RDX) || (mode == 32 && a.Base == refx86.EDX)
				if !okb || a.Index != 0 || a.Disp != 0 || a.Segment != 0 {
					return "undecodable", 0
				}
				if mode == 32 {
					return fmt.Sprintf("eip=%#x edx=%#x", uint64(^uint32(rdx)), rdx), off + ins.Len
				}
				return fmt.Sprintf("rip=%#x rdx=%#x", ^rdx, rdx), off + ins.Len
			}
			return "undecodable", 0
		default:
			return "undecodable", 0
		}
		pc = next
		off += ins.Len
	}
	return "undecodable", 0
}

// RunA64 interprets MOVZ/MOVK/LDR/BR sequences with the reference arm64 decoder.
func RunA64(bs []byte, from uint64) string {
	var x [31]uint64
	var init [31]uint64
	for i := range x {
		x[i] = 0xa0a0a0a000 + uint64(i)
		init[i] = x[i]
	}
	reg := func(a refarm64.Arg) (int, bool) {
		r, ok := a.(refarm64.Reg)
		if !ok || r < refarm64.X0 || r > refarm64.X30 {
			return 0, false
		}
		return int(r - refarm64.X0), true
	}
	if len(bs)%4 != 0 {
		return "undecodable"
	}
	for off := 0; off < len(bs); off += 4 {
		ins, err := refarm64.Decode(bs[off : off+4])
		if err != nil {
			return "undecodable"
		}
		_ = binary.LittleEndian
		switch ins.Op {
		case refarm64.MOVZ, refarm64.MOVK:
			rd, ok := reg(ins.Args[0])
			imm, sh, ok2 := refarm64.ImmShiftParts(ins.Args[1])
			if !ok || !ok2 {
				// MOVZ with shift 0 may be rendered as plain Imm64/Imm by some versions
				return "undecodable"
			}
			if ins.Op == refarm64.MOVZ {
				x[rd] = uint64(imm) << sh
			} else {
				x[rd] = x[rd]&^(uint64(0xffff)<<sh) | uint64(imm)<<sh
			}
		case refarm64.MOV:
			// alias of MOVZ preferred by the reference decoder for some immediates
			rd, ok := reg(ins.Args[0])
			if !ok {
				return "undecodable"
			}
			switch a := ins.Args[1].(type) {
			case refarm64.Imm64:
				x[rd] = a.Imm
			case refarm64.Imm:
				x[rd] = uint64(a.Imm)
			default:
				return "undecodable"
			}
		case refarm64.LDR:
			rt, ok := reg(ins.Args[0])
			base, mode, imm, ok2 := refarm64.MemImmParts(ins.Args[1])
			if !ok || !ok2 || mode != refarm64.AddrOffset || base < refarm64.RegSP(refarm64.X0) || base > refarm64.RegSP(refarm64.X30) {
				return "undecodable"
			}
			x[rt] = ^(x[int(base)-int(refarm64.X0)] + uint64(int64(imm)))
		case refarm64.BR:
			rn, ok := reg(ins.Args[0])
			if !ok || off+4 != len(bs) {
				return "undecodable"
			}
			var ch []string
			for i := range x {
				if x[i] != init[i] {
					ch = append(ch, fmt.Sprintf("x%d=%#x", i, x[i]))
				}
			}
			return fmt.Sprintf("pc=%#x %s", x[rn], strings.Join(ch, ","))
		default:
			return "undecodable"
		}
	}
	return "undecodable"
}
