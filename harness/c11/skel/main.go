// Command skel prints the lock/access skeleton of the goom functions anchored by property C11, extracted from the
// CURRENT source with go/ast:  <function>\t<tokens in source order>.  The check compares it with the skeleton the Lean
// model declares for the same function (driver op `c11.skel`), so that a dropped lock or a reordered WriteTo phase is a
// correspondence failure even when no run-time effect can be produced.
package main

import (
	"bytes"
	"fmt"
	"go/ast"
	"go/parser"
	"go/printer"
	"go/token"
	"os"
	"path/filepath"
	"strings"
)

var want = map[string][]string{
	"internal/patch/patch.go":                  {"replaceFunc", "lock", "unlock"},
	"internal/patch/guard.go":                  {"Apply", "Unpatch", "UnpatchWithLock", "Restore"},
	"internal/patch/monkey.go":                 {"unpatchValue", "UnpatchAll", "Unpatch"},
	"internal/bytecode/memory/memory.go":       {"RawRead"},
	"internal/bytecode/memory/mwrite_amd64.go": {"WriteTo"},
	"internal/bytecode/memory/mwrite_unix.go":  {"mProtectCrossPage"},
	"internal/bytecode/func_amd64.go":          {"GetFuncSize"},
}

var locks = map[string]bool{"memoryAccessLock": true, "funcSizeReadLock": true, "patchesLock": true}
var calls = map[string]bool{"lock": true, "unlock": true, "unpatchValue": true, "copy": true, "fixOrigin": true, "checkAndReadOriginBytes": true,
	"genJumpData": true, "WriteTo": true, "RawRead": true, "Mprotect": true, "Unpatch": true, "unpatch": true, "writeTo": true}

func text(fset *token.FileSet, n ast.Node) string {
	var b bytes.Buffer
	printer.Fprint(&b, fset, n)
	return b.String()
}

func callName(fset *token.FileSet, c *ast.CallExpr) string {
	switch f := c.Fun.(type) {
	case *ast.Ident:
		if f.Name == "delete" && len(c.Args) > 0 {
			return "delete-" + text(fset, c.Args[0])
		}
		if f.Name == "mProtectCrossPage" {
			t, tok := text(fset, c), "mprotect-R"
			if strings.Contains(t, "PROT_WRITE") {
				tok += "W"
			}
			if strings.Contains(t, "PROT_EXEC") {
				tok += "X"
			}
			return tok
		}
		if calls[f.Name] {
			return f.Name
		}
	case *ast.SelectorExpr:
		if x, ok := f.X.(*ast.Ident); ok && locks[x.Name] {
			return x.Name + "." + f.Sel.Name
		}
		if calls[f.Sel.Name] {
			return f.Sel.Name
		}
	}
	return ""
}

func skeleton(fset *token.FileSet, fn *ast.FuncDecl) string {
	var toks []string
	emit := func(t string) {
		if t != "" && (len(toks) == 0 || toks[len(toks)-1] != t) {
			toks = append(toks, t)
		}
	}
	var walk func(n ast.Node) bool
	walk = func(n ast.Node) bool {
		switch x := n.(type) {
		case *ast.DeferStmt:
			if fl, ok := x.Call.Fun.(*ast.FuncLit); ok {
				emit("defer{")
				ast.Inspect(fl.Body, walk)
				emit("}")
			} else if nm := callName(fset, x.Call); nm != "" {
				emit("defer-" + nm)
			}
			return false
		case *ast.CallExpr:
			for _, a := range x.Args {
				ast.Inspect(a, walk)
			}
			emit(callName(fset, x))
			ast.Inspect(x.Fun, func(m ast.Node) bool {
				if _, ok := m.(*ast.CallExpr); ok && m != ast.Node(x) {
					return walk(m)
				}
				return true
			})
			return false
		case *ast.AssignStmt:
			for _, r := range x.Rhs {
				ast.Inspect(r, walk)
			}
			for _, l := range x.Lhs {
				switch lv := l.(type) {
				case *ast.IndexExpr:
					if id, ok := lv.X.(*ast.Ident); ok && (id.Name == "patches" || id.Name == "funcSizeCache") {
						emit("set-" + id.Name)
					}
				case *ast.SelectorExpr:
					if lv.Sel.Name == "applied" {
						emit("set-applied")
					}
				}
			}
			return false
		case *ast.IndexExpr:
			if id, ok := x.X.(*ast.Ident); ok && (id.Name == "patches" || id.Name == "funcSizeCache") {
				emit("get-" + id.Name)
			}
		case *ast.IfStmt:
			if x.Init != nil {
				ast.Inspect(x.Init, walk)
			}
			if strings.Contains(text(fset, x.Cond), ".applied") {
				emit("if-applied{")
				ast.Inspect(x.Body, walk)
				emit("}")
				if x.Else != nil {
					ast.Inspect(x.Else, walk)
				}
				return false
			}
		case *ast.RangeStmt:
			if id, ok := x.X.(*ast.Ident); ok && id.Name == "patches" {
				emit("range-patches")
			}
		case *ast.ForStmt:
			emit("for")
		}
		return true
	}
	ast.Inspect(fn.Body, walk)
	return strings.Join(toks, " ")
}

func main() {
	repo := os.Args[1]
	fset := token.NewFileSet()
	for file, names := range want {
		f, err := parser.ParseFile(fset, filepath.Join(repo, file), nil, 0)
		if err != nil {
			fmt.Printf("%s\tPARSE-ERROR\n", file)
			continue
		}
		for _, d := range f.Decls {
			fn, ok := d.(*ast.FuncDecl)
			if !ok || fn.Body == nil {
				continue
			}
			for _, n := range names {
				if fn.Name.Name == n {
					recv := ""
					if fn.Recv != nil {
						recv = "m:"
					}
					fmt.Printf("%s:%s%s\t%s\n", filepath.Base(file), recv, n, skeleton(fset, fn))
				}
			}
		}
	}
}
