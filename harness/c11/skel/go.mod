module c11skel

go 1.21
