package mocker

// Variadic steady targets of the C11 probe: locations 48..53, with 0, 1 and 2 leading fixed parameters (two of each).
// The model sees them as ordinary locations mocked with a `tab v` table keyed by the caller's argument index a in 1..4;
// the probe encodes a as an argument TUPLE (fixed parameters + variadic elements of different lengths).
// The variadic slices live in package-level storage and are passed as `xs...`, so no argument slice is ever built on a
// goroutine stack (a stack move while the mock reads such a slice is a separate, recorded runtime hazard).

const c11NV = 6

//go:noinline
func c11V0a(xs ...int) int { return 9000 + len(xs) }

//go:noinline
func c11V1a(a int, xs ...int) int { return 9100 + a + len(xs) }

//go:noinline
func c11V2a(a, b int, xs ...int) int { return 9200 + a + b + len(xs) }

//go:noinline
func c11V0b(xs ...int) int { return 9300 + len(xs) }

//go:noinline
func c11V1b(a int, xs ...int) int { return 9400 + a + len(xs) }

//go:noinline
func c11V2b(a, b int, xs ...int) int { return 9500 + a + b + len(xs) }

var c11VarTargets = []interface{}{c11V0a, c11V1a, c11V2a, c11V0b, c11V1b, c11V2b}

// variadic elements for argument index a (index 0 unused); heap/package-level, never on a stack
var c11VarXs = [][]int{nil, {7}, {7, 8}, {}, {9, 9, 9}, {7, 9}}

func c11Fix1(a int) int { return a + 20 }
func c11Fix2(a int) int { return a * 3 }

// c11VarTuple is the When(...) argument list that selects argument index a on variadic target v
func c11VarTuple(v, a int) []interface{} {
	var t []interface{}
	switch v % 3 {
	case 1:
		t = append(t, c11Fix1(a))
	case 2:
		t = append(t, c11Fix1(a), c11Fix2(a))
	}
	for _, x := range c11VarXs[a] {
		t = append(t, x)
	}
	return t
}

func c11VarOrig(v, a int) int {
	n := len(c11VarXs[a])
	base := 9000 + 100*v
	switch v % 3 {
	case 1:
		return base + c11Fix1(a) + n
	case 2:
		return base + c11Fix1(a) + c11Fix2(a) + n
	}
	return base + n
}

func c11VarCall(v, a int) int {
	xs := c11VarXs[a]
	switch v {
	case 0:
		return c11V0a(xs...)
	case 1:
		return c11V1a(c11Fix1(a), xs...)
	case 2:
		return c11V2a(c11Fix1(a), c11Fix2(a), xs...)
	case 3:
		return c11V0b(xs...)
	case 4:
		return c11V1b(c11Fix1(a), xs...)
	}
	return c11V2b(c11Fix1(a), c11Fix2(a), xs...)
}

// c11VarMock: Return(v) default, When(tuple(1)).Return(v+1), When(tuple(2)).Return(v+2)  — the model's `tab v`
func c11VarMock(b *Builder, v int, val int) {
	b.Func(c11VarTargets[v]).Return(val).When(c11VarTuple(v, 1)...).Return(val + 1).When(c11VarTuple(v, 2)...).Return(val + 2)
}
