//go:build go1.18

package mocker

// Special targets of the C11 probe, locations 54..59 (to the model: ordinary locations computing a*7+loc):
//   54..57  function LITERALS (runtime names …glob..funcN / init.funcN) whose body calls the package-level function
//           c11Ident, which other goroutines call all the time and which is nobody's target: a mock of the literal
//           must change the literal and nothing else;
//   58, 59  two instantiations of one generic function with DIFFERENT GC shapes (distinct patch locations; same-shape
//           instantiations share one location: known finding F28-c02-gcshape, not exercised here).
const c11SpecBase = 54

//go:noinline
func c11Ident(a int) int { return a }

var c11Lit54 = func(a int) int { return c11Ident(a)*7 + 54 }
var c11Lit55 = func(a int) int { return c11Ident(a*7) + 55 }
var c11Lit56 = func(a int) int { return c11Ident(a)*7 + c11Ident(56) }
var c11Lit57 = func(a int) int { return c11Ident(a*7+57) }

type c11Z58 struct{ _ [1]byte }
type c11Z59 struct{ _ [2]byte }

func (c11Z58) idx() int { return 58 }
func (c11Z59) idx() int { return 59 }

type c11Idx interface{ idx() int }

//go:noinline
func c11G[T c11Idx](a int) int {
	var z T
	return a*7 + z.idx()
}

var c11Special = []func(int) int{c11Lit54, c11Lit55, c11Lit56, c11Lit57, c11G[c11Z58], c11G[c11Z59]}

// c11Fn: the function value of an int->int location (ordinary 0..47, special 54..59)
func c11Fn(f int) func(int) int {
	if f >= c11SpecBase {
		return c11Special[f-c11SpecBase]
	}
	return c11Targets[f]
}

func c11IsIntLoc(f int) bool {
	return (f >= 0 && f < len(c11Targets)) || (f >= c11SpecBase && f < c11SpecBase+len(c11Special))
}
