package mocker

// C11 probe: runs the REAL goom builder API from many goroutines (built with -race) on the scenario described by
// one `c11.round` line, in a child process per round, and reports a canonical observation plus the measured facts
// (race reports, crash, final text image, page protections, achieved overlap).
//
// line:  c11.round y=<0|1> d=<debug 0|1> K=<calls per caller and target> | S mock f kind v wo | B1 mock f kind v wo | B1 chk | B1 reset | C1 f g | N 2
import (
	"bufio"
	"bytes"
	"fmt"
	"os"
	"os/exec"
	"reflect"
	"runtime"
	"sort"
	"strconv"
	"strings"
	"sync"
	"sync/atomic"
	"testing"
	"time"
	"unsafe"

	"github.com/tencent/goom/internal/zzverif/vh"
)

type c11Op struct {
	kind string // mock | chk | reset
	f    int
	rk   string // ret | cb | cbo
	v    int
}

type c11Thread struct {
	name    string
	ops     []c11Op
	targets []int // builder: own targets (ascending); caller: steady targets to call
}

type c11Round struct {
	yield   bool
	debug   bool
	k       int
	neigh   int
	threads []*c11Thread // S first (if present), then builders, then callers
}

func c11Parse(toks []string) (*c11Round, error) {
	r := &c11Round{k: 1}
	byName := map[string]*c11Thread{}
	segs := [][]string{{}}
	for _, t := range toks[1:] {
		if t == "|" {
			segs = append(segs, []string{})
			continue
		}
		segs[len(segs)-1] = append(segs[len(segs)-1], t)
	}
	for _, kv := range segs[0] {
		p := strings.SplitN(kv, "=", 2)
		if len(p) != 2 {
			return nil, fmt.Errorf("bad header")
		}
		n, err := strconv.Atoi(p[1])
		if err != nil {
			return nil, err
		}
		switch p[0] {
		case "y":
			r.yield = n != 0
		case "K":
			r.k = n
		case "d":
			r.debug = n != 0
		default:
			return nil, fmt.Errorf("bad header key")
		}
	}
	for _, s := range segs[1:] {
		if len(s) < 2 {
			return nil, fmt.Errorf("short segment")
		}
		name := s[0]
		if name == "N" {
			n, err := strconv.Atoi(s[1])
			if err != nil {
				return nil, err
			}
			r.neigh = n
			continue
		}
		th := byName[name]
		if th == nil {
			th = &c11Thread{name: name}
			byName[name] = th
			r.threads = append(r.threads, th)
		}
		switch {
		case name[0] == 'C':
			for _, x := range s[1:] {
				n, err := strconv.Atoi(x)
				if err != nil || n < 0 || n >= len(c11Targets)+c11NV {
					return nil, fmt.Errorf("bad target")
				}
				th.targets = append(th.targets, n)
			}
		case s[1] == "mock":
			if len(s) != 6 {
				return nil, fmt.Errorf("bad mock")
			}
			f, e1 := strconv.Atoi(s[2])
			v, e2 := strconv.Atoi(s[4])
			if e1 != nil || e2 != nil || f < 0 || f >= len(c11Targets)+c11NV || (s[3] != "ret" && s[3] != "cb" && s[3] != "cbo" && s[3] != "tab") ||
				(f >= len(c11Targets) && (s[3] != "tab" || name[0] != 'S')) {
				return nil, fmt.Errorf("bad mock")
			}
			th.ops = append(th.ops, c11Op{kind: "mock", f: f, rk: s[3], v: v})
			found := false
			for _, x := range th.targets {
				found = found || x == f
			}
			if !found {
				th.targets = append(th.targets, f)
				sort.Ints(th.targets)
			}
		case s[1] == "chk" || s[1] == "reset":
			th.ops = append(th.ops, c11Op{kind: s[1]})
		default:
			return nil, fmt.Errorf("bad op")
		}
	}
	return r, nil
}

var c11Stamp int64

type c11Ev struct {
	th         int
	start, end int64
}

func c11Mock(b *Builder, op c11Op) {
	if op.f >= len(c11Targets) { // variadic steady target: table keyed on fixed parameters + variadic elements
		c11VarMock(b, op.f-len(c11Targets), op.v)
		return
	}
	f := c11Targets[op.f]
	switch op.rk {
	case "ret":
		b.Func(f).Return(op.v)
	case "tab":
		b.Func(f).Return(op.v).When(1).Return(op.v + 1).When(2).Return(op.v + 2)
	case "cb":
		k := op.v
		b.Func(f).Apply(func(a int) int { return a + k })
	case "cbo":
		k := op.v
		o := c11Plh[op.f]
		b.Func(f).Origin(o).Apply(func(a int) int { return (*o)(a) + k })
	}
}

func c11Call(f int, a int) (res string) {
	defer func() {
		if r := recover(); r != nil {
			res = "P"
		}
	}()
	if f >= len(c11Targets) {
		return strconv.Itoa(c11VarCall(f-len(c11Targets), a))
	}
	return strconv.Itoa(c11Targets[f](a))
}

// text segment of this binary: [start,end) from /proc/self/maps containing addr
func c11TextRange(addr uintptr) (uintptr, uintptr) {
	f, err := os.Open("/proc/self/maps")
	if err != nil {
		return 0, 0
	}
	defer f.Close()
	sc := bufio.NewScanner(f)
	for sc.Scan() {
		var lo, hi uintptr
		var perm string
		if _, err := fmt.Sscanf(sc.Text(), "%x-%x %s", &lo, &hi, &perm); err == nil && lo <= addr && addr < hi {
			return lo, hi
		}
	}
	return 0, 0
}

// protections of all mappings overlapping [lo,hi)
func c11Perms(lo, hi uintptr) string {
	f, err := os.Open("/proc/self/maps")
	if err != nil {
		return "?"
	}
	defer f.Close()
	set := map[string]bool{}
	sc := bufio.NewScanner(f)
	for sc.Scan() {
		var a, b uintptr
		var perm string
		if _, err := fmt.Sscanf(sc.Text(), "%x-%x %s", &a, &b, &perm); err == nil && a < hi && lo < b {
			set[perm] = true
		}
	}
	var ks []string
	for k := range set {
		ks = append(ks, k)
	}
	sort.Strings(ks)
	return strings.Join(ks, ",")
}

func c11Raw(addr uintptr, n int) []byte {
	return *(*[]byte)(unsafe.Pointer(&reflect.SliceHeader{Data: addr, Len: n, Cap: n}))
}

func c11Entry(i int) uintptr {
	if i >= len(c11Targets) {
		return reflect.ValueOf(c11VarTargets[i-len(c11Targets)]).Pointer()
	}
	return reflect.ValueOf(c11Targets[i]).Pointer()
}

// TestVerifC11Child runs one round in this process and prints the observation on stdout as "OBS <text>".
func TestVerifC11Child(t *testing.T) {
	line := os.Getenv("VERIF_C11_LINE")
	if line == "" {
		t.Skip()
	}
	r, err := c11Parse(strings.Fields(line))
	if err != nil {
		fmt.Println("OBS bad-op")
		return
	}
	// snapshot of the whole text mapping before anything is patched
	lo, hi := c11TextRange(c11Entry(0))
	snap := append([]byte(nil), c11Raw(lo, int(hi-lo))...)
	plhName := map[string]bool{} // placeholder bodies (code pointers taken before Origin() rebinds the variables)
	for i := range c11Plh {
		plhName[runtime.FuncForPC(reflect.ValueOf(*c11Plh[i]).Pointer()).Name()] = true
	}

	var steady *c11Thread
	var builders, callers []*c11Thread
	for _, th := range r.threads {
		switch th.name[0] {
		case 'S':
			steady = th
		case 'B':
			builders = append(builders, th)
		case 'C':
			callers = append(callers, th)
		}
	}
	if r.debug {
		OpenDebug() // debug.go wraps every replacement in a logging MakeFunc (interceptDebugInfo)
	}
	sb := Create()
	if steady != nil {
		for _, op := range steady.ops {
			if op.kind == "mock" {
				c11Mock(sb, op)
			}
		}
	}
	total := len(builders) + len(callers) + r.neigh
	var arrived int32
	var stop int32
	var wg sync.WaitGroup
	barrier := func() {
		atomic.AddInt32(&arrived, 1)
		for atomic.LoadInt32(&arrived) < int32(total) {
			runtime.Gosched()
		}
	}
	obs := make([]string, len(r.threads))
	evs := make([][]c11Ev, len(r.threads))
	idx := map[*c11Thread]int{}
	for i, th := range r.threads {
		idx[th] = i
	}
	for _, th := range builders {
		wg.Add(1)
		go func(th *c11Thread) {
			defer wg.Done()
			ti := idx[th]
			var out []string
			b := Create()
			barrier()
			for _, op := range th.ops {
				st := atomic.AddInt64(&c11Stamp, 1)
				res := vh.Catch(func() string {
					switch op.kind {
					case "mock":
						c11Mock(b, op)
					case "reset":
						b.Reset()
					case "chk":
						for _, f := range th.targets {
							out = append(out, c11Call(f, 3))
						}
					}
					return ""
				})
				if res != "" {
					out = append(out, res)
				}
				evs[ti] = append(evs[ti], c11Ev{ti, st, atomic.AddInt64(&c11Stamp, 1)})
				if r.yield {
					runtime.Gosched()
				}
			}
			obs[ti] = th.name + "=[" + strings.Join(out, ",") + "]"
		}(th)
	}
	for ci, th := range callers {
		wg.Add(1)
		go func(ci int, th *c11Thread) {
			defer wg.Done()
			ti := idx[th]
			cnt := map[string]int{}
			barrier()
			for k := 0; k < r.k; k++ {
				for _, f := range th.targets {
					a := (ci+k)%4 + 1 // distinct arguments across concurrent callers; every caller checks its own result
					cnt[strconv.Itoa(f)+":"+strconv.Itoa(a)+">"+c11Call(f, a)]++
				}
				if r.yield && k%8 == 0 {
					runtime.Gosched()
				}
			}
			var ks []string
			for k, n := range cnt {
				ks = append(ks, k+"*"+strconv.Itoa(n))
			}
			sort.Strings(ks)
			obs[ti] = th.name + "={" + strings.Join(ks, ";") + "}"
		}(ci, th)
	}
	// goroutines executing unmocked code that shares pages with the targets being patched
	var neighBad int64
	var nwg sync.WaitGroup
	for n := 0; n < r.neigh; n++ {
		nwg.Add(1)
		go func(n int) {
			defer nwg.Done()
			barrier()
			for atomic.LoadInt32(&stop) == 0 {
				for j, u := range c11Neigh {
					if u(n) != n*5+c11NeighIdx[j] {
						atomic.AddInt64(&neighBad, 1)
					}
				}
			}
		}(n)
	}
	wg.Wait()
	atomic.StoreInt32(&stop, 1)
	nwg.Wait()
	sb.Reset()
	// quiescence: the text image must equal the snapshot except inside placeholder bodies (never restored by goom: by design)
	now := c11Raw(lo, int(hi-lo))
	diff := 0
	firstDiff := ""
	for i := range snap {
		if snap[i] != now[i] {
			a := lo + uintptr(i)
			fn := runtime.FuncForPC(a)
			name := "?"
			if fn != nil {
				name = fn.Name()
			}
			if plhName[name] { // placeholder bodies hold relocated code
				continue
			}
			if diff == 0 {
				firstDiff = name
			}
			diff++
		}
	}
	final := "pristine"
	if diff != 0 {
		final = fmt.Sprintf("dirty:%d@%s", diff, firstDiff)
	}
	// after quiescence every target must behave as the original again
	for i := range c11Targets {
		if c11Targets[i](2) != 2*7+i {
			final += fmt.Sprintf(",beh%d", i)
			break
		}
	}
	for v := 0; v < c11NV; v++ {
		for a := 1; a <= 5; a++ {
			if c11VarCall(v, a) != c11VarOrig(v, a) {
				final += fmt.Sprintf(",vbeh%d", v)
				a = 6
			}
		}
	}
	// measured overlap: builder ops whose [start,end] intersects an op of another builder
	overlap := 0
	nops := 0
	for i := range evs {
		for _, e := range evs[i] {
			nops++
			hit := false
			for j := range evs {
				if j == i {
					continue
				}
				for _, g := range evs[j] {
					if g.start < e.end && e.start < g.end {
						hit = true
					}
				}
			}
			if hit {
				overlap++
			}
		}
	}
	// page sharing: pairs (builder target, other location in use) on one page
	pageOf := func(i int) uintptr { return c11Entry(i) >> 12 }
	share := 0
	cross := 0
	used := map[int]bool{}
	for _, th := range r.threads {
		for _, f := range th.targets {
			used[f] = true
		}
	}
	for _, th := range builders {
		for _, f := range th.targets {
			if (c11Entry(f)+13)>>12 != pageOf(f) {
				cross++
			}
			for g := range used {
				if g != f && pageOf(g) == pageOf(f) {
					share++
				}
			}
		}
	}
	var parts []string
	for i := range r.threads {
		if r.threads[i].name[0] != 'S' {
			parts = append(parts, obs[i])
		}
	}
	fmt.Printf("OBS %s final=%s ## ops=%d overlap=%d share=%d cross=%d neighbad=%d perms=%s textkb=%d text=%x-%x\n", strings.Join(parts, " "), final,
		nops, overlap, share, cross, atomic.LoadInt64(&neighBad), c11Perms(lo, hi), (hi-lo)>>10, lo, hi)
}

// TestVerifC11 forks one child per round (a wrong patch is a SIGSEGV; the race detector reports on stderr).
func TestVerifC11(t *testing.T) {
	out := vh.OpenOut()
	defer out.Close()
	tmo := 60 * time.Second
	for _, op := range vh.ReadOps() {
		if len(op.Toks) == 0 || op.Toks[0] != "c11.round" {
			continue
		}
		cmd := exec.Command(os.Args[0], "-test.run", "^TestVerifC11Child$", "-test.count=1")
		cmd.Env = append(os.Environ(), "VERIF_C11_LINE="+op.Line, "GORACE=halt_on_error=0 exitcode=0")
		var so, se bytes.Buffer
		cmd.Stdout, cmd.Stderr = &so, &se
		done := make(chan error, 1)
		if err := cmd.Start(); err != nil {
			out.Put(op.Idx, "infra:%v", err)
			continue
		}
		go func() { done <- cmd.Wait() }()
		var werr error
		timedOut := false
		select {
		case werr = <-done:
		case <-time.After(tmo):
			cmd.Process.Kill()
			<-done
			timedOut = true
		}
		obs := ""
		for _, l := range strings.Split(so.String(), "\n") {
			if strings.HasPrefix(l, "OBS ") {
				obs = l[4:]
			}
		}
		all := so.String() + se.String()
		races := strings.Count(all, "WARNING: DATA RACE")
		raceAt := ""
		if races > 0 {
			// first goom frame of the first report
			for _, l := range strings.Split(all[strings.Index(all, "WARNING: DATA RACE"):], "\n") {
				l = strings.TrimSpace(l)
				if strings.HasPrefix(l, "github.com/tencent/goom") && !strings.Contains(l, "c11") {
					raceAt = l
					if i := strings.LastIndex(l, "("); i > 0 {
						raceAt = l[:i]
					}
					break
				}
			}
		}
		switch {
		case timedOut:
			out.Put(op.Idx, "timeout ## races=%d raceat=%s", races, raceAt)
		case obs == "":
			sig := "exit"
			if strings.Contains(all, "SIGSEGV") {
				sig = "SIGSEGV"
			} else if strings.Contains(all, "SIGILL") {
				sig = "SIGILL"
			} else if strings.Contains(all, "SIGTRAP") {
				sig = "SIGTRAP"
			} else if strings.Contains(all, "fatal error") {
				sig = "fatal"
			} else if strings.Contains(all, "panic:") {
				sig = "panic"
			}
			tail := all
			if len(tail) > 600 {
				tail = tail[:600]
			}
			out.Put(op.Idx, "crash:%s ## races=%d raceat=%s err=%v log=%s", sig, races, raceAt, werr, strings.ReplaceAll(tail, "\n", "\\n"))
		default:
			sep := " "
			if !strings.Contains(obs, " ## ") {
				sep = " ## "
			}
			out.Put(op.Idx, "%s%sraces=%d raceat=%s", obs, sep, races, raceAt)
		}
	}
}
