package mocker

// C11 probe: runs the REAL goom builder API from many goroutines (built with -race) on the scenario described by
// one `c11.round` line, in a child process per round, and reports a canonical observation plus the measured facts
// (race reports, crash, final text image, page protections, achieved overlap).
//
// line:  c11.round y=<0|1> d=<debug 0|1> K=<calls per caller and target> | S mock f kind v wo | B1 mock f kind v wo | B1 chk | B1 reset | C1 f g | N 2
import (
	"bufio"
	"bytes"
	"fmt"
	"os"
	"os/exec"
	"reflect"
	"runtime"
	"sort"
	"strconv"
	"strings"
	"sync"
	"sync/atomic"
	"testing"
	"time"
	"unsafe"

	"github.com/tencent/goom/arg"
	"github.com/tencent/goom/internal/bytecode/memory"
	"github.com/tencent/goom/internal/zzverif/vh"
)

type c11Op struct {
	kind string // mock | chk | reset
	f    int
	rk   string // ret | tab | tin | tov | cb | cbo
	v    int
	name bool // mock BY NAME: ExportFunc(name).As(sig) instead of Func(value)
}

type c11Thread struct {
	name    string
	ops     []c11Op
	targets []int // builder: own targets (ascending); caller: steady targets to call
}

type c11Round struct {
	yield   bool
	debug   bool
	k       int
	neigh   int
	plh     map[int]int // target -> index of the origin placeholder variable it uses (default: its own)
	threads []*c11Thread // S first (if present), then builders, then callers
}

func c11Parse(toks []string) (*c11Round, error) {
	r := &c11Round{k: 1, plh: map[int]int{}}
	byName := map[string]*c11Thread{}
	segs := [][]string{{}}
	for _, t := range toks[1:] {
		if t == "|" {
			segs = append(segs, []string{})
			continue
		}
		segs[len(segs)-1] = append(segs[len(segs)-1], t)
	}
	for _, kv := range segs[0] {
		p := strings.SplitN(kv, "=", 2)
		if len(p) != 2 {
			return nil, fmt.Errorf("bad header")
		}
		n, err := strconv.Atoi(p[1])
		if err != nil {
			return nil, err
		}
		switch p[0] {
		case "y":
			r.yield = n != 0
		case "K":
			r.k = n
		case "d":
			r.debug = n != 0
		default:
			return nil, fmt.Errorf("bad header key")
		}
	}
	for _, s := range segs[1:] {
		if len(s) < 2 {
			return nil, fmt.Errorf("short segment")
		}
		name := s[0]
		if name == "P" { // P <target> <placeholder index>
			if len(s) != 3 {
				return nil, fmt.Errorf("bad P")
			}
			f, e1 := strconv.Atoi(s[1])
			p, e2 := strconv.Atoi(s[2])
			if e1 != nil || e2 != nil || f < 0 || f >= len(c11Targets) || p < 0 || p >= len(c11Plh) {
				return nil, fmt.Errorf("bad P")
			}
			r.plh[f] = p
			continue
		}
		if name == "N" {
			n, err := strconv.Atoi(s[1])
			if err != nil {
				return nil, err
			}
			r.neigh = n
			continue
		}
		th := byName[name]
		if th == nil {
			th = &c11Thread{name: name}
			byName[name] = th
			r.threads = append(r.threads, th)
		}
		switch {
		case name[0] == 'C':
			for _, x := range s[1:] {
				n, err := strconv.Atoi(x)
				if err != nil || n < 0 || n >= c11SpecBase+len(c11Special) {
					return nil, fmt.Errorf("bad target")
				}
				th.targets = append(th.targets, n)
			}
		case s[1] == "ext": // ext <f>: When.Matches(...) on the mock created by the last `ret` of f
			if len(s) != 3 {
				return nil, fmt.Errorf("bad ext")
			}
			f, e1 := strconv.Atoi(s[2])
			if e1 != nil || !c11IsIntLoc(f) {
				return nil, fmt.Errorf("bad ext")
			}
			th.ops = append(th.ops, c11Op{kind: "ext", f: f})
		case s[1] == "mock" || s[1] == "mockn":
			if len(s) != 6 {
				return nil, fmt.Errorf("bad mock")
			}
			f, e1 := strconv.Atoi(s[2])
			v, e2 := strconv.Atoi(s[4])
			isVar := f >= len(c11Targets) && f < c11SpecBase
			if e1 != nil || e2 != nil || f < 0 || f >= c11SpecBase+len(c11Special) || (s[3] != "ret" && s[3] != "cb" && s[3] != "cbo" && s[3] != "tab" && s[3] != "tin" && s[3] != "tov") ||
				(isVar && (s[3] != "tab" || name[0] != 'S' || s[1] != "mock")) ||
				(f >= c11SpecBase && (s[3] == "cbo" || s[1] != "mock" || (f >= c11SpecBase+4 && s[3] == "cb"))) {
				return nil, fmt.Errorf("bad mock")
			}
			th.ops = append(th.ops, c11Op{kind: "mock", f: f, rk: s[3], v: v, name: s[1] == "mockn"})
			found := false
			for _, x := range th.targets {
				found = found || x == f
			}
			if !found {
				th.targets = append(th.targets, f)
				sort.Ints(th.targets)
			}
		case s[1] == "chk" || s[1] == "reset":
			th.ops = append(th.ops, c11Op{kind: s[1]})
		default:
			return nil, fmt.Errorf("bad op")
		}
	}
	return r, nil
}

var c11Stamp int64

type c11Ev struct {
	th         int
	start, end int64
}

const c11Pkg = "github.com/tencent/goom"

// c11B is one builder goroutine's state: the builder and the *When handles of its plain Return mocks (for `ext`)
type c11B struct {
	b     *Builder
	whens map[int]*When
	retv  map[int]int
	plh   map[int]int
}

func (cb *c11B) mock(op c11Op) {
	b := cb.b
	if op.f >= len(c11Targets) && op.f < c11SpecBase { // variadic steady target: table keyed on fixed parameters + variadic elements
		c11VarMock(b, op.f-len(c11Targets), op.v)
		return
	}
	var m ExportedMocker
	if op.name { // addressed by name: symbol table lookup (unexports2.FindFuncByName) on every operation
		m = b.Pkg(c11Pkg).ExportFunc(fmt.Sprintf("c11T%02d", op.f)).As(func(int) int { return 0 })
	} else {
		m = b.Func(c11Fn(op.f))
	}
	delete(cb.whens, op.f)
	switch op.rk {
	case "ret":
		cb.whens[op.f] = m.Return(op.v)
		cb.retv[op.f] = op.v
	case "tab":
		m.Return(op.v).When(1).Return(op.v + 1).When(2).Return(op.v + 2)
	case "tin":
		m.Return(op.v).In(1, 2).Return(op.v + 5)
	case "tov": // overlapping conditions: the narrower one is registered first and must keep winning (seed C11-R6-1)
		m.Return(op.v).When(1).Return(op.v + 1).When(arg.Any()).Return(op.v + 2)
	case "cb":
		k := op.v
		m.Apply(func(a int) int { return a + k })
	case "cbo":
		k := op.v
		pi, ok := cb.plh[op.f]
		if !ok {
			pi = op.f
		}
		o := c11Plh[pi]
		m.Origin(o).Apply(func(a int) int { return (*o)(a) + k })
	}
}

// ext re-stubs without re-applying: a batch of conditions is added to the existing mock (When.Matches)
func (cb *c11B) ext(op c11Op) {
	w := cb.whens[op.f]
	if w == nil {
		panic("ext without ret")
	}
	w.Matches(arg.Pair{Args: 1, Return: cb.retv[op.f] + 1}, arg.Pair{Args: 2, Return: cb.retv[op.f] + 2})
}

func c11Call(f int, a int) (res string) {
	defer func() {
		if r := recover(); r != nil {
			res = "P"
		}
	}()
	if f >= len(c11Targets) && f < c11SpecBase {
		return strconv.Itoa(c11VarCall(f-len(c11Targets), a))
	}
	return strconv.Itoa(c11Fn(f)(a))
}

// text segment of this binary: [start,end) from /proc/self/maps containing addr
func c11TextRange(addr uintptr) (uintptr, uintptr) {
	f, err := os.Open("/proc/self/maps")
	if err != nil {
		return 0, 0
	}
	defer f.Close()
	sc := bufio.NewScanner(f)
	for sc.Scan() {
		var lo, hi uintptr
		var perm string
		if _, err := fmt.Sscanf(sc.Text(), "%x-%x %s", &lo, &hi, &perm); err == nil && lo <= addr && addr < hi {
			return lo, hi
		}
	}
	return 0, 0
}

// protections of all mappings overlapping [lo,hi)
func c11Perms(lo, hi uintptr) string {
	f, err := os.Open("/proc/self/maps")
	if err != nil {
		return "?"
	}
	defer f.Close()
	set := map[string]bool{}
	sc := bufio.NewScanner(f)
	for sc.Scan() {
		var a, b uintptr
		var perm string
		if _, err := fmt.Sscanf(sc.Text(), "%x-%x %s", &a, &b, &perm); err == nil && a < hi && lo < b {
			set[perm] = true
		}
	}
	var ks []string
	for k := range set {
		ks = append(ks, k)
	}
	sort.Strings(ks)
	return strings.Join(ks, ",")
}

func c11Raw(addr uintptr, n int) []byte {
	return *(*[]byte)(unsafe.Pointer(&reflect.SliceHeader{Data: addr, Len: n, Cap: n}))
}

func c11Entry(i int) uintptr {
	if i >= len(c11Targets) && i < c11SpecBase {
		return reflect.ValueOf(c11VarTargets[i-len(c11Targets)]).Pointer()
	}
	return reflect.ValueOf(c11Fn(i)).Pointer()
}

// TestVerifC11Child runs one round in this process and prints the observation on stdout as "OBS <text>".
func TestVerifC11Child(t *testing.T) {
	line := os.Getenv("VERIF_C11_LINE")
	if line == "" {
		t.Skip()
	}
	r, err := c11Parse(strings.Fields(line))
	if err != nil {
		fmt.Println("OBS bad-op")
		return
	}
	// snapshot of the whole text mapping before anything is patched
	lo, hi := c11TextRange(c11Entry(0))
	snap := append([]byte(nil), c11Raw(lo, int(hi-lo))...)
	plhName := map[string]bool{} // placeholder bodies (code pointers taken before Origin() rebinds the variables)
	for i := range c11Plh {
		plhName[runtime.FuncForPC(reflect.ValueOf(*c11Plh[i]).Pointer()).Name()] = true
	}

	var steady *c11Thread
	var builders, callers []*c11Thread
	for _, th := range r.threads {
		switch th.name[0] {
		case 'S':
			steady = th
		case 'B':
			builders = append(builders, th)
		case 'C':
			callers = append(callers, th)
		}
	}
	// a raw write that CROSSES a page boundary (entry writes never do: entries are 32-byte aligned): identical bytes are
	// written over 24 bytes straddling the first page boundary after target 0, through the real WriteTo / mProtectCrossPage
	crossAt := ((c11Entry(0) + 4096) &^ 4095) - 11
	crossBytes := append([]byte(nil), c11Raw(crossAt, 24)...)
	if err := memory.WriteTo(crossAt, crossBytes); err != nil {
		fmt.Println("OBS crosswrite-error")
		return
	}
	if r.debug {
		OpenDebug() // debug.go wraps every replacement in a logging MakeFunc (interceptDebugInfo)
	}
	sb := Create()
	scb := &c11B{b: sb, whens: map[int]*When{}, retv: map[int]int{}, plh: r.plh}
	if steady != nil {
		for _, op := range steady.ops {
			if op.kind == "mock" {
				scb.mock(op)
			}
		}
	}
	total := len(builders) + len(callers) + r.neigh
	var arrived int32
	var stop int32
	var wg sync.WaitGroup
	barrier := func() {
		atomic.AddInt32(&arrived, 1)
		for atomic.LoadInt32(&arrived) < int32(total) {
			runtime.Gosched()
		}
	}
	obs := make([]string, len(r.threads))
	evs := make([][]c11Ev, len(r.threads))
	idx := map[*c11Thread]int{}
	for i, th := range r.threads {
		idx[th] = i
	}
	for _, th := range builders {
		wg.Add(1)
		go func(th *c11Thread) {
			defer wg.Done()
			ti := idx[th]
			var out []string
			b := Create()
			cb := &c11B{b: b, whens: map[int]*When{}, retv: map[int]int{}, plh: r.plh}
			barrier()
			for _, op := range th.ops {
				st := atomic.AddInt64(&c11Stamp, 1)
				res := vh.Catch(func() string {
					switch op.kind {
					case "mock":
						cb.mock(op)
					case "ext":
						cb.ext(op)
					case "reset":
						b.Reset()
					case "chk":
						for _, f := range th.targets {
							out = append(out, c11Call(f, 3), c11Call(f, 1)) // a default-hitting and a table-hitting argument
						}
					}
					return ""
				})
				if res != "" {
					out = append(out, res)
				}
				evs[ti] = append(evs[ti], c11Ev{ti, st, atomic.AddInt64(&c11Stamp, 1)})
				if r.yield {
					runtime.Gosched()
				}
			}
			obs[ti] = th.name + "=[" + strings.Join(out, ",") + "]"
		}(th)
	}
	for ci, th := range callers {
		wg.Add(1)
		go func(ci int, th *c11Thread) {
			defer wg.Done()
			ti := idx[th]
			cnt := map[string]int{}
			barrier()
			for k := 0; k < r.k; k++ {
				for _, f := range th.targets {
					a := (ci+k)%4 + 1 // distinct arguments across concurrent callers; every caller checks its own result
					cnt[strconv.Itoa(f)+":"+strconv.Itoa(a)+">"+c11Call(f, a)]++
				}
				if r.yield && k%8 == 0 {
					runtime.Gosched()
				}
			}
			var ks []string
			for k, n := range cnt {
				ks = append(ks, k+"*"+strconv.Itoa(n))
			}
			sort.Strings(ks)
			obs[ti] = th.name + "={" + strings.Join(ks, ";") + "}"
		}(ci, th)
	}
	// goroutines executing unmocked code that shares pages with the targets being patched
	var neighBad int64
	var nwg sync.WaitGroup
	for n := 0; n < r.neigh; n++ {
		nwg.Add(1)
		go func(n int) {
			defer nwg.Done()
			barrier()
			for atomic.LoadInt32(&stop) == 0 {
				for j, u := range c11Neigh {
					if u(n) != n*5+c11NeighIdx[j] {
						atomic.AddInt64(&neighBad, 1)
					}
				}
				if c11Ident(n+3) != n+3 { // called by the function-literal targets; nobody's target
					atomic.AddInt64(&neighBad, 1)
				}
			}
		}(n)
	}
	wg.Wait()
	atomic.StoreInt32(&stop, 1)
	nwg.Wait()
	sb.Reset()
	// quiescence: the text image must equal the snapshot except inside placeholder bodies (never restored by goom: by design)
	now := c11Raw(lo, int(hi-lo))
	diff := 0
	firstDiff := ""
	for i := range snap {
		if snap[i] != now[i] {
			a := lo + uintptr(i)
			fn := runtime.FuncForPC(a)
			name := "?"
			if fn != nil {
				name = fn.Name()
			}
			if plhName[name] { // placeholder bodies hold relocated code
				continue
			}
			if diff == 0 {
				firstDiff = name
			}
			diff++
		}
	}
	final := "pristine"
	if diff != 0 {
		final = fmt.Sprintf("dirty:%d@%s", diff, firstDiff)
	}
	// after quiescence every target must behave as the original again
	for i := range c11Targets {
		if c11Targets[i](2) != 2*7+i {
			final += fmt.Sprintf(",beh%d", i)
			break
		}
	}
	for i := range c11Special {
		if c11Special[i](2) != 2*7+c11SpecBase+i {
			final += fmt.Sprintf(",beh%d", c11SpecBase+i)
			break
		}
	}
	if c11Ident(5) != 5 {
		final += ",ident"
	}
	for v := 0; v < c11NV; v++ {
		for a := 1; a <= 5; a++ {
			if c11VarCall(v, a) != c11VarOrig(v, a) {
				final += fmt.Sprintf(",vbeh%d", v)
				a = 6
			}
		}
	}
	// measured overlap: builder ops whose [start,end] intersects an op of another builder
	overlap := 0
	nops := 0
	for i := range evs {
		for _, e := range evs[i] {
			nops++
			hit := false
			for j := range evs {
				if j == i {
					continue
				}
				for _, g := range evs[j] {
					if g.start < e.end && e.start < g.end {
						hit = true
					}
				}
			}
			if hit {
				overlap++
			}
		}
	}
	// page sharing: pairs (builder target, other location in use) on one page
	pageOf := func(i int) uintptr { return c11Entry(i) >> 12 }
	share := 0
	cross := 0
	used := map[int]bool{}
	for _, th := range r.threads {
		for _, f := range th.targets {
			used[f] = true
		}
	}
	for _, th := range builders {
		for _, f := range th.targets {
			if (c11Entry(f)+13)>>12 != pageOf(f) {
				cross++
			}
			for g := range used {
				if g != f && pageOf(g) == pageOf(f) {
					share++
				}
			}
		}
	}
	var parts []string
	for i := range r.threads {
		if r.threads[i].name[0] != 'S' {
			parts = append(parts, obs[i])
		}
	}
	fmt.Printf("OBS %s final=%s ## ops=%d overlap=%d share=%d cross=%d neighbad=%d perms=%s textkb=%d text=%x-%x\n", strings.Join(parts, " "), final,
		nops, overlap, share, cross, atomic.LoadInt64(&neighBad), c11Perms(lo, hi), (hi-lo)>>10, lo, hi)
}

// TestVerifC11 forks one child per round (a wrong patch is a SIGSEGV; the race detector reports on stderr).
func TestVerifC11(t *testing.T) {
	out := vh.OpenOut()
	defer out.Close()
	tmo := 180 * time.Second // a round takes ~1-3 s (60x headroom); a timeout is re-run once, so a reproduced hang is a verdict within 6 minutes
	for _, op := range vh.ReadOps() {
		if len(op.Toks) == 0 || op.Toks[0] != "c11.round" {
			continue
		}
		var so, se bytes.Buffer
		var werr error
		timedOut, retried := false, false
		for attempt := 0; attempt < 2; attempt++ {
			so.Reset()
			se.Reset()
			cmd := exec.Command(os.Args[0], "-test.run", "^TestVerifC11Child$", "-test.count=1", "-test.timeout=0")
			env := []string{}
			for _, e := range os.Environ() { // goom's own environment knobs must not leak into the rounds
				if !strings.HasPrefix(e, "GOOM_") && !strings.HasPrefix(e, "GORACE=") {
					env = append(env, e)
				}
			}
			cmd.Env = append(env, "VERIF_C11_LINE="+op.Line, "GORACE=halt_on_error=0 exitcode=0")
			cmd.Stdout, cmd.Stderr = &so, &se
			done := make(chan error, 1)
			if err := cmd.Start(); err != nil {
				werr = err
				break
			}
			go func() { done <- cmd.Wait() }()
			timedOut = false
			select {
			case werr = <-done:
			case <-time.After(tmo):
				cmd.Process.Kill()
				<-done
				timedOut = true
			}
			if !timedOut { // only a timeout is re-run once: a crash or a wrong result of a concurrent round is evidence as it stands
				break
			}
			retried = true
		}
		_ = retried
		obs := ""
		for _, l := range strings.Split(so.String(), "\n") {
			if strings.HasPrefix(l, "OBS ") {
				obs = l[4:]
			}
		}
		all := so.String() + se.String()
		// race reports: only those with a frame in goom's own (non-probe) code count
		races := 0
		raceAt := ""
		for _, rep := range strings.Split(all, "WARNING: DATA RACE")[1:] {
			if i := strings.Index(rep, "=================="); i >= 0 {
				rep = rep[:i]
			}
			lines := strings.Split(rep, "\n")
			at := ""
			for i := 0; i+1 < len(lines); i++ {
				fn, file := strings.TrimSpace(lines[i]), strings.TrimSpace(lines[i+1])
				if strings.HasPrefix(fn, "github.com/tencent/goom") && !strings.Contains(file, "zz_verif") && !strings.Contains(file, "zzverif") {
					at = fn
					if j := strings.LastIndex(fn, "("); j > 0 {
						at = fn[:j]
					}
					break
				}
			}
			if at != "" {
				races++
				if raceAt == "" {
					raceAt = at
				}
			}
		}
		switch {
		case timedOut:
			out.Put(op.Idx, "timeout ## races=%d raceat=%s retried=%v", races, raceAt, retried)
		case obs == "":
			sig := "exit"
			if strings.Contains(all, "SIGSEGV") {
				sig = "SIGSEGV"
			} else if strings.Contains(all, "SIGILL") {
				sig = "SIGILL"
			} else if strings.Contains(all, "SIGTRAP") {
				sig = "SIGTRAP"
			} else if strings.Contains(all, "fatal error") {
				sig = "fatal"
			} else if strings.Contains(all, "panic:") {
				sig = "panic"
			}
			tail := all
			if len(tail) > 600 {
				tail = tail[:600]
			}
			out.Put(op.Idx, "crash:%s ## races=%d raceat=%s err=%v log=%s", sig, races, raceAt, werr, strings.ReplaceAll(tail, "\n", "\\n"))
		default:
			sep := " "
			if !strings.Contains(obs, " ## ") {
				sep = " ## "
			}
			out.Put(op.Idx, "%s%sraces=%d raceat=%s", obs, sep, races, raceAt)
		}
	}
}
