// Code generated for the C11 probe (48 targets, their placeholders, unmocked neighbours). DO NOT EDIT.
package mocker

var c11Sink int

//go:noinline
func c11T00(a int) int { return a*7 + 0 }

//go:noinline
func c11U00(a int) int { return a*5 + 0 }

//go:noinline
func c11T01(a int) int { return a*7 + 1 }

//go:noinline
func c11T02(a int) int { return a*7 + 2 }

//go:noinline
func c11T03(a int) int { return a*7 + 3 }

//go:noinline
func c11U03(a int) int { return a*5 + 3 }

//go:noinline
func c11T04(a int) int { return a*7 + 4 }

//go:noinline
func c11T05(a int) int { return a*7 + 5 }

//go:noinline
func c11T06(a int) int { return a*7 + 6 }

//go:noinline
func c11U06(a int) int { return a*5 + 6 }

//go:noinline
func c11T07(a int) int { return a*7 + 7 }

//go:noinline
func c11T08(a int) int { return a*7 + 8 }

//go:noinline
func c11T09(a int) int { return a*7 + 9 }

//go:noinline
func c11U09(a int) int { return a*5 + 9 }

//go:noinline
func c11T10(a int) int { return a*7 + 10 }

//go:noinline
func c11T11(a int) int { return a*7 + 11 }

//go:noinline
func c11T12(a int) int { return a*7 + 12 }

//go:noinline
func c11U12(a int) int { return a*5 + 12 }

//go:noinline
func c11T13(a int) int { return a*7 + 13 }

//go:noinline
func c11T14(a int) int { return a*7 + 14 }

//go:noinline
func c11T15(a int) int { return a*7 + 15 }

//go:noinline
func c11U15(a int) int { return a*5 + 15 }

//go:noinline
func c11T16(a int) int { return a*7 + 16 }

//go:noinline
func c11T17(a int) int { return a*7 + 17 }

//go:noinline
func c11T18(a int) int { return a*7 + 18 }

//go:noinline
func c11U18(a int) int { return a*5 + 18 }

//go:noinline
func c11T19(a int) int { return a*7 + 19 }

//go:noinline
func c11T20(a int) int { return a*7 + 20 }

//go:noinline
func c11T21(a int) int { return a*7 + 21 }

//go:noinline
func c11U21(a int) int { return a*5 + 21 }

//go:noinline
func c11T22(a int) int { return a*7 + 22 }

//go:noinline
func c11T23(a int) int { return a*7 + 23 }

//go:noinline
func c11T24(a int) int { return a*7 + 24 }

//go:noinline
func c11U24(a int) int { return a*5 + 24 }

//go:noinline
func c11T25(a int) int { return a*7 + 25 }

//go:noinline
func c11T26(a int) int { return a*7 + 26 }

//go:noinline
func c11T27(a int) int { return a*7 + 27 }

//go:noinline
func c11U27(a int) int { return a*5 + 27 }

//go:noinline
func c11T28(a int) int { return a*7 + 28 }

//go:noinline
func c11T29(a int) int { return a*7 + 29 }

//go:noinline
func c11T30(a int) int { return a*7 + 30 }

//go:noinline
func c11U30(a int) int { return a*5 + 30 }

//go:noinline
func c11T31(a int) int { return a*7 + 31 }

//go:noinline
func c11T32(a int) int { return a*7 + 32 }

//go:noinline
func c11T33(a int) int { return a*7 + 33 }

//go:noinline
func c11U33(a int) int { return a*5 + 33 }

//go:noinline
func c11T34(a int) int { return a*7 + 34 }

//go:noinline
func c11T35(a int) int { return a*7 + 35 }

//go:noinline
func c11T36(a int) int { return a*7 + 36 }

//go:noinline
func c11U36(a int) int { return a*5 + 36 }

//go:noinline
func c11T37(a int) int { return a*7 + 37 }

//go:noinline
func c11T38(a int) int { return a*7 + 38 }

//go:noinline
func c11T39(a int) int { return a*7 + 39 }

//go:noinline
func c11U39(a int) int { return a*5 + 39 }

//go:noinline
func c11T40(a int) int { return a*7 + 40 }

//go:noinline
func c11T41(a int) int { return a*7 + 41 }

//go:noinline
func c11T42(a int) int { return a*7 + 42 }

//go:noinline
func c11U42(a int) int { return a*5 + 42 }

//go:noinline
func c11T43(a int) int { return a*7 + 43 }

//go:noinline
func c11T44(a int) int { return a*7 + 44 }

//go:noinline
func c11T45(a int) int { return a*7 + 45 }

//go:noinline
func c11U45(a int) int { return a*5 + 45 }

//go:noinline
func c11T46(a int) int { return a*7 + 46 }

//go:noinline
func c11T47(a int) int { return a*7 + 47 }

var c11O00 = func(a int) int {
	c11Sink += a
	c11Sink *= 3
	c11Sink ^= a + 0
	c11Sink += a * 11
	c11Sink *= 5
	c11Sink ^= a
	return c11Sink
}

var c11O01 = func(a int) int {
	c11Sink += a
	c11Sink *= 3
	c11Sink ^= a + 1
	c11Sink += a * 11
	c11Sink *= 5
	c11Sink ^= a
	return c11Sink
}

var c11O02 = func(a int) int {
	c11Sink += a
	c11Sink *= 3
	c11Sink ^= a + 2
	c11Sink += a * 11
	c11Sink *= 5
	c11Sink ^= a
	return c11Sink
}

var c11O03 = func(a int) int {
	c11Sink += a
	c11Sink *= 3
	c11Sink ^= a + 3
	c11Sink += a * 11
	c11Sink *= 5
	c11Sink ^= a
	return c11Sink
}

var c11O04 = func(a int) int {
	c11Sink += a
	c11Sink *= 3
	c11Sink ^= a + 4
	c11Sink += a * 11
	c11Sink *= 5
	c11Sink ^= a
	return c11Sink
}

var c11O05 = func(a int) int {
	c11Sink += a
	c11Sink *= 3
	c11Sink ^= a + 5
	c11Sink += a * 11
	c11Sink *= 5
	c11Sink ^= a
	return c11Sink
}

var c11O06 = func(a int) int {
	c11Sink += a
	c11Sink *= 3
	c11Sink ^= a + 6
	c11Sink += a * 11
	c11Sink *= 5
	c11Sink ^= a
	return c11Sink
}

var c11O07 = func(a int) int {
	c11Sink += a
	c11Sink *= 3
	c11Sink ^= a + 7
	c11Sink += a * 11
	c11Sink *= 5
	c11Sink ^= a
	return c11Sink
}

var c11O08 = func(a int) int {
	c11Sink += a
	c11Sink *= 3
	c11Sink ^= a + 8
	c11Sink += a * 11
	c11Sink *= 5
	c11Sink ^= a
	return c11Sink
}

var c11O09 = func(a int) int {
	c11Sink += a
	c11Sink *= 3
	c11Sink ^= a + 9
	c11Sink += a * 11
	c11Sink *= 5
	c11Sink ^= a
	return c11Sink
}

var c11O10 = func(a int) int {
	c11Sink += a
	c11Sink *= 3
	c11Sink ^= a + 10
	c11Sink += a * 11
	c11Sink *= 5
	c11Sink ^= a
	return c11Sink
}

var c11O11 = func(a int) int {
	c11Sink += a
	c11Sink *= 3
	c11Sink ^= a + 11
	c11Sink += a * 11
	c11Sink *= 5
	c11Sink ^= a
	return c11Sink
}

var c11O12 = func(a int) int {
	c11Sink += a
	c11Sink *= 3
	c11Sink ^= a + 12
	c11Sink += a * 11
	c11Sink *= 5
	c11Sink ^= a
	return c11Sink
}

var c11O13 = func(a int) int {
	c11Sink += a
	c11Sink *= 3
	c11Sink ^= a + 13
	c11Sink += a * 11
	c11Sink *= 5
	c11Sink ^= a
	return c11Sink
}

var c11O14 = func(a int) int {
	c11Sink += a
	c11Sink *= 3
	c11Sink ^= a + 14
	c11Sink += a * 11
	c11Sink *= 5
	c11Sink ^= a
	return c11Sink
}

var c11O15 = func(a int) int {
	c11Sink += a
	c11Sink *= 3
	c11Sink ^= a + 15
	c11Sink += a * 11
	c11Sink *= 5
	c11Sink ^= a
	return c11Sink
}

var c11O16 = func(a int) int {
	c11Sink += a
	c11Sink *= 3
	c11Sink ^= a + 16
	c11Sink += a * 11
	c11Sink *= 5
	c11Sink ^= a
	return c11Sink
}

var c11O17 = func(a int) int {
	c11Sink += a
	c11Sink *= 3
	c11Sink ^= a + 17
	c11Sink += a * 11
	c11Sink *= 5
	c11Sink ^= a
	return c11Sink
}

var c11O18 = func(a int) int {
	c11Sink += a
	c11Sink *= 3
	c11Sink ^= a + 18
	c11Sink += a * 11
	c11Sink *= 5
	c11Sink ^= a
	return c11Sink
}

var c11O19 = func(a int) int {
	c11Sink += a
	c11Sink *= 3
	c11Sink ^= a + 19
	c11Sink += a * 11
	c11Sink *= 5
	c11Sink ^= a
	return c11Sink
}

var c11O20 = func(a int) int {
	c11Sink += a
	c11Sink *= 3
	c11Sink ^= a + 20
	c11Sink += a * 11
	c11Sink *= 5
	c11Sink ^= a
	return c11Sink
}

var c11O21 = func(a int) int {
	c11Sink += a
	c11Sink *= 3
	c11Sink ^= a + 21
	c11Sink += a * 11
	c11Sink *= 5
	c11Sink ^= a
	return c11Sink
}

var c11O22 = func(a int) int {
	c11Sink += a
	c11Sink *= 3
	c11Sink ^= a + 22
	c11Sink += a * 11
	c11Sink *= 5
	c11Sink ^= a
	return c11Sink
}

var c11O23 = func(a int) int {
	c11Sink += a
	c11Sink *= 3
	c11Sink ^= a + 23
	c11Sink += a * 11
	c11Sink *= 5
	c11Sink ^= a
	return c11Sink
}

var c11O24 = func(a int) int {
	c11Sink += a
	c11Sink *= 3
	c11Sink ^= a + 24
	c11Sink += a * 11
	c11Sink *= 5
	c11Sink ^= a
	return c11Sink
}

var c11O25 = func(a int) int {
	c11Sink += a
	c11Sink *= 3
	c11Sink ^= a + 25
	c11Sink += a * 11
	c11Sink *= 5
	c11Sink ^= a
	return c11Sink
}

var c11O26 = func(a int) int {
	c11Sink += a
	c11Sink *= 3
	c11Sink ^= a + 26
	c11Sink += a * 11
	c11Sink *= 5
	c11Sink ^= a
	return c11Sink
}

var c11O27 = func(a int) int {
	c11Sink += a
	c11Sink *= 3
	c11Sink ^= a + 27
	c11Sink += a * 11
	c11Sink *= 5
	c11Sink ^= a
	return c11Sink
}

var c11O28 = func(a int) int {
	c11Sink += a
	c11Sink *= 3
	c11Sink ^= a + 28
	c11Sink += a * 11
	c11Sink *= 5
	c11Sink ^= a
	return c11Sink
}

var c11O29 = func(a int) int {
	c11Sink += a
	c11Sink *= 3
	c11Sink ^= a + 29
	c11Sink += a * 11
	c11Sink *= 5
	c11Sink ^= a
	return c11Sink
}

var c11O30 = func(a int) int {
	c11Sink += a
	c11Sink *= 3
	c11Sink ^= a + 30
	c11Sink += a * 11
	c11Sink *= 5
	c11Sink ^= a
	return c11Sink
}

var c11O31 = func(a int) int {
	c11Sink += a
	c11Sink *= 3
	c11Sink ^= a + 31
	c11Sink += a * 11
	c11Sink *= 5
	c11Sink ^= a
	return c11Sink
}

var c11O32 = func(a int) int {
	c11Sink += a
	c11Sink *= 3
	c11Sink ^= a + 32
	c11Sink += a * 11
	c11Sink *= 5
	c11Sink ^= a
	return c11Sink
}

var c11O33 = func(a int) int {
	c11Sink += a
	c11Sink *= 3
	c11Sink ^= a + 33
	c11Sink += a * 11
	c11Sink *= 5
	c11Sink ^= a
	return c11Sink
}

var c11O34 = func(a int) int {
	c11Sink += a
	c11Sink *= 3
	c11Sink ^= a + 34
	c11Sink += a * 11
	c11Sink *= 5
	c11Sink ^= a
	return c11Sink
}

var c11O35 = func(a int) int {
	c11Sink += a
	c11Sink *= 3
	c11Sink ^= a + 35
	c11Sink += a * 11
	c11Sink *= 5
	c11Sink ^= a
	return c11Sink
}

var c11O36 = func(a int) int {
	c11Sink += a
	c11Sink *= 3
	c11Sink ^= a + 36
	c11Sink += a * 11
	c11Sink *= 5
	c11Sink ^= a
	return c11Sink
}

var c11O37 = func(a int) int {
	c11Sink += a
	c11Sink *= 3
	c11Sink ^= a + 37
	c11Sink += a * 11
	c11Sink *= 5
	c11Sink ^= a
	return c11Sink
}

var c11O38 = func(a int) int {
	c11Sink += a
	c11Sink *= 3
	c11Sink ^= a + 38
	c11Sink += a * 11
	c11Sink *= 5
	c11Sink ^= a
	return c11Sink
}

var c11O39 = func(a int) int {
	c11Sink += a
	c11Sink *= 3
	c11Sink ^= a + 39
	c11Sink += a * 11
	c11Sink *= 5
	c11Sink ^= a
	return c11Sink
}

var c11O40 = func(a int) int {
	c11Sink += a
	c11Sink *= 3
	c11Sink ^= a + 40
	c11Sink += a * 11
	c11Sink *= 5
	c11Sink ^= a
	return c11Sink
}

var c11O41 = func(a int) int {
	c11Sink += a
	c11Sink *= 3
	c11Sink ^= a + 41
	c11Sink += a * 11
	c11Sink *= 5
	c11Sink ^= a
	return c11Sink
}

var c11O42 = func(a int) int {
	c11Sink += a
	c11Sink *= 3
	c11Sink ^= a + 42
	c11Sink += a * 11
	c11Sink *= 5
	c11Sink ^= a
	return c11Sink
}

var c11O43 = func(a int) int {
	c11Sink += a
	c11Sink *= 3
	c11Sink ^= a + 43
	c11Sink += a * 11
	c11Sink *= 5
	c11Sink ^= a
	return c11Sink
}

var c11O44 = func(a int) int {
	c11Sink += a
	c11Sink *= 3
	c11Sink ^= a + 44
	c11Sink += a * 11
	c11Sink *= 5
	c11Sink ^= a
	return c11Sink
}

var c11O45 = func(a int) int {
	c11Sink += a
	c11Sink *= 3
	c11Sink ^= a + 45
	c11Sink += a * 11
	c11Sink *= 5
	c11Sink ^= a
	return c11Sink
}

var c11O46 = func(a int) int {
	c11Sink += a
	c11Sink *= 3
	c11Sink ^= a + 46
	c11Sink += a * 11
	c11Sink *= 5
	c11Sink ^= a
	return c11Sink
}

var c11O47 = func(a int) int {
	c11Sink += a
	c11Sink *= 3
	c11Sink ^= a + 47
	c11Sink += a * 11
	c11Sink *= 5
	c11Sink ^= a
	return c11Sink
}

var c11Targets = []func(int) int{c11T00, c11T01, c11T02, c11T03, c11T04, c11T05, c11T06, c11T07, c11T08, c11T09, c11T10, c11T11, c11T12, c11T13, c11T14, c11T15, c11T16, c11T17, c11T18, c11T19, c11T20, c11T21, c11T22, c11T23, c11T24, c11T25, c11T26, c11T27, c11T28, c11T29, c11T30, c11T31, c11T32, c11T33, c11T34, c11T35, c11T36, c11T37, c11T38, c11T39, c11T40, c11T41, c11T42, c11T43, c11T44, c11T45, c11T46, c11T47}
var c11Plh = []*func(int) int{&c11O00, &c11O01, &c11O02, &c11O03, &c11O04, &c11O05, &c11O06, &c11O07, &c11O08, &c11O09, &c11O10, &c11O11, &c11O12, &c11O13, &c11O14, &c11O15, &c11O16, &c11O17, &c11O18, &c11O19, &c11O20, &c11O21, &c11O22, &c11O23, &c11O24, &c11O25, &c11O26, &c11O27, &c11O28, &c11O29, &c11O30, &c11O31, &c11O32, &c11O33, &c11O34, &c11O35, &c11O36, &c11O37, &c11O38, &c11O39, &c11O40, &c11O41, &c11O42, &c11O43, &c11O44, &c11O45, &c11O46, &c11O47}
var c11Neigh = []func(int) int{c11U00, c11U03, c11U06, c11U09, c11U12, c11U15, c11U18, c11U21, c11U24, c11U27, c11U30, c11U33, c11U36, c11U39, c11U42, c11U45}
var c11NeighIdx = []int{0, 3, 6, 9, 12, 15, 18, 21, 24, 27, 30, 33, 36, 39, 42, 45}
