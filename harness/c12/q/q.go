// Package c12q is the "helper package" of the C12 probe: it creates builders and issues lookups on behalf of the
// test package, so that "the caller's package" of New() and of a lookup can differ from the package that uses the
// builder.  Injected virtually as github.com/tencent/goom/internal/zzverif/c12q.
package c12q

import mocker "github.com/tencent/goom"

// Path is this package's import path (what currentPkg yields for calls made from here).
const Path = "github.com/tencent/goom/internal/zzverif/c12q"

// New creates a builder from this package.
//
//go:noinline
func New() *mocker.Builder { return mocker.New() }

// LookFunc performs b.Func(f) from this package.
//
//go:noinline
func LookFunc(b *mocker.Builder, f interface{}) mocker.Mocker { return b.Func(f) }
