package mocker_test

// C12 probe: runs whole builder histories on the real goom API and reports, after every step, whether the op yielded
// a mocker (or the panic class) and the behaviour class of every target (functions/methods are called with the
// fixed arguments 1 and 2, variables are read).  It lives in the EXTERNAL test package github.com/tencent/goom_test
// (injected with `go test -overlay`), so "the caller's package" differs from goom's own package; builders can also
// be created, and lookups issued, from the helper package c12q.

import (
	"fmt"
	"runtime/debug"
	"strconv"
	"strings"
	"testing"

	mocker "github.com/tencent/goom"
	"github.com/tencent/goom/arg"
	"github.com/tencent/goom/internal/patch"
	"github.com/tencent/goom/internal/zzverif/c12p"
	"github.com/tencent/goom/internal/zzverif/c12q"
	"github.com/tencent/goom/internal/zzverif/vh"
)

const vc12Self = "github.com/tencent/goom_test"

//go:noinline
func vc12pad(a, base int) int {
	if a < 0 {
		panic("negative")
	}
	return base + a
}

//go:noinline
func vc12FA(a int) int { return vc12pad(a, 100000) }

//go:noinline
func vc12FB(a int) int { return vc12pad(a, 100000) }

//go:noinline
func vc12X(a int) int { return vc12pad(a, 100000) }

//go:noinline
func vc12Y(a int) int { return vc12pad(a, 100000) }

type vc12T struct{ pad int }

//go:noinline
func (t *vc12T) M1(a int) int { return vc12pad(a, 100000) }

//go:noinline
func (t *vc12T) M2(a int) int { return vc12pad(a, 100000) }

// vc12u exists under the same name in package c12p (ExportStruct target)
type vc12u struct{ pad int }

//go:noinline
func (t *vc12u) um(a int) int { return vc12pad(a, 100000) }

// vc12ucopy mirrors the layout of both vc12u types (the other package's one cannot be named here)
type vc12ucopy struct{ pad int }

type vc12If interface{ M(a int) int }

type vc12Impl struct{ pad int }

//go:noinline
func (t *vc12Impl) M(a int) int { return vc12pad(a, 100000) }

// a second interface variable, with two methods
type vc12If2 interface {
	A(a int) int
	B(a int) int
}

type vc12Impl2 struct{ pad int }

//go:noinline
func (t *vc12Impl2) A(a int) int { return vc12pad(a, 100000) }

//go:noinline
func (t *vc12Impl2) B(a int) int { return vc12pad(a, 100000) }

const vc12VarOrig = 7

var (
	vc12Real          = &vc12Impl{}
	vc12IV    vc12If  = vc12Real
	vc12Real2         = &vc12Impl2{}
	vc12IV2   vc12If2 = vc12Real2
	vc12Var           = vc12VarOrig // mocked with Builder.Var(&vc12Var)
	vc12W             = vc12VarOrig // mocked with Builder.UnExportedVar(vc12Self + ".vc12W")
)

// callbacks k0..k3 per signature; result 200000 + 100*k + a
func vc12k(k, a int) int { return vc12pad(a, 200000+100*k) }

// k0, k1 are distinct function literals; k2, k3 are two closures of ONE literal (a callback factory, as tests write it):
// same code pointer, different captured k
func vc12mkFn(k int) func(int) int         { return func(a int) int { return vc12k(k, a) } }
func vc12mkSt(k int) func(*vc12T, int) int { return func(_ *vc12T, a int) int { return vc12k(k, a) } }
func vc12mkUm(k int) func(*vc12ucopy, int) int {
	return func(_ *vc12ucopy, a int) int { return vc12k(k, a) }
}
func vc12mkIf(k int) func(*mocker.IContext, int) int {
	return func(_ *mocker.IContext, a int) int { return vc12k(k, a) }
}

var vc12FnK = []func(int) int{
	func(a int) int { return vc12k(0, a) }, func(a int) int { return vc12k(1, a) }, vc12mkFn(2), vc12mkFn(3),
}
var vc12StK = []func(*vc12T, int) int{
	func(_ *vc12T, a int) int { return vc12k(0, a) }, func(_ *vc12T, a int) int { return vc12k(1, a) }, vc12mkSt(2), vc12mkSt(3),
}
var vc12UmK = []func(*vc12ucopy, int) int{
	func(_ *vc12ucopy, a int) int { return vc12k(0, a) }, func(_ *vc12ucopy, a int) int { return vc12k(1, a) }, vc12mkUm(2), vc12mkUm(3),
}
var vc12IfK = []func(*mocker.IContext, int) int{
	func(_ *mocker.IContext, a int) int { return vc12k(0, a) }, func(_ *mocker.IContext, a int) int { return vc12k(1, a) }, vc12mkIf(2), vc12mkIf(3),
}

// distinct function literals of one signature each, as a user writes them when a chain is repeated in a second statement
var vc12IfAs = []func(*mocker.IContext, int) int{
	func(*mocker.IContext, int) int { return 0 }, func(*mocker.IContext, int) int { return -1 }, func(*mocker.IContext, int) int { return -2 },
}
var vc12FnAs = []func(int) int{func(int) int { return 0 }, func(int) int { return -1 }}
var vc12UmAs = []func(*vc12ucopy, int) int{func(*vc12ucopy, int) int { return 0 }, func(*vc12ucopy, int) int { return -1 }}

func vc12class(f func(int) int, a int) (res string) {
	defer func() {
		if r := recover(); r != nil {
			msg := fmt.Sprint(r)
			switch {
			case strings.HasPrefix(msg, "there is no suitable condition matched"):
				res = "p"
			case strings.HasPrefix(msg, "method not implements"):
				res = "n"
			default:
				res = "P:" + vh.Class(msg)
			}
		}
	}()
	r := f(a)
	switch {
	case r == 100000+a:
		return "o"
	case r >= 200000 && r < 200400 && (r-200000)%100 == a:
		return "k" + strconv.Itoa((r-200000)/100)
	case r >= 0 && r < 100:
		return "v" + strconv.Itoa(r)
	}
	return "?" + strconv.Itoa(r)
}

// a variable "behaves" like its value: the original value is class o, a Set(k) value is class k<k>
func vc12varClass(v int) string {
	switch {
	case v == vc12VarOrig:
		return "o"
	case v >= 0 && v < 4:
		return "k" + strconv.Itoa(v)
	}
	return "?" + strconv.Itoa(v)
}

// the targets in the order of the observation
var vc12Targets = []struct {
	name string
	call func(int) int
}{
	{"fA", func(a int) int { return vc12FA(a) }},
	{"fB", func(a int) int { return vc12FB(a) }},
	{"m1", func(a int) int { return (&vc12T{}).M1(a) }},
	{"m2", func(a int) int { return (&vc12T{}).M2(a) }},
	{"im", func(a int) int { return vc12IV.M(a) }},
	{"x0", func(a int) int { return vc12X(a) }},
	{"y0", func(a int) int { return vc12Y(a) }},
	{"x1", func(a int) int { return c12p.CallX(a) }},
	{"y1", func(a int) int { return c12p.CallY(a) }},
	{"u0", func(a int) int { return (&vc12u{}).um(a) }},
	{"u1", func(a int) int { return c12p.CallUm(a) }},
}

func vc12behaviour() string {
	var sb strings.Builder
	for _, t := range vc12Targets {
		sb.WriteString(vc12class(t.call, 1))
		sb.WriteByte('.')
		sb.WriteString(vc12class(t.call, 2))
		sb.WriteByte(',')
	}
	sb.WriteString(vc12varClass(vc12Var) + "." + vc12varClass(vc12Var) + ",")
	sb.WriteString(vc12varClass(vc12W) + "." + vc12varClass(vc12W))
	for _, f := range []func(int) int{func(a int) int { return vc12IV2.A(a) }, func(a int) int { return vc12IV2.B(a) }} {
		sb.WriteString("," + vc12class(f, 1) + "." + vc12class(f, 2))
	}
	return sb.String()
}

func vc12clean() {
	patch.UnpatchAll()
	vc12IV = vc12Real
	vc12IV2 = vc12Real2
	vc12Var = vc12VarOrig
	vc12W = vc12VarOrig
}

// a handle as a test keeps it in a local variable
type vc12handle struct {
	mk   mocker.Mocker
	stub func() mocker.ExportedMocker // nil: the handle has no Return/When API (variables)
	cbs  func(k int) interface{}
	set  func(k int) // variables
	recv bool
}

type vc12run struct {
	b    *mocker.Builder
	nas  int // counts As() calls on unexported functions / methods: they rotate through different literals
	regs map[string]*vc12handle
}

func vc12ints(toks []string) []interface{} {
	var vs []interface{}
	for _, t := range toks {
		vs = append(vs, int(vh.I64(t)))
	}
	return vs
}

func vc12idx(s string, n int) int {
	v, err := strconv.Atoi(s)
	if err != nil || v < 0 || v >= n {
		panic("bad-op")
	}
	return v
}

// lookup performs one builder lookup from this package.
func (r *vc12run) lookup(kind, name string) *vc12handle {
	b := r.b
	switch kind {
	case "fn":
		var m *mocker.DefMocker
		switch name {
		case "fA":
			m = b.Func(vc12FA)
		case "fB":
			m = b.Func(vc12FB)
		default:
			panic("bad-op")
		}
		return &vc12handle{mk: m, stub: func() mocker.ExportedMocker { return m }, cbs: func(k int) interface{} { return vc12FnK[k] }}
	case "st":
		m := b.Struct(&vc12T{}).Method(name)
		return &vc12handle{mk: m, stub: func() mocker.ExportedMocker { return m }, cbs: func(k int) interface{} { return vc12StK[k] }}
	case "if":
		// "M", "M.a1", "M.a2": the same method, As() is given a different function literal of the same signature
		lit := 0
		if i := strings.Index(name, ".a"); i >= 0 {
			lit = vc12idx(name[i+2:], len(vc12IfAs))
			name = name[:i]
		}
		m := b.Interface(&vc12IV).Method(name)
		return &vc12handle{mk: m, stub: func() mocker.ExportedMocker { return m.As(vc12IfAs[lit]) }, cbs: func(k int) interface{} { return vc12IfK[k] }}
	case "i2":
		if name != "A" && name != "B" {
			panic("bad-op")
		}
		m := b.Interface(&vc12IV2).Method(name)
		return &vc12handle{mk: m, stub: func() mocker.ExportedMocker { r.nas++; return m.As(vc12IfAs[r.nas%len(vc12IfAs)]) },
			cbs: func(k int) interface{} { return vc12IfK[k] }}
	case "xf":
		m := b.ExportFunc("vc12" + name)
		return &vc12handle{mk: m, stub: func() mocker.ExportedMocker { r.nas++; return m.As(vc12FnAs[r.nas%len(vc12FnAs)]) },
			cbs: func(k int) interface{} { return vc12FnK[k] }}
	case "xs":
		if name != "um" {
			panic("bad-op")
		}
		m := b.ExportStruct("*vc12u").Method("um")
		return &vc12handle{mk: m, stub: func() mocker.ExportedMocker { r.nas++; return m.As(vc12UmAs[r.nas%len(vc12UmAs)]) },
			cbs: func(k int) interface{} { return vc12UmK[k] }, recv: true}
	case "var":
		m := b.Var(&vc12Var)
		return &vc12handle{mk: m, set: func(k int) { m.Set(k) }}
	case "uvar":
		m := b.UnExportedVar(vc12Self + ".vc12W")
		return &vc12handle{mk: m, set: func(k int) { m.Set(k) }}
	}
	panic("bad-op")
}

// instr issues one instruction through a handle.
func (h *vc12handle) instr(ins []string) {
	switch ins[0] {
	case "look":
	case "apply":
		k := vc12idx(strings.TrimPrefix(ins[1], "k"), 4)
		if h.set != nil {
			h.set(k)
		} else {
			h.mk.Apply(h.cbs(k))
		}
	case "cancel":
		h.mk.Cancel()
	default:
		if h.stub == nil {
			panic("bad-op")
		}
		m := h.stub()
		switch ins[0] {
		case "ret":
			m.Return(vc12ints(ins[1:])...)
		case "when":
			if h.recv { // As() on an unexported method yields a DefMocker whose conditions include the receiver
				m.When(arg.Any(), int(vh.I64(ins[1])))
			} else {
				m.When(int(vh.I64(ins[1])))
			}
		case "whenret":
			if h.recv {
				m.When(arg.Any(), int(vh.I64(ins[1]))).Return(int(vh.I64(ins[2])))
			} else {
				m.When(int(vh.I64(ins[1]))).Return(int(vh.I64(ins[2])))
			}
		case "rets":
			m.Returns(vc12ints(ins[1:])...)
		default:
			panic("bad-op")
		}
	}
}

// step executes one op of a history; "m" when it went through a mocker, "-" otherwise.
func (r *vc12run) step(toks []string) string {
	b := r.b
	if len(toks) == 0 {
		panic("bad-op")
	}
	switch toks[0] {
	case "pkg":
		switch toks[1] {
		case "p0":
			b.Pkg(vc12Self)
		case "p1":
			b.Pkg(c12p.Path)
		case "pq":
			b.Pkg(c12q.Path)
		default:
			panic("bad-op")
		}
		return "-"
	case "reset":
		b.Reset()
		return "-"
	case "qlook": // a lookup issued from the helper package
		c12q.LookFunc(b, vc12FA)
		return "m"
	case "xfe": // rejected before anything happens
		b.ExportFunc("")
		return "m"
	case "keep":
		if len(toks) != 4 {
			panic("bad-op")
		}
		r.regs[toks[1]] = r.lookup(toks[2], toks[3])
		return "m"
	case "on":
		h := r.regs[toks[1]]
		if h == nil || len(toks) < 3 {
			panic("bad-op")
		}
		h.instr(toks[2:])
		return "m"
	}
	if len(toks) < 3 {
		panic("bad-op")
	}
	r.lookup(toks[0], toks[1]).instr(toks[2:])
	return "m"
}

// TestVerifC12 executes every `c12.hist` line: ops separated by ";".
func TestVerifC12(t *testing.T) {
	debug.SetGCPercent(-1) // F9 (collectable callbacks) belongs to C07; keep it out of this probe
	out := vh.OpenOut()
	defer out.Close()
	n := 0
	for _, op := range vh.ReadOps() {
		if len(op.Toks) == 0 || op.Toks[0] != "c12.hist" {
			continue
		}
		if n++; n%256 == 0 {
			debug.SetGCPercent(100) // bounded memory for long chunks: collect between histories, never inside one
			debug.FreeOSMemory()
			debug.SetGCPercent(-1)
		}
		vc12clean()
		if pre := vc12behaviour(); strings.Trim(pre, "o.,") != "" {
			out.Put(op.Idx, "dirty %s", pre)
			continue
		}
		steps := strings.Split(strings.TrimSpace(strings.TrimPrefix(op.Line, "c12.hist")), ";")
		r := &vc12run{regs: map[string]*vc12handle{}}
		if strings.TrimSpace(steps[0]) == "newq" { // the builder is created by the helper package
			r.b = c12q.New()
		} else {
			r.b = mocker.New()
		}
		var obs []string
		for i, step := range steps {
			toks := strings.Fields(step)
			res := "-"
			if !(i == 0 && len(toks) == 1 && toks[0] == "newq") {
				res = vh.Catch(func() string { return r.step(toks) })
			}
			obs = append(obs, res+" "+vc12behaviour())
		}
		vh.Catch(func() string { r.b.Reset(); return "" })
		vc12clean()
		out.Put(op.Idx, "%s", strings.Join(obs, " ; "))
	}
}
