package mocker

// C12 probe: runs whole builder histories on the real goom API and reports, after every step, which mocker
// object the lookup returned (ordinal of first appearance) and the behaviour class of every target (each
// target is called with the fixed arguments 1 and 2).  Injected into the root package with `go test -overlay`.

import (
	"fmt"
	"runtime/debug"
	"strconv"
	"strings"
	"testing"

	"github.com/tencent/goom/arg"
	"github.com/tencent/goom/internal/patch"
	"github.com/tencent/goom/internal/zzverif/c12p"
	"github.com/tencent/goom/internal/zzverif/vh"
)

//go:noinline
func vc12pad(a, base int) int {
	if a < 0 {
		panic("negative")
	}
	return base + a
}

//go:noinline
func vc12FA(a int) int { return vc12pad(a, 100000) }

//go:noinline
func vc12FB(a int) int { return vc12pad(a, 100000) }

//go:noinline
func vc12X(a int) int { return vc12pad(a, 100000) }

//go:noinline
func vc12Y(a int) int { return vc12pad(a, 100000) }

type vc12T struct{ pad int }

//go:noinline
func (t *vc12T) M1(a int) int { return vc12pad(a, 100000) }

//go:noinline
func (t *vc12T) M2(a int) int { return vc12pad(a, 100000) }

// vc12u exists under the same name in package c12p (ExportStruct target)
type vc12u struct{ pad int }

//go:noinline
func (t *vc12u) um(a int) int { return vc12pad(a, 100000) }

// vc12ucopy mirrors the layout of both vc12u types (the other package's one cannot be named here)
type vc12ucopy struct{ pad int }

type vc12If interface{ M(a int) int }

type vc12Impl struct{ pad int }

//go:noinline
func (t *vc12Impl) M(a int) int { return vc12pad(a, 100000) }

var (
	vc12Real = &vc12Impl{}
	vc12IV   vc12If = vc12Real
	vc12Var         = 7
)

// callbacks k0..k3 per signature; result 200000 + 100*k + a
func vc12k(k, a int) int { return vc12pad(a, 200000+100*k) }

var vc12FnK = []func(int) int{
	func(a int) int { return vc12k(0, a) }, func(a int) int { return vc12k(1, a) },
	func(a int) int { return vc12k(2, a) }, func(a int) int { return vc12k(3, a) },
}
var vc12StK = []func(*vc12T, int) int{
	func(_ *vc12T, a int) int { return vc12k(0, a) }, func(_ *vc12T, a int) int { return vc12k(1, a) },
	func(_ *vc12T, a int) int { return vc12k(2, a) }, func(_ *vc12T, a int) int { return vc12k(3, a) },
}
var vc12UmK = []func(*vc12ucopy, int) int{
	func(_ *vc12ucopy, a int) int { return vc12k(0, a) }, func(_ *vc12ucopy, a int) int { return vc12k(1, a) },
	func(_ *vc12ucopy, a int) int { return vc12k(2, a) }, func(_ *vc12ucopy, a int) int { return vc12k(3, a) },
}
var vc12IfK = []func(*IContext, int) int{
	func(_ *IContext, a int) int { return vc12k(0, a) }, func(_ *IContext, a int) int { return vc12k(1, a) },
	func(_ *IContext, a int) int { return vc12k(2, a) }, func(_ *IContext, a int) int { return vc12k(3, a) },
}

func vc12class(f func(int) int, a int) (res string) {
	defer func() {
		if r := recover(); r != nil {
			msg := fmt.Sprint(r)
			if strings.HasPrefix(msg, "there is no suitable condition matched") {
				res = "p"
			} else {
				res = "P:" + vh.Class(msg)
			}
		}
	}()
	r := f(a)
	switch {
	case r == 100000+a:
		return "o"
	case r >= 200000 && r < 200400 && (r-200000)%100 == a:
		return "k" + strconv.Itoa((r-200000)/100)
	case r >= 0 && r < 100:
		return "v" + strconv.Itoa(r)
	}
	return "?" + strconv.Itoa(r)
}

// the targets in the order of the observation
var vc12Targets = []struct {
	name string
	call func(int) int
}{
	{"fA", func(a int) int { return vc12FA(a) }},
	{"fB", func(a int) int { return vc12FB(a) }},
	{"m1", func(a int) int { return (&vc12T{}).M1(a) }},
	{"m2", func(a int) int { return (&vc12T{}).M2(a) }},
	{"im", func(a int) int { return vc12IV.M(a) }},
	{"x0", func(a int) int { return vc12X(a) }},
	{"y0", func(a int) int { return vc12Y(a) }},
	{"x1", func(a int) int { return c12p.CallX(a) }},
	{"y1", func(a int) int { return c12p.CallY(a) }},
	{"u0", func(a int) int { return (&vc12u{}).um(a) }},
	{"u1", func(a int) int { return c12p.CallUm(a) }},
}

func vc12behaviour() string {
	var sb strings.Builder
	for i, t := range vc12Targets {
		if i > 0 {
			sb.WriteByte(',')
		}
		sb.WriteString(vc12class(t.call, 1))
		sb.WriteByte('.')
		sb.WriteString(vc12class(t.call, 2))
	}
	return sb.String()
}

func vc12clean() {
	patch.UnpatchAll()
	vc12IV = vc12Real
	vc12Var = 7
}

type vc12run struct {
	b   *Builder
	ids map[interface{}]int
	nas int // counts As() calls on unexported functions / methods: they rotate through different literals
}

// distinct function literals of one signature each, as a user writes them when a chain is repeated in a second statement
var vc12IfAs = []func(*IContext, int) int{
	func(*IContext, int) int { return 0 }, func(*IContext, int) int { return -1 }, func(*IContext, int) int { return -2 },
}
var vc12FnAs = []func(int) int{func(int) int { return 0 }, func(int) int { return -1 }}
var vc12UmAs = []func(*vc12ucopy, int) int{func(*vc12ucopy, int) int { return 0 }, func(*vc12ucopy, int) int { return -1 }}

func (r *vc12run) id(m interface{}) string {
	n, ok := r.ids[m]
	if !ok {
		n = len(r.ids)
		r.ids[m] = n
	}
	return "m" + strconv.Itoa(n)
}

func vc12ints(toks []string) []interface{} {
	var vs []interface{}
	for _, t := range toks {
		vs = append(vs, int(vh.I64(t)))
	}
	return vs
}

// stub applies a stub instruction to an ExportedMocker
func vc12stub(m ExportedMocker, ins []string, recv bool) {
	if recv { // As() on an unexported method yields a DefMocker whose conditions include the receiver
		switch ins[0] {
		case "when":
			m.When(arg.Any(), int(vh.I64(ins[1])))
			return
		case "whenret":
			m.When(arg.Any(), int(vh.I64(ins[1]))).Return(int(vh.I64(ins[2])))
			return
		}
	}
	switch ins[0] {
	case "ret":
		m.Return(vc12ints(ins[1:])...)
	case "when":
		m.When(vc12ints(ins[1:])...)
	case "whenret":
		m.When(int(vh.I64(ins[1]))).Return(int(vh.I64(ins[2])))
	case "rets":
		m.Returns(vc12ints(ins[1:])...)
	default:
		panic("bad-op")
	}
}

func vc12idx(s string, n int) int {
	v, err := strconv.Atoi(s)
	if err != nil || v < 0 || v >= n {
		panic("bad-op")
	}
	return v
}

// step executes one op of a history and returns the mocker ordinal ("-" when the op has none).
func (r *vc12run) step(toks []string) string {
	b := r.b
	if len(toks) == 0 {
		panic("bad-op")
	}
	switch toks[0] {
	case "pkg":
		switch toks[1] {
		case "p0":
			b.Pkg("github.com/tencent/goom")
		case "p1":
			b.Pkg(c12p.Path)
		default:
			panic("bad-op")
		}
		return "-"
	case "reset":
		b.Reset()
		return "-"
	case "var":
		m := b.Var(&vc12Var)
		if len(toks) > 1 && toks[1] == "set" {
			m.Set(int(vh.I64(toks[2])))
		}
		return "-" // variable mockers are C08's subject; here the lookup only matters for the package override
	}
	if len(toks) < 3 {
		panic("bad-op")
	}
	ins := toks[2:]
	var (
		mk   Mocker
		stub func() ExportedMocker
		cb   interface{}
		recv bool
	)
	kidx := func() int {
		if ins[0] == "apply" {
			return vc12idx(strings.TrimPrefix(ins[1], "k"), 4)
		}
		return 0
	}
	switch toks[0] {
	case "fn":
		var m *DefMocker
		switch toks[1] {
		case "fA":
			m = b.Func(vc12FA)
		case "fB":
			m = b.Func(vc12FB)
		default:
			panic("bad-op")
		}
		mk, stub, cb = m, func() ExportedMocker { return m }, vc12FnK[kidx()]
	case "st":
		m := b.Struct(&vc12T{}).Method(toks[1])
		mk, stub, cb = m, func() ExportedMocker { return m }, vc12StK[kidx()]
	case "if":
		// "M", "M.a1", "M.a2": the same method, As() is given a different function literal of the same signature
		// (As only stores the signature holder; which literal is passed must not matter)
		name, lit := toks[1], 0
		if i := strings.Index(name, ".a"); i >= 0 {
			lit = vc12idx(name[i+2:], len(vc12IfAs))
			name = name[:i]
		}
		m := b.Interface(&vc12IV).Method(name)
		mk, stub, cb = m, func() ExportedMocker { return m.As(vc12IfAs[lit]) }, vc12IfK[kidx()]
	case "xf":
		m := b.ExportFunc("vc12" + toks[1])
		r.nas++
		mk, stub, cb = m, func() ExportedMocker { return m.As(vc12FnAs[r.nas%len(vc12FnAs)]) }, vc12FnK[kidx()]
	case "xs":
		if toks[1] != "um" {
			panic("bad-op")
		}
		m := b.ExportStruct("*vc12u").Method("um")
		r.nas++
		mk, stub, cb, recv = m, func() ExportedMocker { return m.As(vc12UmAs[r.nas%len(vc12UmAs)]) }, vc12UmK[kidx()], true
	default:
		panic("bad-op")
	}
	id := r.id(mk)
	switch ins[0] {
	case "look":
	case "apply":
		mk.Apply(cb)
	case "cancel":
		mk.Cancel()
	default:
		vc12stub(stub(), ins, recv)
	}
	return id
}

// TestVerifC12 executes every `c12.hist` line: ops separated by ";".
func TestVerifC12(t *testing.T) {
	debug.SetGCPercent(-1) // F9 (collectable callbacks) belongs to C07; keep it out of this probe
	out := vh.OpenOut()
	defer out.Close()
	for _, op := range vh.ReadOps() {
		if len(op.Toks) == 0 || op.Toks[0] != "c12.hist" {
			continue
		}
		vc12clean()
		if pre := vc12behaviour(); strings.Trim(pre, "o.,") != "" {
			out.Put(op.Idx, "dirty %s", pre)
			continue
		}
		r := &vc12run{b: New(), ids: map[interface{}]int{}}
		var obs []string
		for _, step := range strings.Split(strings.TrimSpace(strings.TrimPrefix(op.Line, "c12.hist")), ";") {
			toks := strings.Fields(step)
			res := vh.Catch(func() string { return r.step(toks) })
			obs = append(obs, res+" "+vc12behaviour())
		}
		vh.Catch(func() string { r.b.Reset(); return "" })
		vc12clean()
		out.Put(op.Idx, "%s", strings.Join(obs, " ; "))
	}
}
