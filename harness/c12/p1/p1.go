// Package c12p is the "other package" of the C12 probe: it owns unexported functions with the same names as the
// probe's own, so that a builder's Pkg(...) override is observable (which of the two gets mocked).
// Injected virtually as github.com/tencent/goom/internal/zzverif/c12p.
package c12p

// Path is the import path a builder must be given with Pkg to reach this package.
const Path = "github.com/tencent/goom/internal/zzverif/c12p"

//go:noinline
func pad(a, base int) int {
	if a < 0 {
		panic("negative")
	}
	return base + a
}

//go:noinline
func vc12X(a int) int { return pad(a, 100000) }

//go:noinline
func vc12Y(a int) int { return pad(a, 100000) }

// CallX calls this package's vc12X.
//
//go:noinline
func CallX(a int) int { return vc12X(a) }

// CallY calls this package's vc12Y.
//
//go:noinline
func CallY(a int) int { return vc12Y(a) }

// vc12u is the unexported struct that exists under the same name in the probe's own package.
type vc12u struct{ pad int }

//go:noinline
func (t *vc12u) um(a int) int { return pad(a, 100000) }

// CallUm calls this package's (*vc12u).um.
//
//go:noinline
func CallUm(a int) int { return (&vc12u{}).um(a) }
