package arm64asm

import (
	"bufio"
	"fmt"
	"os"
	"reflect"
	"runtime"
	"strings"
	"testing"
)

// TestVerifC17Dump prints the COMPILED decoding table of goom's arm64 decoder (instFormats: mask, value, op,
// argument kinds, whether a canDecode predicate is attached), the numeric values of the argument kinds the
// Lean model interprets, and the opcode names.  tools/a64table.py turns the text into Gen/A64Table.lean.
func TestVerifC17Dump(t *testing.T) {
	f, err := os.Create(os.Getenv("VERIF_OUT"))
	if err != nil {
		t.Fatal(err)
	}
	defer f.Close()
	w := bufio.NewWriter(f)
	defer w.Flush()
	fmt.Fprintf(w, "nrows %d\n", len(instFormats))
	maxOp := Op(0)
	for i := range instFormats {
		r := &instFormats[i]
		c := 0
		if r.canDecode != nil {
			c = 1
		}
		fmt.Fprintf(w, "row %d %#08x %#08x %d %d", i, r.mask, r.value, uint16(r.op), c)
		for _, a := range r.args {
			fmt.Fprintf(w, " %d", uint16(a))
		}
		// which predicate is attached: the linker's name of the function value (package path stripped)
		cn := "-"
		if r.canDecode != nil {
			cn = runtime.FuncForPC(reflect.ValueOf(r.canDecode).Pointer()).Name()
			if k := strings.LastIndex(cn, "."); k >= 0 {
				cn = cn[k+1:]
			}
		}
		fmt.Fprintf(w, " %s\n", cn)
		if r.op > maxOp {
			maxOp = r.op
		}
	}
	// the argument kinds interpreted by Model/A64Dec.lean (a renamed/removed constant breaks the build of this probe)
	kinds := []struct {
		n string
		v instArg
	}{
		{"arg_slabel_imm14_2", arg_slabel_imm14_2}, {"arg_slabel_imm19_2", arg_slabel_imm19_2},
		{"arg_slabel_imm26_2", arg_slabel_imm26_2}, {"arg_slabel_immhi_immlo_0", arg_slabel_immhi_immlo_0},
		{"arg_slabel_immhi_immlo_12", arg_slabel_immhi_immlo_12},
		{"arg_Xd", arg_Xd}, {"arg_Xn", arg_Xn}, {"arg_Xm", arg_Xm}, {"arg_Xa", arg_Xa}, {"arg_Xt", arg_Xt}, {"arg_Xt2", arg_Xt2}, {"arg_Xs", arg_Xs},
		{"arg_Wd", arg_Wd}, {"arg_Wn", arg_Wn}, {"arg_Wm", arg_Wm}, {"arg_Wa", arg_Wa}, {"arg_Wt", arg_Wt}, {"arg_Wt2", arg_Wt2}, {"arg_Ws", arg_Ws},
		{"arg_conditional", arg_conditional}, {"arg_Rt_31_1__W_0__X_1", arg_Rt_31_1__W_0__X_1},
		{"arg_immediate_0_63_b5_b40", arg_immediate_0_63_b5_b40},
		{"arg_immediate_shift_64_implicit_imm16_hw", arg_immediate_shift_64_implicit_imm16_hw},
		{"arg_immediate_OptLSL_amount_16_0_48", arg_immediate_OptLSL_amount_16_0_48},
		{"arg_Xns_mem_optional_imm12_8_unsigned", arg_Xns_mem_optional_imm12_8_unsigned},
		{"arg_St", arg_St}, {"arg_Dt", arg_Dt}, {"arg_Qt", arg_Qt}, {"arg_prfop_Rt", arg_prfop_Rt},
	}
	for _, k := range kinds {
		fmt.Fprintf(w, "kind %s %d\n", k.n, uint16(k.v))
	}
	for op := Op(0); op <= maxOp; op++ {
		fmt.Fprintf(w, "op %d %s\n", uint16(op), op.String())
	}
	fmt.Fprintf(w, "regbase W0 %d X0 %d\n", uint16(W0), uint16(X0))
}
