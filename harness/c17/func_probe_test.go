package bytecode

import (
	"encoding/binary"
	"fmt"
	"testing"
	"unsafe"

	"github.com/tencent/goom/internal/zzverif/vh"
)

// The package under test is goom's internal/bytecode/func_arm64.go (with func.go for its package-level variables)
// re-hosted under a neutral file name so that it compiles on the amd64 sandbox: the scans only read memory through
// memory.RawRead and decode it with goom's arm64asm, both pure Go.  The "function" is a byte buffer holding the arm64
// code words of the operation, followed by zero words (undecodable, so every scan stops inside the buffer).
func c17Buf(toks []string) ([]byte, uintptr) {
	buf := make([]byte, 4*len(toks)+4200+64)
	for i, t := range toks {
		binary.LittleEndian.PutUint32(buf[4*i:], uint32(vh.U64(t)))
	}
	return buf, uintptr(unsafe.Pointer(&buf[0]))
}

// TestVerifC17Func — `c17.inner <w0> <w1> …` → GetInnerFunc, `c17.size <0|1> <w0> …` → GetFuncSize.
func TestVerifC17Func(t *testing.T) {
	out := vh.OpenOut()
	defer out.Close()
	for _, op := range vh.ReadOps() {
		if len(op.Toks) < 1 {
			continue
		}
		switch op.Toks[0] {
		case "c17.inner":
			buf, start := c17Buf(op.Toks[1:])
			out.Put(op.Idx, "%s", vh.Catch(func() string {
				a, err := GetInnerFunc(64, start)
				_ = buf[0]
				if err != nil {
					return "err"
				}
				if a == 0 {
					return "zero"
				}
				return fmt.Sprintf("target=%d", int64(a)-int64(start))
			}))
		case "c17.size":
			buf, start := c17Buf(op.Toks[2:])
			out.Put(op.Idx, "%s", vh.Catch(func() string {
				delete(funcSizeCache, start)
				n, err := GetFuncSize(64, start, op.Toks[1] == "1")
				_ = buf[0]
				delete(funcSizeCache, start)
				if err != nil {
					return "err"
				}
				return fmt.Sprintf("size=%d", n)
			}))
		}
	}
}
