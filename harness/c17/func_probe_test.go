package bytecode

import (
	"bytes"
	"encoding/binary"
	"fmt"
	"regexp"
	"strconv"
	"strings"
	"testing"
	"unsafe"

	"github.com/tencent/goom/internal/logger"
	"github.com/tencent/goom/internal/zzverif/vh"
)

var c17Line = regexp.MustCompile(`\[(\d+)\] 0x([0-9a-f]+):([^\n]*)`)

// The package under test is goom's internal/bytecode/func_arm64.go (with func.go for its package-level variables)
// re-hosted under a neutral file name so that it compiles on the amd64 sandbox: the scans only read memory through
// memory.RawRead and decode it with goom's arm64asm, both pure Go.  The "function" is a byte buffer holding the arm64
// code words of the operation, followed by zero words (undecodable, so every scan stops inside the buffer).
func c17Buf(toks []string) ([]byte, uintptr) {
	buf := make([]byte, 4*len(toks)+4200+64)
	for i, t := range toks {
		binary.LittleEndian.PutUint32(buf[4*i:], uint32(vh.U64(t)))
	}
	return buf, uintptr(unsafe.Pointer(&buf[0]))
}

// TestVerifC17Func — `c17.inner <w0> <w1> …` → GetInnerFunc, `c17.size <0|1> <w0> …` → GetFuncSize.
func TestVerifC17Func(t *testing.T) {
	out := vh.OpenOut()
	defer out.Close()
	for _, op := range vh.ReadOps() {
		if len(op.Toks) < 1 {
			continue
		}
		switch op.Toks[0] {
		case "c17.inner":
			buf, start := c17Buf(op.Toks[1:])
			out.Put(op.Idx, "%s", vh.Catch(func() string {
				a, err := GetInnerFunc(64, start)
				_ = buf[0]
				if err != nil {
					return "err"
				}
				if a == 0 {
					return "zero"
				}
				return fmt.Sprintf("target=%d", int64(a)-int64(start))
			}))
		case "c17.size2": // two calls for the same function WITHOUT touching the cache in between (func_arm64.go:31-37)
			buf, start := c17Buf(op.Toks[2:])
			out.Put(op.Idx, "%s", vh.Catch(func() string {
				delete(funcSizeCache, start)
				n1, err1 := GetFuncSize(64, start, op.Toks[1] == "1")
				n2, err2 := GetFuncSize(64, start, op.Toks[1] == "1")
				_, cached := funcSizeCache[start]
				_ = buf[0]
				delete(funcSizeCache, start)
				if err1 != nil || err2 != nil {
					return "err"
				}
				return fmt.Sprintf("size=%d again=%d cached=%v", n1, n2, cached)
			}))
		case "c17.print": // PrintInstf on the first <n> bytes of the words: every line it logs, canonicalised
			nb := int(vh.U64(op.Toks[1]))
			buf, start := c17Buf(op.Toks[2:])
			out.Put(op.Idx, "%s", vh.Catch(func() string {
				var sink bytes.Buffer
				old := logger.Logger
				logger.Logger = &sink
				defer func() { logger.Logger = old }()
				PrintInstf("c17", start, buf[:nb], 0)
				var obs []string
				for _, m := range c17Line.FindAllStringSubmatch(sink.String(), -1) {
					addr, _ := strconv.ParseUint(m[2], 16, 64)
					off := int64(addr) - int64(start)
					if strings.Contains(m[3], "inst decode error") {
						obs = append(obs, fmt.Sprintf("%d=err", off))
						continue
					}
					f := strings.Fields(m[3])
					if len(f) < 2 {
						obs = append(obs, fmt.Sprintf("%d=?", off))
						continue
					}
					obs = append(obs, fmt.Sprintf("%d=%s/%s", off, f[0], f[len(f)-1]))
				}
				if len(obs) == 0 {
					return "printed:-"
				}
				return "printed:" + strings.Join(obs, ",")
			}))
		case "c17.size":
			buf, start := c17Buf(op.Toks[2:])
			out.Put(op.Idx, "%s", vh.Catch(func() string {
				delete(funcSizeCache, start)
				n, err := GetFuncSize(64, start, op.Toks[1] == "1")
				_ = buf[0]
				delete(funcSizeCache, start)
				if err != nil {
					return "err"
				}
				return fmt.Sprintf("size=%d", n)
			}))
		}
	}
}
