package arm64asm

import (
	"encoding/binary"
	"encoding/json"
	"fmt"
	"os"
	"reflect"
	"runtime"
	"sort"
	"strconv"
	"strings"
	"sync"
	"sync/atomic"
	"testing"
	"time"

	ref "github.com/tencent/goom/internal/zzverif/refarm64"
	"github.com/tencent/goom/internal/zzverif/vh"
)

// c17Dec runs goom's real Decode and Inst.String on one word under recover.
func c17Dec(w uint32) (inst Inst, err error, str string, pan string) {
	defer func() {
		if r := recover(); r != nil {
			pan = vh.Class(fmt.Sprint(r))
			if pan == "" {
				pan = "panic"
			}
		}
	}()
	// goom's callers (GetFuncSize, GetInnerFunc, PrintInstf) hand Decode 16 bytes: the word is followed by 12 bytes derived
	// from it (splitmix), so any dependence on len(src) or on the bytes after the word shows up against the reference and the
	// model, which see the word alone.
	var b [16]byte
	binary.LittleEndian.PutUint32(b[:], w)
	z := uint64(w)*0x9E3779B97F4A7C15 + 0xBF58476D1CE4E5B9
	z = (z ^ (z >> 30)) * 0xBF58476D1CE4E5B9
	binary.LittleEndian.PutUint64(b[4:], z^(z>>27))
	binary.LittleEndian.PutUint32(b[12:], uint32(z>>13)^w)
	n := 16
	if w&3 == 1 { // a quarter of the words with exactly 4 bytes, the rest with 16
		n = 4
	}
	inst, err = Decode(b[:n])
	if err == nil {
		str = inst.String()
	}
	return
}

// c17Ref runs the toolchain's decoder (reference) on one word under recover.
func c17Ref(w uint32, wantStr bool) (inst ref.Inst, err error, str string, pan string) {
	defer func() {
		if r := recover(); r != nil {
			pan = "panic"
		}
	}()
	var b [4]byte
	binary.LittleEndian.PutUint32(b[:], w)
	inst, err = ref.Decode(b[:])
	if err == nil && wantStr {
		str = inst.String()
	}
	return
}

func c17Arg(a Arg) string {
	switch v := a.(type) {
	case PCRel:
		return "p" + strconv.FormatInt(int64(v), 10)
	case Reg:
		if v >= W0 && v <= WZR {
			return "W" + strconv.Itoa(int(v-W0))
		}
		if v >= X0 && v <= XZR {
			return "X" + strconv.Itoa(int(v-X0))
		}
	case Cond:
		if !v.Invert {
			return "c" + strconv.Itoa(int(v.Value))
		}
	case Imm:
		return "i" + strconv.Itoa(int(v.Imm))
	case Imm64:
		if !v.Decimal {
			return "q" + strconv.FormatUint(v.Imm, 10)
		}
	case ImmShift:
		return fmt.Sprintf("s%d:%d", v.imm, v.shift)
	case MemImmediate:
		if v.Mode == AddrOffset && v.Base >= RegSP(X0) && v.Base <= RegSP(X0)+31 {
			return fmt.Sprintf("m%d:%d", int(v.Base-RegSP(X0)), v.imm)
		}
	}
	return "?"
}

// c17Row finds which table row the real Decode must have used, WITHOUT relying on the decoder's own bookkeeping
// (decoderCover): it walks the real table with the real canDecode / decodeArg functions.  `first` is the first row that
// admits the word, `row` the first admitting row whose opcode and arguments equal what Decode returned.
func c17Row(x uint32, inst Inst) (row, first int) {
	row, first = -1, -1
	for i := range instFormats {
		f := &instFormats[i]
		if x&f.mask != f.value || (f.canDecode != nil && !f.canDecode(x)) {
			continue
		}
		var args Args
		ok := true
		for j, aop := range f.args {
			if aop == 0 {
				break
			}
			a := decodeArg(aop, x)
			if a == nil {
				ok = false
				break
			}
			args[j] = a
		}
		if !ok {
			continue
		}
		if first < 0 {
			first = i
		}
		if f.op == inst.Op && reflect.DeepEqual(args, inst.Args) {
			row = i
			break
		}
	}
	return
}

func c17Pcrels(args []string) string {
	if len(args) == 0 {
		return "-"
	}
	return strings.Join(args, ",")
}

// TestVerifC17 — line mode: `c17.dec <word>`; observation =
//   <row=.. op=.. args=..|err:<class>|panic:<class>> ## ref:<ok|err|panic> op=<NAME> pcrel=<..> ## gpcrel=<..> ## gstr=<..> ## rstr=<..>
func TestVerifC17(t *testing.T) {
	out := vh.OpenOut()
	defer out.Close()
	conds := map[string]func(uint32) bool{}
	for i := range instFormats {
		if f := instFormats[i].canDecode; f != nil {
			n := runtime.FuncForPC(reflect.ValueOf(f).Pointer()).Name()
			if k := strings.LastIndex(n, "."); k >= 0 {
				n = n[k+1:]
			}
			conds[n] = f
		}
	}
	for _, op := range vh.ReadOps() {
		if len(op.Toks) == 3 && op.Toks[0] == "c17.arg" { // the real decodeArg on (kind, word): val | nil | panic
			k, w := instArg(vh.U64(op.Toks[1])), uint32(vh.U64(op.Toks[2]))
			out.Put(op.Idx, "%s", vh.Catch(func() string {
				if decodeArg(k, w) == nil {
					return "nil"
				}
				return "val"
			}))
			continue
		}
		if len(op.Toks) == 3 && op.Toks[0] == "c17.cond" { // a real canDecode predicate, by its linker name
			f, ok := conds[op.Toks[1]]
			if !ok {
				out.Put(op.Idx, "no-such-predicate")
				continue
			}
			w := uint32(vh.U64(op.Toks[2]))
			out.Put(op.Idx, "%s", vh.Catch(func() string { return strconv.FormatBool(f(w)) }))
			continue
		}
		if len(op.Toks) == 3 && op.Toks[0] == "c17.short" { // Decode on the first n < 4 bytes of the word
			w, n := uint32(vh.U64(op.Toks[1])), int(vh.U64(op.Toks[2]))
			out.Put(op.Idx, "%s", vh.Catch(func() string {
				var b [4]byte
				binary.LittleEndian.PutUint32(b[:], w)
				_, err := Decode(b[:n])
				if err == errShort {
					return "err:short"
				}
				if err != nil {
					return "err:" + vh.Class(err.Error())
				}
				return "decoded"
			}))
			continue
		}
		if len(op.Toks) < 2 || op.Toks[0] != "c17.dec" {
			continue
		}
		w := uint32(vh.U64(op.Toks[1]))
		inst, err, gstr, pan := c17Dec(w)
		var g string
		var gp []string
		switch {
		case pan != "":
			g = "panic:" + pan
		case err != nil:
			g = "err:" + vh.Class(err.Error())
			if err == errUnknown {
				g = "err:unknown"
			}
		default:
			row, first := c17Row(w, inst)
			var as []string
			for j, a := range inst.Args {
				if a == nil {
					break
				}
				as = append(as, c17Arg(a))
				if p, ok := a.(PCRel); ok {
					gp = append(gp, fmt.Sprintf("%d:%d", j, int64(p)))
				}
			}
			args := "-"
			if len(as) > 0 {
				args = strings.Join(as, ",")
			}
			g = fmt.Sprintf("row=%d op=%s args=%s", row, inst.Op.String(), args)
			if first != row {
				g += fmt.Sprintf(" !first-admitting-row=%d", first) // Decode did not return the first admitting row
			}
		}
		ri, rerr, rstr, rpan := c17Ref(w, true)
		r := "ref:ok"
		var rp []string
		if rpan != "" {
			r = "ref:panic op=- pcrel=-"
		} else if rerr != nil {
			r = "ref:err op=- pcrel=-"
		} else {
			for j, a := range ri.Args {
				if a == nil {
					break
				}
				if p, ok := a.(ref.PCRel); ok {
					rp = append(rp, fmt.Sprintf("%d:%d", j, int64(p)))
				}
			}
			r = fmt.Sprintf("ref:ok op=%s pcrel=%s", ri.Op.String(), c17Pcrels(rp))
		}
		out.Put(op.Idx, "%s ## %s ## gpcrel=%s ## gstr=%s ## rstr=%s", g, r, c17Pcrels(gp), gstr, rstr)
	}
}

type c17Stats struct {
	Words, GoomOK, RefOK, BothErr, Allowed, AllowedDiff, PcrelWords, StrCompared, StrDiff int64
	Ops                                                                                 map[string]int64 // goom op name -> count, for ops carrying a PCRel
	Panic, RefPanic, DiffDecodable, DiffOp, DiffPcrel, StrDiffSamples, AllowedDiffSamples []string
	Complete                                                                            bool
	JobsTotal, JobsDone                                                                 int64
}

func (s *c17Stats) add(l *[]string, v string) {
	if len(*l) < 40 {
		*l = append(*l, v)
	}
}

func c17Hex(w uint32) string { return fmt.Sprintf("%#08x", w) }

func c17Allowed(w uint32) bool {
	// SYS-alias space: AT/DC/IC (CRn=7) and TLBI (CRn=8): tables.go rows with at_/dc_/ic_/tlbi_sys_cr_system_cond
	m := w & 0xfff8f000
	return m == 0xd5087000 || m == 0xd5088000
}

// c17Deposit scatters the low bits of k into the positions of the set bits of free (software PDEP)
func c17Deposit(k uint64, free uint32) uint32 {
	var w uint32
	for b := uint(0); b < 32; b++ {
		if free&(1<<b) != 0 {
			if k&1 != 0 {
				w |= 1 << b
			}
			k >>= 1
		}
	}
	return w
}

func c17SweepRange(lo, hi, stride uint64, strcmp bool, s *c17Stats) {
	c17SweepGen(lo, hi, stride, 0, 0, false, strcmp, s)
}

// c17SweepGen: plain mode enumerates lo, lo+stride, … < hi; row mode enumerates value | deposit(k, ^mask) for k in [lo, hi)
func c17SweepGen(lo, hi, stride uint64, mask, value uint32, rowMode bool, strcmp bool, s *c17Stats) {
	for w64 := lo; w64 < hi; w64 += stride {
		w := uint32(w64)
		if rowMode {
			w = value | c17Deposit(w64, ^mask)
		}
		s.Words++
		gi, gerr, gstr, gpan := c17Dec(w)
		ri, rerr, rstr, rpan := c17Ref(w, strcmp)
		if gpan != "" {
			s.add(&s.Panic, c17Hex(w)+" "+gpan)
			continue
		}
		if rpan != "" {
			s.add(&s.RefPanic, c17Hex(w))
			continue
		}
		if gerr == nil {
			s.GoomOK++
		}
		if rerr == nil {
			s.RefOK++
		}
		if c17Allowed(w) {
			s.Allowed++
			if (gerr == nil) != (rerr == nil) || (gerr == nil && gi.Op.String() != ri.Op.String()) {
				s.AllowedDiff++
				s.add(&s.AllowedDiffSamples, c17Hex(w))
			}
			continue
		}
		if (gerr == nil) != (rerr == nil) {
			s.add(&s.DiffDecodable, c17Hex(w))
			continue
		}
		if gerr != nil {
			s.BothErr++
			continue
		}
		gop := gi.Op.String()
		if gop != ri.Op.String() {
			s.add(&s.DiffOp, c17Hex(w)+" "+gop+" "+ri.Op.String())
			continue
		}
		has := false
		for j := range gi.Args {
			gp, gok := gi.Args[j].(PCRel)
			rp, rok := ri.Args[j].(ref.PCRel)
			if gok != rok || (gok && int64(gp) != int64(rp)) {
				s.add(&s.DiffPcrel, fmt.Sprintf("%s arg%d goom=%v/%d ref=%v/%d", c17Hex(w), j, gok, int64(gp), rok, int64(rp)))
			}
			has = has || gok
		}
		if has {
			s.PcrelWords++
			s.Ops[gop]++
		}
		if strcmp {
			s.StrCompared++
			if gstr != rstr {
				s.StrDiff++
				if len(s.StrDiffSamples) < 12 {
					s.StrDiffSamples = append(s.StrDiffSamples, c17Hex(w)+" goom=`"+gstr+"` ref=`"+rstr+"`")
				}
			}
		}
	}
}

// TestVerifC17Sweep — sweep mode: $VERIF_C17_SEGS = "lo:hi:stride,..." (hex or decimal, hi exclusive); every word
// lo, lo+stride, … < hi goes through goom's Decode + Inst.String (under recover) and through the reference decoder;
// decodability, opcode name and every PCRel argument are compared.  Summary (JSON) is written to $VERIF_OUT.
func TestVerifC17Sweep(t *testing.T) {
	segs := strings.Split(os.Getenv("VERIF_C17_SEGS"), ",")
	strcmp := os.Getenv("VERIF_C17_STRCMP") == "1"
	type job struct {
		lo, hi, stride uint64
		mask, value    uint32
		row            bool
	}
	var jobs []job
	// $VERIF_C17_ROWS = "mask:value,...": every word of each listed table row (all combinations of its free bits)
	for _, rw := range strings.Split(os.Getenv("VERIF_C17_ROWS"), ",") {
		p := strings.Split(strings.TrimSpace(rw), ":")
		if len(p) != 2 {
			continue
		}
		m, v := uint32(vh.U64(p[0])), uint32(vh.U64(p[1]))
		free := 0
		for b := uint(0); b < 32; b++ {
			if m&(1<<b) == 0 {
				free++
			}
		}
		n := uint64(1) << uint(free)
		for a := uint64(0); a < n; a += 1 << 18 {
			b := a + 1<<18
			if b > n {
				b = n
			}
			jobs = append(jobs, job{a, b, 1, m, v, true})
		}
	}
	for _, sg := range segs {
		p := strings.Split(strings.TrimSpace(sg), ":")
		if len(p) != 3 {
			continue
		}
		lo, hi, st := vh.U64(p[0]), vh.U64(p[1]), vh.U64(p[2])
		if st == 0 || hi > 1<<32 {
			t.Fatalf("bad segment %q", sg)
		}
		// split into blocks of ~2^20 words, aligned to the stride
		blk := st * (1 << 20)
		for a := lo; a < hi; a += blk {
			b := a + blk
			if b > hi {
				b = hi
			}
			jobs = append(jobs, job{lo: a, hi: b, stride: st})
		}
	}
	budget, _ := strconv.Atoi(os.Getenv("VERIF_C17_BUDGET_S"))
	if budget <= 0 {
		budget = 1 << 30
	}
	deadline := time.Now().Add(time.Duration(budget) * time.Second)
	var done int64
	nw := runtime.GOMAXPROCS(0)
	if k, err := strconv.Atoi(os.Getenv("VERIF_C17_WORKERS")); err == nil && k > 0 {
		nw = k
	}
	ch := make(chan job, len(jobs))
	for _, j := range jobs {
		ch <- j
	}
	close(ch)
	res := make([]*c17Stats, nw)
	var wg sync.WaitGroup
	for k := 0; k < nw; k++ {
		res[k] = &c17Stats{Ops: map[string]int64{}}
		wg.Add(1)
		go func(s *c17Stats) {
			defer wg.Done()
			for j := range ch {
				if time.Now().After(deadline) {
					continue // out of budget: the job is skipped and the sweep reported incomplete
				}
				c17SweepGen(j.lo, j.hi, j.stride, j.mask, j.value, j.row, strcmp, s)
				atomic.AddInt64(&done, 1)
			}
		}(res[k])
	}
	wg.Wait()
	tot := &c17Stats{Ops: map[string]int64{}, JobsTotal: int64(len(jobs)), JobsDone: done, Complete: done == int64(len(jobs))}
	for _, s := range res {
		tot.Words += s.Words
		tot.GoomOK += s.GoomOK
		tot.RefOK += s.RefOK
		tot.BothErr += s.BothErr
		tot.Allowed += s.Allowed
		tot.AllowedDiff += s.AllowedDiff
		tot.PcrelWords += s.PcrelWords
		tot.StrCompared += s.StrCompared
		tot.StrDiff += s.StrDiff
		for k, v := range s.Ops {
			tot.Ops[k] += v
		}
		for _, pr := range []struct{ d, s *[]string }{{&tot.Panic, &s.Panic}, {&tot.RefPanic, &s.RefPanic}, {&tot.DiffDecodable, &s.DiffDecodable},
			{&tot.DiffOp, &s.DiffOp}, {&tot.DiffPcrel, &s.DiffPcrel}, {&tot.StrDiffSamples, &s.StrDiffSamples}, {&tot.AllowedDiffSamples, &s.AllowedDiffSamples}} {
			*pr.d = append(*pr.d, *pr.s...)
		}
	}
	for _, l := range []*[]string{&tot.Panic, &tot.RefPanic, &tot.DiffDecodable, &tot.DiffOp, &tot.DiffPcrel, &tot.StrDiffSamples, &tot.AllowedDiffSamples} {
		sort.Strings(*l)
		if len(*l) > 40 {
			*l = (*l)[:40]
		}
	}
	f, err := os.Create(os.Getenv("VERIF_OUT"))
	if err != nil {
		t.Fatal(err)
	}
	defer f.Close()
	json.NewEncoder(f).Encode(tot)
}

// TestVerifC17Fresh — the FIRST Decode calls of this process are made by G goroutines at once (spin barrier), each over all
// words of $VERIF_OPS in a rotated order; afterwards the same words are decoded sequentially.  Every concurrent answer must
// equal the sequential one and the reference's decodability.  The check runs this test in many fresh child processes.
func TestVerifC17Fresh(t *testing.T) {
	var words []uint32
	for _, op := range vh.ReadOps() {
		if len(op.Toks) >= 2 && op.Toks[0] == "c17.dec" {
			words = append(words, uint32(vh.U64(op.Toks[1])))
		}
	}
	g := 32
	if k, err := strconv.Atoi(os.Getenv("VERIF_C17_G")); err == nil && k > 0 {
		g = k
	}
	if runtime.GOMAXPROCS(0) < 8 {
		runtime.GOMAXPROCS(8)
	}
	type ans struct {
		ok  bool
		op  Op
		pan bool
	}
	one := func(w uint32) (a ans) {
		defer func() {
			if r := recover(); r != nil {
				a = ans{pan: true}
			}
		}()
		var b [16]byte
		binary.LittleEndian.PutUint32(b[:], w)
		i, err := Decode(b[:])
		return ans{ok: err == nil, op: i.Op}
	}
	res := make([][]ans, g)
	var ready int32
	var wg sync.WaitGroup
	for k := 0; k < g; k++ {
		res[k] = make([]ans, len(words))
		wg.Add(1)
		go func(k int) {
			defer wg.Done()
			atomic.AddInt32(&ready, 1)
			for atomic.LoadInt32(&ready) < int32(g) { // spin until all are running, so the first calls overlap
				runtime.Gosched()
			}
			off := k * len(words) / g
			for j := range words {
				i := (j + off) % len(words)
				res[k][i] = one(words[i])
			}
		}(k)
	}
	wg.Wait()
	bad, first := 0, ""
	for i, w := range words {
		seq := one(w)
		_, rerr, _, rpan := c17Ref(w, false)
		refOK := rerr == nil && rpan == ""
		for k := 0; k < g; k++ {
			a := res[k][i]
			if a != seq || (!c17Allowed(w) && a.ok != refOK) || a.pan {
				bad++
				if first == "" {
					first = fmt.Sprintf("word=%#08x goroutine=%d concurrent={ok:%v op:%s panic:%v} sequential={ok:%v op:%s} reference_ok=%v",
						w, k, a.ok, a.op, a.pan, seq.ok, seq.op, refOK)
				}
			}
		}
	}
	out := vh.OpenOut()
	defer out.Close()
	out.Put(0, "fresh goroutines=%d words=%d mismatches=%d %s", g, len(words), bad, first)
}
