package mocker

// C04 probe: runs goom's real conditional-stub machinery on the operation stream.
//
//	c04 <mode> <target> <sig> [opts] | step ; step ; ...        (further `|` are read as `;`)
//
// mode   call  : the stub is installed on the real function (Create().Func / Struct().Method / ExportMethod().As /
//                Interface().Method().As) and the patched function is called through reflect; clauses are chained
//                on the returned *When
//        callm : same, but every clause goes through the mocker again (DefMocker.When -> m.when.When ...)
//        calld : like call, but calls are compiled call sites where the corpus has one (nil variadic tail)
//        eval  : CreateWhen + When.Eval, nothing is patched
// sig    n=<params without receiver>,v=<variadic>,m=<0 function|1 method|2 unexported method through As>,o=<results>
// opts   s : argument expressions (arg.Any / arg.In objects) are shared between all places with the same text and type
//        d : debug mode is switched on (OpenDebug) before the stub is installed, off again after the line
// step   ret k | retx k cnt | when s,s,.. | when - | in alt alt .. | andret k | returns k k .. | matches a=k a=k ..
//        call <recv|-> v,v,.. | call <recv|-> -          registration and calls may interleave freely
//        conc <reps> <recv|->:<v,v,..|-> ...            one goroutine per tuple, each calling reps times after a barrier
// spec   * | 0..3 | n | {alt|alt|..}     alt (inside {}) spec | [s,s,..]      alt (in clause) spec | [s,s,..] | <i,i,..>
//
// Observation: one token per step: `ok` / `panic:<class>` then `stop` for a clause; `ret:<k>`, `ret:-`,
// `ret:garbage(..)`, `panic:<class>` for a call; `conc:<o>/<o>/..` (per goroutine its single outcome or `mixed(..)`).
// Panic classes do not depend on message wording except for the one message the property names:
// nosuitable ("no suitable condition"), reflect (a panic raised by package reflect), runtime (runtime.Error),
// reject (any other panic: goom refusing a configuration or an Eval call with an explicit message).

import (
	"fmt"
	"os"
	"reflect"
	"runtime"
	"sort"
	"strconv"
	"strings"
	"sync"
	"sync/atomic"
	"testing"

	"github.com/tencent/goom/arg"
	"github.com/tencent/goom/internal/zzverif/vh"
)

func TestVerifC04(t *testing.T) {
	out := vh.OpenOut()
	defer out.Close()
	start, _ := strconv.Atoi(os.Getenv("VERIF_START"))
	end, _ := strconv.Atoi(os.Getenv("VERIF_END")) // exclusive; 0 = to the end
	for _, op := range vh.ReadOps() {
		if op.Idx < start || (end > 0 && op.Idx >= end) || len(op.Toks) == 0 || op.Toks[0] != "c04" {
			continue
		}
		out.Put(op.Idx, "%s", c04Run(op.Toks))
	}
}

type c04Ctx struct {
	tgt      *c04Target
	fnv      reflect.Value  // function value whose entry is patched (method: receiver is parameter 0)
	typ      reflect.Type   // its type
	params   []reflect.Type // parameter types without the receiver
	variadic bool
	isMethod bool
	asMeth   bool                   // unexported method through ExportMethod(..).As(..)
	share    map[string]interface{} // opts s: one expression object per (text, type)
}

// ptype is the type a spec at argument position j is resolved against (variadic tail: the element type).
func (c *c04Ctx) ptype(j int) reflect.Type {
	n := len(c.params)
	if n == 0 {
		return reflect.TypeOf(0)
	}
	if c.variadic && j >= n-1 {
		return c.params[n-1].Elem()
	}
	if j >= n {
		j = n - 1
	}
	return c.params[j]
}

func c04Class(r interface{}) string {
	if _, ok := r.(runtime.Error); ok {
		return "runtime"
	}
	if _, ok := r.(*reflect.ValueError); ok {
		return "reflect"
	}
	msg := fmt.Sprint(r)
	switch {
	case strings.Contains(msg, "no suitable condition"):
		return "nosuitable"
	case strings.HasPrefix(msg, "reflect:") || strings.HasPrefix(msg, "reflect."):
		return "reflect"
	}
	return "reject"
}

// ---- spec parsing ------------------------------------------------------------------------------------------

type c04Spec struct {
	kind  byte        // '*' any, 'v' value, 'i' arg.In
	idx   string      // value index
	alts  [][]c04Spec // arg.In alternatives
	tuple []bool      // per alternative: written as [..] (passed as []interface{}) or bare
}

type c04Parser struct {
	s   string
	pos int
	bad bool
}

func (p *c04Parser) peek() byte {
	if p.pos < len(p.s) {
		return p.s[p.pos]
	}
	return 0
}

func (p *c04Parser) spec() c04Spec {
	ch := p.peek()
	switch {
	case ch == '*':
		p.pos++
		return c04Spec{kind: '*'}
	case ch == 'n' || (ch >= '0' && ch <= '9'):
		p.pos++
		return c04Spec{kind: 'v', idx: string(ch)}
	case ch == '{':
		p.pos++
		sp := c04Spec{kind: 'i'}
		for {
			a, tup := p.alt()
			sp.alts = append(sp.alts, a)
			sp.tuple = append(sp.tuple, tup)
			if p.peek() == '|' {
				p.pos++
				continue
			}
			break
		}
		if p.peek() != '}' {
			p.bad = true
		}
		p.pos++
		return sp
	}
	p.bad = true
	p.pos++
	return c04Spec{}
}

// alt parses `spec` (bare) or `[s,s,..]` / `[]`.
func (p *c04Parser) alt() ([]c04Spec, bool) {
	if p.peek() != '[' {
		return []c04Spec{p.spec()}, false
	}
	p.pos++
	var xs []c04Spec
	if p.peek() == ']' {
		p.pos++
		return xs, true
	}
	for {
		xs = append(xs, p.spec())
		if p.peek() == ',' {
			p.pos++
			continue
		}
		break
	}
	if p.peek() != ']' {
		p.bad = true
	}
	p.pos++
	return xs, true
}

func c04ParseSpecs(s string) ([]c04Spec, bool) {
	if s == "-" {
		return nil, true
	}
	p := &c04Parser{s: s}
	var xs []c04Spec
	for {
		xs = append(xs, p.spec())
		if p.peek() == ',' {
			p.pos++
			continue
		}
		break
	}
	return xs, !p.bad && p.pos == len(s)
}

// value builds the Go value a user would write for this spec at a position of type t.
func (c *c04Ctx) value(sp c04Spec, t reflect.Type) (interface{}, bool) {
	if c.share != nil && sp.kind != 'v' {
		key := c04Show(sp) + "@" + t.String()
		if v, ok := c.share[key]; ok {
			return v, true
		}
		v, ok := c.value1(sp, t)
		if ok {
			c.share[key] = v
		}
		return v, ok
	}
	return c.value1(sp, t)
}

func c04Show(sp c04Spec) string {
	switch sp.kind {
	case '*':
		return "*"
	case 'v':
		return sp.idx
	}
	var alts []string
	for k, a := range sp.alts {
		var es []string
		for _, e := range a {
			es = append(es, c04Show(e))
		}
		if sp.tuple[k] {
			alts = append(alts, "["+strings.Join(es, ",")+"]")
		} else {
			alts = append(alts, es[0])
		}
	}
	return "{" + strings.Join(alts, "|") + "}"
}

func (c *c04Ctx) value1(sp c04Spec, t reflect.Type) (interface{}, bool) {
	switch sp.kind {
	case '*':
		if c.share != nil {
			return arg.AnyValues, true // the package-level singleton
		}
		return arg.Any(), true
	case 'v':
		return c04Domain(t, sp.idx)
	case 'i':
		var alts []interface{}
		for k, a := range sp.alts {
			if !sp.tuple[k] {
				v, ok := c.value(a[0], t)
				if !ok {
					return nil, false
				}
				alts = append(alts, v)
				continue
			}
			tup := make([]interface{}, 0)
			for _, e := range a {
				v, ok := c.value(e, t)
				if !ok {
					return nil, false
				}
				tup = append(tup, v)
			}
			alts = append(alts, tup)
		}
		return arg.In(alts...), true
	}
	return nil, false
}

func (c *c04Ctx) values(specs []c04Spec) ([]interface{}, bool) {
	var out []interface{}
	for j, sp := range specs {
		v, ok := c.value(sp, c.ptype(j))
		if !ok {
			return nil, false
		}
		out = append(out, v)
	}
	return out, true
}

// inAlt builds one alternative of a When.In clause.
func (c *c04Ctx) inAlt(tok string) (interface{}, bool) {
	if strings.HasPrefix(tok, "<") && strings.HasSuffix(tok, ">") { // typed slice of the variadic element type
		et := c.ptype(len(c.params))
		sl := reflect.MakeSlice(reflect.SliceOf(et), 0, 4)
		body := tok[1 : len(tok)-1]
		if body != "" {
			for _, ix := range strings.Split(body, ",") {
				v, ok := c04Domain(et, ix)
				if !ok || v == nil {
					return nil, false
				}
				sl = reflect.Append(sl, reflect.ValueOf(v))
			}
		}
		return sl.Interface(), true
	}
	p := &c04Parser{s: tok}
	a, tup := p.alt()
	if p.bad || p.pos != len(tok) {
		return nil, false
	}
	if !tup {
		return c.value(a[0], c.ptype(0))
	}
	vs, ok := c.values(a)
	if !ok {
		return nil, false
	}
	if vs == nil {
		vs = []interface{}{}
	}
	return vs, true
}

// ---- results -----------------------------------------------------------------------------------------------

func (c *c04Ctx) results(k int, cnt int) []interface{} {
	var out []interface{}
	for j := 0; j < cnt; j++ {
		var t reflect.Type
		if j < c.typ.NumOut() {
			t = c.typ.Out(j)
		} else {
			t = reflect.TypeOf(0)
		}
		if t.Kind() == reflect.String {
			out = append(out, fmt.Sprintf("r%d.%d", k, j))
		} else {
			out = append(out, k+1000*j)
		}
	}
	return out
}

func c04Decode(vals []interface{}) string {
	if len(vals) == 0 {
		return "ret:-"
	}
	id := -1
	okAll := true
	for j, v := range vals {
		k := -2
		switch x := v.(type) {
		case int:
			if x >= 1000*j && x < 1000*j+1000 {
				k = x - 1000*j
			}
		case string:
			var a, b int
			if n, _ := fmt.Sscanf(x, "r%d.%d", &a, &b); n == 2 && b == j {
				k = a
			}
		}
		if j == 0 {
			id = k
		}
		if k < 0 || k != id {
			okAll = false
		}
	}
	if okAll {
		return "ret:" + strconv.Itoa(id)
	}
	return "ret:garbage(" + strings.ReplaceAll(fmt.Sprint(vals...), " ", "_") + ")"
}

// ---- running one line ----------------------------------------------------------------------------------------

func c04Split(toks []string, sep string) [][]string {
	var out [][]string
	cur := []string{}
	for _, t := range toks {
		if t == sep {
			out = append(out, cur)
			cur = []string{}
			continue
		}
		cur = append(cur, t)
	}
	return append(out, cur)
}

func c04Run(toks []string) (obs string) {
	secs := c04Split(toks, "|")
	if len(secs) < 2 || len(secs[0]) < 4 || len(secs[0]) > 5 {
		return "bad-op"
	}
	mode, name, sig := secs[0][1], secs[0][2], secs[0][3]
	c := &c04Ctx{}
	if len(secs[0]) == 5 {
		for _, o := range secs[0][4] {
			switch o {
			case 's':
				c.share = map[string]interface{}{}
			case 'd':
				OpenDebug()
				defer CloseDebug()
			default:
				return "bad-op"
			}
		}
	}
	for i := range c04Targets {
		if c04Targets[i].name == name {
			c.tgt = &c04Targets[i]
		}
	}
	if c.tgt == nil || (mode != "call" && mode != "callm" && mode != "calld" && mode != "eval") {
		return "bad-op"
	}
	skip := 0
	switch {
	case c.tgt.fn != nil:
		c.fnv = reflect.ValueOf(c.tgt.fn)
	case c.tgt.asFn != nil: // goom is given the signature with the receiver as parameter 0
		c.fnv = reflect.ValueOf(c.tgt.asFn)
		c.asMeth, skip = true, 1
	case c.tgt.ifn != nil: // parameter 0 is *IContext
		c.fnv = reflect.ValueOf(c.tgt.ifn)
		c.isMethod, skip = true, 1
	default:
		m, ok := reflect.TypeOf(c.tgt.recv[0]).MethodByName(c.tgt.method)
		if !ok {
			return "bad-op"
		}
		c.fnv = m.Func
		c.isMethod, skip = true, 1
	}
	c.typ = c.fnv.Type()
	for i := skip; i < c.typ.NumIn(); i++ {
		c.params = append(c.params, c.typ.In(i))
	}
	c.variadic = c.typ.IsVariadic()
	b2i := func(b bool) int {
		if b {
			return 1
		}
		return 0
	}
	mk := b2i(c.isMethod)
	if c.asMeth {
		mk = 2
	}
	actual := fmt.Sprintf("n=%d,v=%d,m=%d,o=%d", len(c.params), b2i(c.variadic), mk, c.typ.NumOut())
	if actual != sig {
		return "bad-sig:" + actual
	}

	var res []string
	defer func() {
		if r := recover(); r != nil { // a panic outside the guarded steps is a probe error, keep it visible
			obs = strings.Join(append(res, "probe-panic:"+c04Class(r)), " ")
		}
	}()

	var (
		w        *When
		exported ExportedMocker
	)
	evalFn := c.fnv.Interface() // what CreateWhen receives in eval mode
	evalMethod := c.isMethod    // As-path: goom treats the signature as a plain function
	if mode != "eval" {
		mock := Create()
		defer mock.Reset()
		switch {
		case c.tgt.fn != nil:
			exported = mock.Func(c.tgt.fn)
		case c.asMeth:
			exported = mock.Struct(c.tgt.recv[0]).ExportMethod(c.tgt.method).As(c.tgt.asFn)
		case c.tgt.ifn != nil:
			exported = mock.Interface(&c04IVar).Method(c.tgt.method).As(c.tgt.ifn)
		default:
			exported = mock.Struct(c.tgt.recv[0]).Method(c.tgt.method)
		}
	}
	// create is the first step in eval mode (what DefMocker/MethodMocker do before delegating to the When)
	create := func(args []interface{}, def []interface{}) {
		var err error
		w, err = CreateWhen(nil, evalFn, args, def, evalMethod)
		if err != nil {
			panic(err)
		}
	}
	guard := func(f func()) (cls string) {
		defer func() {
			if r := recover(); r != nil {
				cls = "panic:" + c04Class(r)
			}
		}()
		f()
		return "ok"
	}
	// one call with logical arguments argv (receiver index recv); returns the observation
	doCall := func(recv int, argv []interface{}) string {
		var got string
		o := guard(func() {
			if mode == "eval" {
				if c.asMeth { // goom sees a plain function whose parameter 0 is the receiver
					argv = append([]interface{}{c.tgt.recv[recv]}, argv...)
				}
				got = c04Decode(w.Eval(argv...))
				return
			}
			// the fake implementation behind a mocked interface variable cannot be called through reflect
			if (mode == "calld" || c.tgt.ifn != nil) && c.tgt.direct != nil {
				for _, a := range argv {
					if a == nil {
						panic("probe: nil argument in a direct call")
					}
				}
				got = c04Decode(c.tgt.direct(recv, argv))
				return
			}
			var in []reflect.Value
			switch {
			case c.tgt.ifn != nil:
			case c.isMethod || c.asMeth:
				in = append(in, reflect.ValueOf(c.tgt.recv[recv]))
			}
			for j, a := range argv {
				if a == nil {
					in = append(in, reflect.Zero(c.ptype(j)))
				} else {
					v := reflect.ValueOf(a)
					if pt := c.ptype(j); pt.Kind() == reflect.Interface {
						b := reflect.New(pt).Elem()
						b.Set(v)
						v = b
					}
					in = append(in, v)
				}
			}
			var outs []reflect.Value
			switch {
			case c.tgt.ifn != nil:
				outs = reflect.ValueOf(c04IVar).MethodByName(c.tgt.method).Call(in) // through the mocked interface variable
			case c.asMeth:
				outs = reflect.ValueOf(c.tgt.via).Call(in) // exported wrapper -> patched unexported method
			default:
				outs = c.fnv.Call(in) // enters the patched machine code of the real function
			}
			vals := make([]interface{}, len(outs))
			for i, ov := range outs {
				vals[i] = ov.Interface()
			}
			got = c04Decode(vals)
		})
		if o != "ok" {
			return o
		}
		return got
	}
	parseArgs := func(s string) ([]interface{}, bool) {
		var argv []interface{}
		if s == "-" {
			return argv, true
		}
		for j, ix := range strings.Split(s, ",") {
			v, ok := c04Domain(c.ptype(j), ix)
			if !ok {
				return nil, false
			}
			argv = append(argv, v)
		}
		return argv, true
	}
	parseRecv := func(s string) (int, bool) {
		if !(c.isMethod || c.asMeth) || c.tgt.ifn != nil {
			return 0, true
		}
		ri, err := strconv.Atoi(s)
		return ri, err == nil && ri < len(c.tgt.recv)
	}

	var steps [][]string
	for _, sec := range secs[1:] {
		steps = append(steps, c04Split(sec, ";")...)
	}
	for _, cl := range steps {
		if len(cl) == 0 {
			continue
		}
		var step func()
		switch cl[0] {
		case "call":
			if len(cl) != 3 || w == nil {
				return "bad-op"
			}
			argv, ok := parseArgs(cl[2])
			recv, ok2 := parseRecv(cl[1])
			if !ok || !ok2 {
				return "bad-op"
			}
			res = append(res, doCall(recv, argv))
			continue
		case "conc":
			if len(cl) < 3 || w == nil {
				return "bad-op"
			}
			reps, _ := strconv.Atoi(cl[1])
			type job struct {
				recv int
				argv []interface{}
			}
			var jobs []job
			for _, t := range cl[2:] {
				ra := strings.SplitN(t, ":", 2)
				if len(ra) != 2 {
					return "bad-op"
				}
				argv, ok := parseArgs(ra[1])
				recv, ok2 := parseRecv(ra[0])
				if !ok || !ok2 {
					return "bad-op"
				}
				jobs = append(jobs, job{recv, argv})
			}
			outs := make([]string, len(jobs))
			var ready int32
			var wg sync.WaitGroup
			for gi := range jobs {
				wg.Add(1)
				go func(gi int) {
					defer wg.Done()
					atomic.AddInt32(&ready, 1)
					for atomic.LoadInt32(&ready) < int32(len(jobs)) { // spin: all goroutines really overlap
					}
					seen := map[string]bool{}
					for r := 0; r < reps; r++ {
						seen[doCall(jobs[gi].recv, jobs[gi].argv)] = true
					}
					var ks []string
					for k := range seen {
						ks = append(ks, k)
					}
					sort.Strings(ks)
					if len(ks) == 1 {
						outs[gi] = ks[0]
					} else {
						outs[gi] = "mixed(" + strings.Join(ks, ",") + ")"
					}
				}(gi)
			}
			wg.Wait()
			res = append(res, "conc:"+strings.Join(outs, "/"))
			continue
		case "ret", "retx":
			k, _ := strconv.Atoi(cl[1])
			cnt := c.typ.NumOut()
			if cl[0] == "retx" {
				cnt, _ = strconv.Atoi(cl[2])
			}
			vals := c.results(k, cnt)
			step = func() {
				switch {
				case w != nil && mode != "callm":
					w.Return(vals...)
				case w != nil:
					exported.Return(vals...)
				case mode == "eval":
					def := vals
					if def == nil { // what DefMocker.Return / MethodMocker.Return do (mocker.go:301,560)
						def = []interface{}{}
					}
					create(nil, def)
				default:
					w = exported.Return(vals...)
				}
			}
		case "andret":
			k, _ := strconv.Atoi(cl[1])
			vals := c.results(k, c.typ.NumOut())
			if w == nil {
				return "bad-op"
			}
			step = func() { w.AndReturn(vals...) }
		case "returns":
			var vals []interface{}
			for _, ks := range cl[1:] {
				k, _ := strconv.Atoi(ks)
				r := c.results(k, c.typ.NumOut())
				if len(r) == 1 {
					vals = append(vals, r[0])
				} else {
					if r == nil {
						r = []interface{}{}
					}
					vals = append(vals, r)
				}
			}
			step = func() {
				switch {
				case w != nil && mode != "callm":
					w.Returns(vals...)
				case w != nil:
					exported.Returns(vals...)
				case mode == "eval":
					if len(vals) == 0 { // DefMocker.Returns / MethodMocker.Returns: no values at all is Return()
						create(nil, []interface{}{})
						return
					}
					create(nil, nil)
					w.Returns(vals...)
				default:
					w = exported.Returns(vals...)
				}
			}
		case "when":
			if len(cl) != 2 {
				return "bad-op"
			}
			specs, ok := c04ParseSpecs(cl[1])
			if !ok {
				return "bad-op"
			}
			args, ok := c.values(specs)
			if !ok {
				return "bad-op"
			}
			step = func() {
				switch {
				case w != nil && mode != "callm":
					w.When(args...)
				case w != nil:
					exported.When(args...)
				case mode == "eval":
					create(args, nil)
				default:
					w = exported.When(args...)
				}
			}
		case "in":
			var alts []interface{}
			for _, a := range cl[1:] {
				v, ok := c.inAlt(a)
				if !ok {
					return "bad-op"
				}
				alts = append(alts, v)
			}
			if w == nil && mode != "eval" {
				// the mockers offer no In before a When/Return (a first Returns() without values is a Return() now);
				// a configuration that starts with In exists only on a When made by CreateWhen directly
				return "bad-op"
			}
			step = func() {
				if w == nil {
					create(nil, nil)
				}
				w.In(alts...)
			}
		case "matches":
			var pairs []arg.Pair
			for _, pr := range cl[1:] {
				eq := strings.LastIndex(pr, "=")
				if eq < 0 {
					return "bad-op"
				}
				k, _ := strconv.Atoi(pr[eq+1:])
				p := &c04Parser{s: pr[:eq]}
				a, tup := p.alt()
				if p.bad || p.pos != eq {
					return "bad-op"
				}
				var av interface{}
				if tup {
					vs, ok := c.values(a)
					if !ok {
						return "bad-op"
					}
					if vs == nil {
						vs = []interface{}{}
					}
					av = vs
				} else {
					v, ok := c.value(a[0], c.ptype(0))
					if !ok {
						return "bad-op"
					}
					av = v
				}
				r := c.results(k, c.typ.NumOut())
				var rv interface{} = r
				if len(r) == 1 {
					rv = r[0]
				}
				pairs = append(pairs, arg.Pair{Args: av, Return: rv})
			}
			if w == nil {
				return "bad-op"
			}
			step = func() { w.Matches(pairs...) }
		default:
			return "bad-op"
		}
		o := guard(step)
		res = append(res, o)
		if o != "ok" {
			res = append(res, "stop")
			return strings.Join(res, " ")
		}
	}
	if w == nil {
		return "bad-op"
	}
	return strings.Join(res, " ")
}
