package mocker

// Corpus of target functions and methods for the C04 probe (conditional stubs).  The bodies are never meant to
// run while a stub is installed; every original returns the sentinel -777 / "orig" so a call that escapes the
// stub is visible as garbage in the observation.

import "reflect"

var c04Sink int

var c04Base = []int{1, 2, 3}

// C04T is the pointee of pointer parameters.
type C04T struct{ A int }

// C04S is a struct parameter.
type C04S struct {
	A int
	B string
}

// C04R is the receiver of the corpus methods.
type C04R struct{ id int }

//go:noinline
func c04f0() int { c04Sink++; return -777 - c04Sink*0 }

//go:noinline
func c04f1(a int) int { c04Sink += a; return -777 }

//go:noinline
func c04f2(a int, b string) int { c04Sink += a + len(b); return -777 }

//go:noinline
func c04f3(a int, b string, c bool) (int, string) { c04Sink += a + len(b); return -777, "orig" }

//go:noinline
func c04f1s(a string) (int, string, int) { c04Sink += len(a); return -777, "orig", -777 }

//go:noinline
func c04f1i(a interface{}) int { c04Sink++; return -777 }

//go:noinline
func c04f2p(a *C04T, b int) int { c04Sink += b; return -777 }

//go:noinline
func c04f1t(a C04S) int { c04Sink += a.A; return -777 }

//go:noinline
func c04f1sl(a []int) int { c04Sink += len(a); return -777 }

//go:noinline
func c04f1n(a int) { c04Sink += a }

//go:noinline
func c04f2n(a int, b int) { c04Sink += a + b }

//go:noinline
func c04f4(a, b, c, d int) int { c04Sink += a + b + c + d; return -777 }

//go:noinline
func c04f2b(a bool, b bool) (int, string) { c04Sink++; return -777, "orig" }

//go:noinline
func c04v0(xs ...int) int { c04Sink += len(xs); return -777 }

//go:noinline
func c04v0s(xs ...string) (int, string) { c04Sink += len(xs); return -777, "orig" }

//go:noinline
func c04v1(a int, xs ...int) int { c04Sink += a + len(xs); return -777 }

//go:noinline
func c04v1s(a string, xs ...int) int { c04Sink += len(a) + len(xs); return -777 }

//go:noinline
func c04v2(a int, b string, xs ...int) int { c04Sink += a + len(b) + len(xs); return -777 }

//go:noinline
func c04v2b(a bool, b int, xs ...string) (int, string, int) {
	c04Sink += b + len(xs)
	return -777, "orig", -777
}

//go:noinline
func c04v0i(xs ...interface{}) int { c04Sink += len(xs); return -777 }

//go:noinline
func c04v1n(a int, xs ...int) { c04Sink += a + len(xs) }

//go:noinline
func c04v1sl(a []int, xs ...int) int { c04Sink += len(a) + len(xs); return -777 }

//go:noinline
func c04v3(a, b, c int, xs ...int) int { c04Sink += a + b + c + len(xs); return -777 }

//go:noinline
func c04v1i(a interface{}, xs ...interface{}) int { c04Sink += len(xs); return -777 }

//go:noinline
func c04f2f(a float64, b uint8) int { c04Sink += int(a) + int(b); return -777 }

//go:noinline
func c04v1f(a uint8, xs ...float64) int { c04Sink += int(a) + len(xs); return -777 }

// um1 is an unexported method, mocked through ExportMethod(...).As(...).
//
//go:noinline
func (r *C04R) um1(a int) int { c04Sink += r.id + a; return -777 }

// umv is an unexported variadic method.
//
//go:noinline
func (r *C04R) umv(a int, xs ...int) int { c04Sink += r.id + a + len(xs); return -777 }

// C04UM1 / C04UMV keep the unexported methods reachable and are what the probe calls.
//
//go:noinline
func C04UM1(r *C04R, a int) int { return r.um1(a) }

//go:noinline
func C04UMV(r *C04R, a int, xs ...int) int { return r.umv(a, xs...) }

// C04I is mocked through an interface variable.
type C04I interface {
	IM0() int
	IM1(a int) int
	IM2(a int, b string) (int, string)
	IMV(a int, xs ...int) int
	IMN(a int)
}

var c04IVar C04I

// M0 has no parameters.
//
//go:noinline
func (r *C04R) M0() int { c04Sink += r.id; return -777 }

// M1 has one parameter.
//
//go:noinline
func (r *C04R) M1(a int) int { c04Sink += r.id + a; return -777 }

// M2 has two parameters and two results.
//
//go:noinline
func (r *C04R) M2(a int, b string) (int, string) { c04Sink += r.id + a + len(b); return -777, "orig" }

// M3 mixes parameter kinds.
//
//go:noinline
func (r *C04R) M3(a int, b interface{}, c bool) int { c04Sink += r.id + a; return -777 }

// MN has no result.
//
//go:noinline
func (r *C04R) MN(a int) { c04Sink += r.id + a }

// MV is variadic without fixed parameters.
//
//go:noinline
func (r *C04R) MV(xs ...int) int { c04Sink += r.id + len(xs); return -777 }

// MV1 is variadic behind one fixed parameter.
//
//go:noinline
func (r *C04R) MV1(a int, xs ...int) int { c04Sink += r.id + a + len(xs); return -777 }

// MV2 is variadic behind two fixed parameters.
//
//go:noinline
func (r *C04R) MV2(a string, b int, xs ...string) (int, string) {
	c04Sink += r.id + b + len(a) + len(xs)
	return -777, "orig"
}

// C04RV has a value receiver.
type C04RV struct{ id int }

// V1 has one parameter and a value receiver.
//
//go:noinline
func (r C04RV) V1(a int) int { c04Sink += r.id + a; return -777 }

// VV is variadic with a value receiver.
//
//go:noinline
func (r C04RV) VV(a int, xs ...int) int { c04Sink += r.id + a + len(xs); return -777 }

type c04Target struct {
	name   string
	fn     interface{} // plain function, nil for methods
	recv   []interface{}
	method string
	asFn   interface{}                                   // unexported method: signature handed to ExportMethod(..).As(..); the probe calls `via`
	via    interface{}                                   // exported wrapper func(recv, args...) that calls the unexported method
	ifn    interface{}                                   // interface method: signature handed to Interface(&c04IVar).Method(..).As(..)
	direct func(recv int, a []interface{}) []interface{} // compiled (non-reflect) call: an empty variadic tail is a nil slice
}

var (
	c04R0, c04R1   = &C04R{id: 1}, &C04R{id: 2}
	c04RV0, c04RV1 = C04RV{id: 1}, C04RV{id: 2}
	c04T0, c04T1   = &C04T{A: 10}, &C04T{A: 11}
)

var c04Targets = []c04Target{
	{name: "f0", fn: c04f0}, {name: "f1", fn: c04f1}, {name: "f2", fn: c04f2}, {name: "f3", fn: c04f3},
	{name: "f1s", fn: c04f1s}, {name: "f1i", fn: c04f1i}, {name: "f2p", fn: c04f2p}, {name: "f1t", fn: c04f1t},
	{name: "f1sl", fn: c04f1sl}, {name: "f1n", fn: c04f1n}, {name: "f2n", fn: c04f2n}, {name: "f4", fn: c04f4},
	{name: "f2b", fn: c04f2b},
	{name: "v0", fn: c04v0}, {name: "v0s", fn: c04v0s}, {name: "v1", fn: c04v1}, {name: "v1s", fn: c04v1s},
	{name: "v2", fn: c04v2}, {name: "v2b", fn: c04v2b}, {name: "v0i", fn: c04v0i}, {name: "v1n", fn: c04v1n},
	{name: "v1sl", fn: c04v1sl}, {name: "v3", fn: c04v3}, {name: "v1i", fn: c04v1i},
	{name: "M0", recv: []interface{}{c04R0, c04R1}, method: "M0"}, {name: "M1", recv: []interface{}{c04R0, c04R1}, method: "M1"},
	{name: "M2", recv: []interface{}{c04R0, c04R1}, method: "M2"}, {name: "M3", recv: []interface{}{c04R0, c04R1}, method: "M3"},
	{name: "MN", recv: []interface{}{c04R0, c04R1}, method: "MN"}, {name: "MV", recv: []interface{}{c04R0, c04R1}, method: "MV"},
	{name: "MV1", recv: []interface{}{c04R0, c04R1}, method: "MV1"}, {name: "MV2", recv: []interface{}{c04R0, c04R1}, method: "MV2"},
	{name: "V1", recv: []interface{}{c04RV0, c04RV1}, method: "V1"}, {name: "VV", recv: []interface{}{c04RV0, c04RV1}, method: "VV"},
	{name: "f2f", fn: c04f2f}, {name: "v1f", fn: c04v1f},
	{name: "U1", recv: []interface{}{c04R0, c04R1}, method: "um1", asFn: func(_ *C04R, a int) int { return -777 }, via: C04UM1},
	{name: "UV", recv: []interface{}{c04R0, c04R1}, method: "umv", asFn: func(_ *C04R, a int, xs ...int) int { return -777 }, via: C04UMV},
	{name: "I0", method: "IM0", ifn: func(_ *IContext) int { return -777 }},
	{name: "I1", method: "IM1", ifn: func(_ *IContext, a int) int { return -777 }},
	{name: "I2", method: "IM2", ifn: func(_ *IContext, a int, b string) (int, string) { return -777, "orig" }},
	{name: "IV", method: "IMV", ifn: func(_ *IContext, a int, xs ...int) int { return -777 }},
	{name: "IN", method: "IMN", ifn: func(_ *IContext, a int) {}},
}

func c04Ints(a []interface{}) []int {
	var xs []int // stays nil when there is no element, like the tail of a compiled call without variadic arguments
	for _, x := range a {
		xs = append(xs, x.(int))
	}
	return xs
}

func c04Strs(a []interface{}) []string {
	var xs []string
	for _, x := range a {
		xs = append(xs, x.(string))
	}
	return xs
}

func c04One(v int) []interface{} { return []interface{}{v} }

// c04Direct: compiled call sites for the variadic targets.  `f(a)` without variadic arguments passes a nil slice,
// which reflect.Value.Call and When.Eval never do.
func init() {
	rp := func(i int) *C04R { return c04Targets[c04Index("MV")].recv[i].(*C04R) }
	rv := func(i int) C04RV { return c04Targets[c04Index("VV")].recv[i].(C04RV) }
	set := func(name string, f func(recv int, a []interface{}) []interface{}) {
		c04Targets[c04Index(name)].direct = f
	}
	set("v0", func(_ int, a []interface{}) []interface{} {
		if len(a) == 0 {
			return c04One(c04v0())
		}
		return c04One(c04v0(c04Ints(a)...))
	})
	set("v0s", func(_ int, a []interface{}) []interface{} {
		var x int
		var y string
		if len(a) == 0 {
			x, y = c04v0s()
		} else {
			x, y = c04v0s(c04Strs(a)...)
		}
		return []interface{}{x, y}
	})
	set("v1", func(_ int, a []interface{}) []interface{} {
		if len(a) == 1 {
			return c04One(c04v1(a[0].(int)))
		}
		return c04One(c04v1(a[0].(int), c04Ints(a[1:])...))
	})
	set("v1s", func(_ int, a []interface{}) []interface{} {
		if len(a) == 1 {
			return c04One(c04v1s(a[0].(string)))
		}
		return c04One(c04v1s(a[0].(string), c04Ints(a[1:])...))
	})
	set("v2", func(_ int, a []interface{}) []interface{} {
		if len(a) == 2 {
			return c04One(c04v2(a[0].(int), a[1].(string)))
		}
		return c04One(c04v2(a[0].(int), a[1].(string), c04Ints(a[2:])...))
	})
	set("v3", func(_ int, a []interface{}) []interface{} {
		if len(a) == 3 {
			return c04One(c04v3(a[0].(int), a[1].(int), a[2].(int)))
		}
		return c04One(c04v3(a[0].(int), a[1].(int), a[2].(int), c04Ints(a[3:])...))
	})
	set("v1n", func(_ int, a []interface{}) []interface{} {
		if len(a) == 1 {
			c04v1n(a[0].(int))
		} else {
			c04v1n(a[0].(int), c04Ints(a[1:])...)
		}
		return nil
	})
	set("MV", func(r int, a []interface{}) []interface{} {
		if len(a) == 0 {
			return c04One(rp(r).MV())
		}
		return c04One(rp(r).MV(c04Ints(a)...))
	})
	set("MV1", func(r int, a []interface{}) []interface{} {
		if len(a) == 1 {
			return c04One(rp(r).MV1(a[0].(int)))
		}
		return c04One(rp(r).MV1(a[0].(int), c04Ints(a[1:])...))
	})
	set("VV", func(r int, a []interface{}) []interface{} {
		if len(a) == 1 {
			return c04One(rv(r).VV(a[0].(int)))
		}
		return c04One(rv(r).VV(a[0].(int), c04Ints(a[1:])...))
	})
	set("IV", func(_ int, a []interface{}) []interface{} {
		if len(a) == 1 {
			return c04One(c04IVar.IMV(a[0].(int)))
		}
		return c04One(c04IVar.IMV(a[0].(int), c04Ints(a[1:])...))
	})
	set("I0", func(_ int, a []interface{}) []interface{} { return c04One(c04IVar.IM0()) })
	set("I1", func(_ int, a []interface{}) []interface{} { return c04One(c04IVar.IM1(a[0].(int))) })
	set("I2", func(_ int, a []interface{}) []interface{} {
		x, y := c04IVar.IM2(a[0].(int), a[1].(string))
		return []interface{}{x, y}
	})
	set("IN", func(_ int, a []interface{}) []interface{} { c04IVar.IMN(a[0].(int)); return nil })
	set("f1", func(_ int, a []interface{}) []interface{} { return c04One(c04f1(a[0].(int))) })
	set("M1", func(r int, a []interface{}) []interface{} { return c04One(rp(r).M1(a[0].(int))) })
}

func c04Index(name string) int {
	for i := range c04Targets {
		if c04Targets[i].name == name {
			return i
		}
	}
	panic("no target " + name)
}

// c04Domain maps (parameter type, index) to a Go value.  Values of one type are pairwise different under goom's
// argument equality, so equality of indices is equality of values.  ok=false: index outside the domain.
func c04Domain(t reflect.Type, idx string) (v interface{}, ok bool) {
	if idx == "n" { // untyped nil, accepted for interface, pointer and slice parameters
		switch t.Kind() {
		case reflect.Interface, reflect.Ptr, reflect.Slice:
			return nil, true
		}
		return nil, false
	}
	i := -1
	switch idx {
	case "0":
		i = 0
	case "1":
		i = 1
	case "2":
		i = 2
	case "3":
		i = 3
	}
	if i < 0 {
		return nil, false
	}
	switch t.Kind() {
	case reflect.Int:
		return []int{0, 1, 7, 8}[i], true
	case reflect.String:
		return []string{"", "x", "y", "ab"}[i], true
	case reflect.Bool:
		if i > 1 {
			return nil, false
		}
		return i == 1, true
	case reflect.Interface:
		// 3 is itself a []interface{} whose members are the values 0 and 1: as ONE argument (or one variadic element) it
		// is a value like any other and must never be spread into its members
		return []interface{}{0, 1, "a", []interface{}{0, 1}}[i], true
	case reflect.Ptr:
		if i > 1 {
			return nil, false
		}
		return []*C04T{c04T0, c04T1}[i], true
	case reflect.Struct:
		return []C04S{{}, {A: 1}, {A: 1, B: "b"}, {B: "b"}}[i], true
	case reflect.Slice:
		// windows of ONE backing array: 0 = base[:0], 1 = base[:1], 2 = base[:2] share the data pointer and differ
		// only in length; 3 = base[1:2].  Equal as Go values only when index-equal.
		return [][]int{c04Base[:0], c04Base[:1], c04Base[:2], c04Base[1:2]}[i], true
	case reflect.Float64:
		return []float64{0, 1, 1.5, -2}[i], true
	case reflect.Uint8:
		return []uint8{0, 1, 7, 255}[i], true
	}
	return nil, false
}
