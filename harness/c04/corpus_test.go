package mocker

// Corpus of target functions and methods for the C04 probe (conditional stubs).  The bodies are never meant to
// run while a stub is installed; every original returns the sentinel -777 / "orig" so a call that escapes the
// stub is visible as garbage in the observation.

import "reflect"

var c04Sink int

// C04T is the pointee of pointer parameters.
type C04T struct{ A int }

// C04S is a struct parameter.
type C04S struct {
	A int
	B string
}

// C04R is the receiver of the corpus methods.
type C04R struct{ id int }

//go:noinline
func c04f0() int { c04Sink++; return -777 - c04Sink*0 }

//go:noinline
func c04f1(a int) int { c04Sink += a; return -777 }

//go:noinline
func c04f2(a int, b string) int { c04Sink += a + len(b); return -777 }

//go:noinline
func c04f3(a int, b string, c bool) (int, string) { c04Sink += a + len(b); return -777, "orig" }

//go:noinline
func c04f1s(a string) (int, string, int) { c04Sink += len(a); return -777, "orig", -777 }

//go:noinline
func c04f1i(a interface{}) int { c04Sink++; return -777 }

//go:noinline
func c04f2p(a *C04T, b int) int { c04Sink += b; return -777 }

//go:noinline
func c04f1t(a C04S) int { c04Sink += a.A; return -777 }

//go:noinline
func c04f1sl(a []int) int { c04Sink += len(a); return -777 }

//go:noinline
func c04f1n(a int) { c04Sink += a }

//go:noinline
func c04f2n(a int, b int) { c04Sink += a + b }

//go:noinline
func c04f4(a, b, c, d int) int { c04Sink += a + b + c + d; return -777 }

//go:noinline
func c04f2b(a bool, b bool) (int, string) { c04Sink++; return -777, "orig" }

//go:noinline
func c04v0(xs ...int) int { c04Sink += len(xs); return -777 }

//go:noinline
func c04v0s(xs ...string) (int, string) { c04Sink += len(xs); return -777, "orig" }

//go:noinline
func c04v1(a int, xs ...int) int { c04Sink += a + len(xs); return -777 }

//go:noinline
func c04v1s(a string, xs ...int) int { c04Sink += len(a) + len(xs); return -777 }

//go:noinline
func c04v2(a int, b string, xs ...int) int { c04Sink += a + len(b) + len(xs); return -777 }

//go:noinline
func c04v2b(a bool, b int, xs ...string) (int, string, int) { c04Sink += b + len(xs); return -777, "orig", -777 }

//go:noinline
func c04v0i(xs ...interface{}) int { c04Sink += len(xs); return -777 }

//go:noinline
func c04v1n(a int, xs ...int) { c04Sink += a + len(xs) }

//go:noinline
func c04v1sl(a []int, xs ...int) int { c04Sink += len(a) + len(xs); return -777 }

//go:noinline
func c04v3(a, b, c int, xs ...int) int { c04Sink += a + b + c + len(xs); return -777 }

//go:noinline
func c04v1i(a interface{}, xs ...interface{}) int { c04Sink += len(xs); return -777 }

// M0 has no parameters.
//
//go:noinline
func (r *C04R) M0() int { c04Sink += r.id; return -777 }

// M1 has one parameter.
//
//go:noinline
func (r *C04R) M1(a int) int { c04Sink += r.id + a; return -777 }

// M2 has two parameters and two results.
//
//go:noinline
func (r *C04R) M2(a int, b string) (int, string) { c04Sink += r.id + a + len(b); return -777, "orig" }

// M3 mixes parameter kinds.
//
//go:noinline
func (r *C04R) M3(a int, b interface{}, c bool) int { c04Sink += r.id + a; return -777 }

// MN has no result.
//
//go:noinline
func (r *C04R) MN(a int) { c04Sink += r.id + a }

// MV is variadic without fixed parameters.
//
//go:noinline
func (r *C04R) MV(xs ...int) int { c04Sink += r.id + len(xs); return -777 }

// MV1 is variadic behind one fixed parameter.
//
//go:noinline
func (r *C04R) MV1(a int, xs ...int) int { c04Sink += r.id + a + len(xs); return -777 }

// MV2 is variadic behind two fixed parameters.
//
//go:noinline
func (r *C04R) MV2(a string, b int, xs ...string) (int, string) {
	c04Sink += r.id + b + len(a) + len(xs)
	return -777, "orig"
}

// C04RV has a value receiver.
type C04RV struct{ id int }

// V1 has one parameter and a value receiver.
//
//go:noinline
func (r C04RV) V1(a int) int { c04Sink += r.id + a; return -777 }

// VV is variadic with a value receiver.
//
//go:noinline
func (r C04RV) VV(a int, xs ...int) int { c04Sink += r.id + a + len(xs); return -777 }

type c04Target struct {
	name   string
	fn     interface{} // plain function, nil for methods
	recv   []interface{}
	method string
}

var (
	c04R0, c04R1   = &C04R{id: 1}, &C04R{id: 2}
	c04RV0, c04RV1 = C04RV{id: 1}, C04RV{id: 2}
	c04T0, c04T1   = &C04T{A: 10}, &C04T{A: 11}
)

var c04Targets = []c04Target{
	{name: "f0", fn: c04f0}, {name: "f1", fn: c04f1}, {name: "f2", fn: c04f2}, {name: "f3", fn: c04f3},
	{name: "f1s", fn: c04f1s}, {name: "f1i", fn: c04f1i}, {name: "f2p", fn: c04f2p}, {name: "f1t", fn: c04f1t},
	{name: "f1sl", fn: c04f1sl}, {name: "f1n", fn: c04f1n}, {name: "f2n", fn: c04f2n}, {name: "f4", fn: c04f4},
	{name: "f2b", fn: c04f2b},
	{name: "v0", fn: c04v0}, {name: "v0s", fn: c04v0s}, {name: "v1", fn: c04v1}, {name: "v1s", fn: c04v1s},
	{name: "v2", fn: c04v2}, {name: "v2b", fn: c04v2b}, {name: "v0i", fn: c04v0i}, {name: "v1n", fn: c04v1n},
	{name: "v1sl", fn: c04v1sl}, {name: "v3", fn: c04v3}, {name: "v1i", fn: c04v1i},
	{name: "M0", recv: []interface{}{c04R0, c04R1}, method: "M0"}, {name: "M1", recv: []interface{}{c04R0, c04R1}, method: "M1"},
	{name: "M2", recv: []interface{}{c04R0, c04R1}, method: "M2"}, {name: "M3", recv: []interface{}{c04R0, c04R1}, method: "M3"},
	{name: "MN", recv: []interface{}{c04R0, c04R1}, method: "MN"}, {name: "MV", recv: []interface{}{c04R0, c04R1}, method: "MV"},
	{name: "MV1", recv: []interface{}{c04R0, c04R1}, method: "MV1"}, {name: "MV2", recv: []interface{}{c04R0, c04R1}, method: "MV2"},
	{name: "V1", recv: []interface{}{c04RV0, c04RV1}, method: "V1"}, {name: "VV", recv: []interface{}{c04RV0, c04RV1}, method: "VV"},
}

// c04Domain maps (parameter type, index) to a Go value.  Values of one type are pairwise different under goom's
// argument equality, so equality of indices is equality of values.  ok=false: index outside the domain.
func c04Domain(t reflect.Type, idx string) (v interface{}, ok bool) {
	if idx == "n" { // untyped nil, accepted for interface, pointer and slice parameters
		switch t.Kind() {
		case reflect.Interface, reflect.Ptr, reflect.Slice:
			return nil, true
		}
		return nil, false
	}
	i := -1
	switch idx {
	case "0":
		i = 0
	case "1":
		i = 1
	case "2":
		i = 2
	case "3":
		i = 3
	}
	if i < 0 {
		return nil, false
	}
	switch t.Kind() {
	case reflect.Int:
		return []int{0, 1, 7, 8}[i], true
	case reflect.String:
		return []string{"", "x", "y", "ab"}[i], true
	case reflect.Bool:
		if i > 1 {
			return nil, false
		}
		return i == 1, true
	case reflect.Interface:
		return []interface{}{0, 1, "a", C04S{A: 1, B: "b"}}[i], true
	case reflect.Ptr:
		if i > 1 {
			return nil, false
		}
		return []*C04T{c04T0, c04T1}[i], true
	case reflect.Struct:
		return []C04S{{}, {A: 1}, {A: 1, B: "b"}, {B: "b"}}[i], true
	case reflect.Slice:
		return [][]int{{}, {1}, {1, 2}, {2}}[i], true
	}
	return nil, false
}
