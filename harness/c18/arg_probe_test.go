package arg

// In-package probe for C18 (injected with `go test -overlay`; nothing is written into the repository).
//
// Line protocol: see lean/GoomVerif/Drv/C18.lean.  Two modes:
//   VERIF_MODE=annotate  rewrite every op line with the facts only the Go runtime knows (kind/size/implementers of a
//                        parameter type, Type().Size() of an Equals argument, %v text of floats, strconv results of strings)
//   (default)            run the real arg.Equals/In/Any on the line: Resolve once, Eval every input tuple on the SAME
//                        expression object, and add the property oracles computed with Go's own ==/reflect.DeepEqual.

import (
	"encoding/hex"
	"fmt"
	"math"
	"os"
	"reflect"
	"strconv"
	"strings"
	"testing"
	"unsafe"

	"github.com/tencent/goom/internal/zzverif/vh"
)

// ---- the type zoo -------------------------------------------------------------------------------------------------

type C18NInt int
type C18NI8 int8
type C18NU16 uint16
type C18NF64 float64
type C18NF32 float32
type C18NStr string
type C18NBool bool

// numeric types with fmt methods (lossy on purpose, as real enum types are)
type C18Level int

func (l C18Level) String() string {
	switch l {
	case 0:
		return "debug"
	case 1:
		return "info"
	case 2:
		return "warn"
	}
	return "unknown"
}

type C18ULevel uint8

func (l C18ULevel) String() string {
	if l < 3 {
		return [...]string{"low", "mid", "high"}[l]
	}
	return "other"
}

type C18Temp float64

func (t C18Temp) String() string { return strconv.FormatFloat(float64(t), 'f', 1, 64) + "C" }

type C18Errno int32

func (e C18Errno) Error() string {
	if e == 0 {
		return "ok"
	}
	return "errno"
}

type C18IStr interface{ String() string }

type C18S1 struct {
	A int
	B string
}
type C18S2 struct {
	A int
	B string
}
type C18SF struct{ F func() }
type C18SB struct {
	B bool
	U uint16
	L C18Level
}
type C18SN struct {
	X   float64
	P   *int
	I   interface{}
	S   []int
	M   map[string]int
	Arr [2]int8
}
type C18SS struct {
	In C18S1
	Ps *C18S1
	Y  float32
}
type C18E0 struct{}

// a struct whose String() omits a field (so two different values print alike), and a struct of two strings
type C18SP struct {
	ID   int
	Name string
}

func (p C18SP) String() string { return p.Name }

type C18S3 struct{ A, B string }

// a struct with an unexported field (reflect.DeepEqual may read it, Interface() on it panics)
type C18SU struct {
	A int
	b string
}
// error values: a sentinel (pointer identity, like errors.New), a wrapper with Unwrap (like fmt.Errorf("%w")), an error with an
// Is method that ignores a field, a comparable struct error with an interface field (== panics when that holds a slice)
type C18ErrS struct{ Msg string }

func (e *C18ErrS) Error() string { return e.Msg }

type C18ErrW struct {
	Msg string
	Err error
}

func (e *C18ErrW) Error() string { return e.Msg + ": " + fmt.Sprint(e.Err) }
func (e *C18ErrW) Unwrap() error { return e.Err }

type C18ErrIs struct {
	Code int
	Note string
}

func (e C18ErrIs) Error() string { return "code " + strconv.Itoa(e.Code) }
func (e C18ErrIs) Is(target error) bool {
	t, ok := target.(C18ErrIs)
	return ok && t.Code == e.Code
}

type C18ErrC struct {
	Msg    string
	Detail interface{}
}

func (e C18ErrC) Error() string { return e.Msg }

type C18NBytes []byte
type C18NArr4 [4]byte
type C18F0 func()
type C18F1 func(int) int

func c18fa()           {}
func c18fb()           {}
func c18ga(i int) int  { return i }
func c18gb(i int) int  { return i + 1 }
func c18mk0(e int) func() {
	return func() { _ = e }
}
func c18mk1(e int) func(int) int {
	return func(i int) int { return i + e }
}

var c18base = map[string]reflect.Type{
	"bool": reflect.TypeOf(false), "int": reflect.TypeOf(int(0)), "int8": reflect.TypeOf(int8(0)), "int16": reflect.TypeOf(int16(0)),
	"int32": reflect.TypeOf(int32(0)), "int64": reflect.TypeOf(int64(0)), "uint": reflect.TypeOf(uint(0)), "uint8": reflect.TypeOf(uint8(0)),
	"uint16": reflect.TypeOf(uint16(0)), "uint32": reflect.TypeOf(uint32(0)), "uint64": reflect.TypeOf(uint64(0)),
	"uintptr": reflect.TypeOf(uintptr(0)), "float32": reflect.TypeOf(float32(0)), "float64": reflect.TypeOf(float64(0)),
	"string": reflect.TypeOf(""), "any": reflect.TypeOf((*interface{})(nil)).Elem(), "error": reflect.TypeOf((*error)(nil)).Elem(),
	"IStr": reflect.TypeOf((*C18IStr)(nil)).Elem(),
	"NInt": reflect.TypeOf(C18NInt(0)), "NI8": reflect.TypeOf(C18NI8(0)), "NU16": reflect.TypeOf(C18NU16(0)), "NF64": reflect.TypeOf(C18NF64(0)),
	"NF32": reflect.TypeOf(C18NF32(0)), "NStr": reflect.TypeOf(C18NStr("")), "NBool": reflect.TypeOf(C18NBool(false)),
	"Level": reflect.TypeOf(C18Level(0)), "ULevel": reflect.TypeOf(C18ULevel(0)), "Temp": reflect.TypeOf(C18Temp(0)), "Errno": reflect.TypeOf(C18Errno(0)),
	"S1": reflect.TypeOf(C18S1{}), "S2": reflect.TypeOf(C18S2{}), "SF": reflect.TypeOf(C18SF{}), "SB": reflect.TypeOf(C18SB{}),
	"SN": reflect.TypeOf(C18SN{}), "SS": reflect.TypeOf(C18SS{}), "E0": reflect.TypeOf(C18E0{}), "SP": reflect.TypeOf(C18SP{}), "S3": reflect.TypeOf(C18S3{}), "SU": reflect.TypeOf(C18SU{}), "ErrS": reflect.TypeOf(C18ErrS{}), "ErrW": reflect.TypeOf(C18ErrW{}), "ErrIs": reflect.TypeOf(C18ErrIs{}), "ErrC": reflect.TypeOf(C18ErrC{}), "NBytes": reflect.TypeOf(C18NBytes(nil)), "NArr4": reflect.TypeOf(C18NArr4{}),
	"F0": reflect.TypeOf(C18F0(nil)), "F1": reflect.TypeOf(C18F1(nil)), "func()": reflect.TypeOf(func() {}),
}

// types that can be boxed into the non-empty interfaces of the zoo
var c18impls = map[string][]string{"IStr": {"Level", "ULevel", "Temp", "SP"}, "error": {"Errno", "*ErrS", "*ErrW", "ErrIs", "ErrC"}}

func c18type(name string) reflect.Type {
	if t, ok := c18base[name]; ok {
		return t
	}
	switch {
	case strings.HasPrefix(name, "*"):
		return reflect.PtrTo(c18type(name[1:]))
	case strings.HasPrefix(name, "[]"):
		return reflect.SliceOf(c18type(name[2:]))
	case strings.HasPrefix(name, "map["):
		depth, i := 0, 3
		for ; i < len(name); i++ {
			if name[i] == '[' {
				depth++
			} else if name[i] == ']' {
				depth--
				if depth == 0 {
					break
				}
			}
		}
		return reflect.MapOf(c18type(name[4:i]), c18type(name[i+1:]))
	case strings.HasPrefix(name, "["):
		i := strings.IndexByte(name, ']')
		n, err := strconv.Atoi(name[1:i])
		if err != nil {
			panic("c18: bad type " + name)
		}
		return reflect.ArrayOf(n, c18type(name[i+1:]))
	}
	panic("c18: unknown type " + name)
}

func c18kind(t reflect.Type) string {
	switch t.Kind() {
	case reflect.Bool:
		return "bool"
	case reflect.Int, reflect.Int8, reflect.Int16, reflect.Int32, reflect.Int64:
		return "int"
	case reflect.Uint, reflect.Uint8, reflect.Uint16, reflect.Uint32, reflect.Uint64, reflect.Uintptr:
		return "uint"
	case reflect.Float32:
		return "f32"
	case reflect.Float64:
		return "f64"
	case reflect.String:
		return "str"
	case reflect.Struct:
		return "strct"
	case reflect.Array:
		return "arr"
	case reflect.Slice:
		return "slice"
	case reflect.Map:
		return "map"
	case reflect.Ptr:
		return "ptr"
	case reflect.Interface:
		return "iface"
	case reflect.Func:
		return "func"
	}
	panic("c18: kind " + t.String())
}

// ---- terms --------------------------------------------------------------------------------------------------------

type c18node struct {
	head string
	ty   string
	isNil bool
	a    []string   // scalar payload tokens
	kids []*c18node // children (map: k v k v …)
}

type c18parser struct {
	toks []string
	pos  int
}

func (p *c18parser) next() string {
	if p.pos >= len(p.toks) {
		panic("c18: short line")
	}
	t := p.toks[p.pos]
	p.pos++
	return t
}
func (p *c18parser) peek() string {
	if p.pos >= len(p.toks) {
		return ""
	}
	return p.toks[p.pos]
}
func (p *c18parser) num() int {
	n, err := strconv.Atoi(p.next())
	if err != nil {
		panic("c18: bad count")
	}
	return n
}

func (p *c18parser) term() *c18node {
	n := &c18node{head: p.next()}
	n.ty = p.next()
	switch n.head {
	case "b":
		n.a = []string{p.next()}
	case "i":
		n.a = []string{p.next(), p.next()}
	case "f":
		n.a = []string{p.next(), p.next(), p.next()}
	case "s":
		n.a = []string{p.next(), p.next(), p.next()}
	case "st", "ar":
		k := p.num()
		for i := 0; i < k; i++ {
			n.kids = append(n.kids, p.term())
		}
	case "sl", "mp":
		if p.peek() == "nil" {
			p.next()
			n.isNil = true
			break
		}
		n.a = []string{p.next()}
		k := p.num()
		if n.head == "mp" {
			k *= 2
		}
		for i := 0; i < k; i++ {
			n.kids = append(n.kids, p.term())
		}
	case "ss": // backing[lo:hi] of the backing array with label a[0]; all elements of the backing array follow
		n.a = []string{p.next(), p.next(), p.next()}
		k := p.num()
		for i := 0; i < k; i++ {
			n.kids = append(n.kids, p.term())
		}
	case "p":
		if p.peek() == "nil" {
			p.next()
			n.isNil = true
			break
		}
		n.a = []string{p.next()}
		n.kids = []*c18node{p.term()}
	case "if":
		if p.peek() == "nil" {
			p.next()
			n.isNil = true
			break
		}
		n.kids = []*c18node{p.term()}
	case "fn":
		if p.peek() == "nil" {
			p.next()
			n.isNil = true
			break
		}
		n.a = []string{p.next(), p.next()}
	default:
		panic("c18: bad term head " + n.head)
	}
	return n
}

func c18fmtPlain(v reflect.Value) string {
	if v.Kind() == reflect.Float32 {
		return fmt.Sprintf("%v", float32(v.Float()))
	}
	return fmt.Sprintf("%v", v.Float())
}

func c18hex(s string) string {
	if s == "" {
		return "-"
	}
	return hex.EncodeToString([]byte(s))
}

// print re-emits the term, filling in the runtime facts.
func (n *c18node) print(b *[]string) {
	*b = append(*b, n.head, n.ty)
	if n.isNil {
		*b = append(*b, "nil")
		return
	}
	switch n.head {
	case "f":
		v := c18build(n, nil)
		*b = append(*b, n.a[0], n.a[1], c18hex(c18fmtPlain(v)))
		return
	case "s":
		s := string(vh.UnHex(n.a[0]))
		var pi, pf = "-", "-"
		var i int64
		var err error
		if strings.HasPrefix(s, "0x") {
			i, err = strconv.ParseInt(s, 16, 64)
		} else {
			i, err = strconv.ParseInt(s, 10, 64)
		}
		if err == nil {
			pi = strconv.FormatInt(i, 10)
		}
		if f, err := strconv.ParseFloat(s, 64); err == nil {
			pf = fmt.Sprintf("%#x", math.Float64bits(f))
		}
		*b = append(*b, n.a[0], pi, pf)
		return
	}
	*b = append(*b, n.a...)
	switch n.head {
	case "st", "ar":
		*b = append(*b, strconv.Itoa(len(n.kids)))
	case "sl", "ss":
		*b = append(*b, strconv.Itoa(len(n.kids)))
	case "mp":
		*b = append(*b, strconv.Itoa(len(n.kids)/2))
	}
	for _, k := range n.kids {
		k.print(b)
	}
}

type c18heap map[string]reflect.Value // identity label -> shared object (per op line)

func c18build(n *c18node, h c18heap) reflect.Value {
	t := c18type(n.ty)
	v := reflect.New(t).Elem()
	if n.isNil {
		return v
	}
	switch n.head {
	case "b":
		v.SetBool(n.a[0] == "1")
	case "i":
		if n.a[0] == "s" {
			x := vh.I64(n.a[1])
			if v.OverflowInt(x) {
				panic("c18: int overflow")
			}
			v.SetInt(x)
		} else {
			x := vh.U64(n.a[1])
			if v.OverflowUint(x) {
				panic("c18: uint overflow")
			}
			v.SetUint(x)
		}
	case "f":
		bits := vh.U64(n.a[1])
		if t.Kind() == reflect.Float32 {
			if n.a[0] != "32" {
				panic("c18: width")
			}
			*(*uint32)(unsafe.Pointer(v.UnsafeAddr())) = uint32(bits)
		} else {
			if n.a[0] != "64" {
				panic("c18: width")
			}
			*(*uint64)(unsafe.Pointer(v.UnsafeAddr())) = bits
		}
	case "s":
		v.SetString(string(vh.UnHex(n.a[0])))
	case "st":
		for i, k := range n.kids {
			f := v.Field(i)
			if !f.CanSet() { // unexported field
				f = reflect.NewAt(f.Type(), unsafe.Pointer(f.UnsafeAddr())).Elem()
			}
			f.Set(c18build(k, h))
		}
	case "ar":
		for i, k := range n.kids {
			v.Index(i).Set(c18build(k, h))
		}
	case "sl":
		key := "sl" + n.a[0]
		if o, ok := h[key]; ok && n.a[0] != "0" {
			return o
		}
		s := reflect.MakeSlice(t, len(n.kids), len(n.kids)+1)
		for i, k := range n.kids {
			s.Index(i).Set(c18build(k, h))
		}
		v.Set(s)
		if h != nil {
			h[key] = v
		}
	case "ss":
		key := "ssb" + n.a[0]
		back, ok := h[key]
		if !ok {
			back = reflect.MakeSlice(t, len(n.kids), len(n.kids))
			for i, k := range n.kids {
				back.Index(i).Set(c18build(k, h))
			}
			if h != nil {
				h[key] = back
			}
		}
		lo, hi := int(vh.I64(n.a[1])), int(vh.I64(n.a[2]))
		v.Set(back.Slice(lo, hi))
	case "mp":
		key := "mp" + n.a[0]
		if o, ok := h[key]; ok && n.a[0] != "0" {
			return o
		}
		m := reflect.MakeMap(t)
		for i := 0; i+1 < len(n.kids); i += 2 {
			m.SetMapIndex(c18build(n.kids[i], h), c18build(n.kids[i+1], h))
		}
		v.Set(m)
		if h != nil {
			h[key] = v
		}
	case "p":
		key := "p" + n.a[0]
		if o, ok := h[key]; ok && n.a[0] != "0" {
			return o
		}
		p := reflect.New(t.Elem())
		p.Elem().Set(c18build(n.kids[0], h))
		v.Set(p)
		if h != nil {
			h[key] = v
		}
	case "if":
		v.Set(c18build(n.kids[0], h))
	case "fn":
		code, env := int(vh.I64(n.a[0])), int(vh.I64(n.a[1]))
		ckey := "fn" + n.ty + "/" + n.a[0] + "/" + n.a[1]
		if o, ok := h[ckey]; ok && code == 3 {
			return o
		}
		defer func() {
			if h != nil && code == 3 {
				h[ckey] = v
			}
		}()
		var f interface{}
		switch {
		case t.NumIn() == 0 && code == 1:
			f = c18fa
		case t.NumIn() == 0 && code == 2:
			f = c18fb
		case t.NumIn() == 0 && code == 3:
			f = c18mk0(env)
		case t.NumIn() == 1 && code == 1:
			f = c18ga
		case t.NumIn() == 1 && code == 2:
			f = c18gb
		case t.NumIn() == 1 && code == 3:
			f = c18mk1(env)
		default:
			panic("c18: func code")
		}
		v.Set(reflect.ValueOf(f).Convert(t))
	}
	return v
}

// ---- expressions --------------------------------------------------------------------------------------------------

type c18arg struct {
	isNil bool
	n     *c18node
}

type c18expr struct {
	kind  string // any eq in
	arg   c18arg
	items []c18item
}
type c18comp struct {
	isExpr bool
	arg    c18arg
	e      *c18expr
}
type c18item struct {
	tuple bool
	comps []c18comp
}

func (p *c18parser) arg() c18arg {
	if p.peek() == "nil" {
		p.next()
		return c18arg{isNil: true}
	}
	p.next() // size (or ?)
	return c18arg{n: p.term()}
}
func (p *c18parser) comp() c18comp {
	switch p.next() {
	case "v":
		return c18comp{arg: p.arg()}
	case "e":
		return c18comp{isExpr: true, e: p.expr()}
	}
	panic("c18: bad comp")
}
func (p *c18parser) expr() *c18expr {
	e := &c18expr{kind: p.next()}
	switch e.kind {
	case "any":
	case "eq":
		e.arg = p.arg()
	case "in":
		k := p.num()
		for i := 0; i < k; i++ {
			switch p.next() {
			case "c":
				e.items = append(e.items, c18item{comps: []c18comp{p.comp()}})
			case "t":
				m := p.num()
				it := c18item{tuple: true}
				for j := 0; j < m; j++ {
					it.comps = append(it.comps, p.comp())
				}
				e.items = append(e.items, it)
			default:
				panic("c18: bad item")
			}
		}
	default:
		panic("c18: bad expr " + e.kind)
	}
	return e
}

func (a c18arg) print(b *[]string) {
	if a.isNil {
		*b = append(*b, "nil")
		return
	}
	*b = append(*b, strconv.Itoa(int(c18type(a.n.ty).Size())))
	a.n.print(b)
}
func (c c18comp) print(b *[]string) {
	if c.isExpr {
		*b = append(*b, "e")
		c.e.print(b)
	} else {
		*b = append(*b, "v")
		c.arg.print(b)
	}
}
func (e *c18expr) print(b *[]string) {
	*b = append(*b, e.kind)
	switch e.kind {
	case "eq":
		e.arg.print(b)
	case "in":
		*b = append(*b, strconv.Itoa(len(e.items)))
		for _, it := range e.items {
			if it.tuple {
				*b = append(*b, "t", strconv.Itoa(len(it.comps)))
			} else {
				*b = append(*b, "c")
			}
			for _, c := range it.comps {
				c.print(b)
			}
		}
	}
}

func (a c18arg) iface(h c18heap) interface{} {
	if a.isNil {
		return nil
	}
	return c18build(a.n, h).Interface()
}

// build constructs the expression with goom's own builder functions (arg/builder.go).
func (e *c18expr) build(h c18heap) Expr {
	switch e.kind {
	case "any":
		return Any()
	case "eq":
		return Equals(e.arg.iface(h))
	}
	var vals []interface{}
	for _, it := range e.items {
		var cs []interface{}
		for _, c := range it.comps {
			if c.isExpr {
				cs = append(cs, c.e.build(h))
			} else {
				cs = append(cs, c.arg.iface(h))
			}
		}
		if it.tuple {
			vals = append(vals, cs)
		} else {
			vals = append(vals, cs[0])
		}
	}
	return In(vals...)
}

type c18op struct {
	mutate   bool // c18.mu: every input after the first is the FIRST object mutated in place
	variadic bool
	elemName string
	elemT    reflect.Type
	packed   [][]c18arg // variadic: the elements of the packed last argument, per input
	tyNames []string
	types   []reflect.Type
	e       *c18expr
	inputs  [][]c18arg // nil or term per parameter
}

func c18parse(toks []string) *c18op {
	p := &c18parser{toks: toks, pos: 1}
	op := &c18op{}
	nT := p.num()
	for i := 0; i < nT; i++ {
		name := strings.SplitN(p.next(), ":", 2)[0]
		op.tyNames = append(op.tyNames, name)
		op.types = append(op.types, c18type(name))
	}
	op.mutate = toks[0] == "c18.mu"
	if toks[0] == "c18.evv" {
		op.variadic = true
		op.elemName = strings.SplitN(p.next(), ":", 2)[0]
		op.elemT = c18type(op.elemName)
		if op.types[nT-1].Kind() != reflect.Slice || op.types[nT-1].Elem() != op.elemT {
			panic("c18: variadic element type")
		}
		nT--
	}
	op.e = p.expr()
	k := p.num()
	for i := 0; i < k; i++ {
		var tup []c18arg
		for j := 0; j < nT; j++ {
			if p.peek() == "nil" {
				p.next()
				tup = append(tup, c18arg{isNil: true})
			} else {
				tup = append(tup, c18arg{n: p.term()})
			}
		}
		op.inputs = append(op.inputs, tup)
		if op.variadic {
			var es []c18arg
			m := p.num()
			for j := 0; j < m; j++ {
				if p.peek() == "nil" {
					p.next()
					es = append(es, c18arg{isNil: true})
				} else {
					es = append(es, c18arg{n: p.term()})
				}
			}
			op.packed = append(op.packed, es)
		}
	}
	if p.pos != len(toks) {
		panic("c18: trailing tokens")
	}
	return op
}

func (op *c18op) print() string {
	b := []string{"c18.ev", strconv.Itoa(len(op.types))}
	if op.variadic {
		b[0] = "c18.evv"
	}
	if op.mutate {
		b[0] = "c18.mu"
	}
	tdesc := func(name string, t reflect.Type) string {
		impls := "-"
		if t.Kind() == reflect.Interface {
			if t.NumMethod() == 0 {
				impls = "*"
			} else if l := c18impls[name]; len(l) > 0 {
				impls = strings.Join(l, ",")
			}
		}
		return fmt.Sprintf("%s:%s:%d:%s", name, c18kind(t), t.Size(), impls)
	}
	for i, t := range op.types {
		impls := "-"
		if t.Kind() == reflect.Interface {
			if t.NumMethod() == 0 {
				impls = "*"
			} else if l := c18impls[op.tyNames[i]]; len(l) > 0 {
				impls = strings.Join(l, ",")
			}
		}
		b = append(b, fmt.Sprintf("%s:%s:%d:%s", op.tyNames[i], c18kind(t), t.Size(), impls))
	}
	if op.variadic {
		b = append(b, tdesc(op.elemName, op.elemT))
	}
	op.e.print(&b)
	b = append(b, strconv.Itoa(len(op.inputs)))
	pa := func(a c18arg) {
		if a.isNil {
			b = append(b, "nil")
		} else {
			a.n.print(&b)
		}
	}
	for i, tup := range op.inputs {
		for _, a := range tup {
			pa(a)
		}
		if op.variadic {
			b = append(b, strconv.Itoa(len(op.packed[i])))
			for _, a := range op.packed[i] {
				pa(a)
			}
		}
	}
	return strings.Join(b, " ")
}

// input builds the argument exactly as reflect.MakeFunc hands it to the matcher: a Value of the parameter type.
func c18input(t reflect.Type, a c18arg, h c18heap) reflect.Value {
	in := reflect.New(t).Elem()
	if !a.isNil {
		in.Set(c18build(a.n, h))
	}
	return c18asArg(in)
}

var (
	c18mf  = map[reflect.Type]reflect.Value{}
	c18got reflect.Value
)

// c18asArg passes v through a reflect.MakeFunc function of signature func(T) and returns the Value its body receives:
// exactly what goom's matcher is handed for a parameter of type T (not addressable, Kind Interface for interface types).
func c18asArg(v reflect.Value) reflect.Value {
	t := v.Type()
	f, ok := c18mf[t]
	if !ok {
		f = reflect.MakeFunc(reflect.FuncOf([]reflect.Type{t}, nil, false), func(a []reflect.Value) []reflect.Value {
			c18got = a[0]
			return nil
		})
		c18mf[t] = f
	}
	f.Call([]reflect.Value{v})
	return c18got
}

func c18res(b bool, err error) string {
	if err != nil {
		return "err:" + vh.Class(err.Error())
	}
	if b {
		return "t"
	}
	return "f"
}

var c18variadic bool // mode of the op being run

func c18eval(e Expr, in []reflect.Value) string {
	return vh.Catch(func() string { return c18res(e.Eval(in, c18variadic)) })
}

func c18resolve(e Expr, types []reflect.Type) string {
	return vh.Catch(func() string {
		if err := e.Resolve(types, c18variadic); err != nil {
			return "err:" + vh.Class(err.Error())
		}
		return "ok"
	})
}

// ---- the specification side: Go's own equality ----------------------------------------------------------------------

// c18funcID is the identity of a func term: (code, env) for closures, code otherwise.
func c18funcID(n *c18node) string {
	if n.isNil {
		return "nil"
	}
	if n.a[0] == "3" {
		return "3/" + n.a[1]
	}
	return n.a[0]
}

// c18spec computes "x equals a" by Go's rules on the two TERMS' values: == on scalars, identity on funcs,
// reflect.DeepEqual on composites, pointers/interfaces: nil = nil, else the pointees are compared (a pointee that is itself a
// pointer or an interface is compared as a composite, by reflect.DeepEqual).  flags: N = a NaN is compared at a scalar position, Z = +0 against -0, C = two closures of one
// function literal with different captured state, M = a named numeric type with a fmt method at a scalar position.
func c18spec(x, a *c18node, xv, av reflect.Value, depth int, flags map[byte]bool) bool {
	if xv.Type() != av.Type() {
		flags['T'] = true
		return false
	}
	switch xv.Kind() {
	case reflect.Float32, reflect.Float64:
		fx, fa := xv.Float(), av.Float()
		if fx != fx || fa != fa {
			flags['N'] = true
		}
		if fx == 0 && fa == 0 && math.Signbit(fx) != math.Signbit(fa) {
			flags['Z'] = true
		}
		if xv.Type().NumMethod() > 0 {
			flags['M'] = true
		}
		return fx == fa
	case reflect.Int, reflect.Int8, reflect.Int16, reflect.Int32, reflect.Int64:
		if xv.Type().NumMethod() > 0 {
			flags['M'] = true
		}
		return xv.Int() == av.Int()
	case reflect.Uint, reflect.Uint8, reflect.Uint16, reflect.Uint32, reflect.Uint64, reflect.Uintptr:
		if xv.Type().NumMethod() > 0 {
			flags['M'] = true
		}
		return xv.Uint() == av.Uint()
	case reflect.Bool:
		return xv.Bool() == av.Bool()
	case reflect.String:
		return xv.String() == av.String()
	case reflect.Func:
		if x.head == "fn" && a.head == "fn" {
			if !x.isNil && !a.isNil && x.a[0] == "3" && a.a[0] == "3" && x.a[1] != a.a[1] {
				flags['C'] = true
			}
			return c18funcID(x) == c18funcID(a)
		}
		return xv.IsNil() && av.IsNil()
	case reflect.Ptr, reflect.Interface:
		if xv.IsNil() || av.IsNil() {
			return xv.IsNil() && av.IsNil()
		}
		if depth == 0 {
			// "by pointee": the pointees are compared, never the addresses
			xe, ae := xv.Elem(), av.Elem()
			switch xe.Kind() {
			case reflect.Ptr, reflect.Interface, reflect.Struct, reflect.Array, reflect.Slice, reflect.Map:
				return reflect.DeepEqual(xe.Interface(), ae.Interface())
			}
			if len(x.kids) == 1 && len(a.kids) == 1 {
				return c18spec(x.kids[0], a.kids[0], xe, ae, 1, flags)
			}
		}
	}
	return reflect.DeepEqual(xv.Interface(), av.Interface())
}

// ---- the probe ----------------------------------------------------------------------------------------------------

func TestVerifC18(t *testing.T) {
	out := vh.OpenOut()
	defer out.Close()
	annotate := os.Getenv("VERIF_MODE") == "annotate"
	for _, line := range vh.ReadOps() {
		if len(line.Toks) > 0 && line.Toks[0] == "c18.sh" {
			obs := vh.Catch(func() string {
				sc := c18parseScript(line.Toks)
				if annotate {
					return sc.print()
				}
				if got := sc.print(); got != line.Line {
					return "bad-annot " + got
				}
				return sc.run()
			})
			out.Put(line.Idx, "%s", obs)
			continue
		}
		if len(line.Toks) == 0 || (line.Toks[0] != "c18.ev" && line.Toks[0] != "c18.evv" && line.Toks[0] != "c18.mu") {
			continue
		}
		obs := vh.Catch(func() string {
			op := c18parse(line.Toks)
			if annotate {
				return op.print()
			}
			if got := op.print(); got != line.Line {
				return "bad-annot " + got
			}
			return c18run(op)
		})
		out.Put(line.Idx, "%s", obs)
	}
}

func c18run(op *c18op) string {
	h := c18heap{}
	c18variadic = op.variadic
	defer func() { c18variadic = false }()
	e := op.e.build(h)
	r := c18resolve(e, op.types)
	if r != "ok" {
		return "R=" + r
	}
	if op.mutate {
		return c18runMutate(op, e, h)
	}
	var ins [][]reflect.Value
	for i, tup := range op.inputs {
		var in []reflect.Value
		for j, a := range tup {
			in = append(in, c18input(op.types[j], a, h))
		}
		if op.variadic { // the shape of a real call: the variadic tail packed into one slice
			ps := reflect.MakeSlice(op.types[len(op.types)-1], len(op.packed[i]), len(op.packed[i]))
			for j, a := range op.packed[i] {
				ps.Index(j).Set(c18input(op.elemT, a, h))
			}
			in = append(in, ps)
		}
		ins = append(ins, in)
	}
	// the caller's argument lists, to check afterwards that no evaluation rewrote them
	var snap [][]reflect.Value
	for _, in := range ins {
		snap = append(snap, append([]reflect.Value(nil), in...))
	}
	var ans []string
	for _, in := range ins {
		ans = append(ans, c18eval(e, in))
	}
	res := "R=ok E=" + strings.Join(ans, ",")
	// purity: a second pass over the same object in reverse order, and a freshly built and resolved object per input
	pure := "1"
	for i := len(ins) - 1; i >= 0; i-- {
		if c18eval(e, ins[i]) != ans[i] {
			pure = "0"
		}
	}
	for i, in := range ins {
		f := op.e.build(h)
		if c18resolve(f, op.types) != "ok" || c18eval(f, in) != ans[i] {
			pure = "0"
		}
	}
	for i, in := range ins {
		if len(in) != len(snap[i]) {
			pure = "0"
			continue
		}
		for j := range in {
			if in[j] != snap[i][j] { // the very same reflect.Value (type, data pointer, flags)
				pure = "0"
			}
		}
	}
	res += " P=" + pure
	if op.variadic {
		return res
	}
	switch {
	case op.e.kind == "eq" && len(op.types) == 1:
		res += " O=" + c18eqOracle(op, h, ins)
	case op.e.kind == "in":
		res += " U=" + c18union(op, h, ins)
	}
	return res
}

// c18eqOracle: per input `<spec t|f><flags>/<swapped answer>`: Go's own equality of (x, a), and Equals(a) evaluated on x.
func c18eqOracle(op *c18op, h c18heap, ins [][]reflect.Value) string {
	T := op.types[0]
	var parts []string
	for i, tup := range op.inputs {
		s := vh.Catch(func() string {
			// x as a value of the parameter type (nil = the zero value of a nilable type)
			xin := reflect.New(T).Elem()
			if !op.e.arg.isNil {
				xv := c18build(op.e.arg.n, h)
				if !xv.Type().AssignableTo(T) {
					return "-/-"
				}
				xin.Set(xv)
			} else if c18kind(T) != "iface" && c18kind(T) != "ptr" && c18kind(T) != "slice" && c18kind(T) != "map" && c18kind(T) != "func" {
				return "-/-"
			}
			ain := ins[i][0]
			flags := map[byte]bool{}
			xn, an := op.e.arg.n, tup[0].n
			if xn != nil && T.Kind() != reflect.Interface && c18type(xn.ty) != T {
				return "-/-" // cross-typed pattern: outside the property, model-vs-code agreement only
			}
			nilNode := &c18node{head: "nil", isNil: true}
			var spec bool
			if T.Kind() == reflect.Interface {
				switch {
				case xn == nil || an == nil: // the nil interface on either side
					spec = xn == nil && an == nil
				case xin.Elem().Type() != ain.Elem().Type():
					flags['T'] = true
				default:
					xe, ae := xin.Elem(), ain.Elem()
					if xe.Kind() == reflect.Ptr {
						spec = reflect.DeepEqual(xe.Interface(), ae.Interface())
					} else {
						spec = c18spec(xn, an, xe, ae, 1, flags)
					}
				}
			} else {
				if xn == nil {
					xn = nilNode
				}
				if an == nil {
					an = nilNode
				}
				spec = c18spec(xn, an, xin, ain, 0, flags)
			}
			fl := ""
			for _, c := range []byte("TNZCM") {
				if flags[c] {
					fl += string(c)
				}
			}
			// symmetry: Equals(a) resolved against the same parameter type, evaluated on x
			var ai interface{}
			if !(ain.Kind() == reflect.Interface && ain.IsNil()) {
				ai = ain.Interface()
			}
			sw := Equals(ai)
			swapped := c18resolve(sw, op.types)
			if swapped == "ok" {
				swapped = c18eval(sw, []reflect.Value{xin})
			}
			if spec {
				return "t" + fl + "/" + swapped
			}
			return "f" + fl + "/" + swapped
		})
		parts = append(parts, s)
	}
	return strings.Join(parts, ",")
}

// c18union: per input, the union over the items of In of the conjunction of its components, every plain component
// evaluated by a FRESH arg.Equals(xi) (sub-expressions by a fresh copy of themselves).
func c18union(op *c18op, h c18heap, ins [][]reflect.Value) string {
	var parts []string
	for _, in := range ins {
		s := vh.Catch(func() string {
			any := false
			for _, it := range op.e.items {
				if len(it.comps) != len(in) {
					return "-"
				}
				all := true
				for j, c := range it.comps {
					var ce Expr
					if c.isExpr {
						ce = c.e.build(h)
					} else {
						ce = Equals(c.arg.iface(h))
					}
					if r := c18resolve(ce, []reflect.Type{op.types[j]}); r != "ok" {
						return "-"
					}
					r := c18eval(ce, []reflect.Value{in[j]})
					if r != "t" && r != "f" {
						return "-"
					}
					if r == "f" {
						all = false
					}
				}
				if all {
					any = true
				}
			}
			if any {
				return "t"
			}
			return "f"
		})
		parts = append(parts, s)
	}
	return strings.Join(parts, ",")
}

// ---- shared expression objects: `c18.sh <nObj> <objdef>* <nSteps> <step>*` --------------------------------------------

type c18scomp struct {
	isRef bool
	id    int
	arg   c18arg
}
type c18sitem struct {
	tuple bool
	comps []c18scomp
}
type c18sobj struct {
	kind  string // any anyvalues eq in
	arg   c18arg
	items []c18sitem
}
type c18sstep struct {
	kind    string // R E
	id      int
	tyNames []string
	types   []reflect.Type
	inputs  []c18arg
}
type c18script struct {
	objs  []c18sobj
	steps []c18sstep
}

func (p *c18parser) scomp() c18scomp {
	switch p.next() {
	case "v":
		return c18scomp{arg: p.arg()}
	case "r":
		return c18scomp{isRef: true, id: p.num()}
	}
	panic("c18: bad shared comp")
}

func c18parseScript(toks []string) *c18script {
	p := &c18parser{toks: toks, pos: 1}
	sc := &c18script{}
	nObj := p.num()
	for i := 0; i < nObj; i++ {
		o := c18sobj{kind: p.next()}
		switch o.kind {
		case "any", "anyvalues":
		case "eq":
			o.arg = p.arg()
		case "in":
			k := p.num()
			for j := 0; j < k; j++ {
				switch p.next() {
				case "c":
					o.items = append(o.items, c18sitem{comps: []c18scomp{p.scomp()}})
				case "t":
					m := p.num()
					it := c18sitem{tuple: true}
					for l := 0; l < m; l++ {
						it.comps = append(it.comps, p.scomp())
					}
					o.items = append(o.items, it)
				default:
					panic("c18: bad shared item")
				}
			}
		default:
			panic("c18: bad objdef " + o.kind)
		}
		for _, it := range o.items {
			for _, c := range it.comps {
				if c.isRef && c.id >= i {
					panic("c18: forward object reference")
				}
			}
		}
		sc.objs = append(sc.objs, o)
	}
	nSteps := p.num()
	for i := 0; i < nSteps; i++ {
		st := c18sstep{kind: p.next()}
		if st.kind != "R" && st.kind != "E" {
			panic("c18: bad step")
		}
		st.id = p.num()
		if st.id >= nObj {
			panic("c18: step on unknown object")
		}
		k := p.num()
		for j := 0; j < k; j++ {
			name := strings.SplitN(p.next(), ":", 2)[0]
			st.tyNames = append(st.tyNames, name)
			st.types = append(st.types, c18type(name))
		}
		if st.kind == "E" {
			for j := 0; j < k; j++ {
				if p.peek() == "nil" {
					p.next()
					st.inputs = append(st.inputs, c18arg{isNil: true})
				} else {
					st.inputs = append(st.inputs, c18arg{n: p.term()})
				}
			}
		}
		sc.steps = append(sc.steps, st)
	}
	if p.pos != len(toks) {
		panic("c18: trailing tokens")
	}
	return sc
}

func c18tdesc(name string, t reflect.Type) string {
	impls := "-"
	if t.Kind() == reflect.Interface {
		if t.NumMethod() == 0 {
			impls = "*"
		} else if l := c18impls[name]; len(l) > 0 {
			impls = strings.Join(l, ",")
		}
	}
	return fmt.Sprintf("%s:%s:%d:%s", name, c18kind(t), t.Size(), impls)
}

func (sc *c18script) print() string {
	b := []string{"c18.sh", strconv.Itoa(len(sc.objs))}
	pc := func(c c18scomp) {
		if c.isRef {
			b = append(b, "r", strconv.Itoa(c.id))
		} else {
			b = append(b, "v")
			c.arg.print(&b)
		}
	}
	for _, o := range sc.objs {
		b = append(b, o.kind)
		switch o.kind {
		case "eq":
			o.arg.print(&b)
		case "in":
			b = append(b, strconv.Itoa(len(o.items)))
			for _, it := range o.items {
				if it.tuple {
					b = append(b, "t", strconv.Itoa(len(it.comps)))
				} else {
					b = append(b, "c")
				}
				for _, c := range it.comps {
					pc(c)
				}
			}
		}
	}
	b = append(b, strconv.Itoa(len(sc.steps)))
	for _, st := range sc.steps {
		b = append(b, st.kind, strconv.Itoa(st.id), strconv.Itoa(len(st.types)))
		for i, t := range st.types {
			b = append(b, c18tdesc(st.tyNames[i], t))
		}
		for _, a := range st.inputs {
			if a.isNil {
				b = append(b, "nil")
			} else {
				a.n.print(&b)
			}
		}
	}
	return strings.Join(b, " ")
}

// run builds the objects ONCE (shared pointers, arg.AnyValues is the package-level object) and plays the script.
// A= marks the Eval steps on Any objects: the property demands `t` there whatever happened before.
func (sc *c18script) run() string {
	h := c18heap{}
	var objs []Expr
	for _, o := range sc.objs {
		switch o.kind {
		case "any":
			objs = append(objs, Any())
		case "anyvalues":
			objs = append(objs, AnyValues)
		case "eq":
			objs = append(objs, Equals(o.arg.iface(h)))
		case "in":
			var vals []interface{}
			for _, it := range o.items {
				var cs []interface{}
				for _, c := range it.comps {
					if c.isRef {
						cs = append(cs, objs[c.id])
					} else {
						cs = append(cs, c.arg.iface(h))
					}
				}
				if it.tuple {
					vals = append(vals, cs)
				} else {
					vals = append(vals, cs[0])
				}
			}
			objs = append(objs, In(vals...))
		}
	}
	var obs, marks []string
	for _, st := range sc.steps {
		if st.kind == "R" {
			obs = append(obs, c18resolve(objs[st.id], st.types))
			marks = append(marks, "-")
			continue
		}
		var in []reflect.Value
		for j, a := range st.inputs {
			in = append(in, c18input(st.types[j], a, h))
		}
		obs = append(obs, c18eval(objs[st.id], in))
		if k := sc.objs[st.id].kind; k == "any" || k == "anyvalues" {
			marks = append(marks, "a")
		} else {
			marks = append(marks, "-")
		}
	}
	return "S=" + strings.Join(obs, ",") + " A=" + strings.Join(marks, ",")
}

// c18runMutate: one argument object (pointer / map / slice, possibly held in an interface) is evaluated, then mutated IN PLACE to
// the next input term and evaluated again as the very same reflect.Value — what a mocked function sees when its caller reuses an
// object.  Oracles are computed at each step on the current contents.
func c18runMutate(op *c18op, e Expr, h c18heap) string {
	T := op.types[0]
	obj := c18input(T, op.inputs[0][0], h)
	var ans, orc []string
	for i, tup := range op.inputs {
		if i > 0 {
			tgt := obj
			if tgt.Kind() == reflect.Interface {
				tgt = tgt.Elem()
			}
			nv := c18build(tup[0].n, nil)
			if nv.Type() != tgt.Type() || nv.IsNil() || tgt.IsNil() {
				panic("c18: mutate needs non-nil values of one type")
			}
			switch tgt.Kind() {
			case reflect.Ptr:
				tgt.Elem().Set(nv.Elem())
			case reflect.Map:
				for _, k := range tgt.MapKeys() {
					tgt.SetMapIndex(k, reflect.Value{})
				}
				for _, k := range nv.MapKeys() {
					tgt.SetMapIndex(k, nv.MapIndex(k))
				}
			case reflect.Slice:
				if nv.Len() != tgt.Len() {
					panic("c18: mutate slice length")
				}
				reflect.Copy(tgt, nv)
			default:
				panic("c18: mutate kind")
			}
		}
		in := []reflect.Value{obj}
		ans = append(ans, c18eval(e, in))
		one := *op
		one.inputs = [][]c18arg{tup}
		switch {
		case op.e.kind == "eq":
			orc = append(orc, c18eqOracle(&one, h, [][]reflect.Value{in}))
		case op.e.kind == "in":
			orc = append(orc, c18union(&one, h, [][]reflect.Value{in}))
		}
	}
	res := "R=ok E=" + strings.Join(ans, ",") + " P=1"
	if op.e.kind == "eq" {
		res += " O=" + strings.Join(orc, ",")
	} else if op.e.kind == "in" {
		res += " U=" + strings.Join(orc, ",")
	}
	return res
}
