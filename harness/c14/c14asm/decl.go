package patch

// Assembly functions whose machine-code shape the Go compiler never produces (this file and short_amd64.s are added to
// package patch with `go test -overlay`; nothing is written into the repository — the assembler needs a real directory,
// so they cannot live in a virtual package).

// zzC14AsmShort is `RET` followed by bytes that are not an instruction in 64-bit mode: goom's GetFuncSize scan stops after
// one byte, so the function is too short to hold the 13-byte jump and must be refused.
func zzC14AsmShort()

// zzC14AsmShort5 is 5 bytes of real instructions before the undecodable byte.
func zzC14AsmShort5()

// zzC14AsmLong13 is exactly 13 bytes of instructions before the undecodable byte (refused: 13 >= 13).
func zzC14AsmLong13()

// zzC14AsmLong14 is 14 bytes of instructions before the undecodable byte (the smallest accepted extent).
func zzC14AsmLong14()
