// Package c14u holds helpers of the C14 probes (injected as github.com/tencent/goom/internal/zzverif/c14u).
package c14u

import (
	"bufio"
	"fmt"
	"os"
	"strconv"
	"strings"
	"syscall"
)

// markers: mprotect calls on never-mapped low addresses (they fail with ENOMEM and change nothing); the length
// carries the op index so the strace log can be cut per operation.
const (
	MarkBegin = 0x1000
	MarkEnd   = 0x2000
)

// Begin marks the start of op idx in the strace log.
func Begin(idx int) { syscall.Syscall(syscall.SYS_MPROTECT, MarkBegin, uintptr(idx+1)*4096, 0) }

// End marks the end of op idx in the strace log.
func End(idx int) { syscall.Syscall(syscall.SYS_MPROTECT, MarkEnd, uintptr(idx+1)*4096, 0) }

// Mapping is one line of /proc/self/maps.
type Mapping struct {
	Lo, Hi uintptr
	Perm   string // "r-xp"
	Path   string
}

// Maps parses /proc/self/maps.
func Maps() []Mapping {
	f, err := os.Open("/proc/self/maps")
	if err != nil {
		panic(err)
	}
	defer f.Close()
	var res []Mapping
	sc := bufio.NewScanner(f)
	for sc.Scan() {
		fs := strings.Fields(sc.Text())
		if len(fs) < 5 {
			continue
		}
		r := strings.SplitN(fs[0], "-", 2)
		lo, _ := strconv.ParseUint(r[0], 16, 64)
		hi, _ := strconv.ParseUint(r[1], 16, 64)
		m := Mapping{Lo: uintptr(lo), Hi: uintptr(hi), Perm: fs[1]}
		if len(fs) >= 6 {
			m.Path = fs[5]
		}
		res = append(res, m)
	}
	return res
}

// PermLetter is the one-letter protection of the page at addr: x=r-x w=rwx r=r-- d=rw- u=unmapped n=--- ?=other.
func PermLetter(ms []Mapping, addr uintptr) string {
	for _, m := range ms {
		if m.Lo <= addr && addr < m.Hi {
			switch m.Perm[:3] {
			case "r-x":
				return "x"
			case "rwx":
				return "w"
			case "r--":
				return "r"
			case "rw-":
				return "d"
			case "---":
				return "n"
			}
			return "?"
		}
	}
	return "u"
}

// WritablePages counts pages of mappings that are writable AND belong to the executable image path (text/rodata/data
// of the binary are distinguished by the caller through the range).
func WritableIn(ms []Mapping, lo, hi uintptr) int {
	n := 0
	for _, m := range ms {
		if m.Hi <= lo || m.Lo >= hi {
			continue
		}
		if m.Perm[1] == 'w' {
			a, b := m.Lo, m.Hi
			if a < lo {
				a = lo
			}
			if b > hi {
				b = hi
			}
			n += int((b - a) / 4096)
		}
	}
	return n
}

// NonExecIn counts pages in [lo,hi) that are not executable (or unmapped).
func NonExecIn(ms []Mapping, lo, hi uintptr) int {
	n := int((hi - lo) / 4096)
	for _, m := range ms {
		if m.Hi <= lo || m.Lo >= hi {
			continue
		}
		if m.Perm[2] == 'x' {
			a, b := m.Lo, m.Hi
			if a < lo {
				a = lo
			}
			if b > hi {
				b = hi
			}
			n -= int((b - a) / 4096)
		}
	}
	return n
}

// Pat is the initial content of byte i of the scratch region (same formula as Drv/C14.lean `pat`).
func Pat(i int) byte { return byte((i*131 + 7) % 251) }

// PanicClass maps a recovered panic value to a short stable class.
func PanicClass(r interface{}) string {
	s := fmt.Sprint(r)
	switch {
	case strings.Contains(s, "access mem error"):
		return "access-mem-error"
	case strings.Contains(s, "runtime error"):
		return "runtime-error"
	}
	return "other"
}

// PaddedFunc is the byte image of a function of exactly e code bytes (PUSHes and a RET), p bytes of INT3 padding, and its
// successor (63 POPs and a RET), followed by 16 INT3 and one RET so that a scan of the successor's padding ends.
func PaddedFunc(e, p int) []byte {
	var b []byte
	for k := 0; k < e-1; k++ {
		b = append(b, 0x50)
	}
	b = append(b, 0xc3)
	for k := 0; k < p; k++ {
		b = append(b, 0xcc)
	}
	for k := 0; k < 63; k++ {
		b = append(b, 0x58)
	}
	b = append(b, 0xc3)
	for k := 0; k < 16; k++ {
		b = append(b, 0xcc)
	}
	return append(b, 0xc3)
}
