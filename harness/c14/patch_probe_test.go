package patch

import (
	"bytes"
	"debug/elf"
	"encoding/binary"
	"fmt"
	"os"
	"reflect"
	"runtime"
	"sort"
	"strings"
	"syscall"
	"testing"
	"unsafe"

	"github.com/tencent/goom/internal/bytecode"
	"github.com/tencent/goom/internal/zzverif/c14u"
	"github.com/tencent/goom/internal/zzverif/vh"
)

func c14raw(addr uintptr, n int) []byte {
	var b []byte
	h := (*reflect.SliceHeader)(unsafe.Pointer(&b))
	h.Data, h.Len, h.Cap = addr, n, n
	return b
}

type c14sym struct {
	name string
	addr uintptr
	dist int
}

// c14symbols: every function symbol of .text of the running binary, sorted, with the distance to the next one.
func c14symbols(t *testing.T) (syms []c14sym, textLo, textHi uintptr) {
	f, err := elf.Open("/proc/self/exe")
	if err != nil {
		t.Fatal(err)
	}
	defer f.Close()
	sec := f.Section(".text")
	textLo, textHi = uintptr(sec.Addr), uintptr(sec.Addr+sec.Size)
	all, err := f.Symbols()
	if err != nil {
		t.Fatal(err)
	}
	seen := map[uintptr]bool{}
	for _, s := range all {
		if s.Size == 0 { // markers such as runtime.etext, not functions
			continue
		}
		if elf.ST_TYPE(s.Info) != elf.STT_FUNC || uintptr(s.Value) < textLo || uintptr(s.Value) >= textHi || seen[uintptr(s.Value)] {
			continue
		}
		seen[uintptr(s.Value)] = true
		syms = append(syms, c14sym{name: s.Name, addr: uintptr(s.Value)})
	}
	sort.Slice(syms, func(i, j int) bool { return syms[i].addr < syms[j].addr })
	for i := range syms {
		next := textHi
		if i+1 < len(syms) {
			next = syms[i+1].addr
		}
		syms[i].dist = int(next - syms[i].addr)
	}
	return
}

func c14repl(a, b int) int { return a - b }

// keep the assembly functions linked
var c14keep = []func(){zzC14AsmShort, zzC14AsmShort5, zzC14AsmLong13, zzC14AsmLong14}

const c14pkg = "github.com/tencent/goom/internal/patch."

func c14errClass(err error) string {
	if err == nil {
		return "nil"
	}
	s := err.Error()
	switch {
	case strings.Contains(s, "is bigger than origin FuncSize"):
		return "jumpInstSize-bigger-than-origin-FuncSize"
	case strings.Contains(s, "is bigger than trampoline FuncSize"):
		return "trampoline-too-small"
	case strings.Contains(s, "already patched"):
		return "already-patched"
	}
	return "other:" + vh.Class(s)
}

func c14maskJump(b []byte) string {
	if len(b) != 13 {
		return vh.Hex(b)
	}
	return vh.Hex(b[:3]) + "<to>" + vh.Hex(b[11:])
}

// TestVerifC14Text: survey of every function of the binary, and the real Patch/Apply/Unpatch on real text.
func TestVerifC14Text(t *testing.T) {
	if syscall.Getpagesize() != 4096 {
		t.Fatalf("page size %d", syscall.Getpagesize())
	}
	runtime.LockOSThread()
	out := vh.OpenOut()
	defer out.Close()
	for _, f := range c14keep { // reference the assembly functions so the linker keeps them
		if reflect.ValueOf(f).Pointer() == 0 {
			t.Fatal("nil function")
		}
	}
	syms, textLo, textHi := c14symbols(t)
	byName := map[string]c14sym{}
	byAddr := map[uintptr]c14sym{}
	for _, s := range syms {
		byName[s.name] = s
		byAddr[s.addr] = s
	}
	// the ELF addresses must be the run-time addresses (non-PIE test binary)
	self := reflect.ValueOf(c14repl).Pointer()
	if s, ok := byName[c14pkg+"c14repl"]; !ok || s.addr != self {
		t.Fatalf("symbol table does not match run-time addresses (%#x vs %#x)", s.addr, self)
	}
	pristine := append([]byte(nil), c14raw(textLo, int(textHi-textLo))...)
	exe, _ := os.Readlink("/proc/self/exe")
	image := func() string { // canonical protections of every mapping of the executable image
		var sb strings.Builder
		var cur c14u.Mapping
		flush := func() {
			if cur.Hi != 0 {
				fmt.Fprintf(&sb, "%x-%x:%s;", cur.Lo, cur.Hi, cur.Perm)
			}
		}
		for _, m := range c14u.Maps() {
			if strings.TrimSuffix(m.Path, " (deleted)") != strings.TrimSuffix(exe, " (deleted)") {
				continue
			}
			if cur.Hi == m.Lo && cur.Perm == m.Perm { // the kernel may keep a split VMA: adjacent ranges with equal protection are one
				cur.Hi = m.Hi
				continue
			}
			flush()
			cur = m
		}
		flush()
		return sb.String()
	}
	image0 := image()
	if !strings.Contains(image0, "r-xp") {
		t.Fatalf("cannot find the executable image in /proc/self/maps (exe=%q): %q", exe, image0)
	}
	textDiff := func() (n int, lo, hi uintptr) { // changed bytes of .text vs pristine
		cur := c14raw(textLo, int(textHi-textLo))
		if bytes.Equal(cur, pristine) {
			return 0, 0, 0
		}
		first := true
		for i := range cur {
			if cur[i] != pristine[i] {
				n++
				if first {
					lo, first = textLo+uintptr(i), false
				}
				hi = textLo + uintptr(i) + 1
			}
		}
		return
	}
	replVal := reflect.ValueOf(c14repl)
	replIn := uintptr(bytecode.GetPtr(replVal))

	for _, op := range vh.ReadOps() {
		if len(op.Toks) == 0 {
			continue
		}
		kv := map[string]string{}
		for _, tk := range op.Toks[1:] {
			if i := strings.IndexByte(tk, '='); i > 0 {
				kv[tk[:i]] = tk[i+1:]
			}
		}
		switch op.Toks[0] {
		case "c14.survey":
			// GetFuncSize on EVERY function; details go to a side file
			sf, err := os.Create(os.Getenv("VERIF_OUT") + ".survey")
			if err != nil {
				t.Fatal(err)
			}
			for _, s := range syms {
				sz, _ := bytecode.GetFuncSize(64, s.addr, false)
				n := 13
				if s.dist < n {
					n = s.dist
				}
				_, gerr := genJumpData(s.addr, replIn, replVal.Pointer())
				fmt.Fprintf(sf, "%s\t%d\t%d\t%d\t%s\t%s\n", s.name, s.addr, s.dist, sz, vh.Hex(c14raw(s.addr, n)), c14errClass(gerr))
			}
			sf.Close()
			n, _, _ := textDiff()
			out.Put(op.Idx, "funcs=%d text=%#x-%#x textdiff=%d image_same=%v", len(syms), textLo, textHi, n, image() == image0)
		case "c14.gen":
			// c14.gen <funcSize> name=<sym> [inject=1]: the size test of genJumpData on a real function
			s, ok := byName[kv["name"]]
			if !ok {
				out.Put(op.Idx, "no-such-symbol")
				continue
			}
			if kv["inject"] == "1" {
				bytecode.ZZVerifC14SetFuncSize(s.addr, int(vh.U64(op.Toks[1])))
			}
			jd, err := genJumpData(s.addr, replIn, replVal.Pointer())
			if kv["inject"] == "1" {
				bytecode.ZZVerifC14ClearFuncSize(s.addr)
			}
			n, _, _ := textDiff()
			if err != nil {
				out.Put(op.Idx, "err:%s | textdiff=%d", c14errClass(err), n)
			} else {
				out.Put(op.Idx, "ok len=%d | textdiff=%d", len(jd), n)
			}
		case "c14.hist":
			c14hist(op, out, byName, textLo, textHi, pristine, image, image0)
		case "c14.install", "c14.tramp":
			// c14.install <entryOff> <funcSize> <orig13> name=<sym> [inject=1] [tramp=<sym>]
			// ptr=1: any function symbol of the binary, patched by address with patch.Ptr
			fn, ok := zzC14Funcs[strings.TrimPrefix(kv["name"], c14pkg)]
			var entry uintptr
			var mfnRegion uintptr
			var mfnSnap []byte
			if v := kv["mfn"]; v != "" {
				// a target of exactly E code bytes, P bytes of INT3 padding (pad=P, 0..15) and then its successor, in a
				// private executable mapping: the true extent of the target's slot is E+P
				e, pd := int(vh.U64(v)), int(vh.U64(kv["pad"]))
				r, _, er := syscall.Syscall6(syscall.SYS_MMAP, 0, 3*4096, syscall.PROT_READ|syscall.PROT_WRITE, syscall.MAP_PRIVATE|syscall.MAP_ANON, ^uintptr(0), 0)
				if er != 0 {
					panic("c14 probe: mmap: " + er.Error())
				}
				reg := c14raw(r, 3*4096)
				copy(reg[4096:], c14u.PaddedFunc(e, pd))
				for k := range reg {
					if k < 4096 || k >= 4096+len(c14u.PaddedFunc(e, pd)) {
						reg[k] = 0xcc
					}
				}
				syscall.Syscall(syscall.SYS_MPROTECT, r, 3*4096, syscall.PROT_READ|syscall.PROT_EXEC)
				mfnRegion, mfnSnap = r, append([]byte(nil), reg...)
				entry = r + 4096
				kv["ptr"] = "1"
			} else if kv["ptr"] == "1" {
				sy, ok2 := byName[kv["name"]]
				if !ok2 {
					out.Put(op.Idx, "no-such-symbol")
					continue
				}
				entry = sy.addr
			} else if !ok {
				out.Put(op.Idx, "no-such-target")
				continue
			} else {
				entry = reflect.ValueOf(fn).Pointer()
			}
			pbase := entry&^4095 - 4096
			orig13 := append([]byte(nil), c14raw(entry, 13)...)
			mfnStray := func() int { // bytes of the private mapping that changed outside the 13 entry bytes
				if mfnRegion == 0 {
					return 0
				}
				n := 0
				reg := c14raw(mfnRegion, 3*4096)
				for k := range reg {
					a := mfnRegion + uintptr(k)
					if reg[k] != mfnSnap[k] && !(a >= entry && a < entry+13) {
						n++
					}
				}
				return n
			}
			mfnDone := func() {
				if mfnRegion != 0 {
					bytecode.ZZVerifC14ClearFuncSize(entry)
					syscall.Syscall(syscall.SYS_MUNMAP, mfnRegion, 3*4096, 0)
				}
			}
			if kv["inject"] == "1" {
				bytecode.ZZVerifC14SetFuncSize(entry, int(vh.U64(op.Toks[2])))
			}
			var tramp interface{}
			var trampAddr uintptr
			trampSize := 0
			var mphRegion uintptr
			var mphSnap []byte
			mphN := 0
			if v := kv["mph"]; v != "" {
				// a placeholder of exactly N bytes of code with NO padding behind it, directly followed by a neighbour
				// function, in a private executable mapping (a Go function whose code exactly fills its alignment slot
				// looks like this); handed to goom as a func value whose code pointer is that address
				mphN = int(vh.U64(v))
				r, _, e := syscall.Syscall6(syscall.SYS_MMAP, 0, 3*4096, syscall.PROT_READ|syscall.PROT_WRITE, syscall.MAP_PRIVATE|syscall.MAP_ANON, ^uintptr(0), 0)
				if e != 0 {
					panic("c14 probe: mmap: " + e.Error())
				}
				reg := c14raw(r, 3*4096)
				for k := range reg {
					reg[k] = 0xcc
				}
				o := 4096
				for k := 0; k < mphN-1; k++ {
					reg[o+k] = 0x50 // PUSH AX
				}
				reg[o+mphN-1] = 0xc3
				nb := o + mphN
				if v := kv["pad"]; v != "" { // ... or with P bytes of INT3 padding that belong to the placeholder's slot
					nb += int(vh.U64(v))
				}
				for k := 0; k < 63; k++ {
					reg[nb+k] = 0x58 // the neighbour: POP AX ...
				}
				reg[nb+63] = 0xc3
				reg[nb+64+16] = 0xc3 // ends goom's scan of the INT3 padding
				syscall.Syscall(syscall.SYS_MPROTECT, r, 3*4096, syscall.PROT_READ|syscall.PROT_EXEC)
				mphRegion, mphSnap = r, append([]byte(nil), reg...)
				code := &struct{ pc uintptr }{r + 4096}
				tramp = *(*func(int, int) int)(unsafe.Pointer(&code))
				trampAddr = r + 4096
				trampSize, _ = bytecode.GetFuncSize(64, trampAddr, false)
			} else if tn := kv["tramp"]; tn != "" {
				tramp = zzC14Funcs[strings.TrimPrefix(tn, c14pkg)]
				trampAddr = reflect.ValueOf(tramp).Pointer()
				trampSize, _ = bytecode.GetFuncSize(64, trampAddr, false)
			}
			c14u.Begin(3 * op.Idx)
			var g *Guard
			var err error
			pc := "-"
			func() {
				defer func() {
					if r := recover(); r != nil {
						pc = c14u.PanicClass(r)
					}
				}()
				if kv["ptr"] == "1" { // (also the private-mapping targets)
					g, err = Ptr(entry, c14repl)
				} else if tramp != nil {
					g, err = Trampoline(fn, c14repl, tramp)
				} else {
					g, err = Patch(fn, c14repl)
				}
			}()
			c14u.End(3 * op.Idx)
			if kv["inject"] == "1" {
				bytecode.ZZVerifC14ClearFuncSize(entry)
			}
			if err != nil || pc != "-" {
				n, _, _ := textDiff()
				// a refused patch stays registered in `patches` (patch.go:109): forget it so later ops start clean
				lock()
				delete(patches, entry)
				unlock()
				if mphRegion != 0 {
					changed := 0
					reg := c14raw(mphRegion, 3*4096)
					for k := range reg {
						if reg[k] != mphSnap[k] {
							changed++
						}
					}
					n += changed // a refused install must not have written to the placeholder either
					bytecode.ZZVerifC14ClearFuncSize(trampAddr)
					syscall.Syscall(syscall.SYS_MUNMAP, mphRegion, 3*4096, 0)
				}
				n += mfnStray()
				if mfnRegion != 0 && !bytes.Equal(c14raw(entry, 13), orig13) {
					n += 13
				}
				mfnDone()
				out.Put(op.Idx, "refused:%s | panic=%s textdiff=%d image_same=%v pbase=%#x", c14errClass(err), pc, n, image() == image0, pbase)
				continue
			}
			nPatch, plo, phi := textDiff() // after replaceFunc: only the placeholder may have changed
			// what the guard holds (guard.go:14-16): the saved original bytes must have the jump's length (patch.go:123)
			obLen, jbLen := len(g.originBytes), len(g.jumpBytes)
			// Make the EXTENT of the two writes observable: a write of identical bytes is invisible in a diff, so the
			// bytes [13, scrHi) behind the entry jump (inside the target's own extent) are overwritten with a pattern
			// that differs from the original in every byte, using raw syscalls (not the code under test).
			scrHi := 0
			if sy, ok := byAddr[entry]; ok && tramp == nil {
				scrHi = sy.dist
				if scrHi > 40 {
					scrHi = 40
				}
				if scrHi < 14 {
					scrHi = 0
				}
			}
			poke := func(src func(i int) byte) {
				if scrHi == 0 {
					return
				}
				p := (entry + 13) &^ 4095
				ln := (entry+uintptr(scrHi)+4095)&^4095 - p
				syscall.Syscall(syscall.SYS_MPROTECT, p, ln, syscall.PROT_READ|syscall.PROT_WRITE|syscall.PROT_EXEC)
				dst := c14raw(entry, scrHi)
				for i := 13; i < scrHi; i++ {
					dst[i] = src(i)
				}
				syscall.Syscall(syscall.SYS_MPROTECT, p, ln, syscall.PROT_READ|syscall.PROT_EXEC)
			}
			origAt := func(i int) byte {
				if entry < textLo || entry >= textHi {
					return 0
				}
				return pristine[entry-textLo+uintptr(i)]
			}
			poke(func(i int) byte { return origAt(i) ^ 0xa5 })
			snap := func() []byte {
				n := scrHi
				if n < 13 {
					n = 13
				}
				return append([]byte(nil), c14raw(entry, n)...)
			}
			extent := func(a, b []byte) string { // positions where a write changed something, as lo..hi
				lo, hi := -1, -1
				for i := range a {
					if a[i] != b[i] {
						if lo < 0 {
							lo = i
						}
						hi = i + 1
					}
				}
				if lo < 0 {
					return "none"
				}
				return fmt.Sprintf("%d..%d", lo, hi)
			}
			scribbleOK := func(cur []byte) bool {
				for i := 13; i < scrHi; i++ {
					if cur[i] != origAt(i)^0xa5 {
						return false
					}
				}
				return true
			}
			s0 := snap()
			c14u.Begin(3*op.Idx + 1)
			g.Apply()
			c14u.End(3*op.Idx + 1)
			s1 := snap()
			after := append([]byte(nil), c14raw(entry, 13)...)
			toOK := len(after) == 13 && binary.LittleEndian.Uint64(after[3:11]) == uint64(replIn)
			nApply, lo, hi := textDiff()
			imgApplied := image() == image0
			// every changed byte must be inside the entry jump or inside the placeholder's own body
			trampDist := trampSize // the placeholder's own body: up to the next symbol, whatever goom's scan says
			if sy, ok := byAddr[trampAddr]; ok && tramp != nil && sy.dist < trampDist {
				trampDist = sy.dist
			}
			strayDist := 0
			mphHi := 0
			if mphRegion != 0 {
				reg0 := c14raw(mphRegion, 3*4096)
				for k := range reg0 {
					if reg0[k] != mphSnap[k] && k-4096+1 > mphHi {
						mphHi = k - 4096 + 1
					}
				}
				trampDist = mphN
				if v := kv["pad"]; v != "" {
					trampDist += int(vh.U64(v))
				}
				reg := c14raw(mphRegion, 3*4096)
				for k := range reg {
					a := mphRegion + uintptr(k)
					if reg[k] != mphSnap[k] && !(a >= trampAddr && a < trampAddr+uintptr(trampDist)) {
						strayDist++
					}
				}
			}
			stray := 0
			if nApply > 0 {
				cur := c14raw(textLo, int(textHi-textLo))
				for a := lo; a < hi; a++ {
					if cur[a-textLo] != pristine[a-textLo] {
						if scrHi > 0 && a >= entry+13 && a < entry+uintptr(scrHi) {
							continue // the probe's own scribble (checked separately)
						}
						inEntry := a >= entry && a < entry+13
						inTramp := tramp != nil && a >= trampAddr && a < trampAddr+uintptr(trampSize)
						if !inEntry && !inTramp {
							stray++
						}
						if !inEntry && inTramp && a >= trampAddr+uintptr(trampDist) {
							strayDist++
						}
					}
				}
			}
			mfnStrayApplied := mfnStray()
			c14u.Begin(3*op.Idx + 2)
			g.UnpatchWithLock()
			c14u.End(3*op.Idx + 2)
			s2 := snap()
			applyExt, unpatchExt := extent(s0, s1), extent(s1, s2)
			scr := scribbleOK(s1) && scribbleOK(s2)
			poke(origAt) // put the original bytes back
			back := c14raw(entry, 13)
			restored := bytes.Equal(back, orig13)
			nAfter, alo, ahi := textDiff()
			strayAfter := 0
			if nAfter > 0 { // the placeholder legitimately keeps the relocated copy; anything else is stray
				cur := c14raw(textLo, int(textHi-textLo))
				for a := alo; a < ahi; a++ {
					if cur[a-textLo] != pristine[a-textLo] && !(tramp != nil && a >= trampAddr && a < trampAddr+uintptr(trampSize)) {
						strayAfter++
					}
				}
			}
			lock()
			delete(patches, entry)
			unlock()
			if mphRegion != 0 {
				bytecode.ZZVerifC14ClearFuncSize(trampAddr)
				syscall.Syscall(syscall.SYS_MUNMAP, mphRegion, 3*4096, 0)
			} else if tramp != nil { // put the placeholder back for the next op (probe housekeeping, outside the markers)
				p := trampAddr &^ 4095
				ln := (trampAddr+uintptr(trampSize)+4095)&^4095 - p
				syscall.Syscall(syscall.SYS_MPROTECT, p, ln, syscall.PROT_READ|syscall.PROT_WRITE|syscall.PROT_EXEC)
				copy(c14raw(trampAddr, trampSize), pristine[trampAddr-textLo:])
				syscall.Syscall(syscall.SYS_MPROTECT, p, ln, syscall.PROT_READ|syscall.PROT_EXEC)
			}
			_ = plo
			out.Put(op.Idx, "apply=ok entry=%s unpatch=ok restored=%v lens=%d/%d | apply_ext=%s unpatch_ext=%s scribble=%v scr_hi=%d to_ok=%v n_patch=%d tramp_written=%d..%d n_apply=%d stray=%d stray_after=%d image_applied=%v image_after=%v pbase=%#x entry=%#x tramp=%#x trampsize=%d trampdist=%d stray_dist=%d mfn_stray=%d mph_hi=%d",
				c14maskJump(after), restored, obLen, jbLen, applyExt, unpatchExt, scr, scrHi, toOK, nPatch, int64(plo)-int64(trampAddr), int64(phi)-int64(trampAddr), nApply, stray, strayAfter, imgApplied, image() == image0, pbase, entry, trampAddr, trampSize, trampDist, strayDist, mfnStrayApplied+mfnStray(), mphHi)
			mfnDone()
		}
	}
	if n, _, _ := textDiff(); n != 0 {
		t.Logf("text differs from pristine at exit: %d bytes", n)
	}
}

// ---- histories ------------------------------------------------------------------------------------------------

type c14target struct {
	scr    []byte // T: what bytes [13, 13+len) behind the entry hold during the history (scribbled by the probe)
	snap   []byte // M: the whole mapping as created
	isM    bool
	fn     interface{} // T: the function value
	entry  uintptr
	first  []byte
	region uintptr // M: start of its 3-page mapping (0 once unmapped)
}

func c14pokeText(addr uintptr, b []byte) { // raw write into text, not through the code under test
	p := addr &^ 4095
	ln := (addr+uintptr(len(b))+4095)&^4095 - p
	syscall.Syscall(syscall.SYS_MPROTECT, p, ln, syscall.PROT_READ|syscall.PROT_WRITE|syscall.PROT_EXEC)
	copy(c14raw(addr, len(b)), b)
	syscall.Syscall(syscall.SYS_MPROTECT, p, ln, syscall.PROT_READ|syscall.PROT_EXEC)
}

// c14hist runs one history `c14.hist <targets> | <steps>` on real text (and on private executable mappings for the M
// targets), one marker pair per step (marker id 64*line+step).
func c14hist(op vh.Op, out *vh.Out, byName map[string]c14sym, textLo, textHi uintptr, pristine []byte, image func() string, image0 string) {
	if len(op.Toks) < 4 || op.Toks[2] != "|" {
		out.Put(op.Idx, "bad-op")
		return
	}
	var ts []*c14target
	var mbases []string
	for i, spec := range strings.Split(op.Toks[1], ",") {
		f := strings.Split(spec, ":")
		name := f[len(f)-1]
		src, ok := byName[name]
		fn, ok2 := zzC14Funcs[strings.TrimPrefix(name, c14pkg)]
		if (!ok || !ok2) && f[0] != "S" {
			out.Put(op.Idx, "no-such-target")
			return
		}
		t := &c14target{fn: fn}
		if f[0] == "S" {
			// S:<E>:<P>:…  a function of E code bytes + P INT3 bytes + its successor at the start of the middle page of a
			// private executable mapping (true slot E+P)
			e, pd := int(vh.U64(f[1])), int(vh.U64(f[2]))
			r, _, er := syscall.Syscall6(syscall.SYS_MMAP, 0, 3*4096, syscall.PROT_READ|syscall.PROT_WRITE, syscall.MAP_PRIVATE|syscall.MAP_ANON, ^uintptr(0), 0)
			if er != 0 {
				panic("c14 probe: mmap: " + er.Error())
			}
			reg := c14raw(r, 3*4096)
			for k := range reg {
				reg[k] = 0xcc
			}
			copy(reg[4096:], c14u.PaddedFunc(e, pd))
			syscall.Syscall(syscall.SYS_MPROTECT, r, 3*4096, syscall.PROT_READ|syscall.PROT_EXEC)
			t.isM, t.region, t.entry = true, r, r+4096
			t.snap = append([]byte(nil), reg...)
			mbases = append(mbases, fmt.Sprintf("%d:%#x", i, r))
		} else if f[0] == "M" {
			off := uintptr(vh.U64(f[1]))
			r, _, e := syscall.Syscall6(syscall.SYS_MMAP, 0, 3*4096, syscall.PROT_READ|syscall.PROT_WRITE, syscall.MAP_PRIVATE|syscall.MAP_ANON, ^uintptr(0), 0)
			if e != 0 {
				panic("c14 probe: mmap: " + e.Error())
			}
			reg := c14raw(r, 3*4096)
			for k := range reg {
				reg[k] = 0xcc
			}
			// from the pristine image: the source function may itself be a target of this history whose bytes behind the
			// entry the probe has scribbled (the copy would then scan differently from the original)
			code := pristine[src.addr-textLo : src.addr-textLo+uintptr(src.dist)]
			copy(reg[4096+off:], code)
			if int(4096+off)+len(code)+16 < len(reg) {
				reg[int(4096+off)+len(code)+16] = 0xc3 // ends goom's scan of the INT3 padding
			}
			syscall.Syscall(syscall.SYS_MPROTECT, r, 3*4096, syscall.PROT_READ|syscall.PROT_EXEC)
			t.isM, t.region, t.entry = true, r, r+4096+off
			t.snap = append([]byte(nil), reg...)
			mbases = append(mbases, fmt.Sprintf("%d:%#x", i, r))
		} else {
			t.entry = reflect.ValueOf(fn).Pointer()
			// make the extent of every later write observable: bytes [13, hi) of the target get a pattern that differs
			// from the original in every byte (raw syscalls, not the code under test); restored at the end
			hi := src.dist
			if hi > 40 {
				hi = 40
			}
			dup := false
			for _, o := range ts {
				dup = dup || o.entry == t.entry
			}
			bytecode.GetFuncSize(64, t.entry, false) // goom caches the scanned size: take it from the pristine bytes
			if hi > 13 && !dup && f[0] != "C" { // C: a caller whose code goom may decode later — left as it is
				t.scr = make([]byte, hi-13)
				for k := range t.scr {
					t.scr[k] = pristine[t.entry-textLo+13+uintptr(k)] ^ 0xa5
				}
				c14pokeText(t.entry+13, t.scr)
			}
		}
		t.first = append([]byte(nil), c14raw(t.entry, 13)...)
		ts = append(ts, t)
	}
	guards := make([]*Guard, len(ts))
	_ = guards
	vec := func() string {
		var sb strings.Builder
		for _, t := range ts {
			switch cur := []byte(nil); {
			case t.isM && t.region == 0:
				sb.WriteByte('u')
			default:
				cur = c14raw(t.entry, 13)
				if bytes.Equal(cur, t.first) {
					sb.WriteByte('o')
				} else if cur[0] == 0x90 && cur[1] == 0x48 && cur[2] == 0xba && cur[11] == 0xff && cur[12] == 0x22 {
					sb.WriteByte('j')
				} else {
					sb.WriteByte('?')
				}
			}
		}
		return sb.String()
	}
	stray := func() int { // bytes that differ from what they must be, outside the 13 entry bytes of the targets
		cur := c14raw(textLo, int(textHi-textLo))
		n := 0
		for k := range cur {
			if cur[k] != pristine[k] {
				a := textLo + uintptr(k)
				in := false
				for _, t := range ts {
					if !t.isM && a >= t.entry && a < t.entry+13 {
						in = true
					}
					if !t.isM && a >= t.entry+13 && a < t.entry+13+uintptr(len(t.scr)) && cur[k] == t.scr[a-t.entry-13] {
						in = true // the probe's scribble, intact
					}
				}
				if !in {
					n++
				}
			}
		}
		for _, t := range ts { // a scribbled byte that went back to the original was overwritten too
			for k := range t.scr {
				if c14raw(t.entry+13+uintptr(k), 1)[0] != t.scr[k] {
					n++
				}
			}
			if t.isM && t.region != 0 {
				reg := c14raw(t.region, 3*4096)
				for k := range reg {
					a := t.region + uintptr(k)
					if reg[k] != t.snap[k] && !(a >= t.entry && a < t.entry+13) {
						n++
					}
				}
			}
		}
		return n
	}
	lens := func() string {
		var parts []string
		for _, g := range guards {
			if g == nil {
				parts = append(parts, "-")
			} else {
				parts = append(parts, fmt.Sprintf("%d/%d", len(g.originBytes), len(g.jumpBytes)))
			}
		}
		return strings.Join(parts, ",")
	}
	mperm := func() string {
		ms := c14u.Maps()
		var sb strings.Builder
		for _, t := range ts {
			if t.isM && t.region != 0 {
				for k := uintptr(0); k < 3; k++ {
					sb.WriteString(c14u.PermLetter(ms, t.region+k*4096))
				}
				sb.WriteByte('/')
			}
		}
		return sb.String()
	}
	var cmp, extra []string
	for sn, st := range op.Toks[3:] {
		if sn >= 60 {
			break
		}
		f := strings.SplitN(st, ".", 2)
		idx := -1
		if len(f) == 2 {
			idx = int(vh.U64(f[1]))
			if idx >= len(ts) {
				cmp = append(cmp, st+"=bad-step")
				break
			}
		}
		res := "ok"
		c14u.Begin(64*op.Idx + sn)
		func() {
			defer func() {
				if r := recover(); r != nil {
					res = "panic"
				}
			}()
			switch f[0] {
			case "patch":
				var g *Guard
				var err error
				if ts[idx].isM {
					g, err = Ptr(ts[idx].entry, c14repl)
				} else {
					g, err = Patch(ts[idx].fn, c14repl)
				}
				if err != nil {
					res = "refused:" + c14errClass(err)
				} else {
					guards[idx] = g
				}
			case "apply":
				if guards[idx] == nil {
					res = "noop"
				} else {
					guards[idx].Apply()
				}
			case "unpatch":
				if guards[idx] == nil || !guards[idx].applied {
					res = "noop"
				} else {
					guards[idx].UnpatchWithLock()
				}
			case "restore":
				if guards[idx] == nil || !guards[idx].applied {
					res = "noop"
				} else {
					guards[idx].Restore()
				}
			case "unpatchfn":
				lock()
				defer unlock()
				if ts[idx].isM {
					if !unpatchValue(ts[idx].entry) {
						res = "noop"
					}
				} else if !Unpatch(ts[idx].fn) { // the public entry point
					res = "noop"
				}
			case "unpatchall":
				lock()
				defer unlock()
				UnpatchAll()
			case "unmap":
				if ts[idx].isM && ts[idx].region != 0 {
					syscall.Syscall(syscall.SYS_MUNMAP, ts[idx].region, 3*4096, 0)
					ts[idx].region = 0
				}
			default:
				res = "bad-step"
			}
		}()
		c14u.End(64*op.Idx + sn)
		cmp = append(cmp, fmt.Sprintf("%s=%s{%s;%s}", st, res, vec(), lens()))
		extra = append(extra, fmt.Sprintf("%d:img=%v,stray=%d,mperm=%s", sn, image() == image0, stray(), mperm()))
	}
	// ---- housekeeping: forget everything, put the text back
	lock()
	for k := range patches {
		delete(patches, k)
	}
	unlock()
	for _, t := range ts {
		if t.isM {
			bytecode.ZZVerifC14ClearFuncSize(t.entry) // the address may be reused by another mapping
			if t.region != 0 {
				syscall.Syscall(syscall.SYS_MUNMAP, t.region, 3*4096, 0)
			}
		} else {
			if !bytes.Equal(c14raw(t.entry, 13), t.first) {
				c14pokeText(t.entry, t.first)
			}
			if len(t.scr) > 0 {
				c14pokeText(t.entry+13, pristine[t.entry-textLo+13:t.entry-textLo+13+uintptr(len(t.scr))])
			}
		}
	}
	out.Put(op.Idx, "%s | mbases=%s %s", strings.Join(cmp, " "), strings.Join(mbases, ","), strings.Join(extra, " "))
}
