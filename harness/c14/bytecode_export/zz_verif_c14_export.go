package bytecode

// ZZVerifC14SetFuncSize seeds the GetFuncSize cache for start (verification probe only; this file is injected with
// `go test -overlay`, it is never written into the repository).
func ZZVerifC14SetFuncSize(start uintptr, n int) {
	funcSizeReadLock.Lock()
	funcSizeCache[start] = n
	funcSizeReadLock.Unlock()
}

// ZZVerifC14ClearFuncSize forgets the cached size of start.
func ZZVerifC14ClearFuncSize(start uintptr) {
	funcSizeReadLock.Lock()
	delete(funcSizeCache, start)
	funcSizeReadLock.Unlock()
}
