package memory

import (
	"bytes"
	"fmt"
	"os"
	"reflect"
	"runtime"
	"strings"
	"sync"
	"sync/atomic"
	"syscall"
	"testing"
	"unsafe"

	"github.com/tencent/goom/internal/zzverif/c14u"
	"github.com/tencent/goom/internal/zzverif/vh"
)

const c14MaxPages = 8

func c14raw(addr uintptr, n int) []byte {
	var b []byte
	h := (*reflect.SliceHeader)(unsafe.Pointer(&b))
	h.Data, h.Len, h.Cap = addr, n, n
	return b
}

func c14must(errno syscall.Errno, what string) {
	if errno != 0 {
		panic(fmt.Sprintf("c14 probe setup: %s: %v", what, errno))
	}
}

// TestVerifC14 runs goom's real WriteTo / PageStart on the operation stream, on a private scratch region.
func TestVerifC14(t *testing.T) { c14run(t, false) }

// TestVerifC14WX does the same for `c14.writewx` ops with a W^X kernel policy: a seccomp filter on this (locked) thread
// refuses every mprotect that asks for write+execute with EACCES, as SELinux execmem / macOS do, so WriteTo takes its
// fall-back (mwrite_prot.go writeTo).
func TestVerifC14WX(t *testing.T) { c14run(t, true) }

type c14sockFilter struct {
	code   uint16
	jt, jf uint8
	k      uint32
}
type c14sockFprog struct {
	n    uint16
	_    [6]byte
	filt *c14sockFilter
}

func c14denyWX() error {
	prog := []c14sockFilter{
		{0x20, 0, 0, 0},               // A = syscall nr
		{0x15, 0, 3, 10},              // != mprotect -> allow
		{0x20, 0, 0, 32},              // A = low word of arg 2 (prot)
		{0x54, 0, 0, 6},               // A &= PROT_WRITE|PROT_EXEC
		{0x15, 1, 0, 6},               // == both -> errno
		{0x06, 0, 0, 0x7fff0000},      // SECCOMP_RET_ALLOW
		{0x06, 0, 0, 0x00050000 | 13}, // SECCOMP_RET_ERRNO | EACCES
	}
	fp := c14sockFprog{n: uint16(len(prog)), filt: &prog[0]}
	if _, _, e := syscall.Syscall6(syscall.SYS_PRCTL, 38 /*PR_SET_NO_NEW_PRIVS*/, 1, 0, 0, 0, 0); e != 0 {
		return e
	}
	if _, _, e := syscall.Syscall6(syscall.SYS_PRCTL, 22 /*PR_SET_SECCOMP*/, 2 /*FILTER*/, uintptr(unsafe.Pointer(&fp)), 0, 0, 0); e != 0 {
		return e
	}
	return nil
}

func c14run(t *testing.T, wx bool) {
	if syscall.Getpagesize() != 4096 {
		t.Fatalf("page size %d: the model's extern syscall.Getpagesize()=4096 does not hold", syscall.Getpagesize())
	}
	runtime.LockOSThread()
	out := vh.OpenOut()
	defer out.Close()
	writeOp := "c14.write"
	if wx {
		writeOp = "c14.writewx"
		if err := c14denyWX(); err != nil {
			t.Fatalf("cannot install the seccomp W^X filter: %v", err)
		}
		// the filter must really be in force, or the lane would silently test the normal path
		pg, _, _ := syscall.Syscall6(syscall.SYS_MMAP, 0, 4096, syscall.PROT_READ, syscall.MAP_PRIVATE|syscall.MAP_ANON, ^uintptr(0), 0)
		if _, _, e := syscall.Syscall(syscall.SYS_MPROTECT, pg, 4096, 7); e != syscall.EACCES {
			t.Fatalf("seccomp W^X filter not in force: mprotect(rwx) = %v", e)
		}
	}
	// reserve guard | region | guard, all PROT_NONE
	total := uintptr(c14MaxPages+2) * 4096
	r0, _, e := syscall.Syscall6(syscall.SYS_MMAP, 0, total, syscall.PROT_NONE, syscall.MAP_PRIVATE|syscall.MAP_ANON, ^uintptr(0), 0)
	c14must(e, "mmap reserve")
	base := r0 + 4096
	hdr, err := os.Create(os.Getenv("VERIF_OUT") + ".hdr")
	if err != nil {
		t.Fatal(err)
	}
	fmt.Fprintf(hdr, "pid=%d tid=%d base=%#x\n", os.Getpid(), syscall.Gettid(), base)
	hdr.Close()

	for _, op := range vh.ReadOps() {
		if len(op.Toks) == 0 {
			continue
		}
		switch op.Toks[0] {
		case "c14.ps":
			if len(op.Toks) != 2 || wx {
				continue
			}
			out.Put(op.Idx, "ps=%#x", PageStart(uintptr(vh.U64(op.Toks[1]))))
		case "c14.conc":
			// c14.conc <writers> <iterations>: concurrent WriteTo calls into ONE page (disjoint 13-byte slots).  Every write
			// must land although another writer closes the page in between — goom serialises the whole open/copy/close
			// sequence.  A write that faults kills the process: then this op has no observation.
			if wx || len(op.Toks) != 3 {
				continue
			}
			nw, iters := int(vh.U64(op.Toks[1])), int(vh.U64(op.Toks[2]))
			_, _, e := syscall.Syscall6(syscall.SYS_MMAP, base, uintptr(c14MaxPages)*4096, syscall.PROT_READ|syscall.PROT_EXEC,
				syscall.MAP_PRIVATE|syscall.MAP_ANON|syscall.MAP_FIXED, ^uintptr(0), 0)
			c14must(e, "mmap region")
			var ready, bad int32
			var wg sync.WaitGroup
			for w := 0; w < nw; w++ {
				wg.Add(1)
				go func(w int) {
					defer wg.Done()
					atomic.AddInt32(&ready, 1)
					for atomic.LoadInt32(&ready) < int32(nw) { // spin barrier: all writers run at once
					}
					slot := base + 4096 - 100 + uintptr(w)*16 // around the first page end: some slots straddle it
					buf := make([]byte, 13)
					for it := 0; it < iters; it++ {
						for k := range buf {
							buf[k] = byte(w*31 + it + k)
						}
						if err := WriteTo(slot, buf); err != nil {
							atomic.AddInt32(&bad, 1)
						}
						if !bytes.Equal(c14raw(slot, 13), buf) {
							atomic.AddInt32(&bad, 1)
						}
					}
				}(w)
			}
			wg.Wait()
			ms := c14u.Maps()
			out.Put(op.Idx, "oracle-only | bad=%d perms=%s%s", bad, c14u.PermLetter(ms, base), c14u.PermLetter(ms, base+4096))
		case "c14.write", "c14.writewx":
			if len(op.Toks) != 4 || op.Toks[0] != writeOp {
				continue
			}
			off := int(vh.U64(op.Toks[1]))
			data := vh.UnHex(op.Toks[2])
			perms := strings.Split(op.Toks[3], ",")
			k := len(perms)
			if k > c14MaxPages || off+len(data) > k*4096 {
				out.Put(op.Idx, "probe-refuses-out-of-region")
				continue
			}
			// ---- setup (before the begin marker): fresh RW pages with the pattern, then the requested protections
			_, _, e := syscall.Syscall6(syscall.SYS_MMAP, base, uintptr(c14MaxPages)*4096, syscall.PROT_READ|syscall.PROT_WRITE,
				syscall.MAP_PRIVATE|syscall.MAP_ANON|syscall.MAP_FIXED, ^uintptr(0), 0)
			c14must(e, "mmap region")
			reg := c14raw(base, k*4096)
			for i := range reg {
				reg[i] = c14u.Pat(i)
			}
			_, _, e = syscall.Syscall(syscall.SYS_MPROTECT, base+uintptr(k)*4096, uintptr(c14MaxPages-k+1)*4096, syscall.PROT_NONE)
			c14must(e, "mprotect tail")
			for i, p := range perms {
				pa := base + uintptr(i)*4096
				var prot uintptr
				switch p {
				case "x":
					prot = syscall.PROT_READ | syscall.PROT_EXEC
				case "w":
					prot = syscall.PROT_READ | syscall.PROT_WRITE | syscall.PROT_EXEC
				case "r":
					prot = syscall.PROT_READ
				case "d":
					prot = syscall.PROT_READ | syscall.PROT_WRITE
				case "u":
					_, _, e = syscall.Syscall(syscall.SYS_MUNMAP, pa, 4096, 0)
					c14must(e, "munmap")
					continue
				default:
					panic("bad perm letter " + p)
				}
				_, _, e = syscall.Syscall(syscall.SYS_MPROTECT, pa, 4096, prot)
				c14must(e, "mprotect setup")
			}
			// ---- the real call, bracketed by markers
			ret := "nil"
			c14u.Begin(op.Idx)
			func() {
				defer func() {
					if r := recover(); r != nil {
						ret = "panic:" + c14u.PanicClass(r)
					}
				}()
				if err := WriteTo(base+uintptr(off), data); err != nil {
					ret = "err"
				}
			}()
			c14u.End(op.Idx)
			// ---- observe
			ms := c14u.Maps()
			pl := make([]string, k)
			for i := range pl {
				pl[i] = c14u.PermLetter(ms, base+uintptr(i)*4096)
			}
			type seg struct{ lo, hi int }
			top := k * 4096
			clip := func(lo, hi int) seg {
				if lo < 0 {
					lo = 0
				}
				if hi > top {
					hi = top
				}
				return seg{lo, hi}
			}
			var segs []seg
			if len(data) <= 96 {
				segs = append(segs, clip(off-16, off+len(data)+16))
			} else {
				segs = append(segs, clip(off-16, off+32))
				for b := 0; b <= top; b += 4096 {
					if off < b && b < off+len(data) {
						segs = append(segs, clip(b-8, b+8))
					}
				}
				segs = append(segs, clip(off+len(data)-32, off+len(data)+16))
			}
			readable := func(i int) bool { return pl[i/4096] != "u" && pl[i/4096] != "n" }
			var wins []string
			for _, sg := range segs {
				var win strings.Builder
				for i := sg.lo; i < sg.hi; i++ {
					if readable(i) {
						fmt.Fprintf(&win, "%02x", reg[i])
					} else {
						win.WriteString("..")
					}
				}
				w := win.String()
				if w == "" {
					w = "-"
				}
				wins = append(wins, fmt.Sprintf("%d:%s", sg.lo, w))
			}
			outside, inside := 0, 0
			for i := 0; i < top; i++ {
				if !readable(i) {
					continue
				}
				if i >= off && i < off+len(data) {
					if reg[i] != data[i-off] {
						inside++
					}
				} else if reg[i] != c14u.Pat(i) {
					outside++
				}
			}
			guards := c14u.PermLetter(ms, base-4096) + c14u.PermLetter(ms, base+uintptr(c14MaxPages)*4096)
			out.Put(op.Idx, "win=%s perms=%s | ret=%s outside=%d wrong=%d guards=%s", strings.Join(wins, ";"), strings.Join(pl, ","), ret, outside, inside, guards)
		}
	}
}
