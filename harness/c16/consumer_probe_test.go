package bytecode

// C16 consumer probe, injected into goom's internal/bytecode with `go test -overlay` (compiles ins_amd64.go, func_amd64.go, addr.go,
// inline_check_amd64.go; the package init runs checkInlineDisable, i.e. the ParseIns loop on a real function).
//   c16.scan  <hex>  the `pos = pos + ins.Len` loop over ParseIns (inline_check_amd64.go:23 shape) → pos=<final position>
//   c16.fsize <hex>  GetFuncSize(64, &image[0], false) on a memory image that ends in INT3 padding + prologue → size=<n>

import (
	"bufio"
	"fmt"
	"os"
	"strings"
	"testing"
	"unsafe"

	"github.com/tencent/goom/internal/zzverif/vh"
)

var keep [][]byte // images stay alive and distinct: GetFuncSize caches by start address

func scanAll(code []byte) (res string) {
	defer func() {
		if r := recover(); r != nil {
			res = "panic"
		}
	}()
	pos := 0
	for steps := 0; pos < len(code); steps++ {
		if steps > len(code)+1 {
			return "no-progress"
		}
		ins, win, err := ParseIns(pos, code)
		if err != nil || ins == nil {
			break
		}
		if ins.Len > len(win) || ins.Len < 1 {
			return fmt.Sprintf("bad-len=%d", ins.Len)
		}
		pos += ins.Len
	}
	return fmt.Sprintf("pos=%d", pos)
}

func fsize(img []byte) (res string) {
	defer func() {
		if r := recover(); r != nil {
			res = "panic"
		}
	}()
	buf := make([]byte, len(img)+64) // slack: never read outside our own allocation even if an edit breaks the stop conditions
	copy(buf, img)
	keep = append(keep, buf)
	n, err := GetFuncSize(64, uintptr(unsafe.Pointer(&buf[0])), false)
	if err != nil {
		return "err"
	}
	return fmt.Sprintf("size=%d", n)
}

func TestVerifC16Consumers(t *testing.T) {
	f, err := os.Open(os.Getenv("VERIF_OPS"))
	if err != nil {
		t.Fatal(err)
	}
	defer f.Close()
	of, err := os.Create(os.Getenv("VERIF_OUT"))
	if err != nil {
		t.Fatal(err)
	}
	w := bufio.NewWriterSize(of, 1<<20)
	defer func() { w.Flush(); of.Close() }()
	sc := bufio.NewScanner(f)
	sc.Buffer(make([]byte, 1<<16), 1<<22)
	for i := 0; sc.Scan(); i++ {
		toks := strings.Fields(sc.Text())
		if len(toks) != 2 {
			continue
		}
		switch toks[0] {
		case "c16.scan":
			fmt.Fprintf(w, "%d\t%s\n", i, scanAll(vh.UnHex(toks[1])))
		case "c16.fsize":
			fmt.Fprintf(w, "%d\t%s\n", i, fsize(vh.UnHex(toks[1])))
		}
	}
}
