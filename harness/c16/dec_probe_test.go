package x86asm

// C16 probe, injected into goom's internal/arch/x86asm with `go test -overlay`.
//
// TestVerifC16      ops mode : every `c16.dec <hex>` line of $VERIF_OPS is decoded by goom's Decode (→ $VERIF_OUT) and by the
//                              toolchain's newer x86asm copy (→ $VERIF_OUT.ref), panics recovered and reported as err=panic.
// TestVerifC16Text  text mode: walks the .text of the ELF files in $VERIF_ELFS (first entry "self" = this test binary) function
//                              by function (gosym table from .gopclntab) with the reference decoder, decodes every instruction
//                              window with both decoders, applies the property oracle, counts agreement, and writes the distinct
//                              instruction encodings (with their first-seen 16-byte window) to $VERIF_OUT for the model run.

import (
	"bufio"
	"debug/elf"
	"debug/gosym"
	"encoding/hex"
	"fmt"
	"os"
	"sort"
	"strings"
	"testing"

	refx86 "github.com/tencent/goom/internal/zzverif/refx86"
	"github.com/tencent/goom/internal/zzverif/vh"
)

type obs struct {
	err             string
	len             int
	op              string
	pcrel, pcreloff int
	opcode          uint32
}

func (o obs) String() string {
	return fmt.Sprintf("err=%s len=%d op=%s pcrel=%d pcreloff=%d opcode=0x%x", o.err, o.len, o.op, o.pcrel, o.pcreloff, o.opcode)
}

func errClass(err error) string {
	switch err {
	case nil:
		return "ok"
	case ErrTruncated:
		return "trunc"
	case ErrUnrecognized:
		return "unrec"
	case errInternal:
		return "internal"
	}
	return "other"
}

func refErrClass(err error) string {
	switch err {
	case nil:
		return "ok"
	case refx86.ErrTruncated:
		return "trunc"
	case refx86.ErrUnrecognized:
		return "unrec"
	}
	if err != nil && err.Error() == "internal error" {
		return "internal"
	}
	return "other"
}

func goomDecode(b []byte) (o obs) {
	defer func() {
		if r := recover(); r != nil {
			o = obs{err: "panic", op: "Op(0)"}
		}
	}()
	in, err := Decode(b, 64)
	if err == nil {
		// anchor inst.go: consumers call Inst.String() / Arg.String() (fix_addr_amd64.go:89, addr.go:31); a panic there counts
		_ = in.String()
		for _, a := range in.Args {
			if a != nil {
				_ = a.String()
			}
		}
	}
	return obs{errClass(err), in.Len, in.Op.String(), in.PCRel, in.PCRelOff, in.Opcode}
}

func refDecode(b []byte) (o obs) {
	defer func() {
		if r := recover(); r != nil {
			o = obs{err: "panic", op: "Op(0)"}
		}
	}()
	in, err := refx86.Decode(b, 64)
	return obs{refErrClass(err), in.Len, in.Op.String(), in.PCRel, in.PCRelOff, in.Opcode}
}

// oracle is the property stated on goom's own answer (independent of model and reference).
func oracle(b []byte, o obs) string {
	n := len(b)
	switch {
	case o.err == "panic":
		return "decoder panicked"
	case o.err == "ok" && (o.len < 1 || o.len > 15):
		return "length outside 1..15"
	case o.len > n:
		return "length beyond the bytes supplied"
	case o.len < 0:
		return "negative length"
	case o.pcrel != 0 && !(o.pcrel == 1 || o.pcrel == 2 || o.pcrel == 4):
		return "PCRel width not 1/2/4"
	case o.pcrel != 0 && (o.pcreloff <= 0 || o.pcreloff+o.pcrel > o.len):
		return "PC-relative field outside the instruction"
	case o.pcrel == 0 && o.pcreloff != 0:
		return "PCRelOff set without PCRel"
	case o.err == "ok" && o.pcrel != 0 && o.opcode == 0:
		return "PC-relative instruction with Opcode == 0"
	}
	return ""
}

func TestVerifC16(t *testing.T) {
	rf, err := os.Create(os.Getenv("VERIF_OUT") + ".ref")
	if err != nil {
		t.Fatal(err)
	}
	rw := bufio.NewWriterSize(rf, 1<<20)
	defer func() { rw.Flush(); rf.Close() }()
	xf, err := os.Create(os.Getenv("VERIF_OUT") + ".aux")
	if err != nil {
		t.Fatal(err)
	}
	xw := bufio.NewWriterSize(xf, 1<<20)
	defer func() { xw.Flush(); xf.Close() }()
	f, err := os.Open(os.Getenv("VERIF_OPS"))
	if err != nil {
		t.Fatal(err)
	}
	defer f.Close()
	ifile, err := os.Create(os.Getenv("VERIF_OUT"))
	if err != nil {
		t.Fatal(err)
	}
	iw := bufio.NewWriterSize(ifile, 1<<20)
	defer func() { iw.Flush(); ifile.Close() }()
	sc := bufio.NewScanner(f)
	sc.Buffer(make([]byte, 1<<16), 1<<20)
	// goom's own coverage hook (decode.go:220): which table positions did the stream execute?
	decoderCover = make([]bool, len(decoder))
	defer func() {
		cf, err := os.Create(os.Getenv("VERIF_OUT") + ".cover")
		if err == nil {
			cw := bufio.NewWriter(cf)
			for pc, c := range decoderCover {
				if c {
					fmt.Fprintln(cw, pc)
				}
			}
			cw.Flush()
			cf.Close()
		}
		decoderCover = nil
	}()
	for i := 0; sc.Scan(); i++ {
		toks := strings.Fields(sc.Text())
		if len(toks) != 2 || toks[0] != "c16.dec" {
			continue
		}
		b := vh.UnHex(toks[1])
		o := goomDecode(b)
		r := refDecode(b)
		fmt.Fprintf(iw, "%d\t%s\n", i, o)
		fmt.Fprintf(rw, "%d\t%s\n", i, r)
		// side channel for the classification of goom-vs-reference differences: the independent length rule, and the rendered text
		// (Inst.String() shows Prefix flags and Args, i.e. what decode.go:1243-1517 computes) where the tuples agree
		if o != r {
			if n, fam, ok := ilen(b); ok {
				fmt.Fprintf(xw, "%d\trule %d %s\n", i, n, fam)
			}
		} else if o.err == "ok" {
			gs, _ := goomString(b)
			if rs := refString(b); gs != rs {
				fmt.Fprintf(xw, "%d\tstr %q vs %q\n", i, gs, rs)
			}
		}
	}
}

func TestVerifC16Text(t *testing.T) {
	outp := os.Getenv("VERIF_OUT")
	of, err := os.Create(outp)
	if err != nil {
		t.Fatal(err)
	}
	w := bufio.NewWriterSize(of, 1<<20)
	defer func() { w.Flush(); of.Close() }()
	seen := map[string]bool{}
	for _, path := range strings.Split(os.Getenv("VERIF_ELFS"), ":") {
		if path == "" {
			continue
		}
		name := path
		if path == "self" {
			path, _ = os.Executable()
		}
		st, err := walkELF(path, seen, w)
		if err != nil {
			fmt.Fprintf(w, "#elf %s error %v\n", name, err)
			continue
		}
		fmt.Fprintf(w, "#elf %s funcs=%d instrs=%d agree=%d differ=%d oracle_fail=%d ref_blind=%d ref_wrong_on_vex=%d rule_vs_ref_differ=%d boundary_only_ok=%d misframed=%d unknown_abandoned=%d rule_validated=%d str_differ=%d str_panic=%d distinct_new=%d\n",
			name, st.funcs, st.instrs, st.agree, st.differ, st.oracleFail, st.refBlind, st.refWrong, st.ruleDiff, st.boundaryOnly, st.misframed, st.unknown, st.ruleChecked, st.strDiffer, st.strPanic, st.distinct)
		fams := make([]string, 0, len(st.fams))
		for k, v := range st.fams {
			fams = append(fams, fmt.Sprintf("%s=%d", k, v))
		}
		sort.Strings(fams)
		fmt.Fprintf(w, "#fams %s %s\n", name, strings.Join(fams, " "))
		ops := make([]string, 0, len(st.ops))
		for k, v := range st.ops {
			ops = append(ops, fmt.Sprintf("%s=%d", k, v))
		}
		sort.Strings(ops)
		fmt.Fprintf(w, "#ops %s %s\n", name, strings.Join(ops, " "))
	}
}

var vexKnownCache map[string]bool

func vexKnownSet() map[string]bool {
	if vexKnownCache == nil {
		vexKnownCache = map[string]bool{}
		for _, f := range strings.Split(os.Getenv("VERIF_VEXKNOWN"), ",") {
			if f != "" {
				vexKnownCache[f] = true
			}
		}
	}
	return vexKnownCache
}

type textStats struct {
	funcs, instrs, agree, differ, oracleFail, distinct                          int
	refBlind, refWrong, ruleDiff, boundaryOnly, misframed, unknown, ruleChecked int
	strDiffer, strPanic                                                         int
	ops                                                                         map[string]int
	fams                                                                        map[string]int
}

// ilen is a length rule for the instruction families where the reference decoder may be blind, written from the
// Intel SDM encoding rules and sharing no code or table with x/arch: VEX-encoded instructions (C5 xx / C4 xx xx, opcode,
// ModRM [+SIB] [+disp] [+imm8]) and the legacy three-byte maps 0F 38 xx /r and 0F 3A xx /r ib after legacy prefixes and REX.
// Returns the instruction length, a stable family name and whether the rule applies and the bytes suffice.
func ilen(b []byte) (int, string, bool) {
	i := 0
	pp := ""
	for i < len(b) {
		switch b[i] {
		case 0x66, 0xF2, 0xF3:
			pp = fmt.Sprintf("%02x.", b[i])
			i++
			continue
		case 0x67, 0xF0, 0x26, 0x2E, 0x36, 0x3E, 0x64, 0x65:
			i++
			continue
		}
		break
	}
	if i >= len(b) {
		return 0, "", false
	}
	imm := 0
	fam := ""
	switch {
	case b[i] == 0xC5 && i+2 < len(b):
		opc := b[i+2]
		fam = fmt.Sprintf("vex.m1.p%d.%02x", b[i+1]&3, opc)
		if opc == 0x77 {
			return i + 3, fam, true
		}
		if opc >= 0x70 && opc <= 0x73 || opc == 0xC2 || opc == 0xC4 || opc == 0xC5 || opc == 0xC6 {
			imm = 1
		}
		i += 3
	case b[i] == 0xC4 && i+3 < len(b):
		m := b[i+1] & 0x1f
		opc := b[i+3]
		fam = fmt.Sprintf("vex.m%d.p%d.%02x", m, b[i+2]&3, opc)
		switch m {
		case 1:
			if opc == 0x77 {
				return i + 4, fam, true
			}
			if opc >= 0x70 && opc <= 0x73 || opc == 0xC2 || opc == 0xC4 || opc == 0xC5 || opc == 0xC6 {
				imm = 1
			}
		case 2:
		case 3:
			imm = 1
		default:
			return 0, "", false
		}
		i += 4
	default:
		if b[i] >= 0x40 && b[i] <= 0x4F {
			i++
		}
		if i+2 >= len(b) || b[i] != 0x0F || (b[i+1] != 0x38 && b[i+1] != 0x3A) {
			return 0, "", false
		}
		fam = fmt.Sprintf("%s0f%02x.%02x", pp, b[i+1], b[i+2])
		if b[i+1] == 0x3A {
			imm = 1
		}
		i += 3
	}
	if i >= len(b) {
		return 0, "", false
	}
	modrm := b[i]
	i++
	mod, rm := modrm>>6, modrm&7
	if mod != 3 {
		if rm == 4 {
			if i >= len(b) {
				return 0, "", false
			}
			sib := b[i]
			i++
			if sib&7 == 5 && mod == 0 {
				i += 4
			}
		} else if rm == 5 && mod == 0 {
			i += 4
		}
		if mod == 1 {
			i++
		} else if mod == 2 {
			i += 4
		}
	}
	i += imm
	if i > len(b) || i > 15 {
		return 0, "", false
	}
	return i, fam, true
}

// strOf renders goom's Inst with Inst.String() (which calls every Arg.String(), Prefix.String(), Op.String()) under recover.
func goomString(b []byte) (s string, panicked bool) {
	defer func() {
		if r := recover(); r != nil {
			s, panicked = fmt.Sprint(r), true
		}
	}()
	in, err := Decode(b, 64)
	if err != nil {
		return "", false
	}
	return in.String(), false
}

func refString(b []byte) (s string) {
	defer func() {
		if r := recover(); r != nil {
			s = "panic"
		}
	}()
	in, err := refx86.Decode(b, 64)
	if err != nil {
		return ""
	}
	return in.String()
}

func walkELF(path string, seen map[string]bool, w *bufio.Writer) (textStats, error) {
	st := textStats{ops: map[string]int{}, fams: map[string]int{}}
	ef, err := elf.Open(path)
	if err != nil {
		return st, err
	}
	defer ef.Close()
	ts := ef.Section(".text")
	ps := ef.Section(".gopclntab")
	if ts == nil || ps == nil {
		return st, fmt.Errorf("no .text/.gopclntab")
	}
	text, err := ts.Data()
	if err != nil {
		return st, err
	}
	pcln, err := ps.Data()
	if err != nil {
		return st, err
	}
	tab, err := gosym.NewTable(nil, gosym.NewLineTable(pcln, ts.Addr))
	if err != nil {
		return st, err
	}
	nDiff, nStr := 0, 0
	for _, fn := range tab.Funcs {
		if fn.Entry < ts.Addr || fn.End > ts.Addr+uint64(len(text)) || fn.End <= fn.Entry {
			continue
		}
		st.funcs++
		off, end := int(fn.Entry-ts.Addr), int(fn.End-ts.Addr)
		for off < end {
			hi := off + 16
			if hi > len(text) {
				hi = len(text)
			}
			win := text[off:hi]
			r := refDecode(win)
			g := goomDecode(win)
			if why := oracle(win, g); why != "" {
				st.oracleFail++
				if st.oracleFail <= 20 {
					fmt.Fprintf(w, "#oracle %s %s :: %s\n", hex.EncodeToString(win), g, why)
				}
			}
			refOK := r.err == "ok" && r.len != 0 && r.op != "Op(0)"
			rn, fam, ruleOK := ilen(win)
			isVEX := win[0] == 0xC4 || win[0] == 0xC5
			// Does goom's table have an entry for this VEX opcode at all?  $VERIF_VEXKNOWN lists the (map, pp, opcode) triples that have
			// a VEX path in the dumped table (computed by tools/x86table.py); for any other VEX opcode both decoders fall through to the
			// legacy opcode with the same byte ("fallback").
			vexKnown := isVEX && ruleOK && vexKnownSet()[fam]
			// Ground truth for the boundary.  VEX-encoded instructions: the independent length rule (the reference shares goom's
			// lineage and falls back to the legacy one-byte opcode for VEX opcodes its table lacks).  Everything else: the
			// reference, and the rule where the reference is blind.  Neither: abandon the function (never compare windows that may
			// start in the middle of an instruction) and count it.
			n := 0
			switch {
			case isVEX && ruleOK:
				n = rn
				if refOK && r.len == rn {
					st.ruleChecked++
				} else {
					st.refWrong++
				}
			case refOK:
				n = r.len
				if ruleOK {
					st.ruleChecked++
					if rn != r.len {
						st.ruleDiff++
						fmt.Fprintf(w, "#rulediff %s rule=%d ref=%d\n", hex.EncodeToString(win), rn, r.len)
					}
				}
			case ruleOK:
				n = rn
				st.refBlind++
			default:
				st.unknown++
				if st.unknown <= 30 {
					fmt.Fprintf(w, "#unknown %s fn=%s goom: %s\n", hex.EncodeToString(win), fn.Name, g)
				}
			}
			if n == 0 {
				break
			}
			st.instrs++
			if refOK && r.len == n && (!isVEX || strings.HasPrefix(r.op, "V")) { // the reference really knows this instruction
				st.ops[r.op]++
				// full comparison with the reference
				if g == r {
					st.agree++
					gs, pan := goomString(win)
					if pan {
						st.strPanic++
						fmt.Fprintf(w, "#strpanic %s %s\n", hex.EncodeToString(win), gs)
					} else if rs := refString(win); gs != rs {
						st.strDiffer++
						if nStr < 30 {
							nStr++
							fmt.Fprintf(w, "#strdiffer %s goom: %q ref: %q\n", hex.EncodeToString(win), gs, rs)
						}
					}
				} else {
					st.differ++
					if nDiff < 50 {
						nDiff++
						fmt.Fprintf(w, "#differ %s goom: %s ref: %s fn=%s\n", hex.EncodeToString(win), g, r, fn.Name)
					}
				}
				key := string(win[:n])
				if !seen[key] {
					seen[key] = true
					st.distinct++
					fmt.Fprintf(w, "%d %s\n", n, hex.EncodeToString(win))
				}
			} else {
				// boundary-only judgement against the independent rule
				// (a legacy mnemonic for a VEX-encoded instruction is the fallback defect even when the length happens to coincide:
				//  c5 fd 74 c1 VPCMPEQB is reported as "JE rel8" with a PC-relative field)
				if g.err == "ok" && g.len == n && g.op != "Op(0)" && (!isVEX || vexKnown) {
					st.agree++
					st.boundaryOnly++
				} else {
					st.misframed++
					// class: does goom's table know this opcode at all?  (a real mnemonic that is not the legacy fallback)
					class := "unknown-to-table"
					if g.err == "ok" && g.op != "Op(0)" && (!isVEX || vexKnown) {
						class = "wrong-entry"
					}
					k := class + ":" + fam
					st.fams[k]++
					if st.fams[k] <= 2 {
						fmt.Fprintf(w, "#misframed %s %s true_len=%d goom: %s ref: %s fn=%s\n", k, hex.EncodeToString(win), n, g, r, fn.Name)
					}
					key := string(win[:n])
					if !seen[key] {
						seen[key] = true
						fmt.Fprintf(w, "M%d %s\n", n, hex.EncodeToString(win))
					}
				}
			}
			off += n
		}
	}
	return st, nil
}
