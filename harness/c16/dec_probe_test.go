package x86asm

// C16 probe, injected into goom's internal/arch/x86asm with `go test -overlay`.
//
// TestVerifC16      ops mode : every `c16.dec <hex>` line of $VERIF_OPS is decoded by goom's Decode (→ $VERIF_OUT) and by the
//                              toolchain's newer x86asm copy (→ $VERIF_OUT.ref), panics recovered and reported as err=panic.
// TestVerifC16Text  text mode: walks the .text of the ELF files in $VERIF_ELFS (first entry "self" = this test binary) function
//                              by function (gosym table from .gopclntab) with the reference decoder, decodes every instruction
//                              window with both decoders, applies the property oracle, counts agreement, and writes the distinct
//                              instruction encodings (with their first-seen 16-byte window) to $VERIF_OUT for the model run.

import (
	"bufio"
	"debug/elf"
	"debug/gosym"
	"encoding/hex"
	"fmt"
	"os"
	"sort"
	"strings"
	"testing"

	refx86 "github.com/tencent/goom/internal/zzverif/refx86"
	"github.com/tencent/goom/internal/zzverif/vh"
)

type obs struct {
	err             string
	len             int
	op              string
	pcrel, pcreloff int
	opcode          uint32
}

func (o obs) String() string {
	return fmt.Sprintf("err=%s len=%d op=%s pcrel=%d pcreloff=%d opcode=0x%x", o.err, o.len, o.op, o.pcrel, o.pcreloff, o.opcode)
}

func errClass(err error) string {
	switch err {
	case nil:
		return "ok"
	case ErrTruncated:
		return "trunc"
	case ErrUnrecognized:
		return "unrec"
	case errInternal:
		return "internal"
	}
	return "other"
}

func refErrClass(err error) string {
	switch err {
	case nil:
		return "ok"
	case refx86.ErrTruncated:
		return "trunc"
	case refx86.ErrUnrecognized:
		return "unrec"
	}
	if err != nil && err.Error() == "internal error" {
		return "internal"
	}
	return "other"
}

func goomDecode(b []byte) (o obs) {
	defer func() {
		if r := recover(); r != nil {
			o = obs{err: "panic", op: "Op(0)"}
		}
	}()
	in, err := Decode(b, 64)
	return obs{errClass(err), in.Len, in.Op.String(), in.PCRel, in.PCRelOff, in.Opcode}
}

func refDecode(b []byte) (o obs) {
	defer func() {
		if r := recover(); r != nil {
			o = obs{err: "panic", op: "Op(0)"}
		}
	}()
	in, err := refx86.Decode(b, 64)
	return obs{refErrClass(err), in.Len, in.Op.String(), in.PCRel, in.PCRelOff, in.Opcode}
}

// oracle is the property stated on goom's own answer (independent of model and reference).
func oracle(b []byte, o obs) string {
	n := len(b)
	switch {
	case o.err == "panic":
		return "decoder panicked"
	case o.err == "ok" && (o.len < 1 || o.len > 15):
		return "length outside 1..15"
	case o.len > n:
		return "length beyond the bytes supplied"
	case o.len < 0:
		return "negative length"
	case o.pcrel != 0 && !(o.pcrel == 1 || o.pcrel == 2 || o.pcrel == 4):
		return "PCRel width not 1/2/4"
	case o.pcrel != 0 && (o.pcreloff <= 0 || o.pcreloff+o.pcrel > o.len):
		return "PC-relative field outside the instruction"
	case o.pcrel == 0 && o.pcreloff != 0:
		return "PCRelOff set without PCRel"
	case o.err == "ok" && o.pcrel != 0 && o.opcode == 0:
		return "PC-relative instruction with Opcode == 0"
	}
	return ""
}

func TestVerifC16(t *testing.T) {
	rf, err := os.Create(os.Getenv("VERIF_OUT") + ".ref")
	if err != nil {
		t.Fatal(err)
	}
	rw := bufio.NewWriterSize(rf, 1<<20)
	defer func() { rw.Flush(); rf.Close() }()
	f, err := os.Open(os.Getenv("VERIF_OPS"))
	if err != nil {
		t.Fatal(err)
	}
	defer f.Close()
	ifile, err := os.Create(os.Getenv("VERIF_OUT"))
	if err != nil {
		t.Fatal(err)
	}
	iw := bufio.NewWriterSize(ifile, 1<<20)
	defer func() { iw.Flush(); ifile.Close() }()
	sc := bufio.NewScanner(f)
	sc.Buffer(make([]byte, 1<<16), 1<<20)
	for i := 0; sc.Scan(); i++ {
		toks := strings.Fields(sc.Text())
		if len(toks) != 2 || toks[0] != "c16.dec" {
			continue
		}
		b := vh.UnHex(toks[1])
		o := goomDecode(b)
		fmt.Fprintf(iw, "%d\t%s\n", i, o)
		fmt.Fprintf(rw, "%d\t%s\n", i, refDecode(b))
	}
}

func TestVerifC16Text(t *testing.T) {
	outp := os.Getenv("VERIF_OUT")
	of, err := os.Create(outp)
	if err != nil {
		t.Fatal(err)
	}
	w := bufio.NewWriterSize(of, 1<<20)
	defer func() { w.Flush(); of.Close() }()
	seen := map[string]bool{}
	for _, path := range strings.Split(os.Getenv("VERIF_ELFS"), ":") {
		if path == "" {
			continue
		}
		name := path
		if path == "self" {
			path, _ = os.Executable()
		}
		st, err := walkELF(path, seen, w)
		if err != nil {
			fmt.Fprintf(w, "#elf %s error %v\n", name, err)
			continue
		}
		fmt.Fprintf(w, "#elf %s funcs=%d instrs=%d agree=%d differ=%d oracle_fail=%d ref_undecodable=%d distinct_new=%d\n",
			name, st.funcs, st.instrs, st.agree, st.differ, st.oracleFail, st.refBad, st.distinct)
		ops := make([]string, 0, len(st.ops))
		for k, v := range st.ops {
			ops = append(ops, fmt.Sprintf("%s=%d", k, v))
		}
		sort.Strings(ops)
		fmt.Fprintf(w, "#ops %s %s\n", name, strings.Join(ops, " "))
	}
}

type textStats struct {
	funcs, instrs, agree, differ, oracleFail, refBad, distinct int
	ops                                                        map[string]int
}

func walkELF(path string, seen map[string]bool, w *bufio.Writer) (textStats, error) {
	st := textStats{ops: map[string]int{}}
	ef, err := elf.Open(path)
	if err != nil {
		return st, err
	}
	defer ef.Close()
	ts := ef.Section(".text")
	ps := ef.Section(".gopclntab")
	if ts == nil || ps == nil {
		return st, fmt.Errorf("no .text/.gopclntab")
	}
	text, err := ts.Data()
	if err != nil {
		return st, err
	}
	pcln, err := ps.Data()
	if err != nil {
		return st, err
	}
	tab, err := gosym.NewTable(nil, gosym.NewLineTable(pcln, ts.Addr))
	if err != nil {
		return st, err
	}
	nDiff := 0
	for _, fn := range tab.Funcs {
		if fn.Entry < ts.Addr || fn.End > ts.Addr+uint64(len(text)) || fn.End <= fn.Entry {
			continue
		}
		st.funcs++
		off, end := int(fn.Entry-ts.Addr), int(fn.End-ts.Addr)
		for off < end {
			hi := off + 16
			if hi > len(text) {
				hi = len(text)
			}
			win := text[off:hi]
			r := refDecode(win)
			if r.err != "ok" || r.len == 0 || r.op == "Op(0)" {
				st.refBad++
				off++
				continue
			}
			st.instrs++
			st.ops[r.op]++
			g := goomDecode(win)
			if why := oracle(win, g); why != "" {
				st.oracleFail++
				if st.oracleFail <= 20 {
					fmt.Fprintf(w, "#oracle %s %s :: %s\n", hex.EncodeToString(win), g, why)
				}
			}
			if g == r {
				st.agree++
			} else {
				st.differ++
				if nDiff < 50 {
					nDiff++
					fmt.Fprintf(w, "#differ %s goom: %s ref: %s fn=%s\n", hex.EncodeToString(win), g, r, fn.Name)
				}
			}
			key := string(win[:r.len])
			if !seen[key] {
				seen[key] = true
				st.distinct++
				fmt.Fprintf(w, "%d %s\n", r.len, hex.EncodeToString(win))
			}
			off += r.len
		}
	}
	return st, nil
}
