package arg

import (
	"os"
	"reflect"
	"strconv"
	"strings"
	"testing"

	cat "github.com/tencent/goom/internal/zzverif/c09cat"
	"github.com/tencent/goom/internal/zzverif/vh"
)

// TestVerifC09Catalog dumps the catalogue (type terms come from reflection on the types of THIS build).
func TestVerifC09Catalog(t *testing.T) {
	p := os.Getenv("VERIF_C09_CATALOG")
	if p == "" {
		t.Skip()
	}
	if err := os.WriteFile(p, []byte(strings.Join(cat.Catalog(), "\n")+"\n"), 0o644); err != nil {
		t.Fatal(err)
	}
}

type c09box struct {
	nilv bool
	typ  string
	v    reflect.Value
	i    interface{}
}

// c09ParseBox reads `nil` or `<type name> payload...`.
func c09ParseBox(toks []string) (c09box, []string) {
	if toks[0] == "nil" {
		return c09box{nilv: true}, toks[1:]
	}
	d := cat.ByName(toks[0])
	if d == nil {
		panic("unknown catalogue type " + toks[0])
	}
	v, rest := cat.Build(d.Typ, toks[1:])
	return c09box{typ: toks[0], v: v, i: v.Interface()}, rest
}

// c09WellFlagged: the flag word of v (kind bits, indirection bit) agrees with its type word; false after a
// cross-kind or cross-representation `cast`, where reflect's accessors are outside the model.
func c09WellFlagged(v reflect.Value) bool {
	if v.Kind() != v.Type().Kind() {
		return false
	}
	return true
}

func c09Direct(t reflect.Type) bool {
	switch t.Kind() {
	case reflect.Ptr, reflect.Map, reflect.Chan, reflect.Func, reflect.UnsafePointer:
		return true
	case reflect.Struct:
		return t.NumField() == 1 && c09Direct(t.Field(0).Type)
	case reflect.Array:
		return t.Len() == 1 && c09Direct(t.Elem())
	}
	return false
}

// c09Unmodelled: supplied type `from` was (or would be) retyped to `out` across kinds or across the
// direct/indirect representation boundary.
func c09Unmodelled(from, out reflect.Type) bool {
	return from.Kind() != out.Kind() || c09Direct(from) != c09Direct(out)
}

func c09One(out reflect.Type, b c09box) string {
	return cat.Catch("panic:", func() string {
		vs, err := I2V([]interface{}{b.i}, []reflect.Type{out}, false)
		if err != nil {
			return "err:" + cat.Class(err.Error())
		}
		v := vs[0]
		res := "ok " + cat.Desc(v)
		same := "-"
		switch {
		case b.nilv:
			same = strconv.FormatBool(v.IsZero())
		case v.Type() == b.v.Type():
			same = strconv.FormatBool(cat.Same(v, b.v))
		case v.Kind() == reflect.Interface && v.Type() == out:
			same = strconv.FormatBool(!v.IsNil() && cat.Same(v.Elem(), b.v))
		default: // retyped
			if c09Unmodelled(b.v.Type(), out) {
				return res + " v2i=unmodelled # same=-"
			}
			same = strconv.FormatBool(cat.SameMem(v, b.v))
		}
		v2i := cat.Catch("panic:", func() string {
			bs := V2I(vs, []reflect.Type{out})
			s := cat.BoxDesc(bs[0])
			// round trip: does V2I give back what was supplied?
			rt := "-"
			if bs[0] == nil {
				rt = strconv.FormatBool(b.nilv)
			} else if !b.nilv && reflect.TypeOf(bs[0]) == b.v.Type() {
				rt = strconv.FormatBool(cat.Same(reflect.ValueOf(bs[0]), b.v))
			} else {
				rt = "false"
			}
			return s + " # rt=" + rt
		})
		parts := strings.SplitN(v2i, " # ", 2)
		rt := "rt=-"
		if len(parts) == 2 {
			rt = parts[1]
		}
		return res + " v2i=" + parts[0] + " # same=" + same + " " + rt
	})
}

// TestVerifC09 runs goom's real converters on the operation stream.
func TestVerifC09(t *testing.T) {
	out := vh.OpenOut()
	defer out.Close()
	for _, op := range vh.ReadOps() {
		if len(op.Toks) == 0 || !strings.HasPrefix(op.Toks[0], "c09.") {
			continue
		}
		toks := op.Toks
		for i, tk := range toks { // the trailer `;; name term ...` is for the model
			if tk == ";;" {
				toks = toks[:i]
				break
			}
		}
		res := cat.Catch("probe-error:", func() string {
			switch toks[0] {
			case "c09.tv":
				d := cat.ByName(toks[1])
				b, _ := c09ParseBox(toks[2:])
				return c09One(d.Typ, b)
			case "c09.isz":
				b, _ := c09ParseBox(toks[1:])
				return cat.Catch("panic:", func() string { return strconv.FormatBool(isZero(b.v)) }) +
					" # stdlib=" + strconv.FormatBool(b.v.IsZero())
			case "c09.i2v":
				variadic := toks[1] == "1"
				nt, _ := strconv.Atoi(toks[2])
				var types []reflect.Type
				rest := toks[3:]
				for i := 0; i < nt; i++ {
					types = append(types, cat.ByName(rest[0]).Typ)
					rest = rest[1:]
				}
				no, _ := strconv.Atoi(rest[0])
				rest = rest[1:]
				var objs []interface{}
				for i := 0; i < no; i++ {
					var b c09box
					b, rest = c09ParseBox(rest)
					objs = append(objs, b.i)
				}
				return cat.Catch("panic:", func() string {
					vs, err := I2V(objs, types, variadic)
					if err != nil {
						return "err:" + cat.Class(err.Error())
					}
					ds := make([]string, len(vs))
					for i, v := range vs {
						ds[i] = cat.Desc(v)
					}
					return strings.Join(append([]string{"ok", strconv.Itoa(len(vs))}, ds...), " ")
				})
			}
			return ""
		})
		if res != "" {
			out.Put(op.Idx, "%s", res)
		}
	}
}
