package c09cat

import (
	"fmt"
	"math"
	"reflect"
	"sort"
	"strconv"
	"strings"
	"unsafe"
)

// Decl is one catalogue type with its stubbed corpus functions.
type Decl struct {
	Name    string
	Typ     reflect.Type
	Ret     interface{}                    // func() T
	In      interface{}                    // func(T) int
	CallRet func() reflect.Value           // calls Ret, returns the received value with its static type T
	CallIn  func(a reflect.Value) int      // calls In with a (the zero value when a is invalid)
	NilAny  func() bool                    // any(Ret()) == nil  (for an interface T: "the result == nil" at the caller)
	RetA     interface{}                   // func(id int) T
	CallRetA func(id int) reflect.Value
}

// Multi is a corpus function with several results.
type Multi struct {
	Name string
	Outs []string
	Fn   interface{}
	Call func() []reflect.Value
	FnA   interface{} // func(id int) (results...)
	CallA func(id int) []reflect.Value
}

// Pair2 is a corpus function func(a A, b B) int.
type Pair2 struct {
	A, B string
	Fn   interface{}
	Call func(a, b reflect.Value) int
}

// Variadic is a corpus function func(xs ...Elem) int.
type Variadic struct {
	Elem string
	Fn   interface{}
	Call func(vs []reflect.Value) int
}

// Meth is a method (*Svc).M_<Out>(id int) Out and the same method of interface SvcI.
type Meth struct {
	Out, Name string
	Call      func(s *Svc, id int) reflect.Value
	As        interface{} // func(ctx *iface.IContext, id int) Out
	CallI     func(i SvcI, id int) reflect.Value
}

var (
	byName = map[string]*Decl{}
	byType = map[reflect.Type]string{}
)

func init() {
	for _, d := range Decls {
		if _, dup := byName[d.Name]; dup {
			panic("duplicate catalogue name " + d.Name)
		}
		if n, dup := byType[d.Typ]; dup {
			panic("duplicate catalogue type " + d.Name + " = " + n)
		}
		byName[d.Name] = d
		byType[d.Typ] = d.Name
	}
}

// ByName looks a catalogue type up.
func ByName(n string) *Decl { return byName[n] }

// NameOf is the catalogue name of t, "?" when it is not in the catalogue.
func NameOf(t reflect.Type) string {
	if n, ok := byType[t]; ok {
		return n
	}
	return "?"
}

// Pair2For, VariadicFor, MethFor look the additional corpus functions up.
func Pair2For(a, b string) *Pair2 {
	for _, p := range Pairs2 {
		if p.A == a && p.B == b {
			return p
		}
	}
	return nil
}

func VariadicFor(elem string) *Variadic {
	for _, v := range Variadics {
		if v.Elem == elem {
			return v
		}
	}
	return nil
}

func MethFor(out string) *Meth {
	for _, m := range Meths {
		if m.Out == out {
			return m
		}
	}
	return nil
}

// MultiFor finds the multi-result corpus function with exactly these result types.
func MultiFor(outs []string) *Multi {
	for _, m := range Multis {
		if strings.Join(m.Outs, ",") == strings.Join(outs, ",") {
			return m
		}
	}
	return nil
}

// ---------------------------------------------------------------- type terms (what the Lean driver parses)

func nosp(s string) string {
	s = strings.ReplaceAll(s, " ", "_")
	s = strings.ReplaceAll(s, "\t", "_")
	s = strings.ReplaceAll(s, "\n", "_")
	return s
}

func sig(ft reflect.Type, skip int) string {
	var in, out []string
	for i := skip; i < ft.NumIn(); i++ {
		in = append(in, ft.In(i).String())
	}
	for i := 0; i < ft.NumOut(); i++ {
		out = append(out, ft.Out(i).String())
	}
	v := ""
	if ft.IsVariadic() {
		v = "..."
	}
	return nosp("(" + strings.Join(in, ",") + v + ")(" + strings.Join(out, ",") + ")")
}

func methTok(m reflect.Method, skip int) string {
	name := m.Name
	if m.PkgPath != "" { // unexported: qualified by its package, as in Go's method identity
		name = nosp(m.PkgPath) + "." + m.Name
	}
	return name + "|" + sig(m.Type, skip)
}

// methods is the method set of t as tokens.  reflect lists only the exported methods of a concrete type; the
// unexported methods that matter for interface satisfaction are recovered from the catalogue's interfaces: if t
// implements an interface with unexported methods, t has them (that is what reflect.Implements just established).
func methods(t reflect.Type) []string {
	var ms []string
	seen := map[string]bool{}
	for i := 0; i < t.NumMethod(); i++ {
		m := t.Method(i)
		skip := 1
		if t.Kind() == reflect.Interface {
			skip = 0
		}
		tok := methTok(m, skip)
		if !seen[tok] {
			seen[tok] = true
			ms = append(ms, tok)
		}
	}
	if t.Kind() != reflect.Interface {
		for _, d := range Decls {
			if d.Typ.Kind() != reflect.Interface || !t.Implements(d.Typ) {
				continue
			}
			for i := 0; i < d.Typ.NumMethod(); i++ {
				m := d.Typ.Method(i)
				if m.PkgPath == "" {
					continue
				}
				tok := methTok(m, 0)
				if !seen[tok] {
					seen[tok] = true
					ms = append(ms, tok)
				}
			}
		}
	}
	sort.Strings(ms)
	return ms
}

var primNames = map[reflect.Kind]string{reflect.Bool: "bool", reflect.Int: "int", reflect.Int8: "int8", reflect.Int16: "int16",
	reflect.Int32: "int32", reflect.Int64: "int64", reflect.Uint: "uint", reflect.Uint8: "uint8", reflect.Uint16: "uint16",
	reflect.Uint32: "uint32", reflect.Uint64: "uint64", reflect.Uintptr: "uintptr", reflect.Float32: "float32",
	reflect.Float64: "float64", reflect.Complex64: "complex64", reflect.Complex128: "complex128", reflect.String: "string",
	reflect.UnsafePointer: "unsafePointer"}

func isPredeclared(t reflect.Type) bool {
	return t.PkgPath() == "" && t.Name() != "" && t.Kind() != reflect.Interface
}

// TyTerm renders a reflect.Type in the prefix grammar of Drv/C09.lean, from reflection only.
func TyTerm(t reflect.Type) string {
	return strings.Join(tyTerm(t, map[reflect.Type]bool{}), " ")
}

func listTok(xs []string) []string { return append([]string{strconv.Itoa(len(xs))}, xs...) }

func tyTerm(t reflect.Type, open map[reflect.Type]bool) []string {
	if t.Name() != "" && !isPredeclared(t) {
		// a defined type (incl. `error`): name, method sets of T and *T, underlying
		toks := []string{"named", nosp(t.String())}
		toks = append(toks, listTok(methods(t))...)
		toks = append(toks, listTok(methods(reflect.PtrTo(t)))...)
		if open[t] || (t.Kind() == reflect.Struct && !strings.HasPrefix(t.String(), "c09cat.")) {
			// recursive occurrence or a foreign struct: opaque bytes of the right size and alignment
			return append(toks, opaque(t)...)
		}
		open[t] = true
		toks = append(toks, under(t, open)...)
		delete(open, t)
		return toks
	}
	return under(t, open)
}

func opaque(t reflect.Type) []string {
	if Direct(t) { // pointer-shaped (e.g. a self-referential struct{next *T}): one pointer word
		return []string{"strct", "0", "0", "1", "opaque", "ptr", "p.uint8"}
	}
	el := map[int]string{1: "uint8", 2: "uint16", 4: "uint32", 8: "uint64"}[t.Align()]
	n := int(t.Size()) / t.Align()
	return []string{"strct", "0", "0", "1", "opaque", "arr", strconv.Itoa(n), "p." + el}
}

func under(t reflect.Type, open map[reflect.Type]bool) []string {
	if p, ok := primNames[t.Kind()]; ok {
		return []string{"p." + p}
	}
	switch t.Kind() {
	case reflect.Array:
		return append([]string{"arr", strconv.Itoa(t.Len())}, tyTerm(t.Elem(), open)...)
	case reflect.Slice:
		return append([]string{"slice"}, tyTerm(t.Elem(), open)...)
	case reflect.Map:
		return append(append([]string{"map"}, tyTerm(t.Key(), open)...), tyTerm(t.Elem(), open)...)
	case reflect.Ptr:
		return append([]string{"ptr"}, tyTerm(t.Elem(), open)...)
	case reflect.Chan:
		return append([]string{"chan", strconv.Itoa(int(t.ChanDir()))}, tyTerm(t.Elem(), open)...)
	case reflect.Func:
		return []string{"func", sig(t, 0)}
	case reflect.Interface:
		return append([]string{"iface"}, listTok(methods(t))...)
	case reflect.Struct:
		toks := []string{"strct"}
		if t.Name() == "" { // unnamed struct: methods promoted from embedded fields
			toks = append(toks, listTok(methods(t))...)
			toks = append(toks, listTok(methods(reflect.PtrTo(t)))...)
		} else {
			toks = append(toks, "0", "0")
		}
		toks = append(toks, strconv.Itoa(t.NumField()))
		for i := 0; i < t.NumField(); i++ {
			f := t.Field(i)
			fname := nosp(f.Name) // tag, embedding and package of an unexported name are part of a struct type's identity
			if f.Tag != "" {
				fname += "~tag:" + nosp(string(f.Tag))
			}
			if f.Anonymous {
				fname += "~emb"
			}
			if f.PkgPath != "" {
				fname += "~pkg:" + nosp(f.PkgPath)
			}
			toks = append(toks, fname)
			toks = append(toks, tyTerm(t.Field(i).Type, open)...)
		}
		return toks
	}
	panic("TyTerm: unsupported kind " + t.Kind().String())
}

// Layout is the flattened memory layout `off:size:class` of t (for the oracle: "identical layout").
func Layout(t reflect.Type) string {
	var leaves []string
	var walk func(t reflect.Type, off uintptr)
	walk = func(t reflect.Type, off uintptr) {
		switch t.Kind() {
		case reflect.Struct:
			for i := 0; i < t.NumField(); i++ {
				walk(t.Field(i).Type, off+t.Field(i).Offset)
			}
		case reflect.Array:
			for i := 0; i < t.Len(); i++ {
				walk(t.Elem(), off+uintptr(i)*t.Elem().Size())
			}
		default:
			leaves = append(leaves, fmt.Sprintf("%d:%d:%s", off, t.Size(), CoarseKind(t.Kind())))
		}
	}
	walk(t, 0)
	return fmt.Sprintf("%d[%s]", t.Size(), strings.Join(leaves, ","))
}

// CoarseKind merges the sized kinds like the model's `Kind`.
func CoarseKind(k reflect.Kind) string {
	switch k {
	case reflect.Bool:
		return "bool"
	case reflect.Int, reflect.Int8, reflect.Int16, reflect.Int32, reflect.Int64:
		return "int"
	case reflect.Uint, reflect.Uint8, reflect.Uint16, reflect.Uint32, reflect.Uint64, reflect.Uintptr:
		return "uint"
	case reflect.Float32, reflect.Float64:
		return "float"
	case reflect.Complex64, reflect.Complex128:
		return "complex"
	case reflect.String:
		return "str"
	case reflect.Array:
		return "arr"
	case reflect.Slice:
		return "slice"
	case reflect.Map:
		return "map"
	case reflect.Ptr:
		return "ptr"
	case reflect.Struct:
		return "strct"
	case reflect.Interface:
		return "iface"
	case reflect.Func:
		return "func"
	case reflect.Chan:
		return "chan"
	case reflect.UnsafePointer:
		return "uptr"
	}
	return "invalid"
}

// ---------------------------------------------------------------- values from payload tokens

var (
	pool     = map[string]reflect.Value{}
	uptrPool [64]int64
	funcPool = map[string][]interface{}{
		"fn0": {fnA, fnB}, "fnII": {fnI1, fnI2}, "fnErr": {fnE1, fnE2}, "Handler": {Handler(hA), Handler(hB)},
	}
)

// Build constructs a value of type t from payload tokens; returns the value and the remaining tokens.
// Payload grammar: b0|b1  i<int>  u<nat>  f<float64 bits>  c <re bits> <im bits>  s<hex|->  z  r<id>
//                  agg <n> payload*n   inil   iof <catalogue name> payload
func Build(t reflect.Type, toks []string) (reflect.Value, []string) {
	if len(toks) == 0 {
		panic("payload: out of tokens")
	}
	v := reflect.New(t).Elem()
	tok := toks[0]
	rest := toks[1:]
	num := func(s string) uint64 {
		n, err := strconv.ParseUint(s, 10, 64)
		if err != nil {
			panic("payload: bad number " + s)
		}
		return n
	}
	bad := func() { panic("payload: token " + tok + " does not fit type " + t.String()) }
	switch t.Kind() {
	case reflect.Bool:
		if tok != "b0" && tok != "b1" {
			bad()
		}
		v.SetBool(tok == "b1")
	case reflect.Int, reflect.Int8, reflect.Int16, reflect.Int32, reflect.Int64:
		if tok[0] != 'i' {
			bad()
		}
		n, err := strconv.ParseInt(tok[1:], 10, 64)
		if err != nil || v.OverflowInt(n) {
			bad()
		}
		v.SetInt(n)
	case reflect.Uint, reflect.Uint8, reflect.Uint16, reflect.Uint32, reflect.Uint64, reflect.Uintptr:
		if tok[0] != 'u' || v.OverflowUint(num(tok[1:])) {
			bad()
		}
		v.SetUint(num(tok[1:]))
	case reflect.Float32, reflect.Float64:
		if tok[0] != 'f' {
			bad()
		}
		v.SetFloat(math.Float64frombits(num(tok[1:])))
		if math.Float64bits(v.Float()) != num(tok[1:]) {
			bad() // not exactly representable in this float type
		}
	case reflect.Complex64, reflect.Complex128:
		if tok != "c" || len(rest) < 2 {
			bad()
		}
		v.SetComplex(complex(math.Float64frombits(num(rest[0])), math.Float64frombits(num(rest[1]))))
		rest = rest[2:]
	case reflect.String:
		if tok[0] != 's' {
			bad()
		}
		if tok != "s-" {
			b := make([]byte, 0)
			for i := 1; i+1 < len(tok); i += 2 {
				x, err := strconv.ParseUint(tok[i:i+2], 16, 8)
				if err != nil {
					bad()
				}
				b = append(b, byte(x))
			}
			v.SetString(string(b))
		}
	case reflect.Array, reflect.Struct:
		if tok != "agg" || len(rest) < 1 {
			bad()
		}
		n := int(num(rest[0]))
		rest = rest[1:]
		want := 0
		if t.Kind() == reflect.Array {
			want = t.Len()
		} else {
			want = t.NumField()
		}
		if n != want {
			bad()
		}
		for i := 0; i < n; i++ {
			var e reflect.Value
			if t.Kind() == reflect.Array {
				e, rest = Build(t.Elem(), rest)
				v.Index(i).Set(e)
			} else {
				e, rest = Build(t.Field(i).Type, rest)
				v.Field(i).Set(e)
			}
		}
	case reflect.Interface:
		if tok == "inil" {
			break
		}
		if tok != "iof" || len(rest) < 1 {
			bad()
		}
		d := ByName(rest[0])
		if d == nil {
			bad()
		}
		var e reflect.Value
		e, rest = Build(d.Typ, rest[1:])
		v.Set(e) // panics when the dynamic type does not implement t: generator error
	case reflect.Ptr, reflect.Map, reflect.Slice, reflect.Chan, reflect.Func, reflect.UnsafePointer:
		if tok == "z" {
			break
		}
		if tok[0] != 'r' {
			bad()
		}
		id := int(num(tok[1:]))
		key := t.String() + "#" + tok
		if pv, ok := pool[key]; ok {
			v.Set(pv)
			break
		}
		zeroContent := id >= 100 // non-nil, but pointing at / holding nothing but zero values
		switch t.Kind() {
		case reflect.Ptr:
			p := reflect.New(t.Elem())
			if !zeroContent {
				fill(p.Elem(), uint64(id)+1, 0)
			}
			v.Set(p)
		case reflect.Map:
			m := reflect.MakeMap(t)
			if zeroContent {
				v.Set(m)
				break
			}
			k := reflect.New(t.Key()).Elem()
			e := reflect.New(t.Elem()).Elem()
			fill(k, uint64(id)+1, 0)
			fill(e, uint64(id)+2, 0)
			m.SetMapIndex(k, e)
			v.Set(m)
		case reflect.Slice:
			if zeroContent {
				v.Set(reflect.MakeSlice(t, 0, 0))
				break
			}
			s := reflect.MakeSlice(t, 1+id%3, 4)
			for i := 0; i < s.Len(); i++ {
				fill(s.Index(i), uint64(id+i)+1, 0)
			}
			v.Set(s)
		case reflect.Chan:
			if t.ChanDir() != reflect.BothDir {
				v.Set(reflect.MakeChan(reflect.ChanOf(reflect.BothDir, t.Elem()), 1).Convert(t))
			} else {
				v.Set(reflect.MakeChan(t, 1))
			}
		case reflect.Func:
			fs := funcPool[NameOf(t)]
			if len(fs) == 0 {
				bad()
			}
			v.Set(reflect.ValueOf(fs[id%len(fs)]))
		case reflect.UnsafePointer:
			v.SetPointer(unsafe.Pointer(&uptrPool[id%len(uptrPool)]))
		}
		pool[key] = v
	default:
		bad()
	}
	return v, rest
}

// fill writes deterministic non-zero scalars into an addressable value (pointees, slice elements, map entries).
func fill(v reflect.Value, seed uint64, depth int) {
	if !v.CanSet() {
		return // unexported field of a foreign struct
	}
	switch v.Kind() {
	case reflect.Bool:
		v.SetBool(seed%2 == 1)
	case reflect.Int, reflect.Int8, reflect.Int16, reflect.Int32, reflect.Int64:
		v.SetInt(int64(seed%100) + 1)
	case reflect.Uint, reflect.Uint8, reflect.Uint16, reflect.Uint32, reflect.Uint64, reflect.Uintptr:
		v.SetUint(seed%100 + 1)
	case reflect.Float32, reflect.Float64:
		v.SetFloat(float64(seed%100) + 0.5)
	case reflect.Complex64, reflect.Complex128:
		v.SetComplex(complex(float64(seed%10), 1))
	case reflect.String:
		v.SetString(fmt.Sprintf("s%d", seed%100))
	case reflect.Struct:
		for i := 0; i < v.NumField(); i++ {
			fill(v.Field(i), seed+uint64(i), depth+1)
		}
	case reflect.Array:
		for i := 0; i < v.Len(); i++ {
			fill(v.Index(i), seed+uint64(i), depth+1)
		}
	case reflect.Ptr:
		if depth < 3 {
			p := reflect.New(v.Type().Elem())
			fill(p.Elem(), seed+7, depth+1)
			v.Set(p)
		}
	}
}

// ---------------------------------------------------------------- observations

// Retype views v (copied) as a value of type t of the same size — what a caller passes when the stand-in's bytes are
// the real argument.  Pointers are converted, everything else is copied into fresh memory and re-read.
func Retype(v reflect.Value, t reflect.Type) reflect.Value {
	if v.Type() == t {
		return v
	}
	if v.Kind() == reflect.Ptr && t.Kind() == reflect.Ptr {
		return reflect.NewAt(t.Elem(), unsafe.Pointer(v.Pointer())).Convert(t)
	}
	p := reflect.New(v.Type())
	p.Elem().Set(v)
	return reflect.NewAt(t, unsafe.Pointer(p.Pointer())).Elem()
}

// SafeRetype reports whether viewing v as a t is safe to *dereference and compare* (goom compares When values with
// reflect.DeepEqual, which follows pointers): identical flattened layout, and no pointer-like leaf unless v is all zero
// (a pointer field that points at a differently typed object would be followed as the declared pointee type).
func SafeRetype(v reflect.Value, t reflect.Type) bool {
	from := v.Type()
	pointerish := func(l string) bool {
		for _, c := range []string{":ptr", ":str", ":slice", ":iface", ":map", ":chan", ":func", ":uptr"} {
			if strings.Contains(l, c) {
				return true
			}
		}
		return false
	}
	switch {
	case from.Kind() == reflect.Struct && t.Kind() == reflect.Struct:
		l := Layout(from)
		return l == Layout(t) && (!pointerish(l) || v.IsZero())
	case from.Kind() == reflect.Ptr && t.Kind() == reflect.Ptr:
		if v.IsNil() {
			return true
		}
		l := Layout(from.Elem())
		return l == Layout(t.Elem()) && !pointerish(l)
	}
	return false
}

// ShapeOf is the canonical description of a reflect.Value's content class, chosen by its (flag) kind:
// nil | nonnil for the nilable kinds, iface:nil | iface:<catalogue name of the dynamic type>, val otherwise.
func ShapeOf(v reflect.Value) string {
	switch v.Kind() {
	case reflect.Ptr, reflect.Map, reflect.Slice, reflect.Chan, reflect.Func, reflect.UnsafePointer:
		if v.IsNil() {
			return "nil"
		}
		return "nonnil"
	case reflect.Interface:
		if v.IsNil() {
			return "iface:nil"
		}
		return "iface:" + NameOf(v.Elem().Type())
	case reflect.Invalid:
		return "invalid"
	}
	return "val"
}

// Desc renders `<type name>/<flag kind>/<shape>`.
func Desc(v reflect.Value) string {
	if !v.IsValid() {
		return "invalid"
	}
	return NameOf(v.Type()) + "/" + CoarseKind(v.Kind()) + "/" + ShapeOf(v)
}

// BoxDesc renders an interface{} as goom's V2I returns it: nil, or `<dynamic type>/<shape>`.
func BoxDesc(x interface{}) string {
	if x == nil {
		return "nil"
	}
	v := reflect.ValueOf(x)
	return NameOf(v.Type()) + "/" + ShapeOf(v)
}

// Same reports whether a and b (same type) are the same Go value: bit-identical scalars (floats by bits), the same
// pointer/map/chan/func/slice header, equal strings, the same dynamic type and Same content for interfaces.
func Same(a, b reflect.Value) bool {
	if a.IsValid() != b.IsValid() {
		return false
	}
	if !a.IsValid() {
		return true
	}
	if a.Type() != b.Type() {
		return false
	}
	switch a.Kind() {
	case reflect.Bool:
		return a.Bool() == b.Bool()
	case reflect.Int, reflect.Int8, reflect.Int16, reflect.Int32, reflect.Int64:
		return a.Int() == b.Int()
	case reflect.Uint, reflect.Uint8, reflect.Uint16, reflect.Uint32, reflect.Uint64, reflect.Uintptr:
		return a.Uint() == b.Uint()
	case reflect.Float32, reflect.Float64:
		return math.Float64bits(a.Float()) == math.Float64bits(b.Float())
	case reflect.Complex64, reflect.Complex128:
		x, y := a.Complex(), b.Complex()
		return math.Float64bits(real(x)) == math.Float64bits(real(y)) && math.Float64bits(imag(x)) == math.Float64bits(imag(y))
	case reflect.String:
		return a.String() == b.String()
	case reflect.Ptr, reflect.Map, reflect.Chan, reflect.Func, reflect.UnsafePointer:
		return a.Pointer() == b.Pointer()
	case reflect.Slice:
		return a.Pointer() == b.Pointer() && a.Len() == b.Len() && a.Cap() == b.Cap()
	case reflect.Interface:
		if a.IsNil() || b.IsNil() {
			return a.IsNil() == b.IsNil()
		}
		return Same(a.Elem(), b.Elem())
	case reflect.Struct:
		for i := 0; i < a.NumField(); i++ {
			if !Same(a.Field(i), b.Field(i)) {
				return false
			}
		}
		return true
	case reflect.Array:
		for i := 0; i < a.Len(); i++ {
			if !Same(a.Index(i), b.Index(i)) {
				return false
			}
		}
		return true
	}
	return false
}

// SameMem reports whether two values of equal size have identical memory images (unsafe retyping keeps the bytes).
// Both are copied into fresh addressable cells of their own static types first.
func SameMem(a, b reflect.Value) bool {
	if !a.IsValid() || !b.IsValid() || a.Type().Size() != b.Type().Size() {
		return false
	}
	n := a.Type().Size()
	if n == 0 {
		return true
	}
	pa := reflect.New(a.Type())
	pa.Elem().Set(a)
	pb := reflect.New(b.Type())
	pb.Elem().Set(b)
	x := (*[1 << 20]byte)(unsafe.Pointer(pa.Pointer()))[:n:n]
	y := (*[1 << 20]byte)(unsafe.Pointer(pb.Pointer()))[:n:n]
	// padding bytes are zero in both (reflect.New zeroes, Set copies typed memory field-wise or whole — compare
	// only the bytes covered by leaves to be independent of that)
	for _, lf := range leavesOf(a.Type()) {
		for i := lf[0]; i < lf[0]+lf[1]; i++ {
			if x[i] != y[i] {
				return false
			}
		}
	}
	return true
}

func leavesOf(t reflect.Type) [][2]uintptr {
	var out [][2]uintptr
	var walk func(t reflect.Type, off uintptr)
	walk = func(t reflect.Type, off uintptr) {
		switch t.Kind() {
		case reflect.Struct:
			for i := 0; i < t.NumField(); i++ {
				walk(t.Field(i).Type, off+t.Field(i).Offset)
			}
		case reflect.Array:
			for i := 0; i < t.Len(); i++ {
				walk(t.Elem(), off+uintptr(i)*t.Elem().Size())
			}
		default:
			out = append(out, [2]uintptr{off, t.Size()})
		}
	}
	walk(t, 0)
	return out
}

// Class maps goom's / reflect's error and panic texts to the model's failure classes.
func Class(msg string) string {
	switch {
	case strings.Contains(msg, "the type of the args does not match"):
		return "size"
	case strings.Contains(msg, "the number of args does not match"):
		return "arity"
	case strings.Contains(msg, "on zero Value"):
		return "zerovalue"
	case strings.Contains(msg, "is not assignable to type"):
		return "assign"
	case strings.Contains(msg, "not support Return() API"):
		return "icontext"
	case strings.Contains(msg, "reflect: Elem of invalid type"):
		return "elem"
	case strings.Contains(msg, "length not match") || strings.Contains(msg, "lenth not match"):
		return "returns"
	case strings.Contains(msg, "invalid memory address or nil pointer dereference"):
		return "nilderef"
	}
	w := strings.Fields(strings.ToLower(msg))
	if len(w) > 5 {
		w = w[:5]
	}
	return "other:" + strings.Join(w, "-")
}

// Catch runs f; a panic becomes prefix+Class(text).
func Catch(prefix string, f func() string) (res string) {
	defer func() {
		if r := recover(); r != nil {
			res = prefix + Class(fmt.Sprint(r))
		}
	}()
	return f()
}

// Direct reports whether t is pointer-shaped (stored directly in an interface word; abi.Type.IfaceIndir() == false).
func Direct(t reflect.Type) bool {
	switch t.Kind() {
	case reflect.Ptr, reflect.Map, reflect.Chan, reflect.Func, reflect.UnsafePointer:
		return true
	case reflect.Struct:
		return t.NumField() == 1 && Direct(t.Field(0).Type)
	case reflect.Array:
		return t.Len() == 1 && Direct(t.Elem())
	}
	return false
}

// Catalog dumps one line per catalogue type: name, kind, size, nilable, layout, implemented catalogue interfaces, term.
func Catalog() []string {
	var out []string
	for _, d := range Decls {
		var impl []string
		for _, i := range Decls {
			if i.Typ.Kind() == reflect.Interface && d.Typ.Implements(i.Typ) {
				impl = append(impl, i.Name)
			}
		}
		if len(impl) == 0 {
			impl = []string{"-"}
		}
		var assign []string // catalogue types a value of this type may be returned as without conversion (Go assignability)
		for _, o := range Decls {
			if o != d && d.Typ.AssignableTo(o.Typ) && o.Typ.Kind() != reflect.Interface {
				assign = append(assign, o.Name)
			}
		}
		if len(assign) == 0 {
			assign = []string{"-"}
		}
		_, hasFn := funcPool[d.Name]
		out = append(out, fmt.Sprintf("type %s kind=%s rkind=%s size=%d layout=%s impl=%s assign=%s funcs=%v go=%s direct=%v ;; %s", d.Name, CoarseKind(d.Typ.Kind()),
			d.Typ.Kind(), d.Typ.Size(), Layout(d.Typ), strings.Join(impl, ","), strings.Join(assign, ","), hasFn, nosp(d.Typ.String()), Direct(d.Typ), TyTerm(d.Typ)))
	}
	for _, m := range Multis {
		out = append(out, fmt.Sprintf("multi %s %s", m.Name, strings.Join(m.Outs, ",")))
	}
	for _, p := range Pairs2 {
		out = append(out, fmt.Sprintf("pair2 %s %s", p.A, p.B))
	}
	for _, v := range Variadics {
		out = append(out, "variadic "+v.Elem)
	}
	for _, m := range Meths {
		out = append(out, "meth "+m.Out)
	}
	return out
}
