// Package c09cat is the type/value catalogue of the C09 probes (stubbed values reach callers unaltered and
// typed as declared).  It is injected as github.com/tencent/goom/internal/zzverif/c09cat with `go test -overlay`.
// It must not import goom's `arg` or root package (the in-package probes of those import it).
package c09cat

import "fmt"

// ---- named scalars

type MyInt int
type MyI64 int64

func (m MyI64) String() string { return fmt.Sprint(int64(m)) }

type MyStr string
type MyBool bool
type MyF64 float64
type MyU8 uint8

// ---- structs (all fields exported so that reflection can build values)

// S1 is the "real" type; S1b has the identical layout under other names; S1c the same size with another field class.
type S1 struct {
	A int64
	B int32
	C bool
}

// Error makes *S1 an error.
func (s *S1) Error() string { return "S1" }

type S1b struct {
	X int64
	Y int32
	Z bool
}
type S1c struct {
	A int64
	B float32
	C bool
}
type S2 struct{ A, B, C int64 }
type S3 struct{ A, B int32 }

func (s S3) String() string { return "S3" }

type S3b struct{ P, Q int32 }
type S4 struct{ P *int }
type S5 struct{ A int8 }
type E0 struct{}
type S6 struct {
	S string
	N int
}
type S7 struct {
	In S3
	T  int8
}
type S7b struct {
	In S3b
	T  int8
}
type S8 struct {
	A int64
	E struct{}
}
type S9 struct {
	I interface{}
	F float64
	K [2]int16
}
type S10 struct {
	A int8
	B int64
	C int8
}

// ---- interfaces and implementers

type Shape interface {
	Area() int
	Name() string
}
type Sq struct{ W int }

func (s Sq) Area() int    { return s.W * s.W }
func (s Sq) Name() string { return "sq" }

type Circ struct{ R int }

func (c *Circ) Area() int    { return 3 * c.R * c.R }
func (c *Circ) Name() string { return "circ" }

// HalfShape has only one of Shape's methods.
type HalfShape struct{ W int }

func (h HalfShape) Area() int { return h.W }

// ---- named composites

type IDs []int
type Dict map[string]int
type Handler func(int) int
type Pipe chan int
type PS1 *S1
type Arr4 [4]int32

// ---- review round 5: shapes the first catalogue could not express

// Sealed has an unexported method: only types of this package can implement it.
type Sealed interface {
	M() int
	m()
}

// Impl implements Sealed (exported and unexported method); HalfSealed only has the exported one.
type Impl struct{ V int }

func (i Impl) M() int { return i.V }
func (i Impl) m()     {}

type HalfSealed struct{ V int }

func (h HalfSealed) M() int { return h.V }

// ST is a named slice of an untagged struct; the catalogue also holds the unnamed slice of the *tagged* struct.
type ST []struct{ A int }

// Node is self-referential and pointer-shaped.
type Node struct{ Next *Node }

type E0b struct{}

// StrList is a slice type that itself implements fmt.Stringer, and so does each of its elements.
type StrList []MyI64

func (l StrList) String() string { return fmt.Sprint(len(l)) }

// ErrList is a slice type that is an error; its elements are errors too.
type ErrList []*S1

func (l ErrList) Error() string { return "errlist" }

// Svc carries the method corpus (see corpus.go).
type Svc struct{ N int }

// Sink defeats dead-code elimination in the corpus functions.
var Sink int

// ---- func pool

func fnA()              { Sink++ }
func fnB()              { Sink += 2 }
func fnI1(x int) int    { return x + 1 }
func fnI2(x int) int    { return x * 2 }
func fnE1() error       { return nil }
func fnE2() error       { return fmt.Errorf("e2") }
func hA(x int) int      { return x - 1 }
func hB(x int) int      { return -x }
