package mocker

import (
	"reflect"
	"strconv"
	"strings"
	"testing"

	"github.com/tencent/goom/arg"
	cat "github.com/tencent/goom/internal/zzverif/c09cat"
	"github.com/tencent/goom/internal/zzverif/vh"
)

type c09mbox struct {
	nilv bool
	v    reflect.Value
	i    interface{}
}

func c09mParseBox(toks []string) (c09mbox, []string) {
	if toks[0] == "nil" {
		return c09mbox{nilv: true}, toks[1:]
	}
	d := cat.ByName(toks[0])
	if d == nil {
		panic("unknown catalogue type " + toks[0])
	}
	v, rest := cat.Build(d.Typ, toks[1:])
	return c09mbox{v: v, i: v.Interface()}, rest
}

func c09mDirect(t reflect.Type) bool {
	switch t.Kind() {
	case reflect.Ptr, reflect.Map, reflect.Chan, reflect.Func, reflect.UnsafePointer:
		return true
	case reflect.Struct:
		return t.NumField() == 1 && c09mDirect(t.Field(0).Type)
	case reflect.Array:
		return t.Len() == 1 && c09mDirect(t.Elem())
	}
	return false
}

// c09mMisflagged mirrors the model's `RV.wellFlagged` for a value that toValue accepts: the supplied value is
// retyped (arg/value.go:51-56 — today for struct and pointer results) across kinds or across the
// direct/indirect representation boundary.  Calling the stub then is outside the model (and may corrupt memory).
func c09mMisflagged(b c09mbox, out reflect.Type) bool {
	if b.nilv || b.v.Type() == out || (out.Kind() != reflect.Struct && out.Kind() != reflect.Ptr) {
		return false
	}
	return b.v.Type().Size() == out.Size() && (b.v.Type().Kind() != out.Kind() || c09mDirect(b.v.Type()) != c09mDirect(out))
}

// c09mUnsafeStored: goom would accept b for a parameter of type t by retyping it (arg/value.go:51-56), but the pair is not a
// layout-compatible stand-in (or is mis-flagged): the stored value takes part in EVERY comparison of that stub, and goom's
// `equal` follows pointers (Elem / reflect.DeepEqual) as the declared type — e.g. a **int view of a *[2]int32 would follow an
// int32 pair as a pointer.  The property promises comparison only for layout-compatible stand-ins, so no call is made then.
func c09mUnsafeStored(b c09mbox, t reflect.Type) bool {
	if b.nilv || b.v.Type() == t || (t.Kind() != reflect.Struct && t.Kind() != reflect.Ptr) || b.v.Type().Size() != t.Size() {
		return false // not retyped (kept as is, boxed, or rejected)
	}
	return c09mMisflagged(b, t) || !cat.SafeRetype(b.v, t)
}

// c09mActual is the argument a caller would pass for "the supplied value b, as a value of the declared type t":
// the zero value for nil, the value itself when assignable, the same bytes retyped for an accepted stand-in.
func c09mActual(b c09mbox, t reflect.Type) (reflect.Value, bool) {
	switch {
	case b.nilv:
		return reflect.Value{}, true
	case b.v.Type().AssignableTo(t):
		return b.v, true
	case (t.Kind() == reflect.Struct || t.Kind() == reflect.Ptr) && b.v.Type().Size() == t.Size() && !c09mMisflagged(b, t) && cat.SafeRetype(b.v, t):
		return cat.Retype(b.v, t), true
	}
	return reflect.Value{}, false
}

// c09mJudge compares what the caller received with what was supplied (the property oracle's raw facts).
func c09mJudge(got reflect.Value, b c09mbox, out reflect.Type) string {
	switch {
	case b.nilv:
		return strconv.FormatBool(got.IsZero())
	case b.v.Type() == out:
		return strconv.FormatBool(cat.Same(got, b.v))
	case out.Kind() == reflect.Interface:
		return strconv.FormatBool(!got.IsNil() && cat.Same(got.Elem(), b.v))
	case b.v.Type().AssignableTo(out):
		return strconv.FormatBool(cat.Same(got, b.v.Convert(out)))
	default:
		return strconv.FormatBool(cat.SameMem(got, b.v))
	}
}

func c09mParseCall(toks []string) (outs []string, boxes []c09mbox) {
	nt, _ := strconv.Atoi(toks[0])
	outs = toks[1 : 1+nt]
	rest := toks[1+nt:]
	no, _ := strconv.Atoi(rest[0])
	rest = rest[1:]
	for i := 0; i < no; i++ {
		var b c09mbox
		b, rest = c09mParseBox(rest)
		boxes = append(boxes, b)
	}
	return
}

// c09mGroup is one `PairRet`: `one <box>` (the bare value, possibly nil) or `list <n> box*n` ([]interface{}{...}).
type c09mGroup struct {
	list  bool
	boxes []c09mbox
}

func c09mParseGroup(toks []string) (c09mGroup, []string) {
	switch toks[0] {
	case "one":
		b, rest := c09mParseBox(toks[1:])
		return c09mGroup{boxes: []c09mbox{b}}, rest
	case "list":
		n, _ := strconv.Atoi(toks[1])
		rest := toks[2:]
		g := c09mGroup{list: true, boxes: []c09mbox{}}
		for i := 0; i < n; i++ {
			var b c09mbox
			b, rest = c09mParseBox(rest)
			g.boxes = append(g.boxes, b)
		}
		return g, rest
	}
	panic("bad group " + toks[0])
}

// value is what the user writes as Pair.Return / as one element of Returns(...).
func (g c09mGroup) value() interface{} {
	if !g.list {
		return g.boxes[0].i
	}
	vs := make([]interface{}, len(g.boxes))
	for i, b := range g.boxes {
		vs[i] = b.i
	}
	return vs
}

func (g c09mGroup) misflagged(types []reflect.Type) bool {
	for i, b := range g.boxes {
		if i < len(types) && c09mMisflagged(b, types[i]) {
			return true
		}
	}
	return false
}

// c09mCorpusA finds the one-argument corpus function func(id int) (outs...).
func c09mCorpusA(outs []string) (fn interface{}, call func(int) []reflect.Value, types []reflect.Type) {
	for _, o := range outs {
		types = append(types, cat.ByName(o).Typ)
	}
	if len(outs) == 1 {
		d := cat.ByName(outs[0])
		return d.RetA, func(id int) []reflect.Value { return []reflect.Value{d.CallRetA(id)} }, types
	}
	m := cat.MultiFor(outs)
	if m == nil {
		panic("no corpus function for " + strings.Join(outs, ","))
	}
	return m.FnA, m.CallA, types
}

// c09mCallDesc calls the stub and describes what arrived against group g.
func c09mCallDesc(call func(int) []reflect.Value, id int, g c09mGroup, types []reflect.Type) (string, string) {
	same := "-"
	d := cat.Catch("callpanic:", func() string {
		got := call(id)
		ds := make([]string, len(got))
		ss := make([]string, len(got))
		for i, x := range got {
			ds[i] = cat.Desc(x)
			ss[i] = "-"
			if i < len(g.boxes) {
				ss[i] = c09mJudge(x, g.boxes[i], types[i])
			}
		}
		same = strings.Join(ss, ",")
		return "got " + strings.Join(ds, " ")
	})
	return d, same
}

// TestVerifC09 drives the real Return(...)/When(...)/Eval on stubbed corpus functions.
func TestVerifC09(t *testing.T) {
	out := vh.OpenOut()
	defer out.Close()
	for _, op := range vh.ReadOps() {
		if len(op.Toks) == 0 || !strings.HasPrefix(op.Toks[0], "c09.") {
			continue
		}
		toks := op.Toks
		for i, tk := range toks {
			if tk == ";;" {
				toks = toks[:i]
				break
			}
		}
		res := cat.Catch("probe-error:", func() string {
			switch toks[0] {
			case "c09.ret", "c09.eval":
				outs, boxes := c09mParseCall(toks[1:])
				var fn interface{}
				var call func() []reflect.Value
				var nilAny func() bool
				var types []reflect.Type
				for _, o := range outs {
					types = append(types, cat.ByName(o).Typ)
				}
				if len(outs) == 1 {
					d := cat.ByName(outs[0])
					fn, nilAny = d.Ret, d.NilAny
					call = func() []reflect.Value { return []reflect.Value{d.CallRet()} }
				} else {
					m := cat.MultiFor(outs)
					if m == nil {
						panic("no corpus function for " + strings.Join(outs, ","))
					}
					fn, call = m.Fn, m.Call
				}
				vals := make([]interface{}, len(boxes))
				for i, b := range boxes {
					vals[i] = b.i
				}
				mock := Create()
				defer mock.Reset()
				var when *When
				cfg := cat.Catch("cfgpanic:", func() string { when = mock.Func(fn).Return(vals...); return "" })
				if cfg != "" {
					return cfg
				}
				if toks[0] == "c09.eval" {
					return cat.Catch("eval panic:", func() string {
						for i := range boxes {
							if i < len(types) && c09mMisflagged(boxes[i], types[i]) {
								return "eval unmodelled"
							}
						}
						bs := when.Eval()
						ds := make([]string, len(bs))
						rts := make([]string, len(bs))
						for i, x := range bs {
							ds[i] = cat.BoxDesc(x)
							switch {
							case x == nil:
								rts[i] = strconv.FormatBool(boxes[i].nilv || (boxes[i].v.Kind() == reflect.Ptr && boxes[i].v.IsNil()))
							case boxes[i].nilv:
								rts[i] = strconv.FormatBool(reflect.ValueOf(x).IsZero())
							case reflect.TypeOf(x) == boxes[i].v.Type():
								rts[i] = strconv.FormatBool(cat.Same(reflect.ValueOf(x), boxes[i].v))
							default:
								rts[i] = strconv.FormatBool(cat.SameMem(reflect.ValueOf(x), boxes[i].v))
							}
						}
						return "eval " + strings.Join(ds, " ") + " # rt=" + strings.Join(rts, ",")
					})
				}
				for i := range boxes {
					if i < len(types) && c09mMisflagged(boxes[i], types[i]) {
						return "cfgok call=unmodelled"
					}
				}
				return cat.Catch("callpanic:", func() string {
					got := call()
					ds := make([]string, len(got))
					same := make([]string, len(got))
					for i, g := range got {
						ds[i] = cat.Desc(g)
						same[i] = c09mJudge(g, boxes[i], types[i])
					}
					s := "got " + strings.Join(ds, " ") + " # same=" + strings.Join(same, ",")
					if nilAny != nil {
						s += " eqnil=" + strconv.FormatBool(nilAny())
					}
					return s
				})
			case "c09.matches":
				// Return(<zero defaults>).Matches(Pair{Args: 1, Return: R}); call f(1) and f(2)
				nt, _ := strconv.Atoi(toks[1])
				outs := toks[2 : 2+nt]
				g, _ := c09mParseGroup(toks[2+nt:])
				fn, call, types := c09mCorpusA(outs)
				dflt := make([]interface{}, len(types))
				for i, t := range types {
					dflt[i] = reflect.Zero(t).Interface()
				}
				mock := Create()
				defer mock.Reset()
				cfg := cat.Catch("cfgpanic:", func() string {
					mock.Func(fn).Return(dflt...).Matches(arg.Pair{Args: 1, Return: g.value()})
					return ""
				})
				if cfg != "" {
					return cfg
				}
				if g.misflagged(types) {
					return "cfgok call=unmodelled"
				}
				d, same := c09mCallDesc(call, 1, g, types)
				// the other argument still gets the default (zero) results
				dz := cat.Catch("callpanic:", func() string {
					for _, x := range call(2) {
						if !x.IsZero() {
							return "false"
						}
					}
					return "true"
				})
				res := d + " # same=" + same + " dflt=" + dz
				if len(outs) == 1 && strings.HasPrefix(d, "got") {
					x := call(1)[0]
					if x.Kind() == reflect.Interface {
						res += " eqnil=" + strconv.FormatBool(x.IsNil())
					}
				}
				return res
			case "c09.seq":
				// Returns(g1, g2, ...) then k+1 calls: g1, g2, ..., gk, gk
				nt, _ := strconv.Atoi(toks[1])
				outs := toks[2 : 2+nt]
				k, _ := strconv.Atoi(toks[2+nt])
				rest := toks[3+nt:]
				groups := make([]c09mGroup, k)
				vals := make([]interface{}, k)
				for i := 0; i < k; i++ {
					groups[i], rest = c09mParseGroup(rest)
					vals[i] = groups[i].value()
				}
				fn, call, types := c09mCorpusA(outs)
				mock := Create()
				defer mock.Reset()
				cfg := cat.Catch("cfgpanic:", func() string { mock.Func(fn).Returns(vals...); return "" })
				if cfg != "" {
					return cfg
				}
				for _, g := range groups {
					if g.misflagged(types) {
						return "cfgok call=unmodelled"
					}
				}
				var ds, ss []string
				for i := 0; i <= k; i++ {
					gi := i
					if gi >= k {
						gi = k - 1
					}
					d, same := c09mCallDesc(call, i, groups[gi], types)
					ds = append(ds, d)
					ss = append(ss, same)
				}
				return strings.Join(ds, " | ") + " # same=" + strings.Join(ss, ";")
			case "c09.when":
				d := cat.ByName(toks[1])
				b, _ := c09mParseBox(toks[2:])
				mock := Create()
				defer mock.Reset()
				cfg := cat.Catch("cfgpanic:", func() string {
					m := mock.Func(d.In)
					m.Return(0)
					m.When(b.i).Return(1)
					return ""
				})
				if cfg != "" {
					return cfg
				}
				if c09mUnsafeStored(b, d.Typ) {
					return "ok # match=-"
				}
				// call with the supplied value itself (the zero value for nil) when it has the parameter's type
				return cat.Catch("callpanic:", func() string {
					switch {
					case b.nilv:
						return "ok # match=" + strconv.Itoa(d.CallIn(reflect.Value{}))
					case b.v.Type().AssignableTo(d.Typ):
						res := "ok # match=" + strconv.Itoa(d.CallIn(b.v))
						// near miss: the same call with the lowest bit of a scalar argument flipped (or one byte appended to a
						// string) must NOT be answered by When(x): values are compared as values of the declared type, unaltered
						if nv, ok := c09mNear(b.v); ok && d.Typ == b.v.Type() {
							res += " near=" + strconv.Itoa(d.CallIn(nv))
						}
						return res
					}
					if a, ok := c09mActual(b, d.Typ); ok {
						return "ok # match=" + strconv.Itoa(d.CallIn(a))
					}
					return "ok # match=-"
				})
			case "c09.in":
				// ONE arg.In(values...) object used for two stubs with different declared parameter types
				d1, d2 := cat.ByName(toks[1]), cat.ByName(toks[2])
				k, _ := strconv.Atoi(toks[3])
				rest := toks[4:]
				boxes := make([]c09mbox, k)
				vals := make([]interface{}, k)
				for i := 0; i < k; i++ {
					boxes[i], rest = c09mParseBox(rest)
					vals[i] = boxes[i].i
				}
				expr := arg.In(vals...)
				var ts, ms []string
				for _, d := range []*cat.Decl{d1, d2} {
					d := d
					func() {
						mock := Create()
						defer mock.Reset()
						cfg := cat.Catch("cfgpanic:", func() string {
							m := mock.Func(d.In)
							m.Return(0)
							m.When(expr).Return(1)
							return "ok"
						})
						ts = append(ts, cfg)
						if cfg != "ok" {
							ms = append(ms, "-")
							return
						}
						var mm []string
						for _, b := range boxes {
							if c09mUnsafeStored(b, d.Typ) { // such a stored value takes part in every comparison: no calls
								ms = append(ms, "-")
								return
							}
						}
						for _, b := range boxes {
							r := "-"
							if a, ok := c09mActual(b, d.Typ); ok {
								r = cat.Catch("p:", func() string { return strconv.Itoa(d.CallIn(a)) })
							}
							mm = append(mm, r)
						}
						if len(mm) == 0 {
							mm = []string{"-"}
						}
						ms = append(ms, strings.Join(mm, ","))
					}()
				}
				return "t1=" + ts[0] + " t2=" + ts[1] + " # m1=" + ms[0] + " m2=" + ms[1]
			case "c09.when2":
				p2 := cat.Pair2For(toks[1], toks[2])
				ta, tb := cat.ByName(toks[1]).Typ, cat.ByName(toks[2]).Typ
				ba, rest := c09mParseBox(toks[3:])
				bb, _ := c09mParseBox(rest)
				mock := Create()
				defer mock.Reset()
				cfg := cat.Catch("cfgpanic:", func() string {
					m := mock.Func(p2.Fn)
					m.Return(0)
					m.When(ba.i, bb.i).Return(1)
					return ""
				})
				if cfg != "" {
					return cfg
				}
				if c09mUnsafeStored(ba, ta) || c09mUnsafeStored(bb, tb) {
					return "ok # match=-"
				}
				return cat.Catch("callpanic:", func() string {
					a, ok1 := c09mActual(ba, ta)
					b, ok2 := c09mActual(bb, tb)
					if !ok1 || !ok2 {
						return "ok # match=-"
					}
					return "ok # match=" + strconv.Itoa(p2.Call(a, b))
				})
			case "c09.whenv":
				vd := cat.VariadicFor(toks[1])
				et := cat.ByName(toks[1]).Typ
				k, _ := strconv.Atoi(toks[2])
				rest := toks[3:]
				boxes := make([]c09mbox, k)
				vals := make([]interface{}, k)
				for i := 0; i < k; i++ {
					boxes[i], rest = c09mParseBox(rest)
					vals[i] = boxes[i].i
				}
				mock := Create()
				defer mock.Reset()
				cfg := cat.Catch("cfgpanic:", func() string {
					m := mock.Func(vd.Fn)
					m.Return(0)
					m.When(vals...).Return(1)
					return ""
				})
				if cfg != "" {
					return cfg
				}
				for _, b := range boxes {
					if c09mUnsafeStored(b, et) {
						return "ok # match=-"
					}
				}
				return cat.Catch("callpanic:", func() string {
					as := make([]reflect.Value, k)
					for i, b := range boxes {
						a, ok := c09mActual(b, et)
						if !ok {
							return "ok # match=-"
						}
						as[i] = a
					}
					res := "ok # match=" + strconv.Itoa(vd.Call(as))
					if k > 0 { // one argument fewer must not be answered by this When
						res += " fewer=" + strconv.Itoa(vd.Call(as[:k-1]))
					}
					return res
				})
			case "c09.whenseq", "c09.whenand":
				// Return(defaults); When(1).Returns(g1..gk)  |  When(1).Return(g1).AndReturn(g2)...; k+1 calls f(1), then f(2)
				nt, _ := strconv.Atoi(toks[1])
				outs := toks[2 : 2+nt]
				k, _ := strconv.Atoi(toks[2+nt])
				rest := toks[3+nt:]
				groups := make([]c09mGroup, k)
				vals := make([]interface{}, k)
				for i := 0; i < k; i++ {
					groups[i], rest = c09mParseGroup(rest)
					vals[i] = groups[i].value()
				}
				fn, call, types := c09mCorpusA(outs)
				dflt := make([]interface{}, len(types))
				for i, t := range types {
					dflt[i] = reflect.Zero(t).Interface()
				}
				mock := Create()
				defer mock.Reset()
				cfg := cat.Catch("cfgpanic:", func() string {
					m := mock.Func(fn)
					m.Return(dflt...)
					w := m.When(1)
					if toks[0] == "c09.whenseq" {
						w.Returns(vals...)
						return ""
					}
					for i, g := range groups {
						vs := make([]interface{}, len(g.boxes))
						for j, b := range g.boxes {
							vs[j] = b.i
						}
						if i == 0 {
							w.Return(vs...)
						} else {
							w.AndReturn(vs...)
						}
					}
					return ""
				})
				if cfg != "" {
					return cfg
				}
				for _, g := range groups {
					if g.misflagged(types) {
						return "cfgok call=unmodelled"
					}
				}
				var ds, ss []string
				for i := 0; i <= k; i++ {
					gi := i
					if gi >= k {
						gi = k - 1
					}
					d, same := c09mCallDesc(call, 1, groups[gi], types)
					ds = append(ds, d)
					ss = append(ss, same)
				}
				dz := cat.Catch("callpanic:", func() string {
					for _, x := range call(2) {
						if !x.IsZero() {
							return "false"
						}
					}
					return "true"
				})
				return strings.Join(ds, " | ") + " # same=" + strings.Join(ss, ";") + " dflt=" + dz
			case "c09.meth":
				// Return(values...) on a method mock (m) / an interface-variable mock (i), then one call
				me := cat.MethFor(toks[2])
				typ := cat.ByName(toks[2]).Typ
				no, _ := strconv.Atoi(toks[3])
				rest := toks[4:]
				boxes := make([]c09mbox, no)
				vals := make([]interface{}, no)
				for i := 0; i < no; i++ {
					boxes[i], rest = c09mParseBox(rest)
					vals[i] = boxes[i].i
				}
				mock := Create()
				defer mock.Reset()
				var iv cat.SvcI
				cfg := cat.Catch("cfgpanic:", func() string {
					if toks[1] == "m" {
						mock.Struct(&cat.Svc{}).Method(me.Name).Return(vals...)
					} else {
						// As(func(ctx *IContext, id int) T): only its type is used on the Return path
						ft := reflect.FuncOf([]reflect.Type{reflect.TypeOf(&IContext{}), reflect.TypeOf(0)}, []reflect.Type{typ}, false)
						as := reflect.MakeFunc(ft, func([]reflect.Value) []reflect.Value { return []reflect.Value{reflect.Zero(typ)} }).Interface()
						mock.Interface(&iv).Method(me.Name).As(as).Return(vals...)
					}
					return ""
				})
				if cfg != "" {
					return cfg
				}
				if no >= 1 && c09mMisflagged(boxes[0], typ) {
					return "cfgok call=unmodelled"
				}
				return cat.Catch("callpanic:", func() string {
					var got reflect.Value
					if toks[1] == "m" {
						got = me.Call(&cat.Svc{N: 1}, 1)
					} else {
						got = me.CallI(iv, 1)
					}
					same := "-"
					if no >= 1 {
						same = c09mJudge(got, boxes[0], typ)
					}
					res := "got " + cat.Desc(got) + " # same=" + same
					if got.Kind() == reflect.Interface {
						res += " eqnil=" + strconv.FormatBool(got.IsNil())
					}
					return res
				})
			}
			return ""
		})
		if res != "" {
			out.Put(op.Idx, "%s", res)
		}
	}
}


// c09mNear returns a value of the same type that differs from v in the least significant position.
func c09mNear(v reflect.Value) (reflect.Value, bool) {
	n := reflect.New(v.Type()).Elem()
	switch v.Kind() {
	case reflect.Int, reflect.Int8, reflect.Int16, reflect.Int32, reflect.Int64:
		n.SetInt(v.Int() ^ 1)
	case reflect.Uint, reflect.Uint8, reflect.Uint16, reflect.Uint32, reflect.Uint64, reflect.Uintptr:
		n.SetUint(v.Uint() ^ 1)
	case reflect.String:
		n.SetString(v.String() + "x")
	case reflect.Bool:
		n.SetBool(!v.Bool())
	default:
		return v, false
	}
	return n, true
}
