package mocker

import (
	"reflect"
	"strconv"
	"strings"
	"testing"

	"github.com/tencent/goom/arg"
	cat "github.com/tencent/goom/internal/zzverif/c09cat"
	"github.com/tencent/goom/internal/zzverif/vh"
)

type c09mbox struct {
	nilv bool
	v    reflect.Value
	i    interface{}
}

func c09mParseBox(toks []string) (c09mbox, []string) {
	if toks[0] == "nil" {
		return c09mbox{nilv: true}, toks[1:]
	}
	d := cat.ByName(toks[0])
	if d == nil {
		panic("unknown catalogue type " + toks[0])
	}
	v, rest := cat.Build(d.Typ, toks[1:])
	return c09mbox{v: v, i: v.Interface()}, rest
}

func c09mDirect(t reflect.Type) bool {
	switch t.Kind() {
	case reflect.Ptr, reflect.Map, reflect.Chan, reflect.Func, reflect.UnsafePointer:
		return true
	case reflect.Struct:
		return t.NumField() == 1 && c09mDirect(t.Field(0).Type)
	case reflect.Array:
		return t.Len() == 1 && c09mDirect(t.Elem())
	}
	return false
}

// c09mMisflagged mirrors the model's `RV.wellFlagged` for a value that toValue accepts: the supplied value is
// retyped (arg/value.go:51-56 — today for struct and pointer results) across kinds or across the
// direct/indirect representation boundary.  Calling the stub then is outside the model (and may corrupt memory).
func c09mMisflagged(b c09mbox, out reflect.Type) bool {
	if b.nilv || b.v.Type() == out || (out.Kind() != reflect.Struct && out.Kind() != reflect.Ptr) {
		return false
	}
	return b.v.Type().Size() == out.Size() && (b.v.Type().Kind() != out.Kind() || c09mDirect(b.v.Type()) != c09mDirect(out))
}

// c09mJudge compares what the caller received with what was supplied (the property oracle's raw facts).
func c09mJudge(got reflect.Value, b c09mbox, out reflect.Type) string {
	switch {
	case b.nilv:
		return strconv.FormatBool(got.IsZero())
	case b.v.Type() == out:
		return strconv.FormatBool(cat.Same(got, b.v))
	case out.Kind() == reflect.Interface:
		return strconv.FormatBool(!got.IsNil() && cat.Same(got.Elem(), b.v))
	case b.v.Type().AssignableTo(out):
		return strconv.FormatBool(cat.Same(got, b.v.Convert(out)))
	default:
		return strconv.FormatBool(cat.SameMem(got, b.v))
	}
}

func c09mParseCall(toks []string) (outs []string, boxes []c09mbox) {
	nt, _ := strconv.Atoi(toks[0])
	outs = toks[1 : 1+nt]
	rest := toks[1+nt:]
	no, _ := strconv.Atoi(rest[0])
	rest = rest[1:]
	for i := 0; i < no; i++ {
		var b c09mbox
		b, rest = c09mParseBox(rest)
		boxes = append(boxes, b)
	}
	return
}

// c09mGroup is one `PairRet`: `one <box>` (the bare value, possibly nil) or `list <n> box*n` ([]interface{}{...}).
type c09mGroup struct {
	list  bool
	boxes []c09mbox
}

func c09mParseGroup(toks []string) (c09mGroup, []string) {
	switch toks[0] {
	case "one":
		b, rest := c09mParseBox(toks[1:])
		return c09mGroup{boxes: []c09mbox{b}}, rest
	case "list":
		n, _ := strconv.Atoi(toks[1])
		rest := toks[2:]
		g := c09mGroup{list: true, boxes: []c09mbox{}}
		for i := 0; i < n; i++ {
			var b c09mbox
			b, rest = c09mParseBox(rest)
			g.boxes = append(g.boxes, b)
		}
		return g, rest
	}
	panic("bad group " + toks[0])
}

// value is what the user writes as Pair.Return / as one element of Returns(...).
func (g c09mGroup) value() interface{} {
	if !g.list {
		return g.boxes[0].i
	}
	vs := make([]interface{}, len(g.boxes))
	for i, b := range g.boxes {
		vs[i] = b.i
	}
	return vs
}

func (g c09mGroup) misflagged(types []reflect.Type) bool {
	for i, b := range g.boxes {
		if i < len(types) && c09mMisflagged(b, types[i]) {
			return true
		}
	}
	return false
}

// c09mCorpusA finds the one-argument corpus function func(id int) (outs...).
func c09mCorpusA(outs []string) (fn interface{}, call func(int) []reflect.Value, types []reflect.Type) {
	for _, o := range outs {
		types = append(types, cat.ByName(o).Typ)
	}
	if len(outs) == 1 {
		d := cat.ByName(outs[0])
		return d.RetA, func(id int) []reflect.Value { return []reflect.Value{d.CallRetA(id)} }, types
	}
	m := cat.MultiFor(outs)
	if m == nil {
		panic("no corpus function for " + strings.Join(outs, ","))
	}
	return m.FnA, m.CallA, types
}

// c09mCallDesc calls the stub and describes what arrived against group g.
func c09mCallDesc(call func(int) []reflect.Value, id int, g c09mGroup, types []reflect.Type) (string, string) {
	same := "-"
	d := cat.Catch("callpanic:", func() string {
		got := call(id)
		ds := make([]string, len(got))
		ss := make([]string, len(got))
		for i, x := range got {
			ds[i] = cat.Desc(x)
			ss[i] = "-"
			if i < len(g.boxes) {
				ss[i] = c09mJudge(x, g.boxes[i], types[i])
			}
		}
		same = strings.Join(ss, ",")
		return "got " + strings.Join(ds, " ")
	})
	return d, same
}

// TestVerifC09 drives the real Return(...)/When(...)/Eval on stubbed corpus functions.
func TestVerifC09(t *testing.T) {
	out := vh.OpenOut()
	defer out.Close()
	for _, op := range vh.ReadOps() {
		if len(op.Toks) == 0 || !strings.HasPrefix(op.Toks[0], "c09.") {
			continue
		}
		toks := op.Toks
		for i, tk := range toks {
			if tk == ";;" {
				toks = toks[:i]
				break
			}
		}
		res := cat.Catch("probe-error:", func() string {
			switch toks[0] {
			case "c09.ret", "c09.eval":
				outs, boxes := c09mParseCall(toks[1:])
				var fn interface{}
				var call func() []reflect.Value
				var nilAny func() bool
				var types []reflect.Type
				for _, o := range outs {
					types = append(types, cat.ByName(o).Typ)
				}
				if len(outs) == 1 {
					d := cat.ByName(outs[0])
					fn, nilAny = d.Ret, d.NilAny
					call = func() []reflect.Value { return []reflect.Value{d.CallRet()} }
				} else {
					m := cat.MultiFor(outs)
					if m == nil {
						panic("no corpus function for " + strings.Join(outs, ","))
					}
					fn, call = m.Fn, m.Call
				}
				vals := make([]interface{}, len(boxes))
				for i, b := range boxes {
					vals[i] = b.i
				}
				mock := Create()
				defer mock.Reset()
				var when *When
				cfg := cat.Catch("cfgpanic:", func() string { when = mock.Func(fn).Return(vals...); return "" })
				if cfg != "" {
					return cfg
				}
				if toks[0] == "c09.eval" {
					return cat.Catch("eval panic:", func() string {
						for i := range boxes {
							if i < len(types) && c09mMisflagged(boxes[i], types[i]) {
								return "eval unmodelled"
							}
						}
						bs := when.Eval()
						ds := make([]string, len(bs))
						rts := make([]string, len(bs))
						for i, x := range bs {
							ds[i] = cat.BoxDesc(x)
							switch {
							case x == nil:
								rts[i] = strconv.FormatBool(boxes[i].nilv || (boxes[i].v.Kind() == reflect.Ptr && boxes[i].v.IsNil()))
							case boxes[i].nilv:
								rts[i] = strconv.FormatBool(reflect.ValueOf(x).IsZero())
							case reflect.TypeOf(x) == boxes[i].v.Type():
								rts[i] = strconv.FormatBool(cat.Same(reflect.ValueOf(x), boxes[i].v))
							default:
								rts[i] = strconv.FormatBool(cat.SameMem(reflect.ValueOf(x), boxes[i].v))
							}
						}
						return "eval " + strings.Join(ds, " ") + " # rt=" + strings.Join(rts, ",")
					})
				}
				for i := range boxes {
					if i < len(types) && c09mMisflagged(boxes[i], types[i]) {
						return "cfgok call=unmodelled"
					}
				}
				return cat.Catch("callpanic:", func() string {
					got := call()
					ds := make([]string, len(got))
					same := make([]string, len(got))
					for i, g := range got {
						ds[i] = cat.Desc(g)
						same[i] = c09mJudge(g, boxes[i], types[i])
					}
					s := "got " + strings.Join(ds, " ") + " # same=" + strings.Join(same, ",")
					if nilAny != nil {
						s += " eqnil=" + strconv.FormatBool(nilAny())
					}
					return s
				})
			case "c09.matches":
				// Return(<zero defaults>).Matches(Pair{Args: 1, Return: R}); call f(1) and f(2)
				nt, _ := strconv.Atoi(toks[1])
				outs := toks[2 : 2+nt]
				g, _ := c09mParseGroup(toks[2+nt:])
				fn, call, types := c09mCorpusA(outs)
				dflt := make([]interface{}, len(types))
				for i, t := range types {
					dflt[i] = reflect.Zero(t).Interface()
				}
				mock := Create()
				defer mock.Reset()
				cfg := cat.Catch("cfgpanic:", func() string {
					mock.Func(fn).Return(dflt...).Matches(arg.Pair{Args: 1, Return: g.value()})
					return ""
				})
				if cfg != "" {
					return cfg
				}
				if g.misflagged(types) {
					return "cfgok call=unmodelled"
				}
				d, same := c09mCallDesc(call, 1, g, types)
				// the other argument still gets the default (zero) results
				dz := cat.Catch("callpanic:", func() string {
					for _, x := range call(2) {
						if !x.IsZero() {
							return "false"
						}
					}
					return "true"
				})
				res := d + " # same=" + same + " dflt=" + dz
				if len(outs) == 1 && strings.HasPrefix(d, "got") {
					x := call(1)[0]
					if x.Kind() == reflect.Interface {
						res += " eqnil=" + strconv.FormatBool(x.IsNil())
					}
				}
				return res
			case "c09.seq":
				// Returns(g1, g2, ...) then k+1 calls: g1, g2, ..., gk, gk
				nt, _ := strconv.Atoi(toks[1])
				outs := toks[2 : 2+nt]
				k, _ := strconv.Atoi(toks[2+nt])
				rest := toks[3+nt:]
				groups := make([]c09mGroup, k)
				vals := make([]interface{}, k)
				for i := 0; i < k; i++ {
					groups[i], rest = c09mParseGroup(rest)
					vals[i] = groups[i].value()
				}
				fn, call, types := c09mCorpusA(outs)
				mock := Create()
				defer mock.Reset()
				cfg := cat.Catch("cfgpanic:", func() string { mock.Func(fn).Returns(vals...); return "" })
				if cfg != "" {
					return cfg
				}
				for _, g := range groups {
					if g.misflagged(types) {
						return "cfgok call=unmodelled"
					}
				}
				var ds, ss []string
				for i := 0; i <= k; i++ {
					gi := i
					if gi >= k {
						gi = k - 1
					}
					d, same := c09mCallDesc(call, i, groups[gi], types)
					ds = append(ds, d)
					ss = append(ss, same)
				}
				return strings.Join(ds, " | ") + " # same=" + strings.Join(ss, ";")
			case "c09.when":
				d := cat.ByName(toks[1])
				b, _ := c09mParseBox(toks[2:])
				mock := Create()
				defer mock.Reset()
				cfg := cat.Catch("cfgpanic:", func() string {
					m := mock.Func(d.In)
					m.Return(0)
					m.When(b.i).Return(1)
					return ""
				})
				if cfg != "" {
					return cfg
				}
				if c09mMisflagged(b, d.Typ) {
					return "ok # match=-"
				}
				// call with the supplied value itself (the zero value for nil) when it has the parameter's type
				return cat.Catch("callpanic:", func() string {
					switch {
					case b.nilv:
						return "ok # match=" + strconv.Itoa(d.CallIn(reflect.Value{}))
					case b.v.Type().AssignableTo(d.Typ):
						res := "ok # match=" + strconv.Itoa(d.CallIn(b.v))
						// near miss: the same call with the lowest bit of a scalar argument flipped (or one byte appended to a
						// string) must NOT be answered by When(x): values are compared as values of the declared type, unaltered
						if nv, ok := c09mNear(b.v); ok && d.Typ == b.v.Type() {
							res += " near=" + strconv.Itoa(d.CallIn(nv))
						}
						return res
					}
					return "ok # match=-"
				})
			}
			return ""
		})
		if res != "" {
			out.Put(op.Idx, "%s", res)
		}
	}
}


// c09mNear returns a value of the same type that differs from v in the least significant position.
func c09mNear(v reflect.Value) (reflect.Value, bool) {
	n := reflect.New(v.Type()).Elem()
	switch v.Kind() {
	case reflect.Int, reflect.Int8, reflect.Int16, reflect.Int32, reflect.Int64:
		n.SetInt(v.Int() ^ 1)
	case reflect.Uint, reflect.Uint8, reflect.Uint16, reflect.Uint32, reflect.Uint64, reflect.Uintptr:
		n.SetUint(v.Uint() ^ 1)
	case reflect.String:
		n.SetString(v.String() + "x")
	case reflect.Bool:
		n.SetBool(!v.Bool())
	default:
		return v, false
	}
	return n, true
}
