package iface

import (
	"fmt"
	"runtime/debug"
	"strconv"
	"testing"
	"unsafe"

	"github.com/tencent/goom/internal/zzverif/vh"
)

// Call-site lane of C15 (package iface): the real MakeMethodCaller / MakeMethodCallerWithCtx.  The stub they leave in
// the stub region is read back, interpreted with the reference decoder and called.

type c15fv struct{ code uintptr }

var c15keep []interface{}

func c15closure(k int) func(int) int {
	add := 100 * (k + 1)
	f := func(x int) int { return x*3 + add }
	c15keep = append(c15keep, f)
	return f
}

func c15site(kind string, k int, static func(string)) string {
	f := c15closure(k)
	fv := *(*unsafe.Pointer)(unsafe.Pointer(&f)) // the function value: pointer to {code, captured...}
	code := *(*uintptr)(fv)
	var (
		stub uintptr
		err  error
		head string
	)
	if kind == "iface.caller" {
		stub, err = MakeMethodCaller(fv)
		head = fmt.Sprintf("arg=%#x", uintptr(fv))
	} else {
		// as GenCallableMethod does: ctx is the function value, `to` the code it finally reaches
		stub, err = MakeMethodCallerWithCtx(fv, code)
		head = fmt.Sprintf("arg=%#x to=%#x", uintptr(fv), code)
	}
	if err != nil {
		return "err:" + vh.Class(err.Error())
	}
	m := append([]byte(nil), (*[1 << 20]byte)(unsafe.Pointer(stub))[:interfaceJumpDataLen:interfaceJumpDataLen]...)
	run, n := vh.RunX86Mem(m, uint64(stub))
	res := fmt.Sprintf("stub=%#x %s deref=%#x slot=%d bytes=%s %s", stub, head, code, interfaceJumpDataLen, vh.Hex(m[:n]), run)
	static(res) // on record before the stub is executed
	// enter the stub the way an itab entry does: an indirect call to its address
	h := &c15fv{stub}
	c15keep = append(c15keep, h)
	var g func(int) int
	*(*unsafe.Pointer)(unsafe.Pointer(&g)) = unsafe.Pointer(h)
	return res + fmt.Sprintf(" call=%d want=%d", g(5), f(5))
}

// TestVerifC15Site is the entry point of the call-site lane.
func TestVerifC15Site(t *testing.T) {
	debug.SetGCPercent(-1) // the stub region is not Go code: no collection while a call may be inside it
	out := vh.OpenOut()
	defer out.Close()
	for _, op := range vh.ReadOps() {
		if len(op.Toks) != 3 || op.Toks[0] != "site" || (op.Toks[1] != "iface.caller" && op.Toks[1] != "iface.callerctx") {
			continue
		}
		k, _ := strconv.Atoi(op.Toks[2])
		idx := op.Idx
		seg := c15site(op.Toks[1], k, func(s string) { out.Put(idx, "%s running", s) })
		out.Put(op.Idx, "%s", seg)
	}
}
