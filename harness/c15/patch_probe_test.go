package patch

import (
	"bytes"
	"encoding/binary"
	"fmt"
	"runtime"
	"strings"
	"sync"
	"sync/atomic"
	"testing"

	"github.com/tencent/goom/internal/zzverif/vh"
)

// TestVerifC15 runs goom's real amd64 emitters on the operation stream.
func TestVerifC15(t *testing.T) {
	out := vh.OpenOut()
	defer out.Close()
	for _, op := range vh.ReadOps() {
		if len(op.Toks) == 4 && op.Toks[0] == "conc" && op.Toks[1] == "amd64.entry" {
			out.Put(op.Idx, "%s", c15Conc(vh.U64(op.Toks[2]), int(vh.U64(op.Toks[3])), func(to uint64) []byte { return jmpToFunctionValue(0x401000, uintptr(to)) },
				func(to uint64) []byte {
					b := []byte{0x90, 0x48, 0xBA, 0, 0, 0, 0, 0, 0, 0, 0, 0xFF, 0x22}
					binary.LittleEndian.PutUint64(b[3:], to)
					return b
				}))
			continue
		}
		if len(op.Toks) == 3 && op.Toks[0] == "c15.cap" && op.Toks[1] == "amd64" {
			bs := vh.UnHex(op.Toks[2])
			res := vh.Catch(func() string { return fmt.Sprintf("patched=%v", checkAlreadyPatch(bs)) })
			if strings.HasPrefix(res, "panic") {
				res = "panic"
			}
			out.Put(op.Idx, "%s", res)
			continue
		}
		if len(op.Toks) != 4 || op.Toks[0] != "emit" {
			continue
		}
		from, to := uintptr(vh.U64(op.Toks[2])), uintptr(vh.U64(op.Toks[3]))
		switch op.Toks[1] {
		case "amd64.entry":
			bs := jmpToFunctionValue(from, to)
			out.Put(op.Idx, "bytes=%s %s", vh.Hex(bs), vh.RunX86(bs, uint64(from), 64))
		case "amd64.origin":
			bs := jmpToOriginFunctionValue(from, to)
			out.Put(op.Idx, "bytes=%s %s", vh.Hex(bs), vh.RunX86(bs, uint64(from), 64))
		case "amd64.relative":
			out.Put(op.Idx, "relative=%v", relative(from, to))
		}
	}
}


func c15Conc(base uint64, g int, emit func(uint64) []byte, want func(uint64) []byte) string {
	const k = 3000
	res := make([][][]byte, g)
	var ready int32
	var wg sync.WaitGroup
	for i := 0; i < g; i++ {
		wg.Add(1)
		go func(i int) {
			defer wg.Done()
			res[i] = make([][]byte, k)
			atomic.AddInt32(&ready, 1)
			for n := 0; atomic.LoadInt32(&ready) < int32(g); n++ {
				if n > 1<<20 {
					runtime.Gosched() // the barrier must not depend on asynchronous preemption (GOMAXPROCS=1, asyncpreemptoff)
				}
			}
			for j := 0; j < k; j++ {
				res[i][j] = emit(base + uint64(i)<<32 + uint64(j)*0x10001)
			}
		}(i)
	}
	wg.Wait()
	for i := 0; i < g; i++ {
		for j := 0; j < k; j++ {
			dx := base + uint64(i)<<32 + uint64(j)*0x10001
			if !bytes.Equal(res[i][j], want(dx)) {
				return fmt.Sprintf("conc mismatch to=%#x got=%s", dx, vh.Hex(res[i][j]))
			}
		}
	}
	return "conc ok"
}
