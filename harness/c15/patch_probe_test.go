package patch

import (
	"testing"

	"github.com/tencent/goom/internal/zzverif/vh"
)

// TestVerifC15 runs goom's real amd64 emitters on the operation stream.
func TestVerifC15(t *testing.T) {
	out := vh.OpenOut()
	defer out.Close()
	for _, op := range vh.ReadOps() {
		if len(op.Toks) != 4 || op.Toks[0] != "emit" {
			continue
		}
		from, to := uintptr(vh.U64(op.Toks[2])), uintptr(vh.U64(op.Toks[3]))
		switch op.Toks[1] {
		case "amd64.entry":
			bs := jmpToFunctionValue(from, to)
			out.Put(op.Idx, "bytes=%s %s", vh.Hex(bs), vh.RunX86(bs, uint64(from), 64))
		case "amd64.origin":
			bs := jmpToOriginFunctionValue(from, to)
			out.Put(op.Idx, "bytes=%s %s", vh.Hex(bs), vh.RunX86(bs, uint64(from), 64))
		case "amd64.relative":
			out.Put(op.Idx, "relative=%v", relative(from, to))
		}
	}
}
