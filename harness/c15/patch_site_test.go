package patch

import (
	"fmt"
	"reflect"
	"runtime/debug"
	"strconv"
	"strings"
	"syscall"
	"testing"
	"unsafe"

	"github.com/tencent/goom/internal/zzverif/vh"
)

// Call-site lane of C15 (package patch): the real genJumpData, a real Patch+Apply, and the jump back that a real
// Trampoline() leaves in the placeholder.  Whatever ends up in memory is read back and interpreted with the reference
// decoder (vh.RunX86Mem / vh.WalkHead); the patched code is also called.  Observations carry the real addresses: the
// check turns them into `emit` lines for the model driver and applies the property oracle to them.

var c15g = 37

//go:noinline
func c15helper(x int) int { return x*2 + c15g }

// stock prologue (stack check with a short JBE inside the first 13 bytes: the relocated copy is longer than the head)
//
//go:noinline
func c15o0(x int) int { return c15helper(x) + 1 }

// frameless leaf reading a global
//
//go:noinline
func c15o1(x int) int { return x*x*3 + x*7 + c15g }

// forward short branches near the entry
//
//go:noinline
func c15o2(x int) int {
	if x < 0 {
		return -x + c15g
	}
	if x > 100 {
		return x - 100
	}
	return x*5 + c15g*3
}

// two calls, larger frame
//
//go:noinline
func c15o3(x int) int {
	var pad [8]int
	pad[x&7] = c15helper(x)
	return pad[x&7] + c15helper(x+1) + pad[(x+1)&7]
}

func c15ref(i, x int) int {
	switch i {
	case 0:
		return x*2 + c15g + 1
	case 1:
		return x*x*3 + x*7 + c15g
	case 2:
		if x < 0 {
			return -x + c15g
		}
		if x > 100 {
			return x - 100
		}
		return x*5 + c15g*3
	}
	if i == 4 {
		return ((x*2+c15g)*2 + c15g) * 2
	}
	return (x*2 + c15g) + ((x+1)*2 + c15g)
}

// nested calls
//
//go:noinline
func c15o4(x int) int { return c15helper(c15helper(x)) * 2 }

var c15origins = []func(int) int{c15o0, c15o1, c15o2, c15o3, c15o4}

// placeholders: never called before they are overwritten
//
//go:noinline
func c15tA(x int) int {
	fmt.Println("placeholder A", x)
	fmt.Println("placeholder A", x+1)
	fmt.Println("placeholder A", x+2)
	return 0
}

//go:noinline
func c15tB(x int) int {
	fmt.Println("placeholder B", x, x)
	fmt.Println("placeholder B", x+1)
	fmt.Println("placeholder B", x+2)
	fmt.Println("placeholder B", x+3)
	return 1
}

//go:noinline
func c15tC(x int) int {
	fmt.Println("placeholder C", x)
	fmt.Println("placeholder C", x*2)
	fmt.Println("placeholder C", x*3)
	return 2
}

var c15tramps = []func(int) int{c15tA, c15tB, c15tC}

func c15repl(k int) func(int) int {
	add := 1000 * (k + 1)
	return func(x int) int { return x + add } // reads `add` through the closure context register
}

func c15mem(addr uintptr, n int) []byte {
	return append([]byte(nil), (*[1 << 20]byte)(unsafe.Pointer(addr))[:n:n]...)
}

func c15funcval(f func(int) int) (fv, code uintptr) {
	fv = *(*uintptr)(unsafe.Pointer(&f))
	return fv, *(*uintptr)(unsafe.Pointer(fv))
}

// unlockIfHeld: replaceFunc unlocks in a defer, so after a recovered panic the lock is free; nothing to do, kept as the
// place to say so.
func unlockIfHeld() {}

func c15err(err error) string { return "err:" + vh.Class(err.Error()) }

func c15entry(origin uintptr) string {
	m := c15mem(origin, 32)
	run, n := vh.RunX86Mem(m, uint64(origin))
	return fmt.Sprintf("ebytes=%s e%s", vh.Hex(m[:n]), strings.Replace(run, " rdx=", " erdx=", 1))
}

// c15T gives the lane a method to divert (InstanceMethod takes the type and the method name).
type c15T struct{ k int }

//go:noinline
func (c c15T) M(x int) int { return c15helper(x) + c.k }

// c15apply diverts origin oi to replacement ri through one of the entry points of the package, handing origin and
// replacement over in the form asked for: "v" the function itself, "p" a pointer to a variable holding it.  Whatever the
// API does with the form — refuse it or accept it — is the observation; when it accepts, the bytes at the origin are
// decoded and put on record before the diverted function is called.
//   api: patch | unsafe | tramp | ptr | method
func c15apply(oi, ri int, api, of, rf string, record func(string)) string {
	o := c15origins[oi]
	call, ref := func() int { return o(7) }, c15ref(oi, 7)
	origin := reflect.ValueOf(o).Pointer()
	r := c15repl(ri)
	var rv interface{} = r
	if api == "method" {
		m, _ := reflect.TypeOf(c15T{}).MethodByName("M")
		origin = m.Func.Pointer()
		call, ref = func() int { return c15T{5}.M(7) }, 7*2+c15g+5
		add := 1000 * (ri + 1)
		rm := func(c c15T, x int) int { return x + add + c.k }
		rv = rm
		if rf == "p" {
			rv = &rm
		}
	} else if rf == "p" {
		rv = &r
	}
	var ov interface{} = o
	if of == "p" {
		ov = &o
	}
	// the address of the replacement's function value and the code it points at, taken from the variable itself
	var fv, code uintptr
	switch f := rv.(type) {
	case func(int) int:
		fv = *(*uintptr)(unsafe.Pointer(&f))
	case *func(int) int:
		fv = *(*uintptr)(unsafe.Pointer(f))
	case func(c15T, int) int:
		fv = *(*uintptr)(unsafe.Pointer(&f))
	case *func(c15T, int) int:
		fv = *(*uintptr)(unsafe.Pointer(f))
	}
	code = *(*uintptr)(unsafe.Pointer(fv))
	rcode := reflect.Indirect(reflect.ValueOf(rv)).Pointer() // the replacement's code according to reflect
	want := 7 + 1000*(ri+1)
	if api == "method" {
		want += 5
	}
	before := c15mem(origin, 32)
	var g *Guard
	var err error
	p := vh.Catch(func() string {
		switch api {
		case "patch":
			g, err = Patch(ov, rv)
		case "unsafe":
			g, err = UnsafePatch(ov, rv)
		case "tramp":
			g, err = Trampoline(ov, rv, nil)
		case "ptr":
			g, err = Ptr(origin, rv)
		case "method":
			g, err = InstanceMethod(reflect.TypeOf(c15T{}), "M", rv)
		default:
			panic("bad api")
		}
		return ""
	})
	head := fmt.Sprintf("origin=%#x arg=%#x deref=%#x code=%#x", origin, fv, code, rcode)
	if rf == "p" {
		head += fmt.Sprintf(" pvar=%#x", reflect.ValueOf(rv).Pointer()) // where the variable holding the replacement lives
	}
	if p != "" || err != nil {
		if p == "" {
			p = c15err(err)
		}
		return fmt.Sprintf("%s refused:%s restored=%v after=%d wantafter=%d", head, p, string(c15mem(origin, 32)) == string(before), call(), ref)
	}
	g.Apply()
	res := fmt.Sprintf("%s %s", head, c15entry(origin))
	record(res)
	res += fmt.Sprintf(" call=%d want=%d", call(), want)
	g.UnpatchWithLock()
	return res + fmt.Sprintf(" restored=%v after=%d wantafter=%d", string(c15mem(origin, 32)) == string(before), call(), ref)
}

// ---- hand-assembled origins in a fresh executable page (ABIInternal: argument and result in RAX; leaf, no stack use).
// They give the call sites what the compiler never does: a function barely longer than the moved head (so that the
// relocated copy, grown by a widened branch, is as long as the whole function), and — with a Go function as the
// placeholder — an origin more than 2 GiB away from its placeholder.

type c15rawfn struct {
	code []byte
	ref  func(int) int
}

var c15rawzoo = []c15rawfn{
	// test rax,rax; je +9; lea rax,[rax+rax*2]; add rax,7; ret; mov al,42; ret     (17 bytes, head 14, one rel8 leaves it)
	{[]byte{0x48, 0x85, 0xC0, 0x74, 0x09, 0x48, 0x8D, 0x04, 0x40, 0x48, 0x83, 0xC0, 0x07, 0xC3, 0xB0, 0x2A, 0xC3},
		func(x int) int {
			if x == 0 {
				return 42
			}
			return 3*x + 7
		}},
	// cmp rax,10; jg +11; add rax,1; add rax,2; inc rax; add rax,rax; ret            (21 bytes, head 14)
	{[]byte{0x48, 0x83, 0xF8, 0x0A, 0x7F, 0x0B, 0x48, 0x83, 0xC0, 0x01, 0x48, 0x83, 0xC0, 0x02, 0x48, 0xFF, 0xC0, 0x48, 0x01, 0xC0, 0xC3},
		func(x int) int {
			if x > 10 {
				return 2 * x
			}
			return 2 * (x + 4)
		}},
	// lea rcx,[rip+0x200]; sub rcx,rcx; add rax,rcx; add rax,5; inc rax; ret            (RIP-relative operand in the head)
	{[]byte{0x48, 0x8D, 0x0D, 0x00, 0x02, 0x00, 0x00, 0x48, 0x29, 0xC9, 0x48, 0x01, 0xC8, 0x48, 0x83, 0xC0, 0x05, 0x48, 0xFF, 0xC0, 0xC3},
		func(x int) int { return x + 6 }},
	// jmp short +14 over a block of nops, then add rax,9; ret                           (EB widened to E9)
	{[]byte{0xEB, 0x0E, 0x90, 0x90, 0x90, 0x90, 0x90, 0x90, 0x90, 0x90, 0x90, 0x90, 0x90, 0x90, 0x90, 0x90, 0x48, 0x83, 0xC0, 0x09, 0xC3},
		func(x int) int { return x + 9 }},
}

var c15pool []byte

// c15page returns a fresh RWX page filled with int3 (never reused: goom caches function sizes by address).
func c15page() []byte {
	if len(c15pool) < 4096 {
		b, err := syscall.Mmap(-1, 0, 256*4096, syscall.PROT_READ|syscall.PROT_WRITE|syscall.PROT_EXEC, syscall.MAP_ANON|syscall.MAP_PRIVATE)
		if err != nil {
			panic(err)
		}
		c15pool = b
	}
	pg := c15pool[:4096:4096]
	c15pool = c15pool[4096:]
	for i := range pg {
		pg[i] = 0xCC
	}
	return pg
}

type c15fv struct{ code uintptr }

var c15keep []interface{}

func c15mkfunc(code uintptr) func(int) int {
	h := &c15fv{code}
	c15keep = append(c15keep, h)
	var f func(int) int
	*(*unsafe.Pointer)(unsafe.Pointer(&f)) = unsafe.Pointer(h)
	return f
}

// c15rawpair lays out `origin code | pad x int3 | C3 (the "next function") | int3 … | at +1024: 90 x 62 | C3 | int3 | 90`
// in a fresh page and returns the origin and the in-page placeholder as Go func values.  The placeholder is more than
// 127 bytes away, so a short branch that leaves the moved head has to be widened.
func c15rawpair(z, pad int) (o, t func(int) int, ref func(int) int) {
	pg := c15page()
	fn := c15rawzoo[z%len(c15rawzoo)]
	at, tr := 64, 1024
	copy(pg[at:], fn.code)
	pg[at+len(fn.code)+pad] = 0xC3
	for i := 0; i < 62; i++ {
		pg[tr+i] = 0x90
	}
	pg[tr+62] = 0xC3
	pg[tr+64] = 0x90
	base := uintptr(unsafe.Pointer(&pg[0]))
	return c15mkfunc(base + uintptr(at)), c15mkfunc(base + uintptr(tr)), fn.ref
}

// c15step is one real Trampoline()+Apply of origin o through placeholder t: what it leaves at the origin and in the
// placeholder is decoded (static part, put on record first), then executed.
func c15step(si int, o, t func(int) int, tptr bool, want int, record func(seg string)) string {
	origin, tramp := reflect.ValueOf(o).Pointer(), reflect.ValueOf(t).Pointer()
	obytes := c15mem(origin, 96)
	r := c15repl(si)
	fv, _ := c15funcval(r)
	var g *Guard
	var err error
	// goom refuses some heads by panicking inside the relocation (e.g. a short Jcc it has no long form for): a refusal,
	// like an error, is not a statement about the jump back (the relocation itself is property C03)
	var tv interface{} = t
	if tptr {
		tv = &t
	}
	if p := vh.Catch(func() string { g, err = Trampoline(o, r, tv); return "" }); p != "" {
		return fmt.Sprintf("origin=%#x tramp=%#x refused:%s after=%d", origin, tramp, p, o(7))
	}
	if err != nil {
		return fmt.Sprintf("origin=%#x tramp=%#x refused:%s after=%d", origin, tramp, c15err(err), o(7))
	}
	g.Apply()
	h := vh.WalkHead(obytes, uint64(origin), c15mem(tramp, 160), uint64(tramp), len(g.jumpBytes))
	seg := fmt.Sprintf("origin=%#x tramp=%#x fix=%#x k=%d n=%d off=%d arg=%#x %s", origin, tramp, g.FixOriginFunc(), h.K, h.N, h.Off, fv, c15entry(origin))
	if h.Err != "" {
		seg += " walk=" + h.Err
	} else {
		seg += fmt.Sprintf(" bytes=%s %s", vh.Hex(c15mem(tramp+uintptr(h.Off), h.JLen)), h.Run)
	}
	record(seg) // on record before anything is executed through the placeholder
	seg += fmt.Sprintf(" call=%d want=%d mock=%d wantmock=%d", t(7), want, o(7), r(7))
	g.UnpatchWithLock()
	return seg + fmt.Sprintf(" after=%d", o(7))
}

func c15jumpback(out *vh.Out, idx int, steps []string) {
	var segs []string
	put := func(end string) { out.Put(idx, "%s%s", strings.Join(segs, " | "), end) }
	for si, st := range steps {
		var oi, ti, z, pad int
		var o, t func(int) int
		tptr := false
		var want int
		switch {
		case scan(st, "o%d:t%d", &oi, &ti) && oi < len(c15origins) && ti < len(c15tramps):
			o, t = c15origins[oi], c15tramps[ti]
			want = o(7) // unpatched; also grows the stack now rather than inside the relocated prologue
		case scan(st, "o%d:p%d", &oi, &ti) && oi < len(c15origins) && ti < len(c15tramps):
			o, t = c15origins[oi], c15tramps[ti]
			tptr = true // the placeholder handed over as &variable, which GetTrampolinePtr dereferences
			want = o(7)
		case scan(st, "r%dp%d:n", &z, &pad) && pad >= 1 && pad <= 8:
			var ref func(int) int
			o, t, ref = c15rawpair(z, pad)
			want = ref(7)
		case scan(st, "r%dp%d:t%d", &z, &pad, &ti) && pad >= 1 && pad <= 8 && ti < len(c15tramps):
			var ref func(int) int
			o, _, ref = c15rawpair(z, pad) // placeholder in the text segment: more than 2 GiB from the origin
			t = c15tramps[ti]
			want = ref(7)
		default:
			segs = append(segs, "bad-step")
			continue
		}
		segs = append(segs, "")
		seg := c15step(si, o, t, tptr, want, func(s string) { segs[len(segs)-1] = s; put(" | running") })
		segs[len(segs)-1] = seg
		put(" | running")
	}
	put("")
}

func scan(s, format string, a ...interface{}) bool {
	n, err := fmt.Sscanf(s, format, a...)
	if err != nil || n != len(a) {
		return false
	}
	return fmt.Sprintf(format, deref(a)...) == s
}

func deref(a []interface{}) []interface{} {
	out := make([]interface{}, len(a))
	for i, p := range a {
		out[i] = *(p.(*int))
	}
	return out
}

// TestVerifC15Site is the entry point of the call-site lane.
func TestVerifC15Site(t *testing.T) {
	// code is executed from overwritten functions and from an mmap'ed page, for which the runtime has no (or the wrong)
	// stack maps: no collection while this lane runs (the check also switches asynchronous preemption off)
	debug.SetGCPercent(-1)
	out := vh.OpenOut()
	defer out.Close()
	for _, op := range vh.ReadOps() {
		if len(op.Toks) < 3 || op.Toks[0] != "site" {
			continue
		}
		switch op.Toks[1] {
		case "patch.gen":
			oi, _ := strconv.Atoi(op.Toks[2])
			origin := reflect.ValueOf(c15origins[oi%len(c15origins)]).Pointer()
			x, y := uintptr(vh.U64(op.Toks[3])), uintptr(vh.U64(op.Toks[4]))
			bs, err := genJumpData(origin, x, y)
			if err != nil {
				out.Put(op.Idx, "%s", c15err(err))
				continue
			}
			out.Put(op.Idx, "origin=%#x arg=%#x bytes=%s %s", origin, x, vh.Hex(bs), vh.RunX86(bs, uint64(origin), 64))
		case "patch.apply":
			oi, _ := strconv.Atoi(op.Toks[2])
			ri, _ := strconv.Atoi(op.Toks[3])
			api, of, rf := "patch", "v", "v"
			if len(op.Toks) >= 7 {
				api, of, rf = op.Toks[4], op.Toks[5], op.Toks[6]
			}
			idx := op.Idx
			out.Put(idx, "%s", c15apply(oi%len(c15origins), ri, api, of, rf, func(s string) { out.Put(idx, "%s running", s) }))
		case "patch.jumpback":
			c15jumpback(out, op.Idx, op.Toks[2:])
		}
	}
}
