package patch

import (
	"fmt"
	"strings"
	"testing"

	"github.com/tencent/goom/internal/zzverif/vh"
)

// The package under test here is goom's internal/patch/monkey_arm64.go re-hosted under a neutral file name
// so that it compiles on the amd64 sandbox (it is pure Go; movImm stores a uint32 little-endian on both hosts).
func TestVerifC15(t *testing.T) {
	out := vh.OpenOut()
	defer out.Close()
	for _, op := range vh.ReadOps() {
		if len(op.Toks) != 4 || op.Toks[0] != "emit" || (op.Toks[1] != "arm64.entry" && op.Toks[1] != "arm64.origin") {
			continue
		}
		from, to := uintptr(vh.U64(op.Toks[2])), uintptr(vh.U64(op.Toks[3]))
		if op.Toks[1] == "arm64.origin" {
			// monkey_arm64.go: the jump back is not implemented (panic); the day it is, this line changes and the model has none
			res := vh.Catch(func() string {
				bs := jmpToOriginFunctionValue(from, to)
				return fmt.Sprintf("bytes=%s %s", vh.Hex(bs), vh.RunA64(bs, uint64(from)))
			})
			if strings.HasPrefix(res, "panic") {
				res = "panic"
			}
			out.Put(op.Idx, "%s", res)
			continue
		}
		bs := jmpToFunctionValue(from, to)
		out.Put(op.Idx, "bytes=%s %s", vh.Hex(bs), vh.RunA64(bs, uint64(from)))
	}
}
