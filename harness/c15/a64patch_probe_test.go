package patch

import (
	"testing"

	"github.com/tencent/goom/internal/zzverif/vh"
)

// The package under test here is goom's internal/patch/monkey_arm64.go re-hosted under a neutral file name
// so that it compiles on the amd64 sandbox (it is pure Go; movImm stores a uint32 little-endian on both hosts).
func TestVerifC15(t *testing.T) {
	out := vh.OpenOut()
	defer out.Close()
	for _, op := range vh.ReadOps() {
		if len(op.Toks) != 4 || op.Toks[0] != "emit" || op.Toks[1] != "arm64.entry" {
			continue
		}
		from, to := uintptr(vh.U64(op.Toks[2])), uintptr(vh.U64(op.Toks[3]))
		bs := jmpToFunctionValue(from, to)
		out.Put(op.Idx, "bytes=%s %s", vh.Hex(bs), vh.RunA64(bs, uint64(from)))
	}
}
