package patch

import (
	"fmt"
	"strings"
	"testing"

	"github.com/tencent/goom/internal/zzverif/vh"
)

func TestVerifC15(t *testing.T) {
	out := vh.OpenOut()
	defer out.Close()
	for _, op := range vh.ReadOps() {
		if len(op.Toks) == 3 && op.Toks[0] == "c15.cap" && op.Toks[1] == "i386" {
			bs := vh.UnHex(op.Toks[2])
			res := vh.Catch(func() string { return fmt.Sprintf("patched=%v", checkAlreadyPatch(bs)) })
			if strings.HasPrefix(res, "panic") {
				res = "panic"
			}
			out.Put(op.Idx, "%s", res)
			continue
		}
		if len(op.Toks) != 4 || op.Toks[0] != "emit" || op.Toks[1] != "i386.entry" {
			continue
		}
		from, to := uintptr(vh.U64(op.Toks[2])), uintptr(vh.U64(op.Toks[3]))
		bs := jmpToFunctionValue(from, to)
		out.Put(op.Idx, "bytes=%s %s", vh.Hex(bs), vh.RunX86(bs, 0, 32))
	}
}
