package iface

import (
	"testing"

	"github.com/tencent/goom/internal/zzverif/vh"
)

func TestVerifC15(t *testing.T) {
	out := vh.OpenOut()
	defer out.Close()
	for _, op := range vh.ReadOps() {
		if len(op.Toks) != 4 || op.Toks[0] != "emit" {
			continue
		}
		from, to := uintptr(vh.U64(op.Toks[2])), uintptr(vh.U64(op.Toks[3]))
		switch op.Toks[1] {
		case "arm64.stub":
			bs := jmpWithRdx(to)
			out.Put(op.Idx, "bytes=%s %s", vh.Hex(bs), vh.RunA64(bs, uint64(from)))
		case "arm64.stubctx":
			bs := jmpWithRdxAndCtx(to, from, ^from)
			out.Put(op.Idx, "bytes=%s %s", vh.Hex(bs), vh.RunA64(bs, uint64(from)))
		}
	}
}
