package iface

import (
	"bytes"
	"encoding/binary"
	"fmt"
	"runtime"
	"sync"
	"sync/atomic"
	"testing"

	"github.com/tencent/goom/internal/zzverif/vh"
)

func TestVerifC15(t *testing.T) {
	out := vh.OpenOut()
	defer out.Close()
	for _, op := range vh.ReadOps() {
		if len(op.Toks) == 4 && op.Toks[0] == "conc" && op.Toks[1] == "amd64.stub" {
			out.Put(op.Idx, "%s", c15Conc(vh.U64(op.Toks[2]), int(vh.U64(op.Toks[3])), func(dx uint64) []byte { return jmpWithRdx(uintptr(dx)) },
				func(dx uint64) []byte {
					b := []byte{0x48, 0xBA, 0, 0, 0, 0, 0, 0, 0, 0, 0xFF, 0x22}
					binary.LittleEndian.PutUint64(b[2:], dx)
					return b
				}))
			continue
		}
		if len(op.Toks) != 4 || op.Toks[0] != "emit" || op.Toks[1] != "amd64.stub" {
			continue
		}
		from, to := vh.U64(op.Toks[2]), uintptr(vh.U64(op.Toks[3]))
		bs := jmpWithRdx(to)
		out.Put(op.Idx, "bytes=%s %s", vh.Hex(bs), vh.RunX86(bs, from, 64))
	}
}


// c15Conc calls emit from g goroutines released from a spin barrier, each on its own destinations, and compares every
// result (after all goroutines are done, so a shared buffer shows) with the encoding written out by hand.
func c15Conc(base uint64, g int, emit func(uint64) []byte, want func(uint64) []byte) string {
	const k = 3000
	res := make([][][]byte, g)
	var ready int32
	var wg sync.WaitGroup
	for i := 0; i < g; i++ {
		wg.Add(1)
		go func(i int) {
			defer wg.Done()
			res[i] = make([][]byte, k)
			atomic.AddInt32(&ready, 1)
			for n := 0; atomic.LoadInt32(&ready) < int32(g); n++ {
				if n > 1<<20 {
					runtime.Gosched() // the barrier must not depend on asynchronous preemption (GOMAXPROCS=1, asyncpreemptoff)
				}
			}
			for j := 0; j < k; j++ {
				res[i][j] = emit(base + uint64(i)<<32 + uint64(j)*0x10001)
			}
		}(i)
	}
	wg.Wait()
	for i := 0; i < g; i++ {
		for j := 0; j < k; j++ {
			dx := base + uint64(i)<<32 + uint64(j)*0x10001
			if !bytes.Equal(res[i][j], want(dx)) {
				return fmt.Sprintf("conc mismatch dx=%#x got=%s", dx, vh.Hex(res[i][j]))
			}
		}
	}
	return "conc ok"
}
