package iface

import (
	"testing"

	"github.com/tencent/goom/internal/zzverif/vh"
)

func TestVerifC15(t *testing.T) {
	out := vh.OpenOut()
	defer out.Close()
	for _, op := range vh.ReadOps() {
		if len(op.Toks) != 4 || op.Toks[0] != "emit" || op.Toks[1] != "amd64.stub" {
			continue
		}
		from, to := vh.U64(op.Toks[2]), uintptr(vh.U64(op.Toks[3]))
		bs := jmpWithRdx(to)
		out.Put(op.Idx, "bytes=%s %s", vh.Hex(bs), vh.RunX86(bs, from, 64))
	}
}
