// Command c05extract re-derives lean/GoomVerif/Gen/Cursor.lean from goom's matcher.go on every run of check C05.
//
// It parses (*BaseMatcher).Result with go/ast and accepts exactly the statement shape the hand-written micro-step model
// (Model/Cursor.lean) assumes:
//
//	if len(c.results) <op1> <k1> { return c.results[c.curNum] }
//	curNum := atomic.LoadInt32(&c.curNum)
//	if length := len(c.results); curNum <op2> int32(length) { return c.results[length-<k2>] }
//	atomic.AddInt32(&c.curNum, <k3>)
//	return c.results[curNum]
//
// and emits the comparison operators and constants as Lean definitions.  Any other shape is reported as
// `matcher.go:<line>: untranslatable: …` with exit status 1 (a broken obligation, never a silent default).
package main

import (
	"bytes"
	"flag"
	"fmt"
	"go/ast"
	"go/parser"
	"go/printer"
	"go/token"
	"os"
	"path/filepath"
	"strconv"
	"strings"
)

var fset = token.NewFileSet()

func src(n ast.Node) string {
	var b bytes.Buffer
	printer.Fprint(&b, fset, n)
	return b.String()
}

func fail(n ast.Node, format string, a ...interface{}) {
	p := fset.Position(n.Pos())
	fmt.Fprintf(os.Stderr, "%s:%d: untranslatable: %s\n", filepath.Base(p.Filename), p.Line, fmt.Sprintf(format, a...))
	os.Exit(1)
}

func want(n ast.Node, got, exp string) {
	if got != exp {
		fail(n, "expected `%s`, found `%s`", exp, got)
	}
}

var leanOp = map[token.Token]string{token.LEQ: "≤", token.LSS: "<", token.GEQ: "≥", token.GTR: ">", token.EQL: "=", token.NEQ: "≠"}

func natLit(e ast.Expr) uint64 {
	l, ok := e.(*ast.BasicLit)
	if !ok || l.Kind != token.INT {
		fail(e, "expected a non-negative integer literal, found `%s`", src(e))
	}
	v, err := strconv.ParseUint(l.Value, 0, 31)
	if err != nil {
		fail(e, "integer literal out of range: %s", l.Value)
	}
	return v
}

func line(n ast.Node) int { return fset.Position(n.Pos()).Line }

// packageShape pins what the constants above are constants OF: in goom's root package
//   - `Result` is implemented by *BaseMatcher and by *EmptyMatch (`return []reflect.Value{}`) only, so no matcher type that
//     embeds *BaseMatcher shadows the modelled method;
//   - the cursor field `curNum` is read or written nowhere but in (*BaseMatcher).Result (newBaseMatcher initialises it in a
//     composite literal);
//   - (*When).invoke serves a matching condition with `c.Result()` and (*When).returnDefaults ends in
//     `w.defaultReturns.Result()`; (*baseMocker).callback obtains the results from `m.when.invoke(args)`.
func packageShape(repo string) {
	pkgs, err := parser.ParseDir(fset, repo, func(fi os.FileInfo) bool { return !strings.HasSuffix(fi.Name(), "_test.go") }, 0)
	if err != nil {
		fmt.Fprintln(os.Stderr, "goom: untranslatable:", err)
		os.Exit(1)
	}
	pkg := pkgs["mocker"]
	if pkg == nil {
		fmt.Fprintln(os.Stderr, "goom:1: untranslatable: package mocker not found")
		os.Exit(1)
	}
	calls := map[string]bool{}
	for _, f := range pkg.Files {
		for _, d := range f.Decls {
			fd, ok := d.(*ast.FuncDecl)
			if !ok || fd.Body == nil {
				continue
			}
			recv := ""
			if fd.Recv != nil && len(fd.Recv.List) == 1 {
				recv = src(fd.Recv.List[0].Type)
			}
			name := recv + "." + fd.Name.Name
			if fd.Name.Name == "Result" {
				switch recv {
				case "*BaseMatcher":
				case "*EmptyMatch":
					if len(fd.Body.List) != 1 || src(fd.Body.List[0]) != "return []reflect.Value{}" {
						fail(fd, "(*EmptyMatch).Result is expected to be `return []reflect.Value{}`")
					}
				default:
					fail(fd, "unexpected implementation of Result on %s: the model knows *BaseMatcher and *EmptyMatch only", recv)
				}
			}
			ast.Inspect(fd.Body, func(n ast.Node) bool {
				switch x := n.(type) {
				case *ast.SelectorExpr:
					if x.Sel.Name == "curNum" && name != "*BaseMatcher.Result" {
						fail(x, "the cursor curNum is accessed in %s; the model assumes only (*BaseMatcher).Result touches it", name)
					}
				case *ast.CallExpr:
					calls[name+" -> "+src(x.Fun)] = true
				}
				return true
			})
		}
	}
	for _, need := range []string{"*When.invoke -> c.Result", "*When.returnDefaults -> w.defaultReturns.Result", "*baseMocker.callback -> m.when.invoke"} {
		if !calls[need] {
			fmt.Fprintf(os.Stderr, "goom:1: untranslatable: expected call %s not found\n", need)
			os.Exit(1)
		}
	}
}

// matchesShape inspects (*When).Matches in when.go: the body of its range loop must consist of the two argument/result
// normalisations, optionally `w.Return(results...)`, then `matcher := newDefaultMatch(args, results, w.isMethod, w.funcTyp)`
// and `w.matches = append(w.matches, matcher)`.
func matchesShape(repo string) (bool, int) {
	f, err := parser.ParseFile(fset, filepath.Join(repo, "when.go"), nil, 0)
	if err != nil {
		fmt.Fprintln(os.Stderr, "when.go: untranslatable:", err)
		os.Exit(1)
	}
	var fn *ast.FuncDecl
	for _, d := range f.Decls {
		if fd, ok := d.(*ast.FuncDecl); ok && fd.Name.Name == "Matches" && fd.Recv != nil && len(fd.Recv.List) == 1 &&
			src(fd.Recv.List[0].Type) == "*When" {
			fn = fd
		}
	}
	if fn == nil {
		fmt.Fprintln(os.Stderr, "when.go:1: untranslatable: (*When).Matches not found")
		os.Exit(1)
	}
	w := fn.Recv.List[0].Names[0].Name
	var loop *ast.RangeStmt
	for _, st := range fn.Body.List {
		if r, ok := st.(*ast.RangeStmt); ok {
			if loop != nil {
				fail(st, "Matches has more than one loop")
			}
			loop = r
		}
	}
	if loop == nil {
		fail(fn, "Matches has no range loop")
	}
	var rest []string
	for _, st := range loop.Body.List {
		rest = append(rest, src(st))
	}
	n := len(rest)
	if n != 6 && n != 7 {
		fail(loop, "loop body of Matches has %d statements, the model assumes 6 or 7", n)
	}
	want(loop.Body.List[n-2], rest[n-2], "matcher := newDefaultMatch(args, results, "+w+".isMethod, "+w+".funcTyp)")
	want(loop.Body.List[n-1], rest[n-1], w+".matches = append("+w+".matches, matcher)")
	if !strings.HasPrefix(rest[0], "args, ok := ") || !strings.HasPrefix(rest[2], "results, ok := ") {
		fail(loop, "unexpected normalisation statements in Matches")
	}
	if n == 7 {
		want(loop.Body.List[4], rest[4], w+".Return(results...)")
		return true, line(loop.Body.List[4])
	}
	return false, line(loop)
}

func main() {
	repo := flag.String("repo", "/repo", "goom source tree")
	out := flag.String("out", "", "output file (default stdout)")
	flag.Parse()
	f, err := parser.ParseFile(fset, filepath.Join(*repo, "matcher.go"), nil, 0)
	if err != nil {
		fmt.Fprintln(os.Stderr, "matcher.go: untranslatable:", err)
		os.Exit(1)
	}
	var fn *ast.FuncDecl
	for _, d := range f.Decls {
		if fd, ok := d.(*ast.FuncDecl); ok && fd.Name.Name == "Result" && fd.Recv != nil && len(fd.Recv.List) == 1 &&
			src(fd.Recv.List[0].Type) == "*BaseMatcher" {
			fn = fd
		}
	}
	if fn == nil {
		fmt.Fprintln(os.Stderr, "matcher.go:1: untranslatable: (*BaseMatcher).Result not found")
		os.Exit(1)
	}
	if len(fn.Recv.List[0].Names) != 1 {
		fail(fn, "receiver must be named")
	}
	c := fn.Recv.List[0].Names[0].Name
	// the cursor must still be the int32 field the atomics operate on
	curTyp := ""
	ast.Inspect(f, func(n ast.Node) bool {
		if ts, ok := n.(*ast.TypeSpec); ok && ts.Name.Name == "BaseMatcher" {
			if st, ok := ts.Type.(*ast.StructType); ok {
				for _, fl := range st.Fields.List {
					for _, nm := range fl.Names {
						if nm.Name == "curNum" {
							curTyp = src(fl.Type)
						}
					}
				}
			}
		}
		return true
	})
	if curTyp != "int32" {
		fail(fn, "BaseMatcher.curNum must be int32, found `%s`", curTyp)
	}
	b := fn.Body.List
	if len(b) != 5 {
		fail(fn.Body, "Result has %d statements, the model assumes 5", len(b))
	}
	// 1. single-result path
	if0, ok := b[0].(*ast.IfStmt)
	if !ok || if0.Init != nil || if0.Else != nil || len(if0.Body.List) != 1 {
		fail(b[0], "expected `if len(%s.results) <op> <k> { return … }`", c)
	}
	c0, ok := if0.Cond.(*ast.BinaryExpr)
	if !ok || leanOp[c0.Op] == "" {
		fail(if0.Cond, "expected a comparison")
	}
	want(c0.X, src(c0.X), "len("+c+".results)")
	k1 := natLit(c0.Y)
	r0, ok := if0.Body.List[0].(*ast.ReturnStmt)
	if !ok || len(r0.Results) != 1 {
		fail(if0.Body, "expected a single return")
	}
	want(r0, src(r0.Results[0]), c+".results["+c+".curNum]")
	// 2. atomic load
	a1, ok := b[1].(*ast.AssignStmt)
	if !ok || a1.Tok != token.DEFINE || len(a1.Lhs) != 1 || len(a1.Rhs) != 1 {
		fail(b[1], "expected `v := atomic.LoadInt32(&%s.curNum)`", c)
	}
	v := src(a1.Lhs[0])
	want(a1, src(a1.Rhs[0]), "atomic.LoadInt32(&"+c+".curNum)")
	// 3. clamp
	if2, ok := b[2].(*ast.IfStmt)
	if !ok || if2.Init == nil || if2.Else != nil || len(if2.Body.List) != 1 {
		fail(b[2], "expected `if length := len(%s.results); %s <op> int32(length) { return … }`", c, v)
	}
	i2, ok := if2.Init.(*ast.AssignStmt)
	if !ok || i2.Tok != token.DEFINE || len(i2.Lhs) != 1 || len(i2.Rhs) != 1 {
		fail(if2.Init, "expected `length := len(%s.results)`", c)
	}
	ln := src(i2.Lhs[0])
	want(i2, src(i2.Rhs[0]), "len("+c+".results)")
	c2, ok := if2.Cond.(*ast.BinaryExpr)
	if !ok || leanOp[c2.Op] == "" {
		fail(if2.Cond, "expected a comparison")
	}
	want(c2.X, src(c2.X), v)
	want(c2.Y, src(c2.Y), "int32("+ln+")")
	r2, ok := if2.Body.List[0].(*ast.ReturnStmt)
	if !ok || len(r2.Results) != 1 {
		fail(if2.Body, "expected a single return")
	}
	ix, ok := r2.Results[0].(*ast.IndexExpr)
	if !ok {
		fail(r2, "expected `%s.results[%s-<k>]`", c, ln)
	}
	want(ix.X, src(ix.X), c+".results")
	sub, ok := ix.Index.(*ast.BinaryExpr)
	if !ok || sub.Op != token.SUB {
		fail(ix.Index, "expected `%s-<k>`", ln)
	}
	want(sub.X, src(sub.X), ln)
	k2 := natLit(sub.Y)
	// 4. atomic add
	e3, ok := b[3].(*ast.ExprStmt)
	if !ok {
		fail(b[3], "expected `atomic.AddInt32(&%s.curNum, <k>)`", c)
	}
	call, ok := e3.X.(*ast.CallExpr)
	if !ok || len(call.Args) != 2 {
		fail(b[3], "expected `atomic.AddInt32(&%s.curNum, <k>)`", c)
	}
	want(call.Fun, src(call.Fun), "atomic.AddInt32")
	want(call.Args[0], src(call.Args[0]), "&"+c+".curNum")
	k3 := natLit(call.Args[1])
	// 5. indexed return
	r4, ok := b[4].(*ast.ReturnStmt)
	if !ok || len(r4.Results) != 1 {
		fail(b[4], "expected `return %s.results[%s]`", c, v)
	}
	want(r4, src(r4.Results[0]), c+".results["+v+"]")

	leak, leakLine := matchesShape(*repo)
	packageShape(*repo)

	var o strings.Builder
	fmt.Fprintf(&o, "-- GENERATED by harness/c05/extract (go/ast) from matcher.go — do not edit.\n")
	fmt.Fprintf(&o, "-- Source shape recognised: (*BaseMatcher).Result, 5 statements (single-result path, atomic load, clamp, atomic add, indexed return).\n")
	fmt.Fprintf(&o, "namespace Gen.Cursor\n\n")
	fmt.Fprintf(&o, "/-- matcher.go:%d `%s` — the non-atomic single-result path is taken -/\n", line(if0), src(if0.Cond))
	fmt.Fprintf(&o, "def singlePath (n : Nat) : Bool := decide (n %s %d)\n\n", leanOp[c0.Op], k1)
	fmt.Fprintf(&o, "/-- matcher.go:%d `%s` — the loaded cursor is past the end -/\n", line(if2), src(if2.Cond))
	fmt.Fprintf(&o, "def exhausted (cur n : Nat) : Bool := decide (cur %s n)\n\n", leanOp[c2.Op])
	fmt.Fprintf(&o, "/-- matcher.go:%d `%s` — index served once exhausted -/\n", line(r2), src(r2.Results[0]))
	fmt.Fprintf(&o, "def lastIdx (n : Nat) : Nat := n - %d\n\n", k2)
	fmt.Fprintf(&o, "/-- matcher.go:%d `%s` — cursor after the add -/\n", line(e3), src(e3.X))
	fmt.Fprintf(&o, "def advance (cur : Nat) : Nat := cur + %d\n\n", k3)
	fmt.Fprintf(&o, "/-- when.go:%d `(*When).Matches`: does the loop body call `w.Return(results...)` before it creates the pair's own matcher? -/\n", leakLine)
	fmt.Fprintf(&o, "def matchesReturnsFirst : Bool := %v\n\n", leak)
	fmt.Fprintf(&o, "end Gen.Cursor\n")
	if *out == "" {
		fmt.Print(o.String())
		return
	}
	if err := os.WriteFile(*out, []byte(o.String()), 0o644); err != nil {
		fmt.Fprintln(os.Stderr, err)
		os.Exit(2)
	}
}
