module c05extract

go 1.21
