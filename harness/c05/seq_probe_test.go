package mocker

// Probe for property C05 (result sequences).  Injected into goom's root package with `go test -overlay`; nothing is
// written into the repository.  It drives the real public API (Create/Func/Struct/Interface, When/In/Return/AndReturn/
// Returns) and the real BaseMatcher.Result, and reads the private cursor state only to report it.

import (
	"fmt"
	"reflect"
	"runtime"
	"sort"
	"strconv"
	"strings"
	"sync"
	"sync/atomic"
	"testing"

	"github.com/tencent/goom/arg"
	"github.com/tencent/goom/internal/zzverif/vh"
)

//go:noinline
func c05F1(a int) int { return -1 - a }

//go:noinline
func c05F2(a int) (int, int) { return -1 - a, -1 }

// variadic targets with 0, 1 and 2 leading fixed parameters, and a variadic method

//go:noinline
func c05V0(nums ...int) int { return -1 - len(nums) }

//go:noinline
func c05V1(base int, nums ...int) int { return -1 - base - len(nums) }

//go:noinline
func c05V2(a, b int, nums ...int) int { return -1 - a - b - len(nums) }

//go:noinline
func (t *c05T) V(base int, nums ...int) int { return -1 - base - len(nums) - t.pad }

// c05Args decodes an argument-list token: decimal digits, each digit d>0 is the argument d-1 ("24" = (1, 3), "0" = ()).
func c05Args(tok int) []int {
	var out []int
	for _, ch := range strconv.Itoa(tok) {
		if ch != '0' {
			out = append(out, int(ch-'1'))
		}
	}
	return out
}

func c05Ifs(xs []int) []interface{} {
	out := make([]interface{}, len(xs))
	for i, x := range xs {
		out[i] = x
	}
	return out
}

//go:noinline
func c05F1b(a int) int { return -1 - a }

// targets whose result type is an interface or a slice: a result token t is configured as nil when t%5 == 0, otherwise as a
// value that carries t (error: c05Err(t); interface{}: int t or string "s<t>" by parity; []byte: the decimal text)

type c05Err int

func (e c05Err) Error() string { return "e" + strconv.Itoa(int(e)) }

type c05Orig struct{}

func (c05Orig) Error() string { return "orig" }

//go:noinline
func c05FE(a int) error { return c05Orig{} }

//go:noinline
func c05FEb(a int) error { return c05Orig{} }

//go:noinline
func c05FI(a int) interface{} { return c05Orig{} }

//go:noinline
func c05FB(a int) []byte { return []byte("G") }

//go:noinline
func c05priv(a int) int { return -1 - a }

type c05T struct{ pad int }

//go:noinline
func (t *c05T) M2(a int) int { return -1 - a - t.pad }

//go:noinline
func (t *c05T) M(a int) int { return -1 - a - t.pad }

type c05I interface{ M(a int) int }

// c05Target is one mockable thing: how to get its mocker from a builder and how to call it.
type c05Target struct {
	mocker func(b *Builder) ExportedMocker
	call   func(a int) (int, bool) // value, pair-consistent
	pair   bool
	fixed  int // variadic targets: number of leading fixed parameters; -1 = not variadic
	// targets with non-int results: how a result token is configured and how a call is rendered ("v<t>", "vnil", "G")
	val   func(v int) interface{}
	callS func(a int) string
}

func c05Variadic(fixed int, mk func(b *Builder) ExportedMocker, f func(xs []int) int) *c05Target {
	return &c05Target{fixed: fixed, mocker: mk, call: func(a int) (int, bool) {
		xs := c05Args(a)
		if len(xs) < fixed {
			return -1, true
		}
		return f(xs), true
	}}
}

func c05Render(r interface{}) string {
	switch x := r.(type) {
	case nil:
		return "vnil"
	case c05Orig:
		return "G"
	case c05Err:
		return "v" + strconv.Itoa(int(x))
	case int:
		if x%5 != 4 {
			return "X:int-" + strconv.Itoa(x)
		}
		return "v" + strconv.Itoa(x)
	case string:
		if !strings.HasPrefix(x, "s") {
			return "X:string-" + x
		}
		return "v" + strings.TrimPrefix(x, "s")
	case []int:
		if len(x) == 2 && x[1] == x[0]+7 && x[0]%5 == 1 {
			return "v" + strconv.Itoa(x[0])
		}
		return fmt.Sprintf("X:slice-%v", x)
	case []string:
		if len(x) == 2 && x[0] == "a" {
			return "v" + strings.TrimPrefix(x[1], "s")
		}
		return fmt.Sprintf("X:slice-%v", x)
	case []byte:
		if x == nil {
			return "vnil"
		}
		if string(x) == "G" {
			return "G"
		}
		return "v" + string(x)
	}
	return fmt.Sprintf("X:type-%T", r)
}

// c05NewTarget: idx 1 selects the sibling target of the same signature (a second function / method / interface variable)
// for the kinds that have one.
func c05NewTarget(kind string, idx int) *c05Target {
	switch kind {
	case "fe":
		f := c05FE
		if idx == 1 {
			f = c05FEb
		}
		return &c05Target{fixed: -1, mocker: func(b *Builder) ExportedMocker {
			if idx == 1 {
				return b.Func(c05FEb)
			}
			return b.Func(c05FE)
		}, val: func(v int) interface{} {
			if v%5 == 0 {
				return nil
			}
			return c05Err(v)
		}, callS: func(a int) string { return c05Render(f(a)) }}
	case "fi":
		// interface{} result: token v is configured as nil (v%5==0), as a typed slice that IS the value — []int{v, v+7} (v%5==1),
		// []string{"a", "s<v>"} (v%5==2) —, as the string "s<v>" (v%5==3) or as the int v (v%5==4)
		return &c05Target{fixed: -1, mocker: func(b *Builder) ExportedMocker { return b.Func(c05FI) },
			val: func(v int) interface{} {
				switch v % 5 {
				case 0:
					return nil
				case 1:
					return []int{v, v + 7}
				case 2:
					return []string{"a", "s" + strconv.Itoa(v)}
				case 3:
					return "s" + strconv.Itoa(v)
				}
				return v
			}, callS: func(a int) string { return c05Render(c05FI(a)) }}
	case "fb":
		return &c05Target{fixed: -1, mocker: func(b *Builder) ExportedMocker { return b.Func(c05FB) },
			val: func(v int) interface{} {
				if v%5 == 0 {
					return nil
				}
				return []byte(strconv.Itoa(v))
			}, callS: func(a int) string { return c05Render(c05FB(a)) }}
	case "xf":
		// unexported function by name, turned into a DefMocker with As (mocker.go UnexportedFuncMocker.As)
		return &c05Target{fixed: -1, mocker: func(b *Builder) ExportedMocker {
			return b.ExportFunc("c05priv").As(func(a int) int { return 0 })
		}, call: func(a int) (int, bool) { return c05priv(a), true }}
	case "v0":
		return c05Variadic(0, func(b *Builder) ExportedMocker { return b.Func(c05V0) }, func(xs []int) int { return c05V0(xs...) })
	case "v1":
		return c05Variadic(1, func(b *Builder) ExportedMocker { return b.Func(c05V1) }, func(xs []int) int { return c05V1(xs[0], xs[1:]...) })
	case "v2":
		return c05Variadic(2, func(b *Builder) ExportedMocker { return b.Func(c05V2) }, func(xs []int) int { return c05V2(xs[0], xs[1], xs[2:]...) })
	case "vm":
		obj := &c05T{}
		return c05Variadic(1, func(b *Builder) ExportedMocker { return b.Struct(&c05T{}).Method("V") },
			func(xs []int) int { return obj.V(xs[0], xs[1:]...) })
	case "f1":
		if idx == 1 {
			return &c05Target{fixed: -1, mocker: func(b *Builder) ExportedMocker { return b.Func(c05F1b) },
				call: func(a int) (int, bool) { return c05F1b(a), true }}
		}
		return &c05Target{fixed: -1, mocker: func(b *Builder) ExportedMocker { return b.Func(c05F1) },
			call: func(a int) (int, bool) { return c05F1(a), true }}
	case "f2":
		// a result token t is configured as the tuple (t%50, t): the second component carries the whole token, the first
		// repeats between different tokens
		return &c05Target{fixed: -1, pair: true, mocker: func(b *Builder) ExportedMocker { return b.Func(c05F2) },
			call: func(a int) (int, bool) {
				x, y := c05F2(a)
				if y < 0 {
					return y, true
				}
				return y, x == y%50
			}}
	case "me":
		obj := &c05T{}
		if idx == 1 {
			return &c05Target{fixed: -1, mocker: func(b *Builder) ExportedMocker { return b.Struct(&c05T{}).Method("M2") },
				call: func(a int) (int, bool) { return obj.M2(a), true }}
		}
		return &c05Target{fixed: -1, mocker: func(b *Builder) ExportedMocker { return b.Struct(&c05T{}).Method("M") },
			call: func(a int) (int, bool) { return obj.M(a), true }}
	case "if":
		var i c05I
		return &c05Target{fixed: -1, mocker: func(b *Builder) ExportedMocker {
			return b.Interface(&i).Method("M").As(func(ctx *IContext, a int) int { return 0 })
		}, call: func(a int) (int, bool) {
			if i == nil {
				return -1 - a, true
			}
			return i.M(a), true
		}}
	}
	return nil
}

func c05Val(t *c05Target, v int) []interface{} {
	if t.val != nil {
		return []interface{}{t.val(v)}
	}
	if t.pair {
		return []interface{}{v % 50, v}
	}
	return []interface{}{v}
}

func c05Vals(t *c05Target, s string) []interface{} {
	var out []interface{}
	if s == "" {
		return out
	}
	for _, p := range strings.Split(s, ",") {
		v, _ := strconv.Atoi(p)
		if t.val != nil {
			out = append(out, t.val(v))
		} else if t.pair {
			out = append(out, []interface{}{v % 50, v})
		} else {
			out = append(out, v)
		}
	}
	return out
}

func c05Cond(t *c05Target, s string) (kind byte, vals []interface{}) {
	if t.fixed >= 0 && s[0] == 'e' {
		v, _ := strconv.Atoi(s[1:])
		return 'e', c05Ifs(c05Args(v))
	}
	if t.fixed >= 0 && s[0] == 'i' && s != "i" {
		// In([]interface{}{a, b, …}, []interface{}{…}): every alternative is a whole argument list
		for _, p := range strings.Split(s[1:], ",") {
			v, _ := strconv.Atoi(p)
			vals = append(vals, c05Ifs(c05Args(v)))
		}
		return 'i', vals
	}
	if s == "y" {
		return 'y', []interface{}{arg.Any()}
	}
	if s == "i" {
		return 'i', nil // In() without any alternative: a stub that never matches
	}
	for _, p := range strings.Split(s[1:], ",") {
		v, _ := strconv.Atoi(p)
		vals = append(vals, v)
	}
	return s[0], vals
}

func c05Base(m Matcher) *BaseMatcher {
	switch x := m.(type) {
	case *DefaultMatcher:
		return x.BaseMatcher
	case *ContainsMatcher:
		return x.BaseMatcher
	case *AlwaysMatcher:
		if x == nil {
			return nil
		}
		return x.BaseMatcher
	}
	return nil
}

func c05ShowM(m Matcher) string {
	b := c05Base(m)
	if b == nil {
		return "?"
	}
	return fmt.Sprintf("%d:%d", len(b.results), atomic.LoadInt32(&b.curNum))
}

func c05State(w *When) string {
	if w == nil {
		return "nowhen"
	}
	var ml []string
	for _, m := range w.matches {
		ml = append(ml, c05ShowM(m))
	}
	d := "-"
	if w.defaultReturns != nil {
		d = c05ShowM(w.defaultReturns)
	}
	c := "-"
	if w.curMatch != nil {
		if w.curMatch == w.defaultReturns {
			c = "d"
		} else {
			c = "new" + c05ShowM(w.curMatch)
			for k, m := range w.matches {
				if m == w.curMatch {
					c = "m" + strconv.Itoa(k)
					break
				}
			}
		}
	}
	return fmt.Sprintf("m=[%s] d=%s c=%s", strings.Join(ml, ","), d, c)
}

func c05PanicClass(r interface{}) string {
	s := fmt.Sprint(r)
	switch {
	case strings.Contains(s, "no suitable condition"):
		return "P"
	case strings.Contains(s, "index out of range"):
		return "O"
	}
	return "X:" + vh.Class(s)
}

func c05Call(t *c05Target, a int) (res string) {
	defer func() {
		if r := recover(); r != nil {
			res = c05PanicClass(r)
		}
	}()
	if t.callS != nil {
		return t.callS(a)
	}
	v, ok := t.call(a)
	if !ok {
		return "X:pair"
	}
	if v < 0 {
		return "G"
	}
	return "v" + strconv.Itoa(v)
}

// c05Seq runs one configuration-and-call history on a fresh builder and target.
func c05Seq(kind string, ops []string) (res string) {
	ts := [2]*c05Target{c05NewTarget(kind, 0), nil}
	if ts[0] == nil {
		return "bad-op"
	}
	t := ts[0]
	b := Create()
	defer b.Reset()
	var ws [2]*When
	var w *When
	act := 0
	used1 := false
	var obs []string
	defer func() {
		if r := recover(); r != nil {
			res = "config-panic:" + vh.Class(fmt.Sprint(r))
		}
	}()
	for _, op := range ops {
		i := strings.IndexByte(op, ':')
		if i < 0 {
			return "bad-op"
		}
		k, a := op[:i], op[i+1:]
		if k == "L" {
			// run the rest of the history with goom's debug / trace logging switched on (closed again when the history ends)
			switch a {
			case "d":
				OpenDebug()
				defer CloseDebug()
			case "t":
				OpenTrace()
				defer CloseTrace()
			default:
				return "bad-op"
			}
			continue
		}
		if k == "T" {
			// switch to the other target of the same signature, mocked through the same builder
			n, _ := strconv.Atoi(a)
			if n != 0 && n != 1 {
				return "bad-op"
			}
			if n == 1 && ts[1] == nil {
				if kind != "f1" && kind != "me" && kind != "if" && kind != "fe" {
					return "bad-op"
				}
				ts[1] = c05NewTarget(kind, 1)
			}
			ws[act] = w
			act, t, w = n, ts[n], ws[n]
			used1 = used1 || n == 1
			continue
		}
		switch k {
		case "mR":
			v, _ := strconv.Atoi(a)
			w = t.mocker(b).Return(c05Val(t, v)...)
		case "mW":
			_, vals := c05Cond(t, a)
			w = t.mocker(b).When(vals...)
		case "mS":
			// a configuration call rejected with ReturnsNotMatch is an observation ("R"); the history goes on with the mocker as it is
			rej := func() (rej bool) {
				defer func() {
					if r := recover(); r != nil {
						if !strings.Contains(fmt.Sprint(r), "returns lenth not match") {
							panic(r)
						}
						rej = true
					}
				}()
				w = t.mocker(b).Returns(c05Vals(t, a)...)
				return false
			}()
			if rej {
				obs = append(obs, "R")
			}
		case "wR", "wA", "wS", "wW", "wM":
			if w == nil {
				continue
			}
			switch k {
			case "wR":
				v, _ := strconv.Atoi(a)
				w.Return(c05Val(t, v)...)
			case "wA":
				v, _ := strconv.Atoi(a)
				w.AndReturn(c05Val(t, v)...)
			case "wS":
				w.Returns(c05Vals(t, a)...)
			case "wM":
				var pairs []arg.Pair
				for _, p := range strings.Split(a, ",") {
					kv := strings.SplitN(p, "=", 2)
					if len(kv) != 2 {
						return "bad-op"
					}
					x, _ := strconv.Atoi(kv[0])
					v, _ := strconv.Atoi(kv[1])
					if t.val != nil {
						pairs = append(pairs, arg.Pair{Args: x, Return: []interface{}{t.val(v)}})
					} else if t.pair {
						pairs = append(pairs, arg.Pair{Args: x, Return: []interface{}{v % 50, v}})
					} else if t.fixed >= 0 {
						pairs = append(pairs, arg.Pair{Args: c05Ifs(c05Args(x)), Return: v})
					} else {
						pairs = append(pairs, arg.Pair{Args: x, Return: v})
					}
				}
				w.Matches(pairs...)
			case "wW":
				ck, vals := c05Cond(t, a)
				if ck == 'i' {
					w.In(vals...)
				} else {
					w.When(vals...)
				}
			}
		case "C":
			v, _ := strconv.Atoi(a)
			obs = append(obs, c05Call(t, v))
		default:
			return "bad-op"
		}
	}
	o := "-"
	if len(obs) > 0 {
		o = strings.Join(obs, " ")
	}
	ws[act] = w
	if used1 {
		return o + " | " + c05State(ws[0]) + " || " + c05State(ws[1])
	}
	return o + " | " + c05State(ws[0])
}

// c05Serve calls the real Result() on a BaseMatcher put into state (n results, cursor cur).
func c05Serve(n, cur int) (res string) {
	m := &BaseMatcher{}
	for i := 0; i < n; i++ {
		m.results = append(m.results, []reflect.Value{reflect.ValueOf(i)})
	}
	m.curNum = int32(cur)
	defer func() {
		if r := recover(); r != nil {
			if strings.Contains(fmt.Sprint(r), "index out of range") {
				res = fmt.Sprintf("idx=oob cur=%d", m.curNum)
			} else {
				res = "panic:" + vh.Class(fmt.Sprint(r))
			}
		}
	}()
	v := m.Result()
	return fmt.Sprintf("idx=%d cur=%d", v[0].Interface().(int), m.curNum)
}

// TestVerifC05 — sequential lanes.
func TestVerifC05(t *testing.T) {
	out := vh.OpenOut()
	defer out.Close()
	for _, op := range vh.ReadOps() {
		if len(op.Toks) == 0 {
			continue
		}
		switch op.Toks[0] {
		case "c05.serve":
			if len(op.Toks) != 3 {
				out.Put(op.Idx, "bad-op")
				continue
			}
			out.Put(op.Idx, "%s", c05Serve(int(vh.U64(op.Toks[1])), int(vh.U64(op.Toks[2]))))
		case "c05.seq":
			if len(op.Toks) < 2 {
				out.Put(op.Idx, "bad-op")
				continue
			}
			out.Put(op.Idx, "%s", c05Seq(op.Toks[1], op.Toks[2:]))
		}
	}
}

// ---------------------------------------------------------------------------------------------------- concurrent lane

type c05Rec struct {
	thread, start, val, end int
}

// c05Conc: `c05.conc <target> <mode> <n> <G> <K>`; mode d = one default sequence 0..n-1 consumed by all G goroutines,
// mode r = the same with every value configured twice in a row (0,0,1,1,…; values are then not positions),
// mode c = two conditions When(7)/When(8) with sequences 0..n-1 and 100000..100000+n-1, even goroutines call 7, odd call 8
// (plus a default that must never be served).  Every goroutine spins on a barrier, then performs K calls, stamping a
// global atomic clock before and after each call.  Output: per stub `n<number of results the stub holds>` and the visible
// events in stamp order.
func c05Conc(kind, mode string, n, G, K int) (res string) {
	t := c05NewTarget(kind, 0)
	if t == nil || t.callS != nil {
		return "bad-op"
	}
	b := Create()
	defer b.Reset()
	defer func() {
		if r := recover(); r != nil {
			res = "config-panic:" + vh.Class(fmt.Sprint(r))
		}
	}()
	div := 1
	if mode == "r" {
		div = 2 // every value twice in a row: 0,0,1,1,2,2,…
	}
	seq := func(base int) []interface{} {
		var vs []interface{}
		for i := 0; i < n; i++ {
			if t.pair {
				vs = append(vs, []interface{}{(base + i/div) % 50, base + i/div})
			} else {
				vs = append(vs, base+i/div)
			}
		}
		return vs
	}
	groups := 1
	argBase := 7 // non-variadic targets are called with 7 / 8
	if t.fixed >= 0 {
		argBase = 78 // variadic targets with the argument lists (6, 7) / (6, 8): two conditions of the same arity
	}
	condArgs := func(a int) []interface{} {
		if t.fixed >= 0 {
			return c05Ifs(c05Args(a))
		}
		return []interface{}{a}
	}
	var stubs []Matcher
	switch mode {
	case "d", "r":
		w := t.mocker(b).Returns(seq(0)...)
		stubs = []Matcher{w.defaultReturns}
	case "c", "n":
		groups = 2
		w := t.mocker(b).Return(c05Val(t, 999999)...)
		if mode == "n" {
			// ContainsMatcher stubs: In(a) (variadic targets: In([]interface{}{…}))
			in := func(a int) []interface{} {
				if t.fixed >= 0 {
					return []interface{}{condArgs(a)}
				}
				return condArgs(a)
			}
			w.In(in(argBase)...).Returns(seq(0)...)
			w.In(in(argBase + 1)...).Returns(seq(100000)...)
		} else {
			w.When(condArgs(argBase)...).Returns(seq(0)...)
			w.When(condArgs(argBase + 1)...).Returns(seq(100000)...)
		}
		if len(w.matches) != 2 {
			return "config-panic:matches"
		}
		stubs = []Matcher{w.matches[0], w.matches[1]}
	default:
		return "bad-op"
	}
	lens := make([]string, len(stubs))
	for i, m := range stubs {
		lens[i] = "?"
		if bm := c05Base(m); bm != nil {
			lens[i] = strconv.Itoa(len(bm.results))
		}
	}
	var clock int64
	var ready int32
	recs := make([][]c05Rec, G)
	var wg sync.WaitGroup
	spinYield := G > runtime.GOMAXPROCS(0)
	for g := 0; g < G; g++ {
		wg.Add(1)
		go func(g int) {
			defer wg.Done()
			a := argBase + g%groups
			my := make([]c05Rec, 0, K)
			atomic.AddInt32(&ready, 1)
			for spins := 0; atomic.LoadInt32(&ready) < int32(G); spins++ {
				if spinYield || spins > 300000 { // never burn a CPU quota waiting for goroutines that cannot run
					runtime.Gosched()
				}
			}
			for k := 0; k < K; k++ {
				s := int(atomic.AddInt64(&clock, 1))
				v := func() (v int) {
					defer func() {
						if r := recover(); r != nil {
							v = -7
						}
					}()
					x, _ := t.call(a)
					return x
				}()
				e := int(atomic.AddInt64(&clock, 1))
				my = append(my, c05Rec{g, s, v, e})
			}
			recs[g] = my
		}(g)
	}
	wg.Wait()
	var parts []string
	for grp := 0; grp < groups; grp++ {
		type ev struct {
			stamp int
			tok   string
		}
		var evs []ev
		for g := grp; g < G; g += groups {
			for _, r := range recs[g] {
				v := r.val
				if groups == 2 && grp == 1 {
					v -= 100000 // position in the second sequence; anything outside 0..n-1 is reported as is
				}
				evs = append(evs, ev{r.start, "i" + strconv.Itoa(g)}, ev{r.end, "r" + strconv.Itoa(g) + "=" + strconv.Itoa(v)})
			}
		}
		sort.Slice(evs, func(i, j int) bool { return evs[i].stamp < evs[j].stamp })
		toks := make([]string, len(evs))
		for i, e := range evs {
			toks[i] = e.tok
		}
		parts = append(parts, "n"+lens[grp]+" "+strings.Join(toks, " "))
	}
	return strings.Join(parts, " ; ")
}

// TestVerifC05Conc — concurrent lane.
func TestVerifC05Conc(t *testing.T) {
	out := vh.OpenOut()
	defer out.Close()
	for _, op := range vh.ReadOps() {
		if len(op.Toks) != 6 || op.Toks[0] != "c05.conc" {
			continue
		}
		out.Put(op.Idx, "%s", c05Conc(op.Toks[1], op.Toks[2], int(vh.U64(op.Toks[3])), int(vh.U64(op.Toks[4])), int(vh.U64(op.Toks[5]))))
	}
}
