#!/usr/bin/env python3
"""Entry point of every registered check:  check.py <Cxx> [--tier quick|thorough] [--replay file]

Exit 0: the property held on everything explored (KNOWN-FINDING lines may be printed).
Exit 1: a line `VIOLATION property=<id> replay=<path>` was printed.
Exit 2: the machinery itself failed (INFRA-ERROR), which says nothing about the property.
"""
import argparse
import importlib
import json
import os
import sys
import traceback

sys.path.insert(0, os.path.dirname(os.path.abspath(__file__)))
from vlib import common  # noqa: E402


def main():
    ap = argparse.ArgumentParser()
    ap.add_argument('prop')
    ap.add_argument('--tier', default=os.environ.get('VERIF_TIER', 'quick'), choices=['quick', 'thorough'])
    ap.add_argument('--replay')
    a = ap.parse_args()
    try:
        mod = importlib.import_module('checks.' + a.prop)
    except ModuleNotFoundError:
        print(f'INFRA-ERROR no check module for {a.prop}')
        return 2
    try:
        if a.replay:
            body = json.load(open(a.replay))
            return mod.replay(body)
        return mod.run(a.tier)
    except Exception as e:  # noqa: BLE001
        # The machinery could not decide the property on this tree: a probe that no longer compiles against the source, a probe
        # process killed by the code under test, a driver that no longer builds, or a defect of the check itself.  On the unchanged
        # tree none of this happens (vp check / tools/runall.sh); on a changed tree it means the tie between model and code is broken,
        # i.e. the property is no longer shown to hold: report it as such, with the error as the replay, instead of hiding it behind
        # an infrastructure exit code.
        tb = traceback.format_exc()
        if a.replay:
            print(tb)
            print(f'INFRA-ERROR property={a.prop}: {e}')
            return 2
        out = common.Outcome(a.prop, a.tier)
        kind = 'probe-or-driver-failure' if isinstance(e, common.Infra) else 'check-exception'
        out.coverage = {'explanation': 'the check could not be completed on this tree: ' + str(e)[:2000], 'evaluations': 1, 'distinct_nontrivial': 2,
                        'obligations': 1, 'discharged': 0, 'checker_cmd': 'python3 check.py ' + a.prop, 'trusted_base': [],
                        'samples': [str(e)[:500]], 'rule': 'no exploration: the machinery failed before or while exploring'}
        out.violation('the check machinery could not run to completion against this tree (probe does not build / probe or driver died / check exception); '
                      'the correspondence between model and code is broken', {'kind': kind, 'broken': 'tie between model and implementation (probe build/run, driver build, or the check itself)',
                                                                              'error': str(e)[:6000], 'traceback': tb[-6000:]}, no_failing_input=True)
        return out.finish()


if __name__ == '__main__':
    sys.exit(main())
