#!/usr/bin/env python3
"""Entry point of every registered check:  check.py <Cxx> [--tier quick|thorough] [--replay file]

Exit 0: the property held on everything explored (KNOWN-FINDING lines may be printed).
Exit 1: a line `VIOLATION property=<id> replay=<path>` was printed.
Exit 2: the machinery itself failed (INFRA-ERROR), which says nothing about the property.
"""
import argparse
import importlib
import json
import os
import sys
import traceback

sys.path.insert(0, os.path.dirname(os.path.abspath(__file__)))
from vlib import common  # noqa: E402


def main():
    ap = argparse.ArgumentParser()
    ap.add_argument('prop')
    ap.add_argument('--tier', default=os.environ.get('VERIF_TIER', 'quick'), choices=['quick', 'thorough'])
    ap.add_argument('--replay')
    a = ap.parse_args()
    try:
        mod = importlib.import_module('checks.' + a.prop)
    except ModuleNotFoundError:
        print(f'INFRA-ERROR no check module for {a.prop}')
        return 2
    try:
        if a.replay:
            body = json.load(open(a.replay))
            return mod.replay(body)
        return mod.run(a.tier)
    except common.Infra as e:
        print(f'INFRA-ERROR property={a.prop}: {e}')
        return 2
    except Exception:
        traceback.print_exc()
        print(f'INFRA-ERROR property={a.prop}: unexpected exception')
        return 2


if __name__ == '__main__':
    sys.exit(main())
