import GoomVerif.Model.Reloc
import GoomVerif.Model.X86Mini
import GoomVerif.Lemmas.C15L
set_option linter.unusedSimpArgs false
/-! Helper lemmas for C03: little-endian fields, `Gen.Addr.DecodeAddress` / `EncodeAddress` as integer arithmetic.
    Kernel-only (`simp only` + `omega` + `decide`). -/
namespace C03L
open Gen.Addr
open X86 (leNat)

abbrev Bytes := Reloc.Bytes

/-- the signed displacement the CPU reads from a little-endian field (ISA reading, not goom's) -/
def sdisp (fld : Bytes) : Int :=
  if 2 * leNat fld < 2 ^ (8 * fld.length) then (leNat fld : Int) else (leNat fld : Int) - (2 ^ (8 * fld.length) : Nat)

theorem sw8_sshift (v : BitVec 32) (k : Nat) (hk : k ≤ 24) :
    BitVec.setWidth 8 (BitVec.sshiftRight v k) = BitVec.setWidth 8 (v >>> k) := by
  ext i hi
  have : k + i < 32 := by omega
  simp [BitVec.getElem_setWidth, BitVec.getLsbD_sshiftRight, BitVec.getLsbD_ushiftRight, this]
  omega

theorem leNat_put32 (a b c d : BitVec 8) (v : BitVec 32) :
    leNat (LittleEndian_PutInt32 [a,b,c,d] v) = v.toNat := by
  simp only [LittleEndian_PutInt32, List.set]
  rw [sw8_sshift v 8 (by omega), sw8_sshift v 16 (by omega), sw8_sshift v 24 (by omega)]
  exact C15L.leNat_bytes32 v

theorem put32_length (a b c d : BitVec 8) (v : BitVec 32) : (LittleEndian_PutInt32 [a,b,c,d] v).length = 4 := by
  simp [LittleEndian_PutInt32]

theorem int32_leNat (a b c d : BitVec 8) :
    (LittleEndian_Int32 [a,b,c,d]).toNat = leNat [a,b,c,d] := by
  simp only [LittleEndian_Int32, List.getD_cons_zero, List.getD_cons_succ, leNat]
  have ha := a.isLt; have hb := b.isLt; have hc := c.isLt; have hd := d.isLt
  have e1 : ((BitVec.setWidth 32 b) <<< 8).toNat = b.toNat * 2^8 := by
    simp only [BitVec.toNat_shiftLeft, BitVec.toNat_setWidth, Nat.shiftLeft_eq]; omega
  have e2 : ((BitVec.setWidth 32 c) <<< 16).toNat = c.toNat * 2^16 := by
    simp only [BitVec.toNat_shiftLeft, BitVec.toNat_setWidth, Nat.shiftLeft_eq]; omega
  have e3 : ((BitVec.setWidth 32 d) <<< 24).toNat = d.toNat * 2^24 := by
    simp only [BitVec.toNat_shiftLeft, BitVec.toNat_setWidth, Nat.shiftLeft_eq]; omega
  have e0 : (BitVec.setWidth 32 a).toNat = a.toNat := by simp only [BitVec.toNat_setWidth]; omega
  have s1 := C15L.or_toNat_disjoint (BitVec.setWidth 32 a) ((BitVec.setWidth 32 b) <<< 8) 8 (by omega) (by omega)
  have s2 := C15L.or_toNat_disjoint _ ((BitVec.setWidth 32 c) <<< 16) 16 (by rw [s1]; omega) (by omega)
  have s3 := C15L.or_toNat_disjoint _ ((BitVec.setWidth 32 d) <<< 24) 24 (by rw [s2, s1]; omega) (by omega)
  rw [s3, s2, s1, e0, e1, e2, e3]; omega

/-- the value of a 32-bit vector read as a two's complement number is `sdisp` of its four bytes -/
theorem sdisp_of_toNat32 (f : Bytes) (v : BitVec 32) (hl : f.length = 4) (h : leNat f = v.toNat) : sdisp f = v.toInt := by
  simp only [sdisp, hl, h, BitVec.toInt_eq_toNat_cond]

/-- `DecodeAddress` on a 4-byte field is the ISA reading -/
theorem decode4 (a b c d : BitVec 8) :
    ∃ v, DecodeAddress [a,b,c,d] (BitVec.ofNat 64 4) = .ok v ∧ v.toInt = sdisp [a,b,c,d] := by
  refine ⟨BitVec.signExtend 64 (LittleEndian_Int32 [a,b,c,d]), by simp [DecodeAddress], ?_⟩
  rw [BitVec.toInt_signExtend_of_le (by omega)]
  exact (sdisp_of_toNat32 _ _ rfl (int32_leNat a b c d).symm).symm

theorem decode1 (a : BitVec 8) :
    ∃ v, DecodeAddress [a] (BitVec.ofNat 64 1) = .ok v ∧ v.toInt = sdisp [a] := by
  refine ⟨BitVec.signExtend 64 a, by simp [DecodeAddress], ?_⟩
  rw [BitVec.toInt_signExtend_of_le (by omega)]
  simp only [sdisp, leNat, BitVec.toInt_eq_toNat_cond, List.length_cons, List.length_nil, Nat.zero_add, Nat.mul_one, Nat.mul_zero, Nat.add_zero, Nat.reducePow, Nat.reduceMul, Nat.reduceAdd]

theorem sdisp1_range (a : BitVec 8) : -128 ≤ sdisp [a] ∧ sdisp [a] < 128 := by
  simp only [sdisp, leNat, List.length_cons, List.length_nil, Nat.zero_add, Nat.mul_one, Nat.mul_zero, Nat.add_zero, Nat.reducePow, Nat.reduceMul, Nat.reduceAdd]
  have := a.isLt
  split <;> omega

theorem sdisp4_range (f : Bytes) (hl : f.length = 4) : -2^31 ≤ sdisp f ∧ sdisp f < 2^31 := by
  match f, hl with
  | [a,b,c,d], _ =>
    simp only [sdisp, leNat, List.length_cons, List.length_nil, Nat.zero_add, Nat.mul_one, Nat.mul_zero, Nat.add_zero, Nat.reducePow, Nat.reduceMul, Nat.reduceAdd]
    have := a.isLt; have := b.isLt; have := c.isLt; have := d.isLt
    split <;> omega

/-- low 32 bits of a 64-bit value that is a small integer -/
theorem sw32_toInt (x : BitVec 64) (h1 : -2^31 ≤ x.toInt) (h2 : x.toInt < 2^31) : (BitVec.setWidth 32 x).toInt = x.toInt := by
  simp only [BitVec.toInt_eq_toNat_cond, BitVec.toNat_setWidth] at *
  have := x.isLt
  split at h1 <;> split <;> omega

theorem ofInt_toInt (a : Int) (h1 : -2^62 ≤ a) (h2 : a < 2^62) : (BitVec.ofInt 64 a).toInt = a := by
  rw [BitVec.toInt_ofInt, Int.bmod_def]
  split <;> omega

/-- `EncodeAddress` on a 4-byte field (addr.go:75): the field holds `val + add` -/
theorem enc4 (pre : Bytes) (a b c d : BitVec 8) (val add : BitVec 64)
    (hv1 : -2^31 ≤ val.toInt) (hv2 : val.toInt < 2^31) (ha1 : -2^31 ≤ add.toInt) (ha2 : add.toInt < 2^31)
    (hs1 : -2^31 ≤ val.toInt + add.toInt) (hs2 : val.toInt + add.toInt < 2^31) :
    ∃ f, EncodeAddress pre [a,b,c,d] (BitVec.ofNat 64 4) val add = .ok (pre ++ f) ∧ f.length = 4 ∧
      sdisp f = val.toInt + add.toInt := by
  refine ⟨LittleEndian_PutInt32 [a,b,c,d] (BitVec.setWidth 32 val + BitVec.setWidth 32 add), by simp [EncodeAddress, toInst],
    put32_length _ _ _ _ _, ?_⟩
  rw [sdisp_of_toNat32 _ _ (put32_length _ _ _ _ _) (leNat_put32 _ _ _ _ _), BitVec.toInt_add, sw32_toInt val hv1 hv2,
    sw32_toInt add ha1 ha2, Int.bmod_def]
  split <;> omega

/-- the short→near table: what `opExpand` may answer, as a closed list (regenerated from addr.go:15) -/
theorem opExpand_cases (k : BitVec 32) (near : Bytes) (h : opExpand k = some near) :
    (k = 0x74#32 ∧ near = [0x0f#8, 0x84#8]) ∨ (k = 0x76#32 ∧ near = [0x0f#8, 0x86#8]) ∨
    (k = 0x7f#32 ∧ near = [0x0f#8, 0x8f#8]) ∨ (k = 0xeb#32 ∧ near = [0xe9#8]) := by
  unfold opExpand at h
  split at h
  · simp_all
  · split at h
    · simp_all
    · split at h
      · simp_all
      · split at h
        · simp_all
        · simp at h

theorem isByteOverflow_spec (v : BitVec 32) : isByteOverflow v = true ↔ (v.toInt > 127 ∨ v.toInt < -128) := by
  have h0 : (0x0#32).toInt = 0 := by decide
  have h1 : (0x7f#32).toInt = 127 := by decide
  have h2 : (0xffffff80#32).toInt = -128 := by decide
  unfold isByteOverflow
  simp only [BitVec.slt, h0, h1, h2]
  split <;> split <;> simp_all <;> omega

theorem sx8_toInt (val : BitVec 64) (h1 : -128 ≤ val.toInt) (h2 : val.toInt < 128) :
    (BitVec.signExtend 32 (BitVec.setWidth 8 val)).toInt = val.toInt ∧
    (BitVec.signExtend 64 (BitVec.setWidth 8 val)).toInt = val.toInt := by
  rw [BitVec.toInt_signExtend_of_le (by omega), BitVec.toInt_signExtend_of_le (by omega)]
  simp only [BitVec.toInt_eq_toNat_cond, BitVec.toNat_setWidth] at *
  have := val.isLt
  split at h1 <;> split <;> omega

/-- `EncodeAddress` on a 1-byte field (addr.go:49): keep rel8 when `val+add` fits … -/
theorem enc1_fit (pre : Bytes) (b : BitVec 8) (val add : BitVec 64)
    (hv1 : -128 ≤ val.toInt) (hv2 : val.toInt < 128) (ha1 : -2^31 + 2^16 ≤ add.toInt) (ha2 : add.toInt < 2^31 - 2^16)
    (hs1 : -128 ≤ val.toInt + add.toInt) (hs2 : val.toInt + add.toInt ≤ 127) :
    ∃ x, EncodeAddress pre [b] (BitVec.ofNat 64 1) val add = .ok (pre ++ [x]) ∧ sdisp [x] = val.toInt + add.toInt := by
  obtain ⟨e32, e64⟩ := sx8_toInt val hv1 hv2
  have hsum : ((BitVec.signExtend 32 (BitVec.setWidth 8 val)) + (BitVec.setWidth 32 add)).toInt = val.toInt + add.toInt := by
    rw [BitVec.toInt_add, e32, sw32_toInt add (by omega) (by omega), Int.bmod_def]; split <;> omega
  have hno : isByteOverflow ((BitVec.signExtend 32 (BitVec.setWidth 8 val)) + (BitVec.setWidth 32 add)) = false := by
    cases h : isByteOverflow ((BitVec.signExtend 32 (BitVec.setWidth 8 val)) + (BitVec.setWidth 32 add))
    · rfl
    · have := (isByteOverflow_spec _).1 h; omega
  refine ⟨BitVec.setWidth 8 ((BitVec.signExtend 64 (BitVec.setWidth 8 val)) + add), by simp [EncodeAddress, hno, toInst], ?_⟩
  have h64 : ((BitVec.signExtend 64 (BitVec.setWidth 8 val)) + add).toInt = val.toInt + add.toInt := by
    rw [BitVec.toInt_add, e64, Int.bmod_def]; split <;> omega
  generalize ((BitVec.signExtend 64 (BitVec.setWidth 8 val)) + add) = w at h64
  simp only [sdisp, leNat, List.length_cons, List.length_nil, Nat.zero_add, Nat.mul_one, Nat.mul_zero, Nat.add_zero, Nat.reducePow,
    BitVec.toNat_setWidth]
  rw [BitVec.toInt_eq_toNat_cond] at h64
  have := w.isLt
  split at h64 <;> split <;> omega

theorem sub3k (E k : BitVec 32) (s kk : Int) (hE : E.toInt = s) (hk : k.toInt = kk) (h0 : 0 ≤ kk) (h1 : kk ≤ 1)
    (r1 : -2^31 + 8 ≤ s) (r2 : s < 2^31) : (E - 3#32 - k).toInt = s - 3 - kk := by
  have h3 : (3#32).toInt = 3 := by decide
  rw [BitVec.toInt_sub, BitVec.toInt_sub, hE, hk, h3]
  simp only [Int.bmod_def]
  split <;> split <;> omega

/-- … and widen to the near form otherwise; the new field compensates for the instruction's own growth. -/
theorem enc1_widen (op b : BitVec 8) (val add : BitVec 64) (near : Bytes)
    (hv1 : -128 ≤ val.toInt) (hv2 : val.toInt < 128) (ha1 : -2^31 + 2^16 ≤ add.toInt) (ha2 : add.toInt < 2^31 - 2^16)
    (hs : val.toInt + add.toInt < -128 ∨ 127 < val.toInt + add.toInt)
    (hx : opExpand (BitVec.setWidth 32 op) = some near) :
    ∃ f, EncodeAddress [op] [b] (BitVec.ofNat 64 1) val add = .ok (near ++ f) ∧ f.length = 4 ∧
      sdisp f + (near.length + 4 : Nat) = val.toInt + add.toInt + 2 := by
  obtain ⟨e32, _⟩ := sx8_toInt val hv1 hv2
  have hsum : ((BitVec.signExtend 32 (BitVec.setWidth 8 val)) + (BitVec.setWidth 32 add)).toInt = val.toInt + add.toInt := by
    rw [BitVec.toInt_add, e32, sw32_toInt add (by omega) (by omega), Int.bmod_def]; split <;> omega
  have hov : isByteOverflow ((BitVec.signExtend 32 (BitVec.setWidth 8 val)) + (BitVec.setWidth 32 add)) = true := by
    rw [isByteOverflow_spec]; omega
  have hc := opExpand_cases _ _ hx
  have t1 : (1#32).toInt = 1 := by decide
  have t0 : (0#32).toInt = 0 := by decide
  rcases hc with ⟨_, rfl⟩ | ⟨_, rfl⟩ | ⟨_, rfl⟩ | ⟨_, rfl⟩
  · refine ⟨LittleEndian_PutInt32 [0#8, 0#8, 0#8, 0#8] (_ - 3#32 - 1#32), by simp [EncodeAddress, hov, hx, toInst]; rfl, put32_length _ _ _ _ _, ?_⟩
    rw [sdisp_of_toNat32 _ _ (put32_length _ _ _ _ _) (leNat_put32 _ _ _ _ _), sub3k _ _ _ _ hsum t1 (by omega) (by omega) (by omega) (by omega)]
    simp only [List.length_cons, List.length_nil]; omega
  · refine ⟨LittleEndian_PutInt32 [0#8, 0#8, 0#8, 0#8] (_ - 3#32 - 1#32), by simp [EncodeAddress, hov, hx, toInst]; rfl, put32_length _ _ _ _ _, ?_⟩
    rw [sdisp_of_toNat32 _ _ (put32_length _ _ _ _ _) (leNat_put32 _ _ _ _ _), sub3k _ _ _ _ hsum t1 (by omega) (by omega) (by omega) (by omega)]
    simp only [List.length_cons, List.length_nil]; omega
  · refine ⟨LittleEndian_PutInt32 [0#8, 0#8, 0#8, 0#8] (_ - 3#32 - 1#32), by simp [EncodeAddress, hov, hx, toInst]; rfl, put32_length _ _ _ _ _, ?_⟩
    rw [sdisp_of_toNat32 _ _ (put32_length _ _ _ _ _) (leNat_put32 _ _ _ _ _), sub3k _ _ _ _ hsum t1 (by omega) (by omega) (by omega) (by omega)]
    simp only [List.length_cons, List.length_nil]; omega
  · refine ⟨LittleEndian_PutInt32 [0#8, 0#8, 0#8, 0#8] (_ - 3#32 - 0#32), by simp [EncodeAddress, hov, hx, toInst]; rfl, put32_length _ _ _ _ _, ?_⟩
    rw [sdisp_of_toNat32 _ _ (put32_length _ _ _ _ _) (leNat_put32 _ _ _ _ _), sub3k _ _ _ _ hsum t0 (by omega) (by omega) (by omega) (by omega)]
    simp only [List.length_cons, List.length_nil]; omega

theorem enc1_none (pre : Bytes) (b : BitVec 8) (val add : BitVec 64)
    (hv1 : -128 ≤ val.toInt) (hv2 : val.toInt < 128) (ha1 : -2^31 + 2^16 ≤ add.toInt) (ha2 : add.toInt < 2^31 - 2^16)
    (hs : val.toInt + add.toInt < -128 ∨ 127 < val.toInt + add.toInt)
    (hx : opExpand (BitVec.setWidth 32 (pre.getD 0 0#8)) = none) :
    EncodeAddress pre [b] (BitVec.ofNat 64 1) val add = .error "panic" := by
  obtain ⟨e32, _⟩ := sx8_toInt val hv1 hv2
  have hsum : ((BitVec.signExtend 32 (BitVec.setWidth 8 val)) + (BitVec.setWidth 32 add)).toInt = val.toInt + add.toInt := by
    rw [BitVec.toInt_add, e32, sw32_toInt add (by omega) (by omega), Int.bmod_def]; split <;> omega
  have hov : isByteOverflow ((BitVec.signExtend 32 (BitVec.setWidth 8 val)) + (BitVec.setWidth 32 add)) = true := by
    rw [isByteOverflow_spec]; omega
  have hx' : opExpand (BitVec.setWidth 32 (pre[0]?.getD 0#8)) = none := by simpa using hx
  simp [EncodeAddress, hov, hx']

open Reloc

theorem len1 (l : Bytes) (h : l.length = 1) : ∃ a, l = [a] := by
  match l, h with
  | [a], _ => exact ⟨a, rfl⟩

theorem len4 (l : Bytes) (h : l.length = 4) : ∃ a b c d, l = [a,b,c,d] := by
  match l, h with
  | [a,b,c,d], _ => exact ⟨a, b, c, d, rfl⟩

/-- **Decoder contract** (what property C16 establishes about goom's decoder, restricted to what relocation reads). -/
structure WF (i : Ins) : Prop where
  len_eq : i.bytes.length = i.len
  len_pos : 0 < i.len
  opnz : i.opZero = false                      -- not the all-zero encoding `00 00` (which fixBlock would skip)
  field_in : i.pcrelOff ≠ 0 → i.pcrelOff + i.pcrel ≤ i.len
  width : i.pcrelOff ≠ 0 → i.pcrel = 1 ∨ i.pcrel = 4
  sign : i.pcrelOff ≠ 0 → i.backward = true → sdisp i.field ≤ 0
  short : i.pcrelOff ≠ 0 → i.pcrel = 1 → opExpand (BitVec.setWidth 32 (i.pre.getD 0 0#8)) ≠ none → i.pcrelOff = 1

theorem field_length (i : Ins) (hw : WF i) (hp : i.pcrelOff ≠ 0) : i.field.length = i.pcrel := by
  have := hw.field_in hp; have := hw.len_eq
  simp only [Ins.field, List.length_take, List.length_drop]; omega

theorem pre_length (i : Ins) (hw : WF i) (hp : i.pcrelOff ≠ 0) : i.pre.length = i.pcrelOff := by
  have := hw.field_in hp; have := hw.len_eq
  simp only [Ins.pre, List.length_take]; omega

theorem bytes_split (i : Ins) : i.bytes = i.pre ++ i.field ++ i.tail := by
  simp only [Ins.pre, Ins.field, Ins.tail]
  rw [← List.drop_drop, List.append_assoc, List.take_append_drop, List.take_append_drop]

theorem tail_length (i : Ins) (hw : WF i) (hp : i.pcrelOff ≠ 0) : i.tail.length + i.pcrelOff + i.pcrel = i.len := by
  have := hw.field_in hp; have := hw.len_eq
  simp only [Ins.tail, List.length_drop]; omega

/-- under the contract goom's `DecodeRelativeAddr` is the ISA reading of the field -/
theorem decodeRel_wf (i : Ins) (hw : WF i) (hp : i.pcrelOff ≠ 0) : decodeRel i = .ok (sdisp i.field) := by
  have hl := field_length i hw hp
  have hs := hw.sign hp
  unfold decodeRel
  rcases hw.width hp with h1 | h4
  · rw [h1] at hl ⊢
    obtain ⟨a, hf⟩ := len1 _ hl
    simp only [hf] at hs ⊢
    · obtain ⟨v, hv, hvi⟩ := decode1 a
      rw [hv]; dsimp only
      rw [hvi]; congr 1
      split
      · rename_i hc
        simp only [Bool.and_eq_true, decide_eq_true_eq] at hc
        have := hs hc.1; omega
      · rfl
  · rw [h4] at hl ⊢
    obtain ⟨a, b, c, d, hf⟩ := len4 _ hl
    simp only [hf] at hs ⊢
    · obtain ⟨v, hv, hvi⟩ := decode4 a b c d
      rw [hv]; dsimp only
      generalize sdisp [a,b,c,d] = S at hvi hs ⊢
      rw [hvi]; apply congrArg
      split
      · rename_i hc
        simp only [Bool.and_eq_true, decide_eq_true_eq] at hc
        have := hs hc.1; omega
      · rfl

/-- how an output instruction relates to its original: everything that is not the PC-relative field is kept — the
    bytes before it (prefixes, opcode, ModRM) verbatim or, for a widened short branch, replaced by the near opcode that
    `opExpand` lists for it — and the field has the same width or 4 bytes. -/
def Shape (i : Ins) (pre' f' : Bytes) : Prop :=
  (pre' = i.pre ∧ f'.length = i.pcrel) ∨
  (i.pcrel = 1 ∧ i.pcrelOff = 1 ∧ opExpand (BitVec.setWidth 32 (i.pre.getD 0 0#8)) = some pre' ∧ f'.length = 4)

/-- `EncodeAddress` as used by `fixIns`, in integers -/
theorem encode_spec (i : Ins) (hw : WF i) (hp : i.pcrelOff ≠ 0) (add : BitVec 64) (r : Bytes)
    (ha1 : -2^31 + 2^16 ≤ add.toInt) (ha2 : add.toInt < 2^31 - 2^16)
    (hr1 : -2^31 + 8 ≤ sdisp i.field + add.toInt) (hr2 : sdisp i.field + add.toInt < 2^31)
    (h : encode i (sdisp i.field) add = .ok r) :
    ∃ pre' f', r = pre' ++ f' ∧ Shape i pre' f' ∧
      sdisp f' + ((pre'.length + f'.length : Nat) : Int) = sdisp i.field + ((i.pcrelOff + i.pcrel : Nat) : Int) + add.toInt := by
  have hl := field_length i hw hp
  have hpl := pre_length i hw hp
  unfold encode at h
  rcases hw.width hp with h1 | h4
  · rw [h1] at hl h
    obtain ⟨b, hf⟩ := len1 _ hl
    simp only [hf] at h hr1 hr2 ⊢
    · have ⟨r1, r2⟩ := sdisp1_range b
      have hv := ofInt_toInt (sdisp [b]) (by omega) (by omega)
      by_cases hfit : -128 ≤ sdisp [b] + add.toInt ∧ sdisp [b] + add.toInt ≤ 127
      · obtain ⟨x, hx, hxs⟩ := enc1_fit i.pre b (BitVec.ofInt 64 (sdisp [b])) add (by omega) (by omega) ha1 ha2 (by omega) (by omega)
        rw [hx] at h; simp only [Except.ok.injEq] at h
        refine ⟨i.pre, [x], h.symm, Or.inl ⟨rfl, by simp [h1]⟩, ?_⟩
        rw [hxs, hv, hpl, h1]; simp; omega
      · cases hx : opExpand (BitVec.setWidth 32 (i.pre.getD 0 0#8)) with
        | none =>
          rw [enc1_none i.pre b _ add (by omega) (by omega) ha1 ha2 (by omega) hx] at h
          simp at h
        | some near =>
          have hoff := hw.short hp h1 (by rw [hx]; simp)
          rw [hoff] at hpl
          obtain ⟨op, hpre⟩ := len1 _ hpl
          · rw [hpre] at hx h
            simp only [List.getD_cons_zero] at hx
            obtain ⟨f, hf', hfl, hfs⟩ := enc1_widen op b (BitVec.ofInt 64 (sdisp [b])) add near (by omega) (by omega) ha1 ha2 (by omega) hx
            rw [hf'] at h; simp only [Except.ok.injEq] at h
            refine ⟨near, f, h.symm, Or.inr ⟨h1, hoff, by rw [hpre]; exact hx, hfl⟩, ?_⟩
            rw [hv] at hfs
            rw [hoff, h1]
            have : ((near.length + f.length : Nat) : Int) = ((near.length + 4 : Nat) : Int) := by rw [hfl]
            rw [this]; omega
  · rw [h4] at hl h
    obtain ⟨a, b, c, d, hf⟩ := len4 _ hl
    simp only [hf] at h hr1 hr2 ⊢
    · have ⟨r1, r2⟩ := sdisp4_range [a,b,c,d] rfl
      have hv := ofInt_toInt (sdisp [a,b,c,d]) (by omega) (by omega)
      obtain ⟨f, hf', hfl, hfs⟩ := enc4 i.pre a b c d (BitVec.ofInt 64 (sdisp [a,b,c,d])) add (by omega) (by omega) (by omega) (by omega)
        (by omega) (by omega)
      rw [hf'] at h; simp only [Except.ok.injEq] at h
      refine ⟨i.pre, f, h.symm, Or.inl ⟨rfl, by rw [hfl, h4]⟩, ?_⟩
      rw [hfs, hv, hpl, hfl, h4]; simp; omega

end C03L
